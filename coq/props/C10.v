(* C10 — Channel discipline: one sender, one receiver, one Close, whole messages.
   This file only restates the property theorems; proofs are in chan/Discipline.v (trace
   theory of the lock discipline), srv/SrvC10.v (server model) and srv/SrvC10b.v (every run of
   the server model, read as lock / Send / Close / Recv events, is well-locked and disciplined). *)
(* client side: module Cli at the end of this file (lemmas in coq/cli/CliC10.v) *)
From Coq Require Import List NArith ZArith Bool Arith.
From RecordUpdate Require Import RecordUpdate.
From JV Require Import Bytes Msg SrvModel SrvLemmas SrvC09 Discipline SrvC10 SrvC10b.
Import ListNotations.

(* A. under mutex semantics the lock discipline implies the Channel contract: at every prefix
      at most one Send/Close interval is open (no Send overlaps a Send or a Close), it belongs
      to the lock holder, and at most one Recv interval is open; event lists of any length *)
Theorem c10_no_overlap : forall rdr es,
  well_locked es -> disciplined rdr es ->
  forall p r, es = p ++ r ->
    (forall i b i' b', open p i b -> is_wrB b -> open p i' b' -> is_wrB b' -> i = i' /\ b = b') /\
    (forall i b, open p i b -> is_wrB b -> holder p = Some (ev_g b)) /\
    (forall i b i' b', open p i b -> is_rdB b -> open p i' b' -> is_rdB b' -> i = i' /\ b = b').
Proof. exact no_overlap. Qed.
Print Assumptions c10_no_overlap.

(* A'. the server model follows the discipline.  [evs s tr] reads a run as the events an instrumented Channel and the
       server mutex would see: the window of a release label l is a critical section of goroutine [gid l]
       (Lock; one SendB/SendE pair per OSend / OSendReq and one CloseB/CloseE pair per OClose observed; Unlock);
       environment labels take no lock; the reader of the current run (goroutine 0) enters Recv when it becomes idle
       and leaves it when a record or an error is handed to it.  For every trace: *)
Theorem c10_model_disciplined : forall c tr s oss, run (init_of c) tr = Some (s, oss) ->
  well_locked (evs (init_of c) tr) /\ disciplined 0 (evs (init_of c) tr).
Proof. exact model_disciplined. Qed.
Print Assumptions c10_model_disciplined.

(* ... hence the Channel contract at every prefix of the events of every run of the server *)
Theorem c10_model_no_overlap : forall c tr s oss, run (init_of c) tr = Some (s, oss) ->
  forall p r, evs (init_of c) tr = p ++ r ->
    (forall i b i' b', open p i b -> is_wrB b -> open p i' b' -> is_wrB b' -> i = i' /\ b = b') /\
    (forall i b, open p i b -> is_wrB b -> holder p = Some (ev_g b)) /\
    (forall i b i' b', open p i b -> is_rdB b -> open p i' b' -> is_rdB b' -> i = i' /\ b = b').
Proof. exact model_no_overlap. Qed.
Print Assumptions c10_model_no_overlap.

(* the reading, spelled out *)
Theorem c10_model_events_spec :
  (forall s l os s', win_evs s l os s' = lock_evs l os ++ recv_evs l (rd s) (rd s')) /\
  (forall l os, lock_evs l os =
     if takes_lock l then [Lock (gid l)] ++ flat_map (op_evs (gid l)) os ++ [Unlock (gid l)] else []) /\
  (forall g o, op_evs g o = match o with
                            | OSend _ _ _ | OSendReq _ _ _ _ => [SendB g; SendE g]
                            | OClose => [CloseB g; CloseE g]
                            | _ => []
                            end) /\
  (forall l r r', recv_evs l r r' =
     match l with
     | LStart | LRelRead => (if rd_alive r' then [RecvB 0] else []) ++ (if is_hold r' then [RecvE 0] else [])
     | _ => if rd_in_recv r && is_hold r' then [RecvE 0] else []
     end) /\
  (forall s, evs s [] = []) /\
  (forall s l r, evs s (l :: r) = match step s l with Some (s1, os) => win_evs s l os s1 ++ evs s1 r | None => [] end).
Proof. exact events_spec. Qed.
Print Assumptions c10_model_events_spec.

(* ... is complete: every channel operation observed in a window is among its events, and a window that takes no
   lock performs none *)
Theorem c10_model_events_complete : forall s l s' os, step s l = Some (s', os) ->
  length (filter is_wr_begin (win_evs s l os s')) = length (filter is_chan_op os) /\
  (takes_lock l = false -> filter is_chan_op os = []).
Proof. exact win_evs_complete. Qed.
Print Assumptions c10_model_events_complete.

(* ... and how the reader moves: it is released only when it holds a record; Start is enabled only when the previous
   reader has exited; every other window leaves it alone or hands it the next record *)
Theorem c10_reader_moves : forall c s l s' os, reach c s -> step s l = Some (s', os) ->
  match l with
  | LStart => rd s = RExited \/ rd s = RNone
  | LRelRead => exists f, rd s = RHold f
  | _ => rd s' = rd s \/ (rd s = RIdle /\ exists f, rd s' = RHold f)
  end.
Proof. exact step_rd. Qed.
Print Assumptions c10_reader_moves.

(* reader exclusivity across restarts *)
Theorem c10_reader_exclusive : forall c s s' os, reach c s -> step s LStart = Some (s', os) ->
  (rd s = RExited \/ rd s = RNone) /\ wg s = 0 /\ running s = false /\ rd s' = RIdle /\ ch_in s' = [].
Proof. exact reader_exclusive. Qed.
Print Assumptions c10_reader_exclusive.

(* B1. exactly one Close per Start *)
Theorem c10_close_once_srv : forall c s, reach c s -> closes s + (if running s then 1 else 0) = starts s.
Proof. exact close_once_reach. Qed.
Print Assumptions c10_close_once_srv.

Theorem c10_close_only_when_stopping : forall s l s' os,
  step s l = Some (s', os) ->
  (countb is_close os = 1 /\ running s = true /\ running s' = false /\ closes s' = S (closes s)) \/
  (countb is_close os = 0 /\ closes s' = closes s /\ (running s = true -> running s' = true)).
Proof. exact close_only_when_stopping. Qed.
Print Assumptions c10_close_only_when_stopping.

Theorem c10_close_once_trace : forall c tr s oss,
  run (init_of c) tr = Some (s, oss) -> count_close oss + (if running s then 1 else 0) = starts s.
Proof. exact close_once_trace. Qed.
Print Assumptions c10_close_once_trace.

(* B2. every Send / SendReq / Close observation of a window is produced by its critical section
       (never by a wake-up), at most one per window, and [chan_ops_of] says exactly which label
       makes which operation *)
Theorem c10_sends_in_critical_sections : forall s l s' os,
  step s l = Some (s', os) ->
  exists s1 os1, step_raw s l = Some (s1, os1) /\
    filter is_chan_op os = filter is_chan_op os1 /\ chan_ops_of l s (filter is_chan_op os) /\
    length (filter is_chan_op os) <= 1.
Proof. exact sends_in_critical_sections. Qed.
Print Assumptions c10_sends_in_critical_sections.

Theorem c10_chan_op_labels : forall l s os, chan_ops_of l s os -> os <> [] ->
  l = LRelRead \/ (exists u, l = LRelDeliver u) \/ (exists n, l = LRelStop n) \/ (exists n, l = LRelPush n).
Proof. exact chan_op_labels. Qed.
Print Assumptions c10_chan_op_labels.

(* B3. no empty record is ever passed to Send *)
Theorem c10_whole_messages_srv : forall c s l s' os ok b rs,
  reach c s -> step s l = Some (s', os) -> In (OSend ok b rs) os -> rs <> [].
Proof. exact whole_messages. Qed.
Print Assumptions c10_whole_messages_srv.

Theorem c10_deliver_nonempty : forall c s u un,
  reach c s -> nth_error (units s) u = Some un -> u_st un = UAtDeliver -> responses (unit_tasks s u) <> [].
Proof. exact deliver_nonempty. Qed.
Print Assumptions c10_deliver_nonempty.

(* B3, requests: a pushed request carries the method of a push call of the environment, hence
   a non-empty one whenever the environment's calls do *)
Theorem c10_sendreq_method_nonempty : forall c tr s oss,
  run (init_of c) tr = Some (s, oss) ->
  (forall n w m p, In (LCallPush n w m p) tr -> m <> []) ->
  forall ok id m p, In (OSendReq ok id m p) (concat oss) -> m <> [].
Proof. exact sendreq_method_nonempty. Qed.
Print Assumptions c10_sendreq_method_nonempty.

(* ------------------------------------------------------------------------------------------- *)
(* The client's side of the channel (client model coq/cli/CliModel.v; lemmas in coq/cli/CliC10.v) *)
From JV Require CliModel CliLemmas CliInv CliProofs CliWg CliStep CliStop CliC10.
Module Cli.
Import CliModel CliLemmas CliInv CliProofs CliWg CliStep CliStop CliC10.

(* C. Close exactly once per NewClient: the channel is closed exactly when the client has stopped, the
      history holds that many Close calls, and never more than one *)
Theorem c10_close_once_cli : forall c tr s, traces_to c tr s ->
  closes s = (if is_some (err s) then 1 else 0)
  /\ cnt is_oclose (hist s) = closes s
  /\ closes s <= 1.
Proof. exact CliC10.c10_close_once_cli. Qed.
Print Assumptions c10_close_once_cli.

(* D. every Send / Close of the client happens inside one critical section of the client mutex
      (step_raw of LRelSend = Client.send, LRelCbReply = the callback reply, LRelClose / LRelRecvErr =
      stopLocked), at most one per critical section, none in the unhooked wake-ups, none once the client
      has stopped: no two Sends overlap, no Send overlaps Close, nothing is sent on a closed channel *)
Theorem c10_cli_chan_ops_in_critical_sections : forall c tr s, traces_to c tr s ->
  forall l s' os, step s l = Some (s', os) ->
  exists s1 o1 o2, step_raw s l = Some s1 /\ hist s1 = hist s ++ o1 /\ hist s' = hist s1 ++ o2 /\ os = o1 ++ o2
    /\ cnt is_chanop o2 = 0
    /\ cnt is_chanop o1 <= 1 /\ cnt is_chanop os <= 1
    /\ (cnt is_chanop os = 1 -> cs_label l = true /\ err s = None)
    /\ (forall ok b ms, In (OSendReq ok b ms) os -> exists n, l = LRelSend n)
    /\ (forall ok i o, In (OSendRsp ok i o) os -> exists cb, l = LRelCbReply cb)
    /\ (In OClose os -> (exists n, l = LRelClose n) \/ l = LRelRecvErr).
Proof. exact CliC10.c10_cli_chan_ops_in_critical_sections. Qed.
Print Assumptions c10_cli_chan_ops_in_critical_sections.

Theorem c10_cli_no_chanop_after_stop : forall c tr s, traces_to c tr s -> err s <> None ->
  forall l s' os, step s l = Some (s', os) -> cnt is_chanop os = 0.
Proof. exact CliC10.c10_cli_no_chanop_after_stop. Qed.
Print Assumptions c10_cli_no_chanop_after_stop.

(* E. a single receiver: only the reader's wake-up consumes input, one record at a time and only while it
      is in Recv; no API call, critical section or environment action does; after the reader has exited
      nothing is ever received *)
Theorem c10_cli_single_reader : forall c tr s, traces_to c tr s ->
  (forall l s1, step_raw s l = Some s1 -> exists q, ch_in s1 = ch_in s ++ q)
  /\ (forall s1, settle1 s = Some s1 ->
        (ch_in s1 = ch_in s /\ rd s1 = rd s) \/ (rd s = RIdle /\ exists f, ch_in s = f :: ch_in s1))
  /\ (rd s = RExited -> forall l s' os, step s l = Some (s', os) ->
        rd s' = RExited /\ exists q, ch_in s' = ch_in s ++ q).
Proof. exact CliC10.c10_cli_single_reader. Qed.
Print Assumptions c10_cli_single_reader.
End Cli.

(* ------------------------------------------------------------------------------------------- *)
(* B3 at byte level (wire/WireLink.v): what the server and client models pass to Send is, once encoded by
   the wire model (jmessage.toJSON / jmessages.toJSON), ONE complete JSON-RPC message - a JSON object or a
   non-empty array of objects - that is valid JSON and parses back to exactly those members.  Hypotheses:
   what the environment supplies (handler results, pushed methods/params, callback outputs) is JSON of
   bounded nesting (rsp_rt / req_rt / cbout_rt). *)
From JV Require Json JsonProofs Wire WireProofs WireSpecs WireMore WireLink CliLemmas.
Module Bytes10.
Import Json JsonProofs Wire WireProofs WireSpecs WireMore WireLink.

Theorem c10_server_records_are_messages : forall wild c s l s' os ok b rs,
  SrvLemmas.reach c s -> SrvModel.step s l = Some (s', os) -> In (SrvModel.OSend ok b rs) os ->
  rs <> [] /\
  (Forall (rsp_rt wild) rs ->
   exists bytes, enc_msgs b (map (jmsg_of_rsp wild) rs) = Some bytes /\
     is_message_json bytes /\ Json.valid bytes = true /\
     parse_msgs bytes = InMsgs (b || (1 <? length rs)%nat) (map (fun r => canon (jmsg_of_rsp wild r)) rs)).
Proof. exact srv_send_bytes. Qed.
Print Assumptions c10_server_records_are_messages.

Theorem c10_server_pushes_are_messages : forall s l s' os ok id m p,
  SrvModel.step s l = Some (s', os) -> In (SrvModel.OSendReq ok id m p) os ->
  (id = [] \/ is_num_lit id = true) /\
  (req_rt 0 m p ->
   exists bytes, enc_msg (jmsg_of_req id m p) = Some bytes /\ is_message_json bytes /\ Json.valid bytes = true /\
     parse_msgs bytes = InMsgs false [canon (norm (jmsg_of_req id m p))]).
Proof. exact srv_sendreq_bytes. Qed.
Print Assumptions c10_server_pushes_are_messages.

Theorem c10_client_records_are_messages : forall c s l s' os ok batch ms,
  CliLemmas.reach c s -> CliModel.step s l = Some (s', os) -> In (CliModel.OSendReq ok batch ms) os ->
  ms <> [] /\ batch = negb (length ms =? 1)%nat /\
  Forall (fun mem => fst (fst mem) = [] \/ is_num_lit (fst (fst mem)) = true) ms /\
  (Forall (fun mem => req_rt 1 (snd (fst mem)) (snd mem)) ms ->
   exists bytes, enc_msgs batch (map jmsg_of_mem ms) = Some bytes /\
     is_message_json bytes /\ Json.valid bytes = true /\
     parse_msgs bytes = InMsgs batch (map (fun mem => canon (norm (jmsg_of_mem mem))) ms)).
Proof. exact cli_sendreq_bytes. Qed.
Print Assumptions c10_client_records_are_messages.

Theorem c10_client_callback_replies_are_messages : forall s l s' os ok id o,
  CliModel.step s l = Some (s', os) -> In (CliModel.OSendRsp ok id o) os ->
  id_rt' id -> cbout_rt o ->
  exists bytes, enc_msg (jmsg_of_cbout id o) = Some bytes /\ is_message_json bytes /\ Json.valid bytes = true /\
    parse_msgs bytes = InMsgs false [canon (jmsg_of_cbout id o)].
Proof. exact cli_sendrsp_bytes. Qed.
Print Assumptions c10_client_callback_replies_are_messages.
End Bytes10.
