(* C03 - Server: a notification completes before any later-arriving request starts; requests
   within one inbound message may run concurrently; a call that is still running never delays
   requests that arrive after it (up to the concurrency limit).
   This file only restates the property theorems; definitions (released, tdone, open_notes,
   note_of, done_label, ...), proofs and the non-vacuity Examples are in srv/SrvC03.v.

   Vocabulary of the model (srv/SrvModel.v): t_unit t = index of the inbound message of task t in
   arrival (dequeue) order; released s u = unit u has passed the barrier (u_st in URunning,
   UAtDeliver, UFinished); handler entry = observation OStart; handler return = LGate;
   nbar.Done() = LRelHandled of a notification (-> TDone None); runnable t = no error recorded by
   checkAndAssign; is_note t = the request has no id. *)
From Coq Require Import List NArith ZArith Bool Arith Lia.
From RecordUpdate Require Import RecordUpdate.
From JV Require Import Bytes Msg SrvModel SrvLemmas SrvBasics SrvC03.
From JV Require Import SrvHist.
From JV Require SrvC06.
From JV Require SrvNoCrash.
From JV Require Import SrvC01 SrvC08m SrvEventually.
Import ListNotations.

(* 1. the barrier counter = number of runnable notifications of released units not yet returned,
   in every state of every window (stated for crash-free states as asked; it holds in all) *)
Theorem c03_inv_nbar : forall c s, reachf c s -> crash s = None ->
  nbar s = countb (fun t => runnable t && is_note t && released s (t_unit t) && negb (tdone t)) (tasks s).
Proof. exact inv_nbar_nocrash. Qed.
Print Assumptions c03_inv_nbar.

Theorem c03_inv_nbar_all_states : forall c s, reachf c s -> nbar s = open_notes s.
Proof. exact inv_nbar. Qed.
Print Assumptions c03_inv_nbar_all_states.

(* hence nbar.Done() never drives the counter negative: that panic is unreachable *)
Theorem c03_no_negative_barrier : forall c s, reachf c s -> crash s <> Some CrNegativeBarrier.
Proof. exact no_negative_barrier. Qed.
Print Assumptions c03_no_negative_barrier.

(* auxiliary invariants *)
Theorem c03_notes_never_cancelled : forall c s k t,
  reachf c s -> nth_error (tasks s) k = Some t -> is_note t = true -> t_cancelled t = false.
Proof. exact notes_never_cancelled. Qed.
Print Assumptions c03_notes_never_cancelled.

Theorem c03_unit_notes_count : forall c s u un, reachf c s -> nth_error (units s) u = Some un ->
  u_notes un = countb (fun t => (t_unit t =? u) && (runnable t && is_note t)) (tasks s).
Proof. exact unit_notes_count. Qed.
Print Assumptions c03_unit_notes_count.

Theorem c03_unreleased_pending : forall c s k t,
  reachf c s -> nth_error (tasks s) k = Some t -> released s (t_unit t) = false ->
  t_st t = TSkip \/ t_st t = TAtAcquire.
Proof. exact unreleased_pending. Qed.
Print Assumptions c03_unreleased_pending.

Theorem c03_frontier : forall c s, reachf c s ->
  (forall u, dp s = DAtBarrier u \/ dp s = DBarrierWait u ->
     S u = length (units s) /\ released s u = false /\ forall v, v < u -> released s v = true) /\
  ((forall u, ~ (dp s = DAtBarrier u \/ dp s = DBarrierWait u)) ->
     forall v, v < length (units s) -> released s v = true).
Proof. exact frontier. Qed.
Print Assumptions c03_frontier.

(* 2. the safety core, in every state (crashed or not): once unit u is released, every runnable
   notification of every earlier unit has returned *)
Theorem c03_barrier_past : forall c s u j n, reachf c s -> released s u = true ->
  nth_error (tasks s) j = Some n -> t_unit n < u -> runnable n = true -> is_note n = true ->
  exists b, t_st n = TDone b.
Proof. exact barrier_past. Qed.
Print Assumptions c03_barrier_past.

(* 3. state form: a task that is past the semaphore (queued in it, in its handler, returned) has
   every runnable notification of every earlier message already done *)
Theorem c03_notification_before_later : forall c s, reach c s ->
  forall i r j n, nth_error (tasks s) i = Some r -> nth_error (tasks s) j = Some n ->
    t_unit n < t_unit r -> runnable n = true -> is_note n = true ->
    t_st r <> TSkip -> t_st r <> TAtAcquire -> exists b, t_st n = TDone b.
Proof. exact notification_before_later. Qed.
Print Assumptions c03_notification_before_later.

Theorem c03_notification_before_later_fine : forall c s, reachf c s ->
  forall i r j n, nth_error (tasks s) i = Some r -> nth_error (tasks s) j = Some n ->
    t_unit n < t_unit r -> runnable n = true -> is_note n = true ->
    t_st r <> TSkip -> t_st r <> TAtAcquire -> exists b, t_st n = TDone b.
Proof. exact notification_before_later_f. Qed.
Print Assumptions c03_notification_before_later_fine.

Theorem c03_open_note_blocks_later : forall c s j n i r, reachf c s ->
  nth_error (tasks s) j = Some n -> runnable n = true -> is_note n = true -> (forall b, t_st n <> TDone b) ->
  nth_error (tasks s) i = Some r -> t_unit n < t_unit r -> t_st r = TSkip \/ t_st r = TAtAcquire.
Proof. exact open_note_blocks_later. Qed.
Print Assumptions c03_open_note_blocks_later.

(* step form: in the state BEFORE the window that enters the handler of r, every runnable
   notification of every earlier message is already done *)
Theorem c03_notification_before_later_step : forall c s l s' os p cancelled,
  reach c s -> step s l = Some (s', os) -> In (OStart p cancelled) os ->
  exists k r, nth_error (tasks s) k = Some r /\ t_params r = p /\
    (t_st r = TAtAcquire \/ t_st r = TWaiting) /\
    (exists r', nth_error (tasks s') k = Some r' /\ t_st r' = TRunning) /\
    forall j n, nth_error (tasks s) j = Some n -> t_unit n < t_unit r -> runnable n = true -> is_note n = true ->
      exists b, t_st n = TDone b.
Proof. exact notification_before_later_step. Qed.
Print Assumptions c03_notification_before_later_step.

(* a notification becomes done only in the window of its own LRelHandled (nbar.Done) *)
Theorem c03_note_done_only_by_handled : forall c s l s' os, reach c s -> step s l = Some (s', os) ->
  forall j n', nth_error (tasks s') j = Some n' -> is_note n' = true -> tdone n' = true ->
    (exists n, nth_error (tasks s) j = Some n /\ is_note n = true /\ tdone n = true) \/
    (match l with LRelHandled k => Some k | _ => None end) = Some j.
Proof. exact note_done_only_by_handled. Qed.
Print Assumptions c03_note_done_only_by_handled.

Theorem c03_done_note_was_handled : forall c tr s oss j n, run (init_of c) tr = Some (s, oss) ->
  nth_error (tasks s) j = Some n -> is_note n = true -> (exists b, t_st n = TDone b) ->
  exists tra trb, tr = tra ++ LRelHandled j :: trb.
Proof. exact done_note_was_handled. Qed.
Print Assumptions c03_done_note_was_handled.

(* trace forms.  Every prefix of a trace is a trace: the state form holds at every instant, and
   done-ness is stable *)
Theorem c03_notification_before_later_every_instant : forall c tr1 tr2 s2 oss,
  run (init_of c) (tr1 ++ tr2) = Some (s2, oss) ->
  exists s1 oss1, run (init_of c) tr1 = Some (s1, oss1) /\
    (forall i r j n, nth_error (tasks s1) i = Some r -> nth_error (tasks s1) j = Some n ->
       t_unit n < t_unit r -> runnable n = true -> is_note n = true ->
       t_st r <> TSkip -> t_st r <> TAtAcquire -> exists b, t_st n = TDone b) /\
    forall j n b, nth_error (tasks s1) j = Some n -> t_st n = TDone b ->
      exists n2, nth_error (tasks s2) j = Some n2 /\ t_st n2 = TDone b.
Proof. exact notification_before_later_every_instant. Qed.
Print Assumptions c03_notification_before_later_every_instant.

(* whenever a handler is entered (OStart in the window of l), every runnable notification of
   every earlier message was returned by an LRelHandled EARLIER in the trace and stays done *)
Theorem c03_notification_before_later_trace : forall c tr1 l tr2 s2 oss,
  run (init_of c) (tr1 ++ l :: tr2) = Some (s2, oss) ->
  exists s1 oss1 s1' os, run (init_of c) tr1 = Some (s1, oss1) /\ step s1 l = Some (s1', os) /\
    forall p cancelled, In (OStart p cancelled) os ->
    exists k r, nth_error (tasks s1) k = Some r /\ t_params r = p /\
      (t_st r = TAtAcquire \/ t_st r = TWaiting) /\
      (exists r', nth_error (tasks s1') k = Some r' /\ t_st r' = TRunning) /\
      forall j n, nth_error (tasks s1) j = Some n -> t_unit n < t_unit r -> runnable n = true -> is_note n = true ->
        exists b, t_st n = TDone b /\
          (exists tra trb, tr1 = tra ++ LRelHandled j :: trb) /\
          exists n2, nth_error (tasks s2) j = Some n2 /\ t_st n2 = TDone b.
Proof. exact notification_before_later_trace. Qed.
Print Assumptions c03_notification_before_later_trace.

(* r is never entered if n never returns *)
Theorem c03_never_entered_while_open : forall c tr1 l tr2 s2 oss j n2,
  run (init_of c) (tr1 ++ l :: tr2) = Some (s2, oss) ->
  nth_error (tasks s2) j = Some n2 -> runnable n2 = true -> is_note n2 = true -> (forall b, t_st n2 <> TDone b) ->
  exists s1 oss1 s1' os, run (init_of c) tr1 = Some (s1, oss1) /\ step s1 l = Some (s1', os) /\
    forall p cancelled, In (OStart p cancelled) os ->
    exists k r, nth_error (tasks s1) k = Some r /\ t_params r = p /\ t_unit r <= t_unit n2.
Proof. exact never_entered_while_open. Qed.
Print Assumptions c03_never_entered_while_open.

(* 4. requests of one inbound message may run concurrently: two calls of one batch, and a
   notification and a call of one batch, both in their handlers (K = 2) *)
Theorem c03_same_message_concurrent_allowed :
  (exists s, reach ex_cfg2 s /\ crash s = None /\
     map (fun t => (t_unit t, is_note t, t_st t)) (tasks s) = [(0, false, TRunning); (0, false, TRunning)] /\
     SrvC06.executing s = 2) /\
  (exists s, reach ex_cfg2 s /\ crash s = None /\
     map (fun t => (t_unit t, is_note t, t_st t)) (tasks s) = [(0, true, TRunning); (0, false, TRunning)] /\
     SrvC06.executing s = 2 /\ nbar s = 1).
Proof. exact same_message_concurrent_allowed. Qed.
Print Assumptions c03_same_message_concurrent_allowed.

(* 5. liveness half, at quiescent points of a running server (no reachable state has crashed: C08).
   (a) a message still queued or at the barrier is held back only by an unfinished NOTIFICATION of
   an earlier message (in its handler, or waiting for a handler slot) - never by a call *)
Theorem c03_calls_do_not_block_later : forall c s,
  reach c s -> quiescent s = true -> running s = true ->
  (inq s <> [] \/ exists u, dp s = DAtBarrier u \/ dp s = DBarrierWait u) ->
  exists u, dp s = DBarrierWait u /\ 0 < nbar s /\
    exists j n, nth_error (tasks s) j = Some n /\ t_unit n < u /\ runnable n = true /\ is_note n = true /\
      (t_st n = TRunning \/ (t_st n = TWaiting /\ sem_free s = 0)).
Proof. exact SrvNoCrash.c03_calls_do_not_block_later_nc. Qed.
Print Assumptions c03_calls_do_not_block_later.

(* (b) a request of a released message that has not entered its handler is queued in the semaphore
   with every slot taken: held back only by the concurrency limit *)
Theorem c03_calls_do_not_block_later_only_slot : forall c s k t,
  reach c s -> quiescent s = true ->
  nth_error (tasks s) k = Some t -> released s (t_unit t) = true ->
  (t_st t = TAtAcquire \/ t_st t = TWaiting) ->
  t_st t = TWaiting /\ sem_free s = 0 /\ SrvC06.slots_used s = cf_K c.
Proof. exact SrvNoCrash.c03_only_slot_nc. Qed.
Print Assumptions c03_calls_do_not_block_later_only_slot.

(* positive corollary: if no runnable notification of a released message is unfinished (whatever is
   still in flight is a call), everything that arrived has been dispatched *)
Theorem c03_calls_do_not_block_later_all_dispatched : forall c s,
  reach c s -> quiescent s = true -> running s = true ->
  (forall j n, nth_error (tasks s) j = Some n -> runnable n = true -> is_note n = true ->
     released s (t_unit n) = true -> exists b, t_st n = TDone b) ->
  inq s = [] /\ dp s = DWaitWork /\ nbar s = 0 /\ forall v, v < length (units s) -> released s v = true.
Proof. exact SrvNoCrash.c03_all_dispatched_nc. Qed.
Print Assumptions c03_calls_do_not_block_later_all_dispatched.

(* "arrives in an earlier inbound message" = smaller t_unit.  The ghost history (srv/SrvHist.v): [accepted s0 tr] =
   what the reader windows of the run appended to the work queue, in trace order; [alog] = the same with stops
   applied (a stop keeps the dispatched entries and rewrites the queued ones with stop_queue).
   Every task is a member of the log entry whose index is its unit number ... *)
Theorem c03_unit_is_arrival_index : forall c tr s oss k t,
  run (init_of c) tr = Some (s, oss) -> nth_error (tasks s) k = Some t ->
  exists b ms, nth_error (alog (init_of c) tr []) (t_unit t) = Some (b, ms) /\ In (tmem t) (map jmem ms).
Proof. exact SrvHist.task_arrival_index. Qed.
Print Assumptions c03_unit_is_arrival_index.

(* ... and without a stop the log is the arrival sequence: a task whose message was accepted during the first part
   tr1 of the trace has a smaller unit number than every task whose message was accepted during the rest tr2 *)
Theorem c03_earlier_message_smaller_unit : forall c tr1 tr2 s1 oss1 s oss k t,
  run (init_of c) tr1 = Some (s1, oss1) -> run (init_of c) (tr1 ++ tr2) = Some (s, oss) ->
  stop_free (init_of c) (tr1 ++ tr2) = true -> nth_error (tasks s) k = Some t ->
  let n1 := length (accepted (init_of c) tr1) in
  exists b ms, In (tmem t) (map jmem ms) /\
    ((t_unit t < n1 /\ nth_error (accepted (init_of c) tr1) (t_unit t) = Some (b, ms)) \/
     (n1 <= t_unit t /\ nth_error (accepted s1 tr2) (t_unit t - n1) = Some (b, ms))).
Proof. exact SrvHist.task_arrival_order. Qed.
Print Assumptions c03_earlier_message_smaller_unit.

Theorem c03_accepted_in_trace_order : forall tr1 s tr2 s1 oss, run s tr1 = Some (s1, oss) ->
  accepted s (tr1 ++ tr2) = accepted s tr1 ++ accepted s1 tr2.
Proof. exact SrvHist.accepted_app. Qed.
Print Assumptions c03_accepted_in_trace_order.

(* 6. the liveness half as 'eventually' (srv/SrvEventually.v; [eventually], [held_in_handler] are spelled out in
   props/C01.v: c01_eventually_spec, c01_held_in_handler_spec).  From ANY reachable state s, if the environment does
   nothing more, the server reaches within mu_rel s windows - in the last state s' of every maximal release-only run -
   a state in which: everything the transport delivered has been read; a message still queued or at the barrier is held
   back only by a NOTIFICATION of an earlier message that is in its handler or queued for a slot with every slot
   taken (never by a call); a request of a released message that has not entered its handler is queued for a slot
   with all K slots taken by executing handlers; if no runnable notification of a released message is unfinished,
   everything received has been dispatched and released; and every request that entered its handler during the run
   has its OStart among the observations of the run. *)
Theorem c03_later_started_spec : forall c s tr s' oss, c03_later_started c s tr s' oss <->
  ((forall f, rd s' <> RHold f) /\ (rd s' = RIdle -> ch_in s' = [])) /\
  ((inq s' <> [] \/ exists u, dp s' = DAtBarrier u \/ dp s' = DBarrierWait u) ->
     exists u k n, dp s' = DBarrierWait u /\ 0 < nbar s' /\ nth_error (tasks s') k = Some n /\ is_note n = true /\
       runnable n = true /\ t_unit n < u /\ held_in_handler s' n) /\
  (forall k t, nth_error (tasks s') k = Some t -> released s' (t_unit t) = true ->
     (t_st t = TAtAcquire \/ t_st t = TWaiting) ->
     t_st t = TWaiting /\ sem_free s' = 0 /\ SrvC06.slots_used s' = cf_K c /\ SrvC06.executing s' = cf_K c) /\
  ((forall j n, nth_error (tasks s') j = Some n -> runnable n = true -> is_note n = true ->
      released s' (t_unit n) = true -> exists b, t_st n = TDone b) ->
     inq s' = [] /\ nbar s' = 0 /\ (forall u, ~ (dp s' = DAtBarrier u \/ dp s' = DBarrierWait u)) /\
     forall v, v < length (units s') -> released s' v = true) /\
  (forall k t', before_start s k = true -> nth_error (tasks s') k = Some t' -> t_st t' = TRunning ->
     exists cn, In (OStart (t_params t') cn) (concat oss)).
Proof. exact (fun c s tr s' oss => conj (fun x => x) (fun x => x)). Qed.
Print Assumptions c03_later_started_spec.

Theorem c03_later_requests_eventually_start : forall c s, reach c s -> eventually s (c03_later_started c s).
Proof. exact SrvEventually.c03_later_requests_eventually_start. Qed.
Print Assumptions c03_later_requests_eventually_start.

(* before_start s k: task k does not exist yet in s, or is parked before Acquire / queued for a slot *)
Theorem c03_before_start_spec : forall s k, before_start s k = true <->
  nth_error (tasks s) k = None \/ exists t, nth_error (tasks s) k = Some t /\ (t_st t = TAtAcquire \/ t_st t = TWaiting).
Proof. exact before_start_spec. Qed.
Print Assumptions c03_before_start_spec.

(* monitor over the observation sequence of a run (srv/SrvMonitors.v: mon_barrier; proof: srv/SrvMonBarrier.v),
   extracted and evaluated on every harness log, racing ones included.  Hypothesis of the harness: every fed member
   carries its own params value (unique_params).  Scanning the observations in order: once a handler of a request
   has been entered, no handler of a notification of an EARLIER fed message is entered or returns any more - so an
   entry of a later request never falls between the entry and the return of an earlier notification. *)
From JV Require SrvMonitors SrvMonBarrier.
Theorem c03_mon_barrier_sound : forall c tr s oss, run (init_of c) tr = Some (s, oss) ->
  SrvMonitors.unique_params (SrvMonitors.env_of tr) = true ->
  SrvMonitors.mon_barrier (SrvMonitors.env_of tr) (concat oss) = true.
Proof. exact SrvMonBarrier.mon_barrier_sound. Qed.
Print Assumptions c03_mon_barrier_sound.
