(* C18 - HTTP bridge: each caller gets exactly its own responses with its own ids.
   This file only restates the property theorems; model: http/Bridge.v, proofs:
   http/BridgeProofs.v.

   Reading guide.  [body : inbound] is what jmessages.parseJSON makes of the POST body
   (InBad = not valid JSON); [ps] is what jrpc2.ParseRequests yields for it.  [inner next
   specs] is Client.Batch(specs) on the shared client (next id = next) over the local
   server; [inner_ok inner] is its C01/C04 contract: one reply per call spec, in spec
   order, under the ids the client allocated - the theorems hold for EVERY such inner,
   i.e. whatever the handlers answer.  [err_obj p] is the error object owed to a
   statically invalid member (own error, own id or null), [call_objs calls rs] pairs the
   i-th valid call with the i-th reply under the CALLER'S raw id text. *)
From Coq Require Import List NArith ZArith Bool.
From JV Require Import Bytes Msg Bridge BridgeProofs.
Import ListNotations.
Local Open Scope N_scope.

(* The response objects of one POST: first one error object per statically invalid member,
   then one object per valid call, in call order, each under the caller's own id text and
   carrying the inner reply that the shared client matched to the id it allocated for that
   call; notifications contribute nothing (the count). *)
Theorem c18_own_responses : forall inner, inner_ok inner ->
  forall next body ps, parse_requests body = Some ps ->
  let calls := filter is_call ps in
  let rs := inner next (map spec_of (filter is_valid ps)) in
  exists st b,
    sv_out (serve_internal inner next body) = OResp st b /\
    shape_objs b = map err_obj (filter is_invalid ps) ++ call_objs calls rs /\
    length rs = length calls /\
    map rp_id rs = seqN next (length calls) /\
    length (shape_objs b) = (length (filter is_invalid ps) + length calls)%nat.
Proof. exact own_responses. Qed.
Print Assumptions c18_own_responses.

(* the i-th mapped id is the id of the i-th valid call (not of the i-th member) *)
Theorem c18_ith_id : forall static calls rs i c,
  length rs = length calls -> nth_error calls i = Some c ->
  exists r, nth_error rs i = Some r /\
            nth_error (static ++ call_objs calls rs) (length static + i) = Some (call_obj c r) /\
            ro_id (call_obj c r) = pr_id c.
Proof. exact ith_call_object. Qed.
Print Assumptions c18_ith_id.

(* 0 objects: 204 and an empty body; 1: 200 and a single object (also when the request was
   a one-element batch: encodeResponses' documented behaviour); >= 2: 200 and an array *)
Theorem c18_shape_status : forall s m,
  (length (s ++ m) = 0%nat -> assemble s m = (204%Z, BEmpty)) /\
  (length (s ++ m) = 1%nat -> exists o, s ++ m = [o] /\ assemble s m = (200%Z, BSingle o)) /\
  ((2 <= length (s ++ m))%nat -> assemble s m = (200%Z, BArray (s ++ m))).
Proof. exact assemble_status_shape. Qed.
Print Assumptions c18_shape_status.

Theorem c18_shape_ignores_batch_flag : forall inner next b b' ms,
  serve_internal inner next (InMsgs b ms) = serve_internal inner next (InMsgs b' ms).
Proof. exact serve_internal_batch_flag. Qed.
Print Assumptions c18_shape_ignores_batch_flag.

(* what reaches Client.Batch is exactly the image of the members whose Error is nil, in
   order; a statically invalid member is not among them *)
Theorem c18_static_no_handler : forall inner, inner_ok inner ->
  forall next body ps, parse_requests body = Some ps ->
  sv_specs (serve_internal inner next body) = map spec_of (filter is_valid ps) /\
  (forall p, In p (filter is_valid ps) -> In p ps /\ pr_error p = None) /\
  (forall p, In p ps -> pr_error p <> None -> ~ In p (filter is_valid ps)) /\
  ((forall p, In p ps -> pr_error p <> None) -> sv_specs (serve_internal inner next body) = []).
Proof. exact static_no_handler. Qed.
Print Assumptions c18_static_no_handler.

(* 405 / 415 / pass / no spec from a gated request / invalid JSON: 500, no spec *)
Theorem c18_gate : forall inner,
  (forall meth ct has_get, meth <> s_POST -> (has_get = false \/ meth <> s_GET) ->
      gate meth ct false has_get = G405) /\
  (forall ct has_get, mt_type ct <> s_app_json -> gate s_POST ct false has_get = G415) /\
  (forall ct cs has_get, mt_charset ct = Some cs -> lower cs <> s_utf_8 -> lower cs <> s_utf8 ->
      gate s_POST ct false has_get = G415) /\
  (forall ct has_hook has_get, mt_type ct = s_app_json ->
      (mt_charset ct = None \/ exists cs, mt_charset ct = Some cs /\ (lower cs = s_utf_8 \/ lower cs = s_utf8)) ->
      gate s_POST ct has_hook has_get = GPass) /\
  (forall next meth ct has_hook has_get body, gate meth ct has_hook has_get <> GPass ->
      sv_specs (serve inner next meth ct has_hook has_get body) = [] /\
      sv_next (serve inner next meth ct has_hook has_get body) = next /\
      (gate meth ct has_hook has_get = G405 -> sv_out (serve inner next meth ct has_hook has_get body) = OGate 405%Z) /\
      (gate meth ct has_hook has_get = G415 -> sv_out (serve inner next meth ct has_hook has_get body) = OGate 415%Z)) /\
  (forall next meth ct has_hook has_get, gate meth ct has_hook has_get = GPass ->
      sv_out (serve inner next meth ct has_hook has_get InBad) = OBadBody 500%Z /\
      sv_specs (serve inner next meth ct has_hook has_get InBad) = [] /\
      sv_next (serve inner next meth ct has_hook has_get InBad) = next).
Proof. exact gate_all. Qed.
Print Assumptions c18_gate.

(* each valid request yields exactly one spec (the i-th spec is the i-th valid member's),
   calls and notifications counted separately *)
Theorem c18_once : forall inner, inner_ok inner ->
  forall next body ps, parse_requests body = Some ps ->
  let specs := sv_specs (serve_internal inner next body) in
  length specs = length (filter is_valid ps) /\
  (forall i, nth_error specs i = option_map spec_of (nth_error (filter is_valid ps) i)) /\
  call_count specs = length (filter is_call ps) /\
  length (filter (fun s => sp_notify s) specs) = length (filter is_note ps).
Proof. exact once. Qed.
Print Assumptions c18_once.

(* Two concurrent POSTs A and B on one bridge: their Batch calls draw ids from one counter
   in ANY interleaving [sched]; the shared reply stream [pool] holds the server's replies in
   ANY order (at least one per allocated id; the first delivered wins).  Whatever ids the
   callers used - identical ones included - the internal ids are disjoint, each POST is
   handed only replies to its own internal ids, and its response objects are its own static
   errors plus its own calls' replies under its own callers' id text. *)
Theorem c18_isolation : forall psA psB next sched pool idsA idsB next',
  alloc2 next (call_count (pl_specs (plan psA))) (call_count (pl_specs (plan psB))) sched = (idsA, idsB, next') ->
  (forall i, In i (idsA ++ idsB) -> In i (map rp_id pool)) ->
  NoDup idsA /\ NoDup idsB /\ (forall i, In i idsA -> ~ In i idsB) /\
  exists rsA rsB,
    route idsA pool = Some rsA /\ route idsB pool = Some rsB /\
    map rp_id rsA = idsA /\ map rp_id rsB = idsB /\
    (forall r, In r rsA -> In r pool /\ In (rp_id r) idsA /\ ~ In (rp_id r) idsB) /\
    (forall r, In r rsB -> In r pool /\ In (rp_id r) idsB /\ ~ In (rp_id r) idsA) /\
    (exists st b, post_routed psA idsA pool = Some (OResp st b) /\
       shape_objs b = map err_obj (filter is_invalid psA) ++ call_objs (filter is_call psA) rsA) /\
    (exists st b, post_routed psB idsB pool = Some (OResp st b) /\
       shape_objs b = map err_obj (filter is_invalid psB) ++ call_objs (filter is_call psB) rsB).
Proof. exact isolation. Qed.
Print Assumptions c18_isolation.

(* ids drawn by any interleaving are fresh: as many as asked for, all in [next, next') *)
Theorem c18_ids_fresh : forall sched next na nb a b n,
  alloc2 next na nb sched = (a, b, n) ->
  length a = na /\ length b = nb /\ n = next + N.of_nat na + N.of_nat nb /\
  (forall x, In x a -> next <= x < n) /\ (forall x, In x b -> next <= x < n) /\
  NoDup a /\ NoDup b /\ (forall x, In x a -> ~ In x b).
Proof. exact alloc2_spec. Qed.
Print Assumptions c18_ids_fresh.

(* a POST running alone (serve_internal) is the routed run with consecutive ids *)
Theorem c18_alone_is_routed : forall inner, inner_ok inner ->
  forall next ms b, let ps := map parsed ms in
  post_routed ps (seqN next (call_count (pl_specs (plan ps)))) (inner next (pl_specs (plan ps)))
  = Some (sv_out (serve_internal inner next (InMsgs b ms))).
Proof. exact alone_is_routed. Qed.
Print Assumptions c18_alone_is_routed.

(* the inner server of the correspondence runs satisfies the hypothesis *)
Theorem c18_table_inner_ok : forall known tbl, inner_ok (table_inner known tbl).
Proof. exact table_inner_ok. Qed.
Print Assumptions c18_table_inner_ok.
