(* C18 - HTTP bridge: each caller gets exactly its own responses with its own ids.
   This file only restates the property theorems; model: http/Bridge.v, proofs:
   http/BridgeProofs.v.

   Reading guide.  [body : inbound] is what jmessages.parseJSON makes of the POST body
   (InBad = not valid JSON); [ps] is what jrpc2.ParseRequests yields for it.  [inner next
   specs] is Client.Batch(specs) on the shared client (next id = next) over the local
   server; [inner_ok inner] is its C01/C04 contract: one reply per call spec, in spec
   order, under the ids the client allocated - the theorems hold for EVERY such inner,
   i.e. whatever the handlers answer.  [err_obj p] is the error object owed to a
   statically invalid member (own error, own id or null), [call_objs calls rs] pairs the
   i-th valid call with the i-th reply under the CALLER'S raw id text. *)
From Coq Require Import List NArith ZArith Bool.
From JV Require Import Bytes Msg Bridge BridgeProofs BridgeMore.
Import ListNotations.
Local Open Scope N_scope.

(* The response objects of one POST: first one error object per statically invalid member,
   then one object per valid call, in call order, each under the caller's own id text and
   carrying the inner reply that the shared client matched to the id it allocated for that
   call; notifications contribute nothing (the count). *)
Theorem c18_own_responses : forall inner, inner_ok inner ->
  forall next body ps, parse_requests body = Some ps ->
  let calls := filter is_call ps in
  let rs := inner next (map spec_of (filter is_valid ps)) in
  exists st b,
    sv_out (serve_internal inner next body) = OResp st b /\
    shape_objs b = map err_obj (filter is_invalid ps) ++ call_objs calls rs /\
    length rs = length calls /\
    map rp_id rs = seqN next (length calls) /\
    length (shape_objs b) = (length (filter is_invalid ps) + length calls)%nat.
Proof. exact own_responses. Qed.
Print Assumptions c18_own_responses.

(* the i-th mapped id is the id of the i-th valid call (not of the i-th member) *)
Theorem c18_ith_id : forall static calls rs i c,
  length rs = length calls -> nth_error calls i = Some c ->
  exists r, nth_error rs i = Some r /\
            nth_error (static ++ call_objs calls rs) (length static + i) = Some (call_obj c r) /\
            ro_id (call_obj c r) = pr_id c.
Proof. exact ith_call_object. Qed.
Print Assumptions c18_ith_id.

(* 0 objects: 204 and an empty body; 1: 200 and a single object (also when the request was
   a one-element batch: encodeResponses' documented behaviour); >= 2: 200 and an array *)
Theorem c18_shape_status : forall s m,
  (length (s ++ m) = 0%nat -> assemble s m = (204%Z, BEmpty)) /\
  (length (s ++ m) = 1%nat -> exists o, s ++ m = [o] /\ assemble s m = (200%Z, BSingle o)) /\
  ((2 <= length (s ++ m))%nat -> assemble s m = (200%Z, BArray (s ++ m))).
Proof. exact assemble_status_shape. Qed.
Print Assumptions c18_shape_status.

Theorem c18_shape_ignores_batch_flag : forall inner next b b' ms,
  serve_internal inner next (InMsgs b ms) = serve_internal inner next (InMsgs b' ms).
Proof. exact serve_internal_batch_flag. Qed.
Print Assumptions c18_shape_ignores_batch_flag.

(* what reaches Client.Batch is exactly the image of the members whose Error is nil, in
   order; a statically invalid member is not among them *)
Theorem c18_static_no_handler : forall inner, inner_ok inner ->
  forall next body ps, parse_requests body = Some ps ->
  sv_specs (serve_internal inner next body) = map spec_of (filter is_valid ps) /\
  (forall p, In p (filter is_valid ps) -> In p ps /\ pr_error p = None) /\
  (forall p, In p ps -> pr_error p <> None -> ~ In p (filter is_valid ps)) /\
  ((forall p, In p ps -> pr_error p <> None) -> sv_specs (serve_internal inner next body) = []).
Proof. exact static_no_handler. Qed.
Print Assumptions c18_static_no_handler.

(* 405 / 415 / pass / no spec from a gated request / invalid JSON: 500, no spec *)
Theorem c18_gate : forall inner,
  (forall meth ct has_get, meth <> s_POST -> (has_get = false \/ meth <> s_GET) ->
      gate meth ct false has_get = G405) /\
  (forall ct has_get, mt_type ct <> s_app_json -> gate s_POST ct false has_get = G415) /\
  (forall ct cs has_get, mt_charset ct = Some cs -> lower cs <> s_utf_8 -> lower cs <> s_utf8 ->
      gate s_POST ct false has_get = G415) /\
  (forall ct has_hook has_get, mt_type ct = s_app_json ->
      (mt_charset ct = None \/ exists cs, mt_charset ct = Some cs /\ (lower cs = s_utf_8 \/ lower cs = s_utf8)) ->
      gate s_POST ct has_hook has_get = GPass) /\
  (forall next meth ct has_hook has_get body, gate meth ct has_hook has_get <> GPass ->
      sv_specs (serve inner next meth ct has_hook has_get body) = [] /\
      sv_next (serve inner next meth ct has_hook has_get body) = next /\
      (gate meth ct has_hook has_get = G405 -> sv_out (serve inner next meth ct has_hook has_get body) = OGate 405%Z) /\
      (gate meth ct has_hook has_get = G415 -> sv_out (serve inner next meth ct has_hook has_get body) = OGate 415%Z)) /\
  (forall next meth ct has_hook has_get, gate meth ct has_hook has_get = GPass ->
      sv_out (serve inner next meth ct has_hook has_get InBad) = OBadBody 500%Z /\
      sv_specs (serve inner next meth ct has_hook has_get InBad) = [] /\
      sv_next (serve inner next meth ct has_hook has_get InBad) = next).
Proof. exact gate_all. Qed.
Print Assumptions c18_gate.

(* each valid request yields exactly one spec (the i-th spec is the i-th valid member's),
   calls and notifications counted separately *)
Theorem c18_once : forall inner, inner_ok inner ->
  forall next body ps, parse_requests body = Some ps ->
  let specs := sv_specs (serve_internal inner next body) in
  length specs = length (filter is_valid ps) /\
  (forall i, nth_error specs i = option_map spec_of (nth_error (filter is_valid ps) i)) /\
  call_count specs = length (filter is_call ps) /\
  length (filter (fun s => sp_notify s) specs) = length (filter is_note ps).
Proof. exact once. Qed.
Print Assumptions c18_once.

(* Two concurrent POSTs A and B on one bridge: their Batch calls draw ids from one counter
   in ANY interleaving [sched]; the shared reply stream [pool] holds the server's replies in
   ANY order (at least one per allocated id; the first delivered wins).  Whatever ids the
   callers used - identical ones included - the internal ids are disjoint, each POST is
   handed only replies to its own internal ids, and its response objects are its own static
   errors plus its own calls' replies under its own callers' id text. *)
Theorem c18_isolation : forall psA psB next sched pool idsA idsB next',
  alloc2 next (call_count (pl_specs (plan psA))) (call_count (pl_specs (plan psB))) sched = (idsA, idsB, next') ->
  (forall i, In i (idsA ++ idsB) -> In i (map rp_id pool)) ->
  NoDup idsA /\ NoDup idsB /\ (forall i, In i idsA -> ~ In i idsB) /\
  exists rsA rsB,
    route idsA pool = Some rsA /\ route idsB pool = Some rsB /\
    map rp_id rsA = idsA /\ map rp_id rsB = idsB /\
    (forall r, In r rsA -> In r pool /\ In (rp_id r) idsA /\ ~ In (rp_id r) idsB) /\
    (forall r, In r rsB -> In r pool /\ In (rp_id r) idsB /\ ~ In (rp_id r) idsA) /\
    (exists st b, post_routed psA idsA pool = Some (OResp st b) /\
       shape_objs b = map err_obj (filter is_invalid psA) ++ call_objs (filter is_call psA) rsA) /\
    (exists st b, post_routed psB idsB pool = Some (OResp st b) /\
       shape_objs b = map err_obj (filter is_invalid psB) ++ call_objs (filter is_call psB) rsB).
Proof. exact isolation. Qed.
Print Assumptions c18_isolation.

(* ids drawn by any interleaving are fresh: as many as asked for, all in [next, next') *)
Theorem c18_ids_fresh : forall sched next na nb a b n,
  alloc2 next na nb sched = (a, b, n) ->
  length a = na /\ length b = nb /\ n = next + N.of_nat na + N.of_nat nb /\
  (forall x, In x a -> next <= x < n) /\ (forall x, In x b -> next <= x < n) /\
  NoDup a /\ NoDup b /\ (forall x, In x a -> ~ In x b).
Proof. exact alloc2_spec. Qed.
Print Assumptions c18_ids_fresh.

(* a POST running alone (serve_internal) is the routed run with consecutive ids *)
Theorem c18_alone_is_routed : forall inner, inner_ok inner ->
  forall next ms b, let ps := map parsed ms in
  post_routed ps (seqN next (call_count (pl_specs (plan ps)))) (inner next (pl_specs (plan ps)))
  = Some (sv_out (serve_internal inner next (InMsgs b ms))).
Proof. exact alone_is_routed. Qed.
Print Assumptions c18_alone_is_routed.

(* the inner server of the correspondence runs satisfies the hypothesis *)
Theorem c18_table_inner_ok : forall known tbl, inner_ok (table_inner known tbl).
Proof. exact table_inner_ok. Qed.
Print Assumptions c18_table_inner_ok.

(* Handler invocations over the concrete local server [table_inner]: [handler_log] is the
   log of (method, params) handler runs of the Batch the bridge issued for one HTTP request
   ([table_run] = [table_inner] with that log; [c18_table_run_is_table_inner]).  A request
   stopped by the gate or with an undecodable body runs no handler; otherwise the log is,
   in order, exactly one entry per member that is valid and names a known method ([runs]):
   the entry of the i-th member sits at the position given by the number of running members
   before it; statically invalid members are never among them. *)
Theorem c18_invoked_once : forall known tbl next meth ct has_hook has_get body,
  let log := handler_log known tbl next meth ct has_hook has_get body in
  (gate meth ct has_hook has_get <> GPass -> log = []) /\
  (parse_requests body = None -> log = []) /\
  (forall ps, gate meth ct has_hook has_get = GPass -> parse_requests body = Some ps ->
     log = map (fun p => (pr_method p, pr_params p)) (filter (runs known) ps) /\
     length log = length (filter (runs known) ps) /\
     (forall i p, nth_error ps i = Some p -> runs known p = true ->
        nth_error log (length (filter (runs known) (firstn i ps))) = Some (pr_method p, pr_params p)) /\
     (forall p, In p ps -> pr_error p <> None -> ~ In p (filter (runs known) ps)) /\
     (forall p, In p ps -> pr_error p = None -> pr_method p <> [] -> is_known known (pr_method p) = true ->
        In p (filter (runs known) ps))).
Proof. exact invoked_once. Qed.
Print Assumptions c18_invoked_once.

Theorem c18_table_run_is_table_inner : forall known tbl specs next,
  fst (table_run known tbl next specs) = table_inner known tbl next specs /\
  map snd (snd (table_run known tbl next specs)) = invoked known specs.
Proof. exact table_run_is_table_inner. Qed.
Print Assumptions c18_table_run_is_table_inner.

(* 204 iff the body held no call and no invalid member; 200 iff at least one response
   object; no other status for a decodable body *)
Theorem c18_status_iff : forall inner, inner_ok inner ->
  forall next body ps st b, parse_requests body = Some ps ->
  sv_out (serve_internal inner next body) = OResp st b ->
  (st = 204%Z <-> filter is_invalid ps = [] /\ filter is_call ps = []) /\
  (st = 200%Z <-> shape_objs b <> []) /\
  (st = 200%Z <-> (exists p, In p ps /\ (is_invalid p = true \/ is_call p = true))) /\
  (st = 204%Z -> b = BEmpty) /\
  (st = 200%Z \/ st = 204%Z).
Proof. exact status_iff. Qed.
Print Assumptions c18_status_iff.

(* ANY number of concurrent POSTs [pss] on one bridge: their Batch calls draw ids from one
   counter in any interleaving [sched] (a list of party indices); [pool] is the shared
   reply stream in any order.  All internal ids are distinct across all parties; party k is
   routed exactly the replies carrying its own ids (none of any other party's), and its
   response objects are its own static errors plus its own calls' replies under its own id
   texts - whatever ids the other parties' callers used. *)
Theorem c18_isolation_n : forall pss next sched pool idss next',
  allocN next (map need_of pss) sched = (idss, next') ->
  (forall i, In i (concat idss) -> In i (map rp_id pool)) ->
  length idss = length pss /\ NoDup (concat idss) /\
  (forall x, In x (concat idss) -> next <= x < next') /\
  forall k ps, nth_error pss k = Some ps ->
    exists ids rs,
      nth_error idss k = Some ids /\ NoDup ids /\ length ids = length (filter is_call ps) /\
      route ids pool = Some rs /\ map rp_id rs = ids /\
      (forall r, In r rs -> In r pool /\ In (rp_id r) ids /\
         forall k' ids', k' <> k -> nth_error idss k' = Some ids' -> ~ In (rp_id r) ids') /\
      exists st b, post_routed ps ids pool = Some (OResp st b) /\
        shape_objs b = map err_obj (filter is_invalid ps) ++ call_objs (filter is_call ps) rs.
Proof. exact isolation_n. Qed.
Print Assumptions c18_isolation_n.

(* The same with the reply stream the server produces: every request (internal id, spec)
   sent by any party is answered once with [ans id spec] (whatever its handler answered),
   the replies arriving in any order.  Party k's response is its own static errors followed
   by, for its j-th call, the answer to ITS OWN j-th request under the caller's id text. *)
Theorem c18_isolation_n_answers : forall ans pss next sched pool idss next',
  allocN next (map need_of pss) sched = (idss, next') ->
  Permutation.Permutation pool (map (answer_of ans) (all_sent pss idss)) ->
  forall k ps, nth_error pss k = Some ps ->
    exists ids st b,
      nth_error idss k = Some ids /\ length ids = length (filter is_call ps) /\
      post_routed ps ids pool = Some (OResp st b) /\
      shape_objs b = map err_obj (filter is_invalid ps) ++ owed_calls ans ps ids /\
      map ro_id (shape_objs b) = map ro_id (map err_obj (filter is_invalid ps)) ++ map pr_id (filter is_call ps).
Proof. exact isolation_n_answers. Qed.
Print Assumptions c18_isolation_n_answers.

(* ids drawn by any n-party interleaving: as many as asked for per party, all fresh *)
Theorem c18_ids_fresh_n : forall sched next need idss n,
  allocN next need sched = (idss, n) ->
  map (@length N) idss = need /\ n = next + N.of_nat (sum_nat need) /\
  (forall x, In x (concat idss) -> next <= x < n) /\ NoDup (concat idss).
Proof. exact allocN_spec. Qed.
Print Assumptions c18_ids_fresh_n.

(* the two-party allocation of c18_isolation is the n = 2 instance of allocN *)
Theorem c18_alloc2_is_allocN : forall sched next na nb a b n,
  alloc2 next na nb sched = (a, b, n) ->
  allocN next [na; nb] (map (fun w : bool => if w then 0%nat else 1%nat) sched) = ([a; b], n).
Proof. exact alloc2_is_allocN. Qed.
Print Assumptions c18_alloc2_is_allocN.
