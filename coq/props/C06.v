(* C06 - Server: handler concurrency stays within the limit and is work-conserving;
   a call cancelled while it waits for a slot is answered with the cancellation error
   and its handler never runs.
   This file only restates the property theorems; definitions (holds, slots_used,
   executing, rank), proofs and the non-vacuity Examples are in srv/SrvC06.v. *)
From Coq Require Import List NArith ZArith Bool Arith Lia.
From RecordUpdate Require Import RecordUpdate.
From JV Require Import Bytes Msg SrvModel SrvLemmas SrvC06.
From JV Require SrvNoCrash SrvC01 SrvC01b SrvC06b SrvC03.
From JV Require Import SrvC08m SrvEventually.
Import ListNotations.

(* 1. slots in use + free slots = K, in every state at a window boundary ... *)
Theorem c06_sem_invariant : forall c s, reach c s ->
  slots_used s + sem_free s = cf_K c /\ c_K s = cf_K c.
Proof. exact sem_invariant. Qed.
Print Assumptions c06_sem_invariant.

(* ... and in every intermediate state of every window *)
Theorem c06_sem_invariant_fine : forall c s, reachf c s ->
  slots_used s + sem_free s = cf_K c /\ c_K s = cf_K c.
Proof. exact sem_invariant_f. Qed.
Print Assumptions c06_sem_invariant_fine.

(* 2. never more than K handlers executing *)
Theorem c06_bound : forall c s, reach c s ->
  executing s <= slots_used s /\ slots_used s <= cf_K c.
Proof. exact bound. Qed.
Print Assumptions c06_bound.

Theorem c06_bound_fine : forall c s, reachf c s ->
  executing s <= slots_used s /\ slots_used s <= cf_K c.
Proof. exact bound_f. Qed.
Print Assumptions c06_bound_fine.

Theorem c06_bound_trace : forall c tr s oss,
  run (init_of c) tr = Some (s, oss) -> executing s <= cf_K c.
Proof. exact bound_trace. Qed.
Print Assumptions c06_bound_trace.

(* every prefix of a trace is a trace: the bound holds at every instant of every trace *)
Theorem c06_bound_every_instant : forall c tr1 tr2 s2 oss,
  run (init_of c) (tr1 ++ tr2) = Some (s2, oss) ->
  exists s1 oss1, run (init_of c) tr1 = Some (s1, oss1) /\ executing s1 <= cf_K c.
Proof. exact bound_every_instant. Qed.
Print Assumptions c06_bound_every_instant.

(* 3. a handler entry is the act of taking a slot: the task was parked before Acquire or
   queued in the semaphore, and is Running afterwards *)
Theorem c06_start_takes_slot : forall c s l s' os p cancelled,
  reach c s -> step s l = Some (s', os) -> In (OStart p cancelled) os ->
  exists k t t', nth_error (tasks s) k = Some t /\ nth_error (tasks s') k = Some t' /\
    t_params t = p /\ t_params t' = p /\ t_cancelled t = cancelled /\ t_builtin t = false /\
    (t_st t = TAtAcquire \/ t_st t = TWaiting) /\ t_st t' = TRunning.
Proof. exact start_takes_slot. Qed.
Print Assumptions c06_start_takes_slot.

Theorem c06_builtin_never_running : forall c s k t,
  reach c s -> nth_error (tasks s) k = Some t -> t_builtin t = true -> t_st t <> TRunning.
Proof. exact builtin_never_running. Qed.
Print Assumptions c06_builtin_never_running.

(* the built-in goes through the semaphore too (counted by holds), with no OStart *)
Theorem c06_builtin_takes_slot : forall s k t s' os,
  nth_error (tasks s) k = Some t -> t_builtin t = true -> t_cancelled t = false ->
  step_raw s (LRelAcquire k) = Some (s', os) ->
  os = [] /\
  ((sem_free s' = pred (sem_free s) /\ 0 < sem_free s /\
    nth_error (tasks s') k = Some (t <| t_st := TAtHandled (ORes []) |>) /\
    holds (t <| t_st := TAtHandled (ORes []) |>) = true) \/
   (sem_free s' = sem_free s /\ nth_error (tasks s') k = Some (t <| t_st := TWaiting |>))).
Proof. exact builtin_takes_slot. Qed.
Print Assumptions c06_builtin_takes_slot.

(* 4. the wait queue lists exactly the waiting tasks, once each, and is empty whenever a slot is free *)
Theorem c06_wait_queue : forall c s, reach c s ->
  NoDup (sem_wait s) /\
  (forall k, In k (sem_wait s) <-> exists t, nth_error (tasks s) k = Some t /\ t_st t = TWaiting) /\
  (0 < sem_free s -> sem_wait s = []).
Proof. exact wait_queue. Qed.
Print Assumptions c06_wait_queue.

(* 5. work conservation: at a quiescent point with a free slot nobody waits for one *)
Theorem c06_acquire_enabled : forall s k t,
  crash s = None -> nth_error (tasks s) k = Some t -> at_acquire s t = true ->
  In (LRelAcquire k) (enabled_rel s).
Proof. exact acquire_in_enabled. Qed.
Print Assumptions c06_acquire_enabled.

Theorem c06_work_conserving : forall c s,
  reach c s -> quiescent s = true -> 0 < sem_free s ->
  forall k t, nth_error (tasks s) k = Some t -> t_st t <> TWaiting /\ at_acquire s t = false.
Proof. exact SrvNoCrash.c06_work_conserving_nc. Qed.
Print Assumptions c06_work_conserving.

(* 6a. a cancelled task is never waiting for a slot *)
Theorem c06_cancelled_waiter_not_waiting : forall c s k t,
  reach c s -> nth_error (tasks s) k = Some t -> t_cancelled t = true -> t_st t <> TWaiting.
Proof. exact cancelled_not_waiting. Qed.
Print Assumptions c06_cancelled_waiter_not_waiting.

Theorem c06_cancelled_waiter_not_queued : forall c s k t,
  reach c s -> nth_error (tasks s) k = Some t -> t_cancelled t = true -> ~ In k (sem_wait s).
Proof. exact cancelled_not_queued. Qed.
Print Assumptions c06_cancelled_waiter_not_queued.

(* 6b. cancelling a waiter: done with the cancellation error, out of the queue *)
Theorem c06_cancelled_waiter_cancel_task : forall k s t,
  nth_error (tasks s) k = Some t -> t_st t = TWaiting ->
  nth_error (tasks (cancel_task k s)) k =
    Some (t <| t_cancelled := true |> <| t_st := TDone (Some cancel_err) |>) /\
  ~ In k (sem_wait (cancel_task k s)) /\
  sem_wait (cancel_task k s) = filter (fun j => negb (j =? k)) (sem_wait s).
Proof. exact cancel_task_waiting. Qed.
Print Assumptions c06_cancelled_waiter_cancel_task.

(* the window of Server.CancelRequest on a call queued in the semaphore *)
Theorem c06_cancelled_waiter_cancel_step : forall s n n' id k t s' os,
  find_op n (ops s) = Some (OpCancel n' id) -> assoc id (used s) = Some k ->
  nth_error (tasks s) k = Some t -> t_st t = TWaiting ->
  step s (LRelCancel n) = Some (s', os) ->
  (forall p c, ~ In (OStart p c) os) /\
  nth_error (tasks s') k = Some (t <| t_cancelled := true |> <| t_st := TDone (Some cancel_err) |>) /\
  ~ In k (sem_wait s') /\ sem_free s' = sem_free s.
Proof. exact cancel_waiter_step. Qed.
Print Assumptions c06_cancelled_waiter_cancel_step.

(* a task cancelled before Acquire fails at Acquire: no handler entry, no slot taken *)
Theorem c06_cancelled_waiter_acquire : forall s k t s' os,
  nth_error (tasks s) k = Some t -> t_st t = TAtAcquire -> t_cancelled t = true ->
  step s (LRelAcquire k) = Some (s', os) ->
  (forall p c, ~ In (OStart p c) os) /\
  nth_error (tasks s') k = Some (t <| t_st := TDone (Some cancel_err) |>) /\
  sem_free s' = sem_free s /\ sem_wait s' = sem_wait s.
Proof. exact acquire_cancelled_step. Qed.
Print Assumptions c06_cancelled_waiter_acquire.

(* 6c. its reply is the cancellation error (code -32097) under its own id *)
Theorem c06_cancelled_waiter_response : forall c s k t b,
  reach c s -> nth_error (tasks s) k = Some t -> (t_st t = TWaiting \/ t_st t = TAtAcquire) ->
  let t' := t <| t_cancelled := b |> <| t_st := TDone (Some cancel_err) |> in
  task_body t' = BErr Cancelled s_ctx_canceled /\
  response_of t' = if is_note t then None
                   else Some {| r_id := t_id t; r_body := BErr Cancelled s_ctx_canceled |}.
Proof. exact cancelled_response. Qed.
Print Assumptions c06_cancelled_waiter_response.

Theorem c06_cancelled_waiter_done_response : forall c s k t,
  reach c s -> nth_error (tasks s) k = Some t -> t_st t = TDone (Some cancel_err) ->
  task_body t = BErr Cancelled s_ctx_canceled /\
  response_of t = if is_note t then None
                  else Some {| r_id := t_id t; r_body := BErr Cancelled s_ctx_canceled |}.
Proof. exact cancelled_done_response. Qed.
Print Assumptions c06_cancelled_waiter_done_response.

(* 6d. task status only moves forward (rank: AtAcquire 0, Waiting 1, Running 2, AtHandled 3,
   Done 4, Skip 5) in every critical section and every wake-up; Done and Skip are final *)
Theorem c06_status_forward_raw : forall c s l s' os,
  reachf c s -> step_raw s l = Some (s', os) ->
  forall k t, nth_error (tasks s) k = Some t ->
  exists t', nth_error (tasks s') k = Some t' /\
    rank (t_st t) <= rank (t_st t') /\ (4 <= rank (t_st t) -> t_st t' = t_st t) /\
    t_id t' = t_id t /\ t_method t' = t_method t /\ t_params t' = t_params t /\
    (t_cancelled t = true -> t_cancelled t' = true).
Proof. exact forward_raw. Qed.
Print Assumptions c06_status_forward_raw.

Theorem c06_status_forward_settle1 : forall s s' os,
  settle1 s = Some (s', os) ->
  forall k t, nth_error (tasks s) k = Some t ->
  exists t', nth_error (tasks s') k = Some t' /\
    rank (t_st t) <= rank (t_st t') /\ (4 <= rank (t_st t) -> t_st t' = t_st t) /\
    t_id t' = t_id t /\ t_method t' = t_method t /\ t_params t' = t_params t /\
    (t_cancelled t = true -> t_cancelled t' = true).
Proof. exact forward_settle1. Qed.
Print Assumptions c06_status_forward_settle1.

Theorem c06_status_forward_run : forall c tr s s' oss,
  reach c s -> run s tr = Some (s', oss) ->
  forall k t, nth_error (tasks s) k = Some t ->
  exists t', nth_error (tasks s') k = Some t' /\
    rank (t_st t) <= rank (t_st t') /\ (4 <= rank (t_st t) -> t_st t' = t_st t) /\
    t_id t' = t_id t /\ t_method t' = t_method t /\ t_params t' = t_params t /\
    (t_cancelled t = true -> t_cancelled t' = true).
Proof. exact forward_run. Qed.
Print Assumptions c06_status_forward_run.

(* hence a task that became Done (Some cancel_err) while Waiting or AtAcquire never runs its handler *)
Theorem c06_cancelled_waiter_never_runs : forall c s k t b tr s' oss,
  reach c s -> nth_error (tasks s) k = Some t -> t_st t = TDone b ->
  run s tr = Some (s', oss) ->
  exists t', nth_error (tasks s') k = Some t' /\ t_st t' = TDone b /\ is_running t' = false.
Proof. exact done_never_runs. Qed.
Print Assumptions c06_cancelled_waiter_never_runs.

Theorem c06_cancelled_waiter_never_started : forall c s k t b l s' os p cancelled,
  reach c s -> nth_error (tasks s) k = Some t -> t_st t = TDone b ->
  step s l = Some (s', os) -> In (OStart p cancelled) os ->
  exists k' t1 t1', k' <> k /\ nth_error (tasks s) k' = Some t1 /\ nth_error (tasks s') k' = Some t1' /\
    t_params t1 = p /\ (t_st t1 = TAtAcquire \/ t_st t1 = TWaiting) /\ t_st t1' = TRunning.
Proof. exact done_never_started. Qed.
Print Assumptions c06_cancelled_waiter_never_started.

(* 7. work conservation, window by window.  When invoke returns (LRelHandled: the slot is released) while the
      semaphore queue is not empty, the request at its head gets the slot in that very window: it leaves the queue
      and enters its handler (OStart among the observations of the window; the built-in has no user handler and goes
      straight to its return point).  No slot was free before (otherwise nobody would have been queued). *)
Theorem c06_release_hands_slot : forall c s k s' os j r tj, reach c s -> step s (LRelHandled k) = Some (s', os) ->
  sem_wait s = j :: r -> nth_error (tasks s) j = Some tj ->
  sem_wait s' = r /\ ~ In j (sem_wait s') /\ sem_free s = 0 /\
  exists tj', nth_error (tasks s') j = Some tj' /\
    if t_builtin tj then t_st tj' = TAtHandled (ORes [])
    else t_st tj' = TRunning /\ In (OStart (t_params tj) (t_cancelled tj)) os.
Proof. exact SrvC06b.c06_release_hands_slot. Qed.
Print Assumptions c06_release_hands_slot.

(* in every reachable state (not only quiescent ones): a request waits for a slot only while all Concurrency slots
   are taken; as long as fewer are taken nobody waits *)
Theorem c06_waits_only_when_full : forall c s k t, reach c s -> nth_error (tasks s) k = Some t -> t_st t = TWaiting ->
  sem_free s = 0 /\ slots_used s = cf_K c /\ In k (sem_wait s).
Proof. exact SrvC06b.c06_waits_only_when_full. Qed.
Print Assumptions c06_waits_only_when_full.

Theorem c06_free_slot_nobody_waits : forall c s, reach c s -> slots_used s < cf_K c ->
  sem_wait s = [] /\ forall k t, nth_error (tasks s) k = Some t -> t_st t <> TWaiting.
Proof. exact SrvC06b.c06_free_slot_nobody_waits. Qed.
Print Assumptions c06_free_slot_nobody_waits.

(* 8. the cancelled waiter is answered: once its unit has finished, the unit was delivered exactly once and the
      message sent for it contains the reply with its id and the cancellation error (unit_sends: the messages of the
      deliver windows of the run, srv/SrvC01b.v); its handler never ran (props/C01.v: c01_cancel_err_body) *)
Theorem c06_cancelled_waiter_answered : forall c tr s oss k t, run (init_of c) tr = Some (s, oss) ->
  nth_error (tasks s) k = Some t -> t_st t = TDone (Some cancel_err) -> is_note t = false ->
  SrvC01.ufin s (t_unit t) = true ->
  SrvLemmas.countb (SrvC01.is_deliver (t_unit t)) tr = 1 /\
  exists b rs, In (t_unit t, b, rs) (SrvC01b.unit_sends tr oss) /\ In {| r_id := t_id t; r_body := cancel_err |} rs.
Proof. exact SrvC06b.c06_cancelled_waiter_answered. Qed.
Print Assumptions c06_cancelled_waiter_answered.

(* 9. work conservation as 'eventually' (srv/SrvEventually.v; [eventually] is spelled out in props/C01.v:
      c01_eventually_spec).  From ANY reachable state s, with no further action of the environment, in the last state
      s' of every maximal release-only run (at most mu_rel s windows): the slots in use are exactly the executing
      handlers; with a free slot nobody waits for one; while fewer than K handlers are executing every request of
      every released message has entered its handler or is finished; and a request that in s was queued for a slot, or
      parked before Acquire with its message released, has entered its handler during the run (OStart among the
      observations of the run), or is done (cancelled, or the built-in), or still waits with K handlers executing. *)
Theorem c06_conserving_spec : forall c s tr s' oss, c06_conserving c s tr s' oss <->
  slots_used s' = executing s' /\
  (0 < sem_free s' ->
     sem_wait s' = [] /\ forall k t, nth_error (tasks s') k = Some t -> t_st t <> TWaiting /\ at_acquire s' t = false) /\
  (executing s' < cf_K c -> forall k t, nth_error (tasks s') k = Some t -> SrvC03.released s' (t_unit t) = true ->
     t_st t = TSkip \/ (exists b, t_st t = TDone b) \/ t_st t = TRunning) /\
  (forall k t, nth_error (tasks s) k = Some t -> t_st t = TWaiting \/ at_acquire s t = true ->
     exists t', nth_error (tasks s') k = Some t' /\
       ((t_st t' = TRunning /\ exists cn, In (OStart (t_params t) cn) (concat oss)) \/
        (exists b, t_st t' = TDone b) \/
        (t_st t' = TWaiting /\ sem_free s' = 0 /\ executing s' = cf_K c))).
Proof. exact (fun c s tr s' oss => conj (fun x => x) (fun x => x)). Qed.
Print Assumptions c06_conserving_spec.

Theorem c06_eventually_work_conserving : forall c s, reach c s -> eventually s (c06_conserving c s).
Proof. exact SrvEventually.c06_eventually_work_conserving. Qed.
Print Assumptions c06_eventually_work_conserving.

(** * Monitor over the observation sequence of a run (srv/SrvMonitors2.v), extracted and evaluated by the model runner on
    every harness log, racing ones included.  [env_of tr] = the environment labels of the trace in order,
    [concat oss] = the observations of the run in order.  [conc_scan K n os] scans the observations with a counter
    (starting at n): a handler entry OStart needs counter + 1 <= K and adds one, a handler return OGate takes one
    off; [mon_concurrency K env os = conc_scan K 0 os]; [conc_end n os] is the counter after the scan. *)
From JV Require SrvMonitors SrvMonitors2.
Module Monitors.
Import SrvMonitors SrvMonitors2.
(* 10. scanning the observations of any run in order, handler entries so far minus handler returns so far never
       exceed the configured Concurrency (no hypothesis; with cf_K c = 0 the model never enters a handler) *)
Theorem c06_mon_concurrency_sound : forall c tr s oss, run (init_of c) tr = Some (s, oss) ->
  mon_concurrency (cf_K c) (env_of tr) (concat oss) = true.
Proof. exact SrvMonitors2.mon_concurrency_sound. Qed.
Print Assumptions c06_mon_concurrency_sound.

(* the same, spelled out for every prefix of the observation sequence *)
Theorem c06_concurrency_every_prefix : forall c tr s oss pre post, run (init_of c) tr = Some (s, oss) ->
  concat oss = pre ++ post -> conc_end 0 pre <= cf_K c.
Proof. exact SrvMonitors2.concurrency_every_prefix. Qed.
Print Assumptions c06_concurrency_every_prefix.

(* per window: the scan started with the number of executing handlers of the state before succeeds and ends with the
   number of executing handlers of the state after *)
Theorem c06_window_concurrency : forall c s l s' os, reachf c s -> step s l = Some (s', os) ->
  conc_scan (cf_K c) (executing s) os = true /\ conc_end (executing s) os = executing s'.
Proof. exact SrvMonitors2.window_conc. Qed.
Print Assumptions c06_window_concurrency.
End Monitors.
