(* C20 — server.Loop: fresh service and exactly one Finish per connection; Loop exits last.
   This file only restates the property theorems; the model is loop/Loop.v, the proofs are in
   loop/LoopProofs.v.  `reach tr s` abbreviates `exists os, run (init true) tr = Some (s, os)`: s is the
   state after the label sequence tr (ANY interleaving of accepter, context, peers, handlers and the
   goroutines of Loop) with the F10 fix in place. *)
From Coq Require Import List Arith Bool.
From JV Require Import Loop LoopProofs NetAccepter LoopMore.
Import ListNotations.

(* Every started server uses the instance (and the assigner) obtained from its own connection's
   newService call; instances of different connections are distinct; a NewSvc step returns an instance
   no connection holds; StartSrv constructs the server with that connection's assigner. *)
Theorem c20_fresh_service : forall tr s, (exists os, run (init true) tr = Some (s, os)) ->
  (forall k c, get s k = Some c -> started (c_phase c) = true ->
     In (NewSvc k) tr /\ exists i, c_svc c = Some i /\ c_asg c = Some i /\ c_used c = Some i /\ i < next_svc s) /\
  (forall j k cj ck i, get s j = Some cj -> get s k = Some ck -> c_svc cj = Some i -> c_svc ck = Some i -> j = k) /\
  (forall k s' os, step s (NewSvc k) = Some (s', os) ->
     os = [ONewSvc (next_svc s)] /\ next_svc s' = S (next_svc s) /\
     (exists c', get s' k = Some c' /\ c_svc c' = Some (next_svc s)) /\
     (forall j cj, get s j = Some cj -> c_svc cj <> Some (next_svc s))) /\
  (forall k s' os, step s (StartSrv k) = Some (s', os) ->
     exists c c' i, get s k = Some c /\ c_svc c = Some i /\ c_asg c = Some i /\
                    get s' k = Some c' /\ c_svc c' = Some i /\ c_used c' = Some i).
Proof. exact fresh_service. Qed.
Print Assumptions c20_fresh_service.

(* Finish k occurs at most once; wherever it occurs the server of k has exited before (SrvExit k st), it
   is called on k's own instance i with the assigner that instance returned and with the exit status st,
   which is the status of the FIRST cause that stopped the server (the only SrvStop k _ of the trace);
   once Loop has returned, every started server has been finished exactly once. *)
Theorem c20_finish_once_after_exit : forall tr s, (exists os, run (init true) tr = Some (s, os)) ->
  (forall k, count_occ label_eq_dec tr (Finish k) <= 1) /\
  (forall k t1 t2, tr = t1 ++ Finish k :: t2 ->
     exists s1 s2 c st i,
       reach t1 s1 /\ step s1 (Finish k) = Some (s2, [OFinish i i st]) /\
       get s1 k = Some c /\ c_phase c = PExited st /\ c_svc c = Some i /\ c_asg c = Some i /\ c_used c = Some i /\
       In (SrvStop k st) t1 /\ (forall st', In (SrvStop k st') (t1 ++ Finish k :: t2) -> st' = st) /\
       In (SrvExit k st) t1 /\ In (StartSrv k) t1 /\ In (AssignerOk k) t1 /\ In (NewSvc k) t1 /\
       ~ In (Finish k) t1 /\ ~ In (Finish k) t2 /\ In (k, i, i, st) (finish_log s2)) /\
  (returned s = true -> forall k, In (StartSrv k) tr -> count_occ label_eq_dec tr (Finish k) = 1).
Proof. exact finish_once_after_exit. Qed.
Print Assumptions c20_finish_once_after_exit.

(* What AssignerOk k returns is the assigner of k's instance (the one Finish later receives). *)
Theorem c20_assigner_identity : forall s k s' os, step s (AssignerOk k) = Some (s', os) ->
  exists c i c', get s k = Some c /\ c_svc c = Some i /\ os = [OAssigner i true] /\
                 get s' k = Some c' /\ c_svc c' = Some i /\ c_asg c' = Some i.
Proof. exact assigner_ok_returns. Qed.
Print Assumptions c20_assigner_identity.

(* LoopReturn is enabled only when every accepted connection is done (and every started server
   finished), after the accepter failed with e; the value is nil iff e is a closing error; nothing of
   any connection happens after the return. *)
Theorem c20_returns_last : forall tr s, (exists os, run (init true) tr = Some (s, os)) ->
  (forall v s' os, step s (LoopReturn v) = Some (s', os) ->
     (forall k c, get s k = Some c -> is_done (c_phase c) = true) /\
     (forall k, In (Accept k) tr -> In (ConnDone k) tr /\ (In (StartSrv k) tr -> In (Finish k) tr)) /\
     (exists e, acc s = Waiting e /\ In (AcceptErr e) tr /\ (v = RNil <-> e = EClosing)) /\
     os = [OReturn v] /\ returned s' = true) /\
  (forall v t1 t2, tr = t1 ++ LoopReturn v :: t2 -> forall l, In l t2 -> life l = None) /\
  (forall v, acc s = Returned v -> In (LoopReturn v) tr).
Proof. exact returns_last. Qed.
Print Assumptions c20_returns_last.

(* The inner server stops once, for the first cause that reaches it: a connection has at most one
   SrvStop; it happens while the server runs, for a cause present at that moment (context ended / peer
   closed / transport failed), no stop precedes it; the exit carries the status of that stop. *)
Theorem c20_first_cause_wins : forall tr s, (exists os, run (init true) tr = Some (s, os)) ->
  (forall k st st', In (SrvStop k st) tr -> In (SrvStop k st') tr -> st = st') /\
  (forall k st t1 t2, tr = t1 ++ SrvStop k st :: t2 ->
     exists s1 c, reach t1 s1 /\ get s1 k = Some c /\ c_phase c = PRunning /\ trigger (ctx_done s1) c st = true /\
                  (forall st', ~ In (SrvStop k st') t1)) /\
  (forall k st, In (SrvExit k st) tr -> In (SrvStop k st) tr).
Proof. exact stop_first_cause. Qed.
Print Assumptions c20_first_cause_wins.

(* After the context has ended: the Stop of every server still running is enabled; a stopped server
   exits once its handlers have returned; an accepter honouring ctx yields a closing error (value nil);
   at quiescence only stopped servers with a handler still running remain, the accept loop is over, and
   if no handler is running Loop has returned. *)
Theorem c20_ctx_stops_all : forall tr s, (exists os, run (init true) tr = Some (s, os)) -> ctx_done s = true ->
  (forall k c, get s k = Some c -> c_phase c = PRunning ->
     exists s', step s (SrvStop k StStopped) = Some (s', []) /\ In (SrvStop k StStopped) (enabled_internal s)) /\
  (forall k c st, get s k = Some c -> c_phase c = PStopping st -> c_busy c = 0 ->
     exists s', step s (SrvExit k st) = Some (s', [])) /\
  (acc s = Accepting -> In (AcceptErr EClosing) (enabled_internal s) /\ retv_of EClosing = RNil) /\
  (quiescent s = true ->
     (forall k c, get s k = Some c -> is_done (c_phase c) = true \/ (exists st, c_phase c = PStopping st /\ c_busy c > 0)) /\
     acc s <> Accepting /\
     ((forall k c, get s k = Some c -> c_busy c = 0) -> returned s = true)).
Proof. exact ctx_stops_all. Qed.
Print Assumptions c20_ctx_stops_all.

(* A service whose Assigner fails gets no server and no Finish, and its connection is closed (once). *)
Theorem c20_assigner_failure : forall tr s k, (exists os, run (init true) tr = Some (s, os)) -> In (AssignerFail k) tr ->
  ~ In (AssignerOk k) tr /\ ~ In (StartSrv k) tr /\ (forall st, ~ In (SrvExit k st) tr) /\ ~ In (Finish k) tr /\
  (forall i a st, ~ In (k, i, a, st) (finish_log s)) /\
  count_occ Nat.eq_dec (closed_conns s) k = 1 /\
  (exists c i, get s k = Some c /\ c_svc c = Some i /\ c_asg c = None /\ c_used c = None).
Proof. exact assigner_failure. Qed.
Print Assumptions c20_assigner_failure.

(* Once Loop has returned every accepted channel has been closed exactly once. *)
Theorem c20_no_dangling : forall tr s, (exists os, run (init true) tr = Some (s, os)) -> returned s = true ->
  forall k, In (Accept k) tr -> count_occ Nat.eq_dec (closed_conns s) k = 1.
Proof. exact no_dangling. Qed.
Print Assumptions c20_no_dangling.

(* Without the F10 fix the property fails: the connection of the failing service is never closed. *)
Theorem c20_refuted_without_F10 :
  exists s os, run (init false) f10_witness = Some (s, os) /\ returned s = true /\ In (AssignerFail 0) f10_witness /\
               count_occ Nat.eq_dec (closed_conns s) 0 = 0.
Proof. exact refuted_without_F10. Qed.
Print Assumptions c20_refuted_without_F10.

(* The accept loop fails once, and Loop returns the value of that failure: while Accepting no AcceptErr has
   occurred; afterwards exactly one error e has; once returned, the value is retv_of e (nil iff closing). *)
Theorem c20_accept_fails_once : forall tr s, (exists os, run (init true) tr = Some (s, os)) ->
  match acc s with
  | Accepting => (forall e, ~ In (AcceptErr e) tr) /\ (forall v, ~ In (LoopReturn v) tr)
  | Waiting e => In (AcceptErr e) tr /\ (forall e', In (AcceptErr e') tr -> e' = e) /\ (forall v, ~ In (LoopReturn v) tr)
  | Returned v => exists e, v = retv_of e /\ In (AcceptErr e) tr /\ (forall e', In (AcceptErr e') tr -> e' = e) /\
                            In (LoopReturn v) tr
  end.
Proof. exact acc_hist_reach. Qed.
Print Assumptions c20_accept_fails_once.

(* THE GENERAL QUIESCENT FORM (no assumption on the context): when no goroutine of Loop, no server and no
   accepter honouring ctx can move, every connection is done, or is a running server that no stop cause has
   reached (context alive, peer there), or is a stopped server with a handler still running; the accept loop is
   Accepting only if the context is alive; it is Waiting only while some connection is not done; and - an
   accepter failure e without context end included - as soon as no server is running or stopping any more, Loop
   HAS RETURNED, with the value of e (nil iff e is the closing error). *)
Theorem c20_quiescent_general : forall tr s, (exists os, run (init true) tr = Some (s, os)) -> quiescent s = true ->
  (forall k c, get s k = Some c ->
     is_done (c_phase c) = true \/
     (c_phase c = PRunning /\ forall st, trigger (ctx_done s) c st = false) \/
     (exists st, c_phase c = PStopping st /\ c_busy c > 0)) /\
  (acc s = Accepting -> ctx_done s = false) /\
  (forall e, acc s = Waiting e -> exists k c, get s k = Some c /\ is_done (c_phase c) = false) /\
  ((forall k c, get s k = Some c -> c_phase c <> PRunning /\ forall st, c_phase c <> PStopping st) ->
   forall e, In (AcceptErr e) tr ->
     acc s = Returned (retv_of e) /\ In (LoopReturn (retv_of e)) tr /\ (retv_of e = RNil <-> e = EClosing)).
Proof. exact quiescent_general. Qed.
Print Assumptions c20_quiescent_general.

(* "After its server has fully exited": wherever SrvExit k st occurs, the server had been started and stopped
   for st before, no handler of k was running at that moment, and none runs (starts or returns) afterwards. *)
Theorem c20_exit_means_idle : forall tr s k st t1 t2, (exists os, run (init true) tr = Some (s, os)) ->
  tr = t1 ++ SrvExit k st :: t2 ->
  (exists s1 c, reach t1 s1 /\ get s1 k = Some c /\ c_phase c = PStopping st /\ c_busy c = 0 /\
                In (SrvStop k st) t1 /\ In (StartSrv k) t1) /\
  (forall l, In l t2 -> l <> CallStart k /\ l <> CallEnd k).
Proof. exact exit_means_idle. Qed.
Print Assumptions c20_exit_means_idle.

(* One server per accepted connection, trace level: the labels of connection k ([proj k tr]) are, in order and
   each once, exactly a prefix-closed life path ([path_of s k]): Accept, NewSvc, AssignerOk, StartSrv, SrvStop st,
   SrvExit st, Finish, ConnDone - or Accept, NewSvc, AssignerFail, ConnDone (no server, no Finish); no label of
   a connection occurs twice (StartSrv, NewSvc, Finish, SrvExit ...). *)
Theorem c20_life_order : forall tr s, (exists os, run (init true) tr = Some (s, os)) ->
  (forall k, proj k tr = path_of s k) /\
  (forall l k, life l = Some k -> count_occ label_eq_dec tr l <= 1) /\
  (forall k, In (StartSrv k) tr -> In (Accept k) tr /\ In (NewSvc k) tr /\ In (AssignerOk k) tr /\ ~ In (AssignerFail k) tr) /\
  (forall k, In (NewSvc k) tr -> In (Accept k) tr).
Proof. exact life_order. Qed.
Print Assumptions c20_life_order.

(* Fresh newService per connection and one Finish per finished server, on the observations of the whole run:
   the newService calls observed are instance 0, 1, 2, ... in order, one per NewSvc label; the Finish calls
   observed (instance, assigner, status) are exactly the entries of the finish log, one per Finish label, in order. *)
Theorem c20_trace_accounts : forall tr s os, run (init true) tr = Some (s, os) ->
  newsvc_of os = seq 0 (next_svc s) /\ next_svc s = length (filter is_newsvc tr) /\
  finish_of os = map fl_args (finish_log s) /\
  map (fun x => Finish (fl_conn x)) (finish_log s) = filter is_finish tr.
Proof. exact run_accounts. Qed.
Print Assumptions c20_trace_accounts.

(* ... at most one entry per connection; the entry of connection k carries k's own instance i, the assigner that
   instance returned, and the status st with which k's server exited (SrvExit k st, SrvStop k st in the trace: the
   first cause); its Assigner did not fail. *)
Theorem c20_finish_log : forall tr s, (exists os, run (init true) tr = Some (s, os)) ->
  NoDup (map fl_conn (finish_log s)) /\
  (forall k, In k (map fl_conn (finish_log s)) <-> In (Finish k) tr) /\
  forall k i a st, In (k, i, a, st) (finish_log s) ->
    a = i /\ (exists c, get s k = Some c /\ c_svc c = Some i /\ c_asg c = Some i /\ c_used c = Some i) /\
    In (Finish k) tr /\ In (SrvExit k st) tr /\ In (SrvStop k st) tr /\ In (StartSrv k) tr /\ In (NewSvc k) tr /\
    ~ In (AssignerFail k) tr.
Proof. exact finish_log_spec. Qed.
Print Assumptions c20_finish_log.

(* NETACCEPTER (model loop/NetAccepter.v: Accept spawns a watcher that closes the listener when ctx ends;
   Listener.Accept yields the closing error only on a closed listener; nobody else closes it) composed with Loop
   ([jrun]: Loop calls Accept while Accepting; a returning call is Loop's Accept k / AcceptErr e; [jproj jinit tr]
   is the Loop trace of the composed run).  Every composed run is a run of Loop (so all theorems above apply): *)
Theorem c20_over_net_accepter_is_loop : forall tr s a, (exists os, jrun jinit tr = Some ((s, a), os)) ->
  exists os, run (init true) (jproj jinit tr) = Some (s, os).
Proof. exact jreach_reach. Qed.
Print Assumptions c20_over_net_accepter_is_loop.

(* the closing error comes only after the context end: the listener is closed only once ctx has ended; every
   error Loop gets from Accept is one Listener.Accept returned; a closing error is preceded by the context end *)
Theorem c20_net_accepter_closing : forall tr s a, (exists os, jrun jinit tr = Some ((s, a), os)) ->
  ctx_done s = na_ctx a /\
  (na_lclosed a = true -> ctx_done s = true /\ In JCtxEnd tr) /\
  (forall e, In (AcceptErr e) (jproj jinit tr) -> In (JNA (NAErr e)) tr) /\
  (forall t1 t2, tr = t1 ++ JNA (NAErr EClosing) :: t2 -> In JCtxEnd t1) /\
  (In (AcceptErr EClosing) (jproj jinit tr) -> In JCtxEnd tr).
Proof. exact na_closing_error. Qed.
Print Assumptions c20_net_accepter_closing.

(* CONTEXT END -> LOOP RETURNS NIL, without the assumption "the accepter yields a closing error when ctx ends" of
   [enabled]: in the composition that error is produced by NetAccepter's own steps.  After the context end, when
   nothing of Loop, its servers or NetAccepter can move (the arrival of a connection / a failure of the listener
   itself are the environment's): the accept loop is over, no Accept call and no watcher goroutine is left, the
   connections are done or stopped servers waiting for a handler; and if no handler is running Loop has returned,
   with nil if the listener never failed by itself. *)
Theorem c20_ctx_end_returns_nil : forall tr s a, (exists os, jrun jinit tr = Some ((s, a), os)) ->
  ctx_done s = true -> jquiescent (s, a) = true ->
  acc s <> Accepting /\ na_call a = CIdle /\ (forall j w, nth_error (na_ws a) j = Some w -> w = WGone) /\
  quiescent s = true /\
  (forall k c, get s k = Some c -> is_done (c_phase c) = true \/ (exists st, c_phase c = PStopping st /\ c_busy c > 0)) /\
  ((forall k c, get s k = Some c -> c_busy c = 0) ->
     exists e, acc s = Returned (retv_of e) /\ In (JNA (NAErr e)) tr /\ In (LoopReturn (retv_of e)) (jproj jinit tr) /\
               (~ In (JNA (NAErr EOther)) tr -> e = EClosing /\ acc s = Returned RNil)).
Proof. exact ctx_end_returns_nil. Qed.
Print Assumptions c20_ctx_end_returns_nil.

(* TERMINATION of the internal steps.  [is_internal l]: l is a step of a goroutine of Loop, of an abstract server
   or of the accepter (everything but Accept, CtxEnd, PeerClose, PeerFail, CallStart, CallEnd); [mu s] = steps the
   accept loop can still take (2/1/0) + for each connection the steps left on its life path.  Every internal
   step decreases mu; an environment step leaves it alone except a new connection (+7). *)
Theorem c20_internal_steps_decrease : forall s l s' os, step s l = Some (s', os) ->
  (is_internal l = true -> mu s' < mu s) /\
  (is_internal l = false -> mu s' = mu s + (match l with Accept _ => 7 | _ => 0 end)).
Proof. exact (fun s l s' os H => conj (mu_decreases s l s' os H) (mu_env s l s' os H)). Qed.
Print Assumptions c20_internal_steps_decrease.

(* hence no infinite sequence of internal steps: a run of internal steps from s has at most mu s of them *)
Theorem c20_internal_runs_bounded : forall tr s s' os, run s tr = Some (s', os) -> forallb is_internal tr = true ->
  length tr + mu s' <= mu s.
Proof. exact internal_run_bounded. Qed.
Print Assumptions c20_internal_runs_bounded.

(* what [enabled_internal] lists is internal and can be taken *)
Theorem c20_enabled_internal_sound : forall tr s l, (exists os, run (init true) tr = Some (s, os)) ->
  In l (enabled_internal s) -> is_internal l = true /\ exists s' os, step s l = Some (s', os).
Proof. exact enabled_internal_sound. Qed.
Print Assumptions c20_enabled_internal_sound.

(* EVENTUALLY QUIESCENT: from every reachable state the internal steps alone reach a quiescent state within
   mu s steps (and, by the bound above, whichever internal step is taken each time, they run out) *)
Theorem c20_eventually_quiescent : forall tr s, (exists os, run (init true) tr = Some (s, os)) ->
  exists tr' s', forallb is_internal tr' = true /\ reach (tr ++ tr') s' /\ quiescent s' = true /\
                 length tr' <= mu s /\ (exists os, run s tr' = Some (s', os)).
Proof. exact (fun tr s R => eventually_quiescent (mu s) tr s R (le_n _)). Qed.
Print Assumptions c20_eventually_quiescent.

(* EVENTUALLY, trace form of c20_ctx_stops_all: once the context has ended and no handler is running, internal
   steps alone (at most mu s) bring every connection to done and Loop to return *)
Theorem c20_ctx_end_eventually_returns : forall tr s, (exists os, run (init true) tr = Some (s, os)) ->
  ctx_done s = true -> (forall k c, get s k = Some c -> c_busy c = 0) ->
  exists tr' s', forallb is_internal tr' = true /\ length tr' <= mu s /\ reach (tr ++ tr') s' /\
                 quiescent s' = true /\ returned s' = true /\
                 (forall k c, get s' k = Some c -> is_done (c_phase c) = true).
Proof. exact ctx_end_eventually_returns. Qed.
Print Assumptions c20_ctx_end_eventually_returns.

(* EVENTUALLY, for an accepter failure e without context end: internal steps alone reach a quiescent state in
   which Loop has returned retv_of e unless a server is still running or stopping (its stop is the environment's) *)
Theorem c20_accept_failure_eventually : forall tr s e, (exists os, run (init true) tr = Some (s, os)) ->
  In (AcceptErr e) tr ->
  exists tr' s', forallb is_internal tr' = true /\ length tr' <= mu s /\ reach (tr ++ tr') s' /\ quiescent s' = true /\
    ((forall k c, get s' k = Some c -> c_phase c <> PRunning /\ forall st, c_phase c <> PStopping st) ->
       acc s' = Returned (retv_of e) /\ In (LoopReturn (retv_of e)) (tr ++ tr')).
Proof. exact accept_failure_eventually. Qed.
Print Assumptions c20_accept_failure_eventually.

(** * Monitors over the observation sequence of a run (loop/LoopMonitors.v), extracted and evaluated by the runner on
    every harness log, racing ones included.  [env_of tr] = the environment labels of the trace in order (accepter,
    context, peers, handlers), [os] = the observations of the run in order; of [env_of tr] the monitors use only the
    number of Accepts and whether AcceptErr EOther occurs. *)
From JV Require Import LoopMonitors.

(* (a) every service instance i has at most one OFinish, after [OAssigner i true], never after [OAssigner i false], and
   with the assigner that instance returned (a = i) *)
Theorem c20_mon_finish_once_sound : forall tr s os, run (init true) tr = Some (s, os) ->
  mon_finish_once (env_of tr) os = true.
Proof. exact mon_finish_once_sound. Qed.
Print Assumptions c20_mon_finish_once_sound.

(* (b) nothing is observed after an OReturn (at most one; no OFinish, ONewSvc, OAssigner, OCall after it); every instance
   with [OAssigner i true] before it has its OFinish before it; its value is RErr iff AcceptErr EOther is among the
   environment labels *)
Theorem c20_mon_return_last_sound : forall tr s os, run (init true) tr = Some (s, os) ->
  mon_return_last (env_of tr) os = true.
Proof. exact mon_return_last_sound. Qed.
Print Assumptions c20_mon_return_last_sound.

(* (c) the ONewSvc indices are 0, 1, 2, ... in order, and never more than the Accept labels *)
Theorem c20_mon_fresh_service_sound : forall tr s os, run (init true) tr = Some (s, os) ->
  mon_fresh_service (env_of tr) os = true.
Proof. exact mon_fresh_service_sound. Qed.
Print Assumptions c20_mon_fresh_service_sound.

Theorem c20_newsvc_count_le_accepts : forall tr s os, run (init true) tr = Some (s, os) ->
  newsvc_of os = seq 0 (length (newsvc_of os)) /\ length (newsvc_of os) <= n_accepts (env_of tr).
Proof. exact newsvc_count_le_accepts. Qed.
Print Assumptions c20_newsvc_count_le_accepts.

(* (c), order-free (distinct indices, each below their number, not more than the Accepts): what is evaluated on
   racing logs, where the harness may write the lines of two racing newService calls in the other order *)
Theorem c20_mon_fresh_service_unordered_sound : forall tr s os, run (init true) tr = Some (s, os) ->
  mon_fresh_service_unordered (env_of tr) os = true.
Proof. exact mon_fresh_service_unordered_sound. Qed.
Print Assumptions c20_mon_fresh_service_unordered_sound.

(* (d) every OAssigner i _ comes after ONewSvc i and is the only one of i; every OCall _ a is served by an assigner that
   was returned ([OAssigner a true] before it) and whose instance has not been finished *)
Theorem c20_mon_assigner_call_sound : forall tr s os, run (init true) tr = Some (s, os) ->
  mon_assigner_call (env_of tr) os = true.
Proof. exact mon_assigner_call_sound. Qed.
Print Assumptions c20_mon_assigner_call_sound.

(* all of them, also on the environment sequence WITHOUT the closing errors (AcceptErr EClosing is a label of the model
   that an accepter honouring the context produces by itself after CtxEnd: it is no line of a log) *)
Theorem c20_mon_all_sound : forall tr s os, run (init true) tr = Some (s, os) ->
  mon_all (env_of tr) os = true /\ mon_all (filter not_closing (env_of tr)) os = true.
Proof. exact mon_all_sound. Qed.
Print Assumptions c20_mon_all_sound.

(* (e) when OReturn is observed newService has been called once for every Accept label, and the Assigner of each of
   these instances has been called: Loop waits for the goroutine of every connection it accepted *)
From JV Require Import LoopMonServed.
Theorem c20_mon_return_served_sound : forall tr s os, run (init true) tr = Some (s, os) ->
  mon_return_served (env_of tr) os = true.
Proof. exact mon_return_served_sound. Qed.
Print Assumptions c20_mon_return_served_sound.
