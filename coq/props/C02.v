(* C02 (pure part) - parse-level conformance: classification of inbound records and members.
   The live-server theorems of C02 (replies, survival) are stated over the server model.
   Property theorems only; the lemmas are in wire/WireProofs.v. *)
From Coq Require Import List NArith ZArith Bool Permutation.
From JV Require Import Bytes Json JsonProofs Msg Wire WireProofs.
Import ListNotations.
Local Open Scope N_scope.

(* Go iterates the member's field map in random order and keeps the first defect it meets.  For
   every order: same id / method / params / error / result, same validity; the reported defect is
   in allowed_errs (up to the order of the key list of the "extra fields" report), every element
   of allowed_errs is reported by some order, every code is -32700 or -32600. *)
Theorem c02_member_err_order_independent :
  forall (data : bytes) (order : list (bytes * bytes) -> list (bytes * bytes)),
  (forall fs, Permutation fs (order fs)) ->
  let m := parse_member data in
  let m' := parse_member_ord order data in
  same_fields m' m /\
  (j_err m' = None <-> j_err m = None) /\
  (j_err m = None <-> allowed_errs data = []) /\
  (forall e, j_err m' = Some e -> exists a, In a (allowed_errs data) /\ werr_equiv e a) /\
  (forall a, In a (allowed_errs data) -> we_code a = ParseError \/ we_code a = InvalidRequest) /\
  (forall a, In a (allowed_errs data) ->
     exists order' e, (forall fs, member_fields data = Some fs -> Permutation fs (order' fs)) /\
                      j_err (parse_member_ord order' data) = Some e /\ werr_equiv e a).
Proof. exact member_order_independent. Qed.
Print Assumptions c02_member_err_order_independent.

Theorem c02_not_json : forall s : bytes,
  (parse s = None <-> parse_msgs s = InBad) /\ we_code e_invalid_request = ParseError.
Proof. exact (fun s => conj (not_json s) eq_refl). Qed.
Print Assumptions c02_not_json.

Theorem c02_empty_batch : forall s : bytes, parse s = Some (JArr []) <-> exists b, parse_msgs s = InMsgs b [].
Proof. exact empty_batch. Qed.
Print Assumptions c02_empty_batch.

Theorem c02_null_id_is_absent : forall rest : list (bytes * bytes),
  ~ In k_id (keys_of rest) -> NoDup (keys_of rest) -> nonempty_vals rest ->
  let m := parse_fields ((k_id, null_bytes) :: rest) in
  let m0 := parse_fields rest in
  fix_id (j_id m) = [] /\ fix_id (j_id m0) = [] /\
  j_method m = j_method m0 /\ j_params m = j_params m0 /\ j_error m = j_error m0 /\ j_result m = j_result m0 /\
  j_err m = j_err m0 /\ is_notification m = is_notification m0.
Proof. exact null_id_is_absent. Qed.
Print Assumptions c02_null_id_is_absent.

(* the id available for the error reply of a member, whatever else is wrong with the member *)
Theorem c02_invalid_member_keeps_id : forall fs : list (bytes * bytes), NoDup (keys_of fs) -> nonempty_vals fs ->
  j_id (parse_fields fs) = match lookup k_id fs with Some v => if is_valid_id v then v else [] | None => [] end.
Proof. exact member_id_echo. Qed.
Print Assumptions c02_invalid_member_keeps_id.

(* the field lists the member parser is run on are duplicate free with non-empty raw values *)
Theorem c02_member_fields_wf : forall (data : bytes) (fs : list (bytes * bytes)),
  member_fields data = Some fs -> NoDup (keys_of fs) /\ nonempty_vals fs.
Proof. exact member_fields_wf. Qed.
Print Assumptions c02_member_fields_wf.

(* classification used by the server: one jmsg per member in order, flagged iff structurally invalid *)
Theorem c02_parse_classification : forall (s : bytes) (batch : bool) (raws : list bytes),
  split_msgs s = Some (batch, raws) ->
  parse_msgs s = InMsgs batch (map parse_member raws) /\
  parse_requests s = Parsed (map (fun r => to_parsed (parse_member r)) raws) /\
  forall r, In r raws ->
    (pr_error (to_parsed (parse_member r)) = None <-> allowed_errs r = []) /\
    (forall e, pr_error (to_parsed (parse_member r)) = Some e ->
       In e (allowed_errs r) /\ (we_code e = ParseError \/ we_code e = InvalidRequest)).
Proof. exact flags_agree. Qed.
Print Assumptions c02_parse_classification.

(** * Live-server part: what the server does with the classified members (model: srv/SrvModel.v).
    The classification [j_err] the server model consumes is the one characterised above
    ([c02_parse_classification]); the lemmas are in srv/SrvC02.v. *)
Close Scope N_scope.
From RecordUpdate Require Import RecordUpdate.
From JV Require SrvModel SrvLemmas SrvBasics SrvC01 SrvC02 SrvHist SrvC02b.
Module Live.
Import SrvModel SrvLemmas SrvBasics SrvC01 SrvC02 SrvHist.

(* a member rejected by validation / duplicate check / unknown method never has its handler invoked, on any
   continuation of any reachable state *)
Theorem c02_no_handler_for_invalid : forall c s k t e tr s' oss,
  reach c s -> nth_error (tasks s) k = Some t -> t_pre t = Some e -> run s tr = Some (s', oss) ->
  (exists t', nth_error (tasks s') k = Some t' /\ t_pre t' = Some e /\ t_st t' = TSkip) /\
  enter_count k s tr = 0.
Proof. exact SrvC02.c02_no_handler_for_invalid. Qed.
Print Assumptions c02_no_handler_for_invalid.

(* every handler entry belongs to a member that passed every check *)
Theorem c02_start_only_valid : forall c s l s' os p cn,
  reach c s -> step s l = Some (s', os) -> In (OStart p cn) os ->
  exists k t, nth_error (tasks s) k = Some t /\ t_params t = p /\ t_pre t = None.
Proof. exact SrvC02.c02_start_only_valid. Qed.
Print Assumptions c02_start_only_valid.

(* unknown or reserved method: -32601 with its id for a call, silence for a notification *)
Theorem c02_unknown_method : forall s u ids m,
  pre_err s ids m = None -> j_method m <> [] -> assign_method s (j_method m) = None ->
  let t := mk_task s u ids m in
  t_pre t = Some err_not_found /\ t_st t = TSkip /\ t_hasctx t = true /\
  (fix_id (j_id m) <> [] ->
     response_of t = Some {| r_id := fix_id (j_id m); r_body := BErr MethodNotFound s_not_found |}) /\
  (fix_id (j_id m) = [] -> response_of t = None).
Proof. exact SrvC02.c02_unknown_method. Qed.
Print Assumptions c02_unknown_method.

Theorem c02_reserved_method : forall s m,
  c_builtin s = true -> has_prefix rpc_prefix m = true -> m <> rpc_server_info -> assign_method s m = None.
Proof. exact SrvC02.assign_method_reserved. Qed.
Print Assumptions c02_reserved_method.

(* undecodable JSON: exactly one error object, id null, code -32700; nothing is queued *)
Theorem c02_not_json_reply : forall s f, running s = true -> f = FMsg InBad \/ f = FMsgEOF InBad ->
  read_cs f s = (s <| rd := RIdle |>, [OSend (negb (send_fail s)) false [null_err ParseError s_invalid_value]]).
Proof. exact SrvC02.c02_not_json. Qed.
Print Assumptions c02_not_json_reply.

(* empty array: exactly one error object, id null, code -32600 *)
Theorem c02_empty_batch_reply : forall s f b, running s = true -> f = FMsg (InMsgs b []) \/ f = FMsgEOF (InMsgs b []) ->
  read_cs f s = (s <| rd := RIdle |>, [OSend (negb (send_fail s)) false [null_err InvalidRequest s_empty_batch]]).
Proof. exact SrvC02.c02_empty_batch. Qed.
Print Assumptions c02_empty_batch_reply.

(* an invalid member is answered at its position with its own code; its id is echoed, or null when it has none *)
Theorem c02_invalid_member_response : forall s u ids m e,
  j_err m = Some e ->
  (fix_id (j_id m) = [] \/ (assoc (fix_id (j_id m)) (used s) = None /\ count_bytes (fix_id (j_id m)) ids <= 1)) ->
  let t := mk_task s u ids m in
  t_pre t = Some (we_code e, we_msg e) /\ t_st t = TSkip /\ t_hasctx t = false /\
  (fix_id (j_id m) <> [] ->
     response_of t = Some {| r_id := fix_id (j_id m); r_body := BErr (we_code e) (we_msg e) |}) /\
  (fix_id (j_id m) = [] -> we_code e = ParseError \/ we_code e = InvalidRequest ->
     response_of t = Some {| r_id := null_bytes; r_body := BErr (we_code e) (we_msg e) |}) /\
  (fix_id (j_id m) = [] -> we_code e <> ParseError -> we_code e <> InvalidRequest -> response_of t = None).
Proof. exact SrvC02.c02_invalid_member_response. Qed.
Print Assumptions c02_invalid_member_response.

(* push-enabled server: a reply-shaped member that matches no outstanding callback is dropped, not answered *)
Theorem c02_stray_reply_dropped : forall s m r keep acc,
  is_req_or_notif m = false -> assoc (fix_id (j_id m)) (calls s) = None ->
  c_push s = true -> j_method m = [] -> has_reply_fields m = true ->
  filter_batch (m :: r) s keep acc = filter_batch r s keep acc.
Proof. exact SrvC02.c02_stray_reply_dropped. Qed.
Print Assumptions c02_stray_reply_dropped.

Theorem c02_stray_reply_kept_without_push : forall s m r keep acc,
  is_req_or_notif m = false -> assoc (fix_id (j_id m)) (calls s) = None -> c_push s = false ->
  filter_batch (m :: r) s keep acc = filter_batch r s (m :: keep) acc.
Proof. exact SrvC02.c02_stray_reply_kept_without_push. Qed.
Print Assumptions c02_stray_reply_kept_without_push.

(* whatever the record, the server keeps serving: still running, reader back at Recv, no crash *)
Theorem c02_keeps_serving : forall s i s' os f,
  running s = true -> f = FMsg i \/ f = FMsgEOF i -> read_cs f s = (s', os) ->
  running s' = true /\ rd s' = RIdle /\
  (crash s' = crash s \/ (work_closed s = true /\ crash s' = Some CrSendOnClosedWork)).
Proof. exact SrvC02.c02_keeps_serving. Qed.
Print Assumptions c02_keeps_serving.
(* survival, over the transition system: in every reachable running state the window of the reader that holds a
   record (any record) leaves the server running and not crashed (no reachable state has crashed: C08), the reader
   back at Recv or already holding the next record, and the dispatcher alive *)
Theorem c02_keeps_serving_reach : forall c s f i s' os, reach c s -> running s = true -> rd s = RHold f ->
  f = FMsg i \/ f = FMsgEOF i -> step s LRelRead = Some (s', os) ->
  running s' = true /\ crash s' = None /\ rd_live (rd s') = 1 /\ dp_live (dp s') = 1.
Proof. exact SrvC02b.c02_keeps_serving_reach. Qed.
Print Assumptions c02_keeps_serving_reach.

(* an invalid member is rejected (duplicate-id error or its own validation error) and gets no context, whatever
   else holds of it *)
Theorem c02_invalid_member_rejected : forall s u ids m e, j_err m = Some e ->
  let t := mk_task s u ids m in
  t_st t = TSkip /\ t_hasctx t = false /\ (t_pre t = Some err_dup \/ t_pre t = Some (we_code e, we_msg e)).
Proof. exact SrvC02b.c02_invalid_member_rejected. Qed.
Print Assumptions c02_invalid_member_rejected.

(* last clause of C02 at the level of rsp (bytes: wire/WireLink.v).  A [body] is by construction exactly one of a
   result (BRes raw; BWild = the result of the built-in rpc.serverInfo) or an error object with an integer code and a
   string message (BErr code msg).  Every element of every message sent in any window of any run is an error object
   with id null and code -32700 / -32600, or the reply to a call of the accepted inbound message that the deliver
   window answers (alog: srv/SrvHist.v): the id is that request's id (not null, not empty), the body a result or an
   error object, the opaque BWild only for the built-in method. *)
Theorem c02_emitted_is_response : forall c tr s oss l s' os ok b rs r,
  run (init_of c) tr = Some (s, oss) -> step s l = Some (s', os) -> In (OSend ok b rs) os -> In r rs ->
  (r_id r = null_bytes /\ exists code msg, r_body r = BErr code msg /\ (code = ParseError \/ code = InvalidRequest)) \/
  (exists u ms t, l = LRelDeliver u /\ nth_error (alog (init_of c) tr []) u = Some (b, ms) /\
     In t (unit_tasks s u) /\ In (tmem t) (map jmem ms) /\ finished t = true /\
     r_id r = t_id t /\ r_id r <> [] /\ r_id r <> null_bytes /\
     ((exists code msg, r_body r = BErr code msg) \/ (exists raw, r_body r = BRes raw) \/
      (r_body r = BWild /\ t_builtin t = true))).
Proof. exact SrvC02b.c02_emitted_is_response. Qed.
Print Assumptions c02_emitted_is_response.
End Live.

(** * Monitors over the observation sequence of a run (srv/SrvMonitors.v), extracted and evaluated on every harness
    log, racing ones included.  [env_of tr] = the environment labels of the trace in order, [concat oss] = the
    observations of the run in order. *)
From JV Require SrvMonitors.
Module Monitors.
Import SrvModel SrvLemmas SrvMonitors.
(* (a) for every params value, handler entries never outnumber the fed members carrying it (no hypothesis) *)
Theorem c02_mon_start_once_sound : forall c tr s oss, run (init_of c) tr = Some (s, oss) ->
  mon_start_once (env_of tr) (concat oss) = true.
Proof. exact SrvMonitors.mon_start_once_sound. Qed.
Print Assumptions c02_mon_start_once_sound.

Theorem c02_start_count_le_fed : forall c tr s oss p, run (init_of c) tr = Some (s, oss) ->
  count_bytes p (starts (concat oss)) <= count_bytes p (fed_params (env_of tr)).
Proof. exact SrvMonitors.start_count_le_fed. Qed.
Print Assumptions c02_start_count_le_fed.

(* (a) with the harness's hypothesis that every fed member has its own params value: no token starts twice *)
Theorem c02_mon_start_distinct_sound : forall c tr s oss, run (init_of c) tr = Some (s, oss) ->
  unique_params (env_of tr) = true -> mon_start_distinct (env_of tr) (concat oss) = true.
Proof. exact SrvMonitors.mon_start_distinct_sound. Qed.
Print Assumptions c02_mon_start_distinct_sound.

(* (b) scanning the observations in order, the handler returns of a params value never outnumber its entries *)
Theorem c02_mon_gate_after_start_sound : forall c tr s oss, run (init_of c) tr = Some (s, oss) ->
  mon_gate_after_start (env_of tr) (concat oss) = true.
Proof. exact SrvMonitors.mon_gate_after_start_sound. Qed.
Print Assumptions c02_mon_gate_after_start_sound.
End Monitors.
