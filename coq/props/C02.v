(* C02 (pure part) - parse-level conformance: classification of inbound records and members.
   The live-server theorems of C02 (replies, survival) are stated over the server model.
   Property theorems only; the lemmas are in wire/WireProofs.v. *)
From Coq Require Import List NArith ZArith Bool Permutation.
From JV Require Import Bytes Json JsonProofs Msg Wire WireProofs.
Import ListNotations.
Local Open Scope N_scope.

(* Go iterates the member's field map in random order and keeps the first defect it meets.  For
   every order: same id / method / params / error / result, same validity; the reported defect is
   in allowed_errs (up to the order of the key list of the "extra fields" report), every element
   of allowed_errs is reported by some order, every code is -32700 or -32600. *)
Theorem c02_member_err_order_independent :
  forall (data : bytes) (order : list (bytes * bytes) -> list (bytes * bytes)),
  (forall fs, Permutation fs (order fs)) ->
  let m := parse_member data in
  let m' := parse_member_ord order data in
  same_fields m' m /\
  (j_err m' = None <-> j_err m = None) /\
  (j_err m = None <-> allowed_errs data = []) /\
  (forall e, j_err m' = Some e -> exists a, In a (allowed_errs data) /\ werr_equiv e a) /\
  (forall a, In a (allowed_errs data) -> we_code a = ParseError \/ we_code a = InvalidRequest) /\
  (forall a, In a (allowed_errs data) ->
     exists order' e, (forall fs, member_fields data = Some fs -> Permutation fs (order' fs)) /\
                      j_err (parse_member_ord order' data) = Some e /\ werr_equiv e a).
Proof. exact member_order_independent. Qed.
Print Assumptions c02_member_err_order_independent.

Theorem c02_not_json : forall s : bytes,
  (parse s = None <-> parse_msgs s = InBad) /\ we_code e_invalid_request = ParseError.
Proof. exact (fun s => conj (not_json s) eq_refl). Qed.
Print Assumptions c02_not_json.

Theorem c02_empty_batch : forall s : bytes, parse s = Some (JArr []) <-> exists b, parse_msgs s = InMsgs b [].
Proof. exact empty_batch. Qed.
Print Assumptions c02_empty_batch.

Theorem c02_null_id_is_absent : forall rest : list (bytes * bytes),
  ~ In k_id (keys_of rest) -> NoDup (keys_of rest) -> nonempty_vals rest ->
  let m := parse_fields ((k_id, null_bytes) :: rest) in
  let m0 := parse_fields rest in
  fix_id (j_id m) = [] /\ fix_id (j_id m0) = [] /\
  j_method m = j_method m0 /\ j_params m = j_params m0 /\ j_error m = j_error m0 /\ j_result m = j_result m0 /\
  j_err m = j_err m0 /\ is_notification m = is_notification m0.
Proof. exact null_id_is_absent. Qed.
Print Assumptions c02_null_id_is_absent.

(* the id available for the error reply of a member, whatever else is wrong with the member *)
Theorem c02_invalid_member_keeps_id : forall fs : list (bytes * bytes), NoDup (keys_of fs) -> nonempty_vals fs ->
  j_id (parse_fields fs) = match lookup k_id fs with Some v => if is_valid_id v then v else [] | None => [] end.
Proof. exact member_id_echo. Qed.
Print Assumptions c02_invalid_member_keeps_id.

(* the field lists the member parser is run on are duplicate free with non-empty raw values *)
Theorem c02_member_fields_wf : forall (data : bytes) (fs : list (bytes * bytes)),
  member_fields data = Some fs -> NoDup (keys_of fs) /\ nonempty_vals fs.
Proof. exact member_fields_wf. Qed.
Print Assumptions c02_member_fields_wf.

(* classification used by the server: one jmsg per member in order, flagged iff structurally invalid *)
Theorem c02_parse_classification : forall (s : bytes) (batch : bool) (raws : list bytes),
  split_msgs s = Some (batch, raws) ->
  parse_msgs s = InMsgs batch (map parse_member raws) /\
  parse_requests s = Parsed (map (fun r => to_parsed (parse_member r)) raws) /\
  forall r, In r raws ->
    (pr_error (to_parsed (parse_member r)) = None <-> allowed_errs r = []) /\
    (forall e, pr_error (to_parsed (parse_member r)) = Some e ->
       In e (allowed_errs r) /\ (we_code e = ParseError \/ we_code e = InvalidRequest)).
Proof. exact flags_agree. Qed.
Print Assumptions c02_parse_classification.
