(* C14 — Errors keep their code, message and data from handler to caller.
   This file only restates the property theorems; proofs are in errs/ErrsProofs.v.
   Model: errs/Errs.v (gerr = the error values users can build; call r e = what
   Client.Call returns when the handler returned (value, e) and json.Marshal(value) = r).
   The model is the code with fix F16/F17 (jmessage.toJSON encodes an error object whose data
   are not JSON without its data instead of failing); call_gen false / batch_gen false is the
   behaviour before the fix, kept for the ..._without_F16 theorems. *)
From Coq Require Import List NArith ZArith Bool.
From JV Require Import Bytes Msg ErrsJson ErrsJsonProofs Errs ErrsProofs.
From JV Require Json JsonProofs JsonTree JsonEq ErrsMore ErrsScan ErrsScanC Wire WireProofs WireSpecs WireMore ErrsWire.
Import ListNotations.
Local Open Scope Z_scope.

(* -- the caller's ErrorCode equals the handler's ----------------------------------------- *)

Theorem c14_code_preserved : forall r e,
  is_nil e = false -> (is_top_jrpc e = true \/ error_code e <> NoError) ->
  outcome_code (call r e) = Some (error_code e).
Proof. exact code_preserved_explicit. Qed.
Print Assumptions c14_code_preserved.

Theorem c14_code_preserved_top_level_error : forall r c m d,
  outcome_code (call r (EJrpc c m d)) = Some c.
Proof. exact code_preserved_jrpc. Qed.
Print Assumptions c14_code_preserved_top_level_error.

Theorem c14_code_preserved_exact : forall r e,
  is_nil e = false ->
  (outcome_code (call r e) = Some (error_code e) <-> code_dom e = true).
Proof. exact code_preserved_iff. Qed.
Print Assumptions c14_code_preserved_exact.

Theorem c14_code_preserved_nil : forall raw e,
  is_nil e = true -> outcome_code (call (ResJson raw) e) = Some (error_code e).
Proof. exact code_preserved_nil. Qed.
Print Assumptions c14_code_preserved_nil.

Theorem c14_code_preserved_refuted_noerror_coder :
  let e := ECoder KValVal NoError [107]%N in
  is_nil e = false /\ code_dom e = false /\ error_code e = NoError /\
  forall r, outcome_code (call r e) = Some InternalError.
Proof. exact code_preserved_refuted_noerror_coder. Qed.
Print Assumptions c14_code_preserved_refuted_noerror_coder.

Theorem c14_code_preserved_refuted_without_F16 :
  let e := EJrpc 7 [109]%N [123; 98; 97; 100]%N in
  is_nil e = false /\ code_dom e = true /\ code_dom_pre16 e = false /\
  (forall r, call_gen false r e = OLost) /\
  (forall r, outcome_code (call_gen false r e) <> Some (error_code e)) /\
  (forall r, outcome_code (call r e) = Some (error_code e)).
Proof. exact code_preserved_refuted_without_F16. Qed.
Print Assumptions c14_code_preserved_refuted_without_F16.

Theorem c14_code_preserved_exact_without_F16 : forall r e,
  is_nil e = false ->
  (outcome_code (call_gen false r e) = Some (error_code e) <-> code_dom_pre16 e = true).
Proof. exact code_preserved_pre16_iff. Qed.
Print Assumptions c14_code_preserved_exact_without_F16.

(* -- a reply is never lost (fix F16) ------------------------------------------------------- *)

Theorem c14_reply_never_lost : forall r e, call r e <> OLost.
Proof. exact call_never_lost. Qed.
Print Assumptions c14_reply_never_lost.

Theorem c14_reply_lost_without_F16_exact : forall r e,
  is_nil e = false -> (call_gen false r e = OLost <-> deliverable e = false).
Proof. exact lost_pre16_iff. Qed.
Print Assumptions c14_reply_lost_without_F16_exact.

Theorem c14_F16_changes_nothing_else : forall r e,
  is_nil e = false -> deliverable e = true -> call_gen false r e = call r e.
Proof. exact fix16_conservative. Qed.
Print Assumptions c14_F16_changes_nothing_else.

Theorem c14_wrap_preserves_code : forall m e,
  is_nil e = false -> error_code (EWrap m e) = error_code e.
Proof. exact error_code_wrap. Qed.
Print Assumptions c14_wrap_preserves_code.

(* -- a *Error arrives with its code, message and data ------------------------------------- *)

Theorem c14_error_verbatim : forall r c m d d',
  c <> Cancelled -> c <> DeadlineExceeded -> valid_utf8 m = true -> wire_data d = Some d' ->
  call r (EJrpc c m d) = OErr (EJrpc c m d') /\
  json_content d' = json_content d /\ d' = squeeze SqOut d.
Proof. exact error_verbatim. Qed.
Print Assumptions c14_error_verbatim.

Theorem c14_error_verbatim_domain : forall d,
  (exists d', wire_data d = Some d') <-> (d = [] \/ json_valid d = true).
Proof. exact wire_data_some_iff. Qed.
Print Assumptions c14_error_verbatim_domain.

Theorem c14_data_json_equal : forall d d',
  compact d = Some d' -> json_content d' = json_content d /\ d' = squeeze SqOut d.
Proof. exact data_json_equal. Qed.
Print Assumptions c14_data_json_equal.

Theorem c14_error_verbatim_refuted_sentinel_codes : forall r m d,
  call r (EJrpc Cancelled m d) = OErr ECanceled /\
  call r (EJrpc DeadlineExceeded m d) = OErr EDeadline.
Proof. exact error_verbatim_refuted_sentinel_codes. Qed.
Print Assumptions c14_error_verbatim_refuted_sentinel_codes.

Theorem c14_error_verbatim_refuted_invalid_utf8 :
  valid_utf8 [97; 255]%N = false /\
  forall r, call r (EJrpc 7 [97; 255]%N []) = OErr (EJrpc 7 [97; 239; 191; 189]%N []).
Proof. exact error_verbatim_refuted_invalid_utf8. Qed.
Print Assumptions c14_error_verbatim_refuted_invalid_utf8.

Theorem c14_error_arrives : forall r c m d,
  call r (EJrpc c m d) =
  OErr (from_wire {| we_code := c; we_msg := sanitize_utf8 m;
                     we_data := match wire_data d with Some d' => d' | None => [] end |}).
Proof. exact call_jrpc. Qed.
Print Assumptions c14_error_arrives.

Theorem c14_undeliverable_data_dropped : forall r c m d,
  wire_data d = None ->
  call r (EJrpc c m d) = OErr (from_wire {| we_code := c; we_msg := sanitize_utf8 m; we_data := [] |}).
Proof. exact undeliverable_data_dropped. Qed.
Print Assumptions c14_undeliverable_data_dropped.

Theorem c14_undeliverable_data_dropped_explicit : forall r c m d,
  c <> Cancelled -> c <> DeadlineExceeded -> valid_utf8 m = true -> wire_data d = None ->
  call r (EJrpc c m d) = OErr (EJrpc c m []) /\ call r (EJrpc c m d) = call r (EJrpc c m []).
Proof. exact undeliverable_data_dropped_explicit. Qed.
Print Assumptions c14_undeliverable_data_dropped_explicit.

Theorem c14_undeliverable_data_domain : forall d,
  wire_data d = None <-> (d <> [] /\ json_valid d = false).
Proof. exact wire_data_none_iff. Qed.
Print Assumptions c14_undeliverable_data_domain.

Theorem c14_error_verbatim_refuted_without_F16 : forall r c m d,
  wire_data d = None -> call_gen false r (EJrpc c m d) = OLost.
Proof. exact error_verbatim_refuted_without_F16. Qed.
Print Assumptions c14_error_verbatim_refuted_without_F16.

Theorem c14_error_verbatim_refuted_value_and_wrapped :
  (forall r, call r (EJrpcV 7 [109]%N [49]%N) = OErr (EJrpc 7 [91; 55; 93; 32; 109]%N [])) /\
  (forall r, call r (EWrap [119]%N (EJrpc 7 [109]%N [49]%N)) =
             OErr (EJrpc 7 [119; 58; 32; 91; 55; 93; 32; 109]%N [])).
Proof. exact error_verbatim_refuted_value_and_wrapped. Qed.
Print Assumptions c14_error_verbatim_refuted_value_and_wrapped.

(* -- context.Canceled / context.DeadlineExceeded surface as exactly those sentinels ------ *)

Theorem c14_sentinels : forall r e,
  first_coder e = None ->
  (reaches false e = true -> call r e = OErr ECanceled) /\
  (reaches false e = false -> reaches true e = true -> call r e = OErr EDeadline).
Proof. exact sentinels. Qed.
Print Assumptions c14_sentinels.

Theorem c14_sentinels_exact : forall r e,
  is_nil e = false ->
  (call r e = OErr ECanceled <-> error_code e = Cancelled) /\
  (call r e = OErr EDeadline <-> error_code e = DeadlineExceeded).
Proof. exact sentinel_iff. Qed.
Print Assumptions c14_sentinels_exact.

Theorem c14_sentinels_refuted_coder_wins :
  let e := EJoin [ECanceled; ECode 5] in
  reaches false e = true /\ first_coder e = Some 5 /\
  forall r, call r e = OErr (EJrpc 5 (t_canceled ++ 10%N :: t_error_code ++ [53%N]) []).
Proof. exact sentinel_refuted_coder_wins. Qed.
Print Assumptions c14_sentinels_refuted_coder_wins.

(* -- a result that cannot be marshalled becomes an error response -------------------------- *)

Theorem c14_unmarshalable_result : forall why e,
  is_nil e = true -> is_nil why = false -> is_top_jrpc why = false ->
  call (ResBad why) e =
    OErr (from_wire {| we_code := wire_code why; we_msg := sanitize_utf8 (error_text why); we_data := [] |})
  /\ wire_code why <> NoError.
Proof. exact unmarshalable_result. Qed.
Print Assumptions c14_unmarshalable_result.

Theorem c14_unmarshalable_unsupported : forall text e,
  is_nil e = true ->
  call (ResBad (EPlain text)) e = OErr (EJrpc SystemError (sanitize_utf8 text) []).
Proof. exact unmarshalable_unsupported. Qed.
Print Assumptions c14_unmarshalable_unsupported.

Theorem c14_handler_error_wins : forall r r' e, is_nil e = false -> call r e = call r' e.
Proof. exact handler_error_wins. Qed.
Print Assumptions c14_handler_error_wins.

(* -- ErrorCode(c.Err()) == c ---------------------------------------------------------------- *)

Theorem c14_code_err_roundtrip : forall c, error_code (code_err c) = c.
Proof. exact code_err_roundtrip. Qed.
Print Assumptions c14_code_err_roundtrip.

Theorem c14_code_err_through_call : forall r c,
  c <> NoError -> outcome_code (call r (code_err c)) = Some c.
Proof. exact code_err_through_call. Qed.
Print Assumptions c14_code_err_through_call.

Theorem c14_code_err_arrives : forall r c,
  c <> NoError -> c <> Cancelled -> c <> DeadlineExceeded ->
  call r (code_err c) = OErr (EJrpc c (code_string c) []).
Proof. exact code_err_arrives. Qed.
Print Assumptions c14_code_err_arrives.

(* -- WithData never modifies its receiver (nor any other existing *Error) ------------------- *)

Theorem c14_with_data_pure : forall h p v h' p',
  with_data h p v = WDOk h' p' ->
  (forall q c, nth_error h q = Some c -> nth_error h' q = Some c) /\
  ((h' = h /\ p' = p) \/
   (exists c data, nth_error h p = Some c /\ marshal_arg v = Some data /\
                   h' = h ++ [{| we_code := we_code c; we_msg := we_msg c; we_data := data |}] /\
                   p' = List.length h)).
Proof. exact with_data_pure. Qed.
Print Assumptions c14_with_data_pure.

Theorem c14_with_data_crash_only_on_nil : forall h p v,
  with_data h p v = WDCrash <-> (nth_error h p = None /\ v <> WNil /\ marshal_arg v <> None).
Proof. exact with_data_crash. Qed.
Print Assumptions c14_with_data_crash_only_on_nil.

(* -- notifications: the handler's error is discarded ----------------------------------------- *)

Theorem c14_notification_error_discarded : forall r e, is_nil e = false -> notify r e = None.
Proof. exact notify_error_discarded. Qed.
Print Assumptions c14_notification_error_discarded.

(* a notification never gets a reply: neither for its handler's error nor (fix F15) for a result
   that cannot be marshalled *)
Theorem c14_notification_never_replies : forall r e, notify r e = None.
Proof. exact notify_never_replies. Qed.
Print Assumptions c14_notification_never_replies.

Theorem c14_refuted_without_F15 :
  let why := EWrap [106]%N (EJrpc ParseError [112]%N []) in
  notify_gen false (ResBad why) enil =
    Some {| we_code := ParseError;
            we_msg := [106; 58; 32; 91; 45; 51; 50; 55; 48; 48; 93; 32; 112]%N; we_data := [] |}.
Proof. exact notify_reply_leak_without_F15. Qed.
Print Assumptions c14_refuted_without_F15.

(* -- batches: no call loses its reply because of a sibling (fix F16/F17) ------------------------- *)

Theorem c14_batch_members_independent : forall cs,
  batch cs = map (fun c => deliver (invoke false (fst c) (snd c))) cs.
Proof. exact batch_members_independent. Qed.
Print Assumptions c14_batch_members_independent.

Theorem c14_batch_never_loses : forall cs w, In w (batch cs) -> w <> WLost.
Proof. exact batch_never_loses. Qed.
Print Assumptions c14_batch_never_loses.

Theorem c14_call_is_delivered_reply : forall r e,
  call r e = match deliver (invoke false r e) with
             | WResult raw => OResult raw
             | WError w => OErr (from_wire w)
             | WLost => OLost
             end.
Proof. exact call_deliver. Qed.
Print Assumptions c14_call_is_delivered_reply.

Theorem c14_refuted_without_F16 :
  let ok := (ResJson [116; 114; 117; 101]%N, enil) in
  let bad := (ResJson [116; 114; 117; 101]%N, EJrpc 7 [110; 111]%N [123; 98; 97; 100]%N) in
  batch_gen false [ok; bad] = [WLost; WLost] /\
  batch_gen false [ok] = [WResult [116; 114; 117; 101]%N] /\
  call_gen false (fst ok) (snd ok) = OResult [116; 114; 117; 101]%N /\
  batch [ok; bad] = [WResult [116; 114; 117; 101]%N;
                     WError {| we_code := 7; we_msg := [110; 111]%N; we_data := [] |}].
Proof. exact batch_refuted_without_F16. Qed.
Print Assumptions c14_refuted_without_F16.

(* -- cancelling the request does not replace the error its handler returns ----------------------- *)

Theorem c14_cancellation_does_not_replace_error : forall cs r e, call_ctx true cs r e = call r e.
Proof. exact cancellation_does_not_replace_error. Qed.
Print Assumptions c14_cancellation_does_not_replace_error.

Theorem c14_error_verbatim_when_cancelled : forall cs r c m d d',
  c <> Cancelled -> c <> DeadlineExceeded -> valid_utf8 m = true -> wire_data d = Some d' ->
  call_ctx true cs r (EJrpc c m d) = OErr (EJrpc c m d').
Proof. exact error_verbatim_ctx. Qed.
Print Assumptions c14_error_verbatim_when_cancelled.

Theorem c14_code_preserved_when_cancelled : forall cs r e,
  is_nil e = false -> code_dom e = true -> outcome_code (call_ctx true cs r e) = Some (error_code e).
Proof. exact code_preserved_ctx. Qed.
Print Assumptions c14_code_preserved_when_cancelled.

Theorem c14_cancellation_refuted_if_replaced :
  let e := EJrpc 7 [109]%N [49]%N in
  (forall r, call_ctx false CtxCanceled r e = OErr ECanceled) /\
  (forall r, call_ctx false CtxDeadline r e = OErr EDeadline) /\
  (forall r, outcome_code (call_ctx false CtxCanceled r e) <> Some (error_code e)) /\
  (forall cs r, call_ctx false cs r enil = call r enil) /\
  (forall r e', call_ctx false CtxLive r e' = call r e').
Proof. exact cancellation_refuted_if_replaced. Qed.
Print Assumptions c14_cancellation_refuted_if_replaced.

(* -- the two JSON models agree (errs/ErrsMore.v): C14's byte-scanner model of json.Marshal(RawMessage)
      and of a string's round trip vs C13's tree model (json/Json.v) ------------------------------------- *)

(* a Go string through json.Marshal / json.Unmarshal: the same function in both models, for every input *)
Theorem c14_message_model_agrees : forall m : bytes,
  sanitize_utf8 m = Json.unquote (Json.escape_body m).
Proof. exact ErrsMore.sanitize_is_unquote_escape. Qed.
Print Assumptions c14_message_model_agrees.

(* json.Marshal(RawMessage): on every text the tree parser accepts, what the scanner model returns
   is the tree model's compaction *)
Theorem c14_compact_models_agree : forall d d' : bytes,
  Json.valid d = true -> compact d = Some d' -> Json.compact d = Some d'.
Proof. exact ErrsMore.compact_models_agree. Qed.
Print Assumptions c14_compact_models_agree.

Theorem c14_squeeze_is_tree_compaction : forall d q : bytes, Json.compact d = Some q -> squeeze SqOut d = q.
Proof. exact ErrsMore.squeeze_is_compact. Qed.
Print Assumptions c14_squeeze_is_tree_compaction.

(* the byte scanner accepts only what the tree parser accepts (errs/ErrsScan.v: every accepting run of the
   scanner is read back as a well-formed tree whose exact text is the input) *)
Theorem c14_scanner_accepts_only_json : forall d d' : bytes, compact d = Some d' -> Json.valid d = true.
Proof. exact ErrsScan.scanner_accepts_valid. Qed.
Print Assumptions c14_scanner_accepts_only_json.

(* hence: whenever the scanner model of json.Marshal(RawMessage) yields a result, the tree model yields the same *)
Theorem c14_compact_models_agree_all : forall d d' : bytes, compact d = Some d' -> Json.compact d = Some d'.
Proof. exact ErrsScan.compact_models_agree_all. Qed.
Print Assumptions c14_compact_models_agree_all.

(* ... and conversely (errs/ErrsScanC.v): the two models of json.Marshal(json.RawMessage) / json.Compact - C14's
   byte scanner and C13's tree parser + printer - are the same function, and so are the two validators *)
Theorem c14_compact_models_equal : forall d : bytes, compact d = Json.compact d.
Proof. exact ErrsScanC.compact_models_equal. Qed.
Print Assumptions c14_compact_models_equal.

Theorem c14_json_valid_models_equal : forall d : bytes, json_valid d = Json.valid d.
Proof. exact ErrsScanC.json_valid_models_equal. Qed.
Print Assumptions c14_json_valid_models_equal.

(* error data arrive JSON-equal as VALUES (Json.parse), not only as token streams *)
Theorem c14_data_json_equal_value : forall d d' : bytes,
  wire_data d = Some d' -> d <> [] ->
  Json.parse d' = Json.parse d /\ Json.compact d = Some d' /\ Json.parse d <> None.
Proof. exact ErrsScan.data_json_equal_value. Qed.
Print Assumptions c14_data_json_equal_value.

Theorem c14_error_verbatim_value : forall r c m d d',
  c <> Cancelled -> c <> DeadlineExceeded -> valid_utf8 m = true -> wire_data d = Some d' ->
  call r (EJrpc c m d) = OErr (EJrpc c m d') /\ (d <> [] -> Json.parse d' = Json.parse d) /\ (d = [] -> d' = []).
Proof. exact ErrsScan.error_verbatim_value. Qed.
Print Assumptions c14_error_verbatim_value.

(* -- Client.Batch: no filterError; an entry is the *Error of the wire, never a context sentinel ---------- *)

Theorem c14_batch_code_preserved : forall r e, is_nil e = false -> code_dom e = true ->
  outcome_code (ErrsMore.batch_outcome (deliver (invoke false r e))) = Some (error_code e).
Proof. exact ErrsMore.batch_code_preserved. Qed.
Print Assumptions c14_batch_code_preserved.

Theorem c14_batch_code_preserved_exact : forall r e, is_nil e = false ->
  (outcome_code (ErrsMore.batch_outcome (deliver (invoke false r e))) = Some (error_code e) <-> code_dom e = true).
Proof. exact ErrsMore.batch_code_preserved_iff. Qed.
Print Assumptions c14_batch_code_preserved_exact.

Theorem c14_batch_code_is_call_code : forall r e,
  outcome_code (ErrsMore.batch_outcome (deliver (invoke false r e))) = outcome_code (call r e).
Proof. exact ErrsMore.batch_code_is_call_code. Qed.
Print Assumptions c14_batch_code_is_call_code.

Theorem c14_call_is_filtered_batch_entry : forall r e,
  call r e = ErrsMore.filter_outcome (ErrsMore.batch_outcome (deliver (invoke false r e))).
Proof. exact ErrsMore.call_is_filtered_batch. Qed.
Print Assumptions c14_call_is_filtered_batch_entry.

Theorem c14_batch_entry_never_sentinel : forall r e,
  ErrsMore.batch_outcome (deliver (invoke false r e)) <> OErr ECanceled /\
  ErrsMore.batch_outcome (deliver (invoke false r e)) <> OErr EDeadline.
Proof. exact ErrsMore.batch_entry_never_sentinel. Qed.
Print Assumptions c14_batch_entry_never_sentinel.

Theorem c14_batch_cancelled_entry : forall r e, first_coder e = None -> reaches false e = true ->
  ErrsMore.batch_outcome (deliver (invoke false r e)) = OErr (EJrpc Cancelled (sanitize_utf8 (error_text e)) []) /\
  call r e = OErr ECanceled.
Proof. exact ErrsMore.batch_cancelled_entry. Qed.
Print Assumptions c14_batch_cancelled_entry.

Theorem c14_batch_outcomes : forall cs,
  ErrsMore.batch_outcomes cs = map (fun c => ErrsMore.batch_outcome (deliver (invoke false (fst c) (snd c)))) cs /\
  List.length (ErrsMore.batch_outcomes cs) = List.length cs /\ ~ In OLost (ErrsMore.batch_outcomes cs).
Proof. exact ErrsMore.batch_outcomes_spec. Qed.
Print Assumptions c14_batch_outcomes.

(* -- the callback direction (client OnCallback handler -> server): no NoError -> InternalError substitution -- *)

Theorem c14_callback_code_preserved : forall e, is_nil e = false ->
  error_code (ErrsMore.callback_error e) = error_code e.
Proof. exact ErrsMore.cb_code_preserved. Qed.
Print Assumptions c14_callback_code_preserved.

Theorem c14_callback_wire_code : forall e, we_code (sent (ErrsMore.cb_to_wire e)) = error_code e.
Proof. exact ErrsMore.cb_wire_code. Qed.
Print Assumptions c14_callback_wire_code.

Theorem c14_callback_directions_differ :
  let e := ECoder KValVal NoError [107]%N in
  is_nil e = false /\ error_code e = NoError /\
  error_code (ErrsMore.callback_error e) = NoError /\ (forall r, outcome_code (call r e) = Some InternalError).
Proof. exact ErrsMore.cb_directions_differ. Qed.
Print Assumptions c14_callback_directions_differ.

Theorem c14_callback_error_verbatim : forall c m d d',
  c <> Cancelled -> c <> DeadlineExceeded -> valid_utf8 m = true -> wire_data d = Some d' ->
  ErrsMore.callback_error (EJrpc c m d) = EJrpc c m d'.
Proof. exact ErrsMore.cb_error_verbatim. Qed.
Print Assumptions c14_callback_error_verbatim.

Theorem c14_callback_sentinels : forall e, is_nil e = false ->
  (ErrsMore.callback_error e = ECanceled <-> error_code e = Cancelled) /\
  (ErrsMore.callback_error e = EDeadline <-> error_code e = DeadlineExceeded).
Proof. exact ErrsMore.cb_sentinels. Qed.
Print Assumptions c14_callback_sentinels.

(* -- the model of transit is the wire round trip; the nesting side condition ------------------------------ *)

(* what the C13 encoder writes for the error w and the C13 member parser reads back is Errs.sent w *)
Theorem c14_transit_is_wire_round_trip : forall id w d' b,
  WireMore.id_rt' id -> WireProofs.int32_ok (we_code w) -> wire_data (we_data w) = Some d' ->
  (we_data w = [] \/ Json.valid (we_data w) = true) -> ErrsWire.data_fits d' = true ->
  Wire.enc_msg (ErrsWire.err_rsp id w) = Some b ->
  Wire.parse_msgs b = InMsgs false [WireProofs.canon (ErrsWire.err_rsp id w)] /\ j_id (Wire.parse_member b) = id /\
  j_error (Wire.parse_member b) = Some (sent w).
Proof. exact ErrsWire.transit_is_wire_round_trip. Qed.
Print Assumptions c14_transit_is_wire_round_trip.

Theorem c14_code_preserved_nested : forall r e,
  is_nil e = false -> code_dom e = true -> ErrsWire.err_data_fits e = true ->
  exists o, ErrsWire.call_nested r e = ErrsWire.Arrives o /\ outcome_code o = Some (error_code e).
Proof. exact ErrsWire.code_preserved_nested. Qed.
Print Assumptions c14_code_preserved_nested.

Theorem c14_call_when_data_fit : forall r e, is_nil e = false -> ErrsWire.err_data_fits e = true ->
  ErrsWire.call_nested r e = ErrsWire.Arrives (call r e).
Proof. exact ErrsWire.call_nested_fits. Qed.
Print Assumptions c14_call_when_data_fit.

Theorem c14_nesting_side_condition_needed :
  let e := EJrpc 1 [] (WireSpecs.deep 9999) in
  wire_data (WireSpecs.deep 9999) = Some (WireSpecs.deep 9999) /\ Json.valid (WireSpecs.deep 9999) = true /\
  ErrsWire.err_data_fits e = false /\
  (exists b, Wire.enc_msg (ErrsWire.err_rsp [49]%N (WireSpecs.deep_err 9999)) = Some b /\ Wire.parse_msgs b = InBad) /\
  (forall r, call r e = OErr (EJrpc 1 [] (WireSpecs.deep 9999))) /\
  (forall r, ErrsWire.call_nested r e = ErrsWire.ClientStops) /\
  ErrsWire.err_data_fits (EJrpc 1 [] (WireSpecs.deep 9998)) = true /\
  (forall r, ErrsWire.call_nested r (EJrpc 1 [] (WireSpecs.deep 9998)) = ErrsWire.Arrives (OErr (EJrpc 1 [] (WireSpecs.deep 9998)))).
Proof. exact ErrsWire.nesting_side_condition_needed. Qed.
Print Assumptions c14_nesting_side_condition_needed.
