(* C17 — Method dispatch: exact names, first-dot service split, reserved rpc.* names.
   This file only restates the property theorems; proofs are in disp/DispatchProofs.v. *)
From Coq Require Import List NArith Bool Sorting.Sorted.
From JV Require Import Bytes Sort Dispatch DispatchProofs.
Import ListNotations.
Local Open Scope N_scope.

Theorem c17_map_exact : forall m n, assign (AMap m) n = lookup n m.
Proof. exact map_exact. Qed.
Print Assumptions c17_map_exact.

Theorem c17_service_split : forall m n h,
  assign (ASvc m) n = Some h <->
  exists svc rest a', n = svc ++ ascii_dot :: rest /\ ~ In ascii_dot svc /\
                      lookup svc m = Some a' /\ assign a' rest = Some h.
Proof. exact service_split. Qed.
Print Assumptions c17_service_split.

Theorem c17_service_no_dot : forall m n, ~ In ascii_dot n -> assign (ASvc m) n = None.
Proof. exact service_no_dot. Qed.
Print Assumptions c17_service_no_dot.

Theorem c17_service_unknown : forall m svc rest,
  ~ In ascii_dot svc -> lookup svc m = None -> assign (ASvc m) (svc ++ ascii_dot :: rest) = None.
Proof. exact service_unknown. Qed.
Print Assumptions c17_service_unknown.

Theorem c17_names_sorted : forall a ns, names a = Some ns -> Sorted ble_rel ns.
Proof. exact names_sorted. Qed.
Print Assumptions c17_names_sorted.

Theorem c17_names_map_complete : forall m n,
  In n (map fst m) <-> exists ns, names (AMap m) = Some ns /\ In n ns.
Proof. exact names_map_complete. Qed.
Print Assumptions c17_names_map_complete.

Theorem c17_names_svc_complete : forall m n,
  (exists ns, names (ASvc m) = Some ns /\ In n ns) <->
  exists svc a', In (svc, a') m /\
    match names a' with
    | None => n = dot_join svc star
    | Some ns' => exists n', In n' ns' /\ n = dot_join svc n'
    end.
Proof. exact names_svc_complete. Qed.
Print Assumptions c17_names_svc_complete.

Theorem c17_names_assignable : forall m svc a' n' h,
  lookup svc m = Some a' -> ~ In ascii_dot svc -> assign a' n' = Some h ->
  assign (ASvc m) (dot_join svc n') = Some h.
Proof. exact names_svc_assignable. Qed.
Print Assumptions c17_names_assignable.

Theorem c17_builtin_gate_reserved : forall a n,
  has_prefix rpc_prefix n = true ->
  server_assign true a n = if beq n rpc_server_info then Some TBuiltinInfo else None.
Proof. exact gate_builtin_reserved. Qed.
Print Assumptions c17_builtin_gate_reserved.

Theorem c17_builtin_gate_ignores_assigner : forall a a' n,
  has_prefix rpc_prefix n = true -> server_assign true a n = server_assign true a' n.
Proof. exact gate_ignores_assigner. Qed.
Print Assumptions c17_builtin_gate_ignores_assigner.

Theorem c17_builtin_gate_other : forall a n,
  has_prefix rpc_prefix n = false -> server_assign true a n = option_map TUser (assign a n).
Proof. exact gate_builtin_other. Qed.
Print Assumptions c17_builtin_gate_other.

Theorem c17_gate_disabled : forall a n, server_assign false a n = option_map TUser (assign a n).
Proof. exact gate_disabled. Qed.
Print Assumptions c17_gate_disabled.

Theorem c17_prefix_exact : forall n,
  has_prefix rpc_prefix n = true <-> exists r, n = [114; 112; 99; 46] ++ r.
Proof. exact prefix_exact. Qed.
Print Assumptions c17_prefix_exact.

Theorem c17_context : forall b a r,
  d_ctx_assigner (dispatch_request b a r) = r /\ d_ctx_handler (dispatch_request b a r) = r /\
  d_target (dispatch_request b a r) = server_assign b a (rq_method r).
Proof. exact context_is_request. Qed.
Print Assumptions c17_context.
