(* C17 — Method dispatch: exact names, first-dot service split, reserved rpc.* names.
   This file only restates the property theorems; proofs are in disp/DispatchProofs.v and
   disp/DispatchMore.v (the latter also links the dispatch model to the server model,
   srv/SrvModel.v, and models the request context) and disp/DispatchReach.v (the gate as an
   invariant of the server model's transition system). *)
From Coq Require Import List NArith Bool Sorting.Sorted Sorting.Permutation.
From JV Require Import Bytes Sort Msg Dispatch DispatchProofs DispatchMore.
From JV Require SrvModel SrvLemmas DispatchReach.
Import ListNotations.
Local Open Scope N_scope.

Theorem c17_map_exact : forall m n, assign (AMap m) n = lookup n m.
Proof. exact map_exact. Qed.
Print Assumptions c17_map_exact.

Theorem c17_service_split : forall m n h,
  assign (ASvc m) n = Some h <->
  exists svc rest a', n = svc ++ ascii_dot :: rest /\ ~ In ascii_dot svc /\
                      lookup svc m = Some a' /\ assign a' rest = Some h.
Proof. exact service_split. Qed.
Print Assumptions c17_service_split.

Theorem c17_service_no_dot : forall m n, ~ In ascii_dot n -> assign (ASvc m) n = None.
Proof. exact service_no_dot. Qed.
Print Assumptions c17_service_no_dot.

Theorem c17_service_unknown : forall m svc rest,
  ~ In ascii_dot svc -> lookup svc m = None -> assign (ASvc m) (svc ++ ascii_dot :: rest) = None.
Proof. exact service_unknown. Qed.
Print Assumptions c17_service_unknown.

Theorem c17_names_sorted : forall a ns, names a = Some ns -> Sorted ble_rel ns.
Proof. exact names_sorted. Qed.
Print Assumptions c17_names_sorted.

Theorem c17_names_map_complete : forall m n,
  In n (map fst m) <-> exists ns, names (AMap m) = Some ns /\ In n ns.
Proof. exact names_map_complete. Qed.
Print Assumptions c17_names_map_complete.

Theorem c17_names_svc_complete : forall m n,
  (exists ns, names (ASvc m) = Some ns /\ In n ns) <->
  exists svc a', In (svc, a') m /\
    match names a' with
    | None => n = dot_join svc star
    | Some ns' => exists n', In n' ns' /\ n = dot_join svc n'
    end.
Proof. exact names_svc_complete. Qed.
Print Assumptions c17_names_svc_complete.

Theorem c17_names_assignable : forall m svc a' n' h,
  lookup svc m = Some a' -> ~ In ascii_dot svc -> assign a' n' = Some h ->
  assign (ASvc m) (dot_join svc n') = Some h.
Proof. exact names_svc_assignable. Qed.
Print Assumptions c17_names_assignable.

Theorem c17_builtin_gate_reserved : forall a n,
  has_prefix rpc_prefix n = true ->
  server_assign true a n = if beq n rpc_server_info then Some TBuiltinInfo else None.
Proof. exact gate_builtin_reserved. Qed.
Print Assumptions c17_builtin_gate_reserved.

Theorem c17_builtin_gate_ignores_assigner : forall a a' n,
  has_prefix rpc_prefix n = true -> server_assign true a n = server_assign true a' n.
Proof. exact gate_ignores_assigner. Qed.
Print Assumptions c17_builtin_gate_ignores_assigner.

Theorem c17_builtin_gate_other : forall a n,
  has_prefix rpc_prefix n = false -> server_assign true a n = option_map TUser (assign a n).
Proof. exact gate_builtin_other. Qed.
Print Assumptions c17_builtin_gate_other.

Theorem c17_gate_disabled : forall a n, server_assign false a n = option_map TUser (assign a n).
Proof. exact gate_disabled. Qed.
Print Assumptions c17_gate_disabled.

Theorem c17_prefix_exact : forall n,
  has_prefix rpc_prefix n = true <-> exists r, n = [114; 112; 99; 46] ++ r.
Proof. exact prefix_exact. Qed.
Print Assumptions c17_prefix_exact.

(* ---- rpc.serverInfo and Names ---- *)

(* the method list of rpc.serverInfo: Names() - sorted - for an assigner that is a Namer, ["*"]
   for one that is not (in the model: AOpaque) *)
Theorem c17_info_methods : forall a,
  (forall ns, names a = Some ns -> info_methods a = ns /\ Sorted ble_rel ns) /\
  (names a = None -> info_methods a = [star]) /\
  (names a = None <-> exists m, a = AOpaque m).
Proof. exact info_methods_spec. Qed.
Print Assumptions c17_info_methods.

(* 'Names lists every method': for a Map (a Go map: every key once) Names() is a duplicate-free,
   sorted permutation of the keys *)
Theorem c17_names_nodup : forall m,
  NoDup (map fst m) ->
  exists ns, names (AMap m) = Some ns /\ NoDup ns /\ Permutation (map fst m) ns /\ Sorted ble_rel ns.
Proof. exact names_map_nodup. Qed.
Print Assumptions c17_names_nodup.

(* ---- the link to the server model ---- *)

(* What the server model (srv/SrvModel.v, the transition system of C01..C12) does when it assigns
   a method IS the gate above, applied to the Map of the model's method names (handler identities
   do not matter to the server model: 0 for all); Some true = the built-in rpc.serverInfo.  So
   the c17_*gate* theorems speak about every task the server model makes. *)
Theorem c17_server_model_link : forall s m,
  SrvModel.assign_method s m =
  option_map is_builtin (server_assign (SrvModel.c_builtin s) (methods_assigner (SrvModel.c_methods s)) m).
Proof. exact assign_method_link. Qed.
Print Assumptions c17_server_model_link.

Theorem c17_server_model_names : forall ms,
  exists ns, names (methods_assigner ms) = Some ns /\ Permutation ms ns /\ Sorted ble_rel ns.
Proof. exact methods_assigner_names. Qed.
Print Assumptions c17_server_model_names.

(* A request that passed the pre-checks (no duplicate id, no deferred error, non-empty method):
   setContext ran, and the task is what the gate says for its method - `method not found` when the
   gate yields no target; ready to run, as the built-in or as a user handler, otherwise. *)
Theorem c17_task_dispatch : forall s u ids m,
  SrvModel.pre_err s ids m = None -> j_method m <> [] ->
  let t := SrvModel.mk_task s u ids m in
  SrvModel.t_hasctx t = true /\ SrvModel.t_method t = j_method m /\
  match server_assign (SrvModel.c_builtin s) (methods_assigner (SrvModel.c_methods s)) (j_method m) with
  | None => SrvModel.t_pre t = Some SrvModel.err_not_found /\ SrvModel.t_st t = SrvModel.TSkip /\
            SrvModel.t_builtin t = false
  | Some tg => SrvModel.t_pre t = None /\ SrvModel.t_st t = SrvModel.TAtAcquire /\
               SrvModel.t_builtin t = is_builtin tg
  end.
Proof. exact mk_task_dispatch. Qed.
Print Assumptions c17_task_dispatch.

(* ... spelled out: a reserved rpc.* name other than rpc.serverInfo is method-not-found whatever
   the user's methods are (rpc.serverInfo is the built-in); every other name - and every name with
   DisableBuiltin - is method-not-found iff the assigner does not have it *)
Theorem c17_task_gate : forall s u ids m,
  SrvModel.pre_err s ids m = None -> j_method m <> [] ->
  let t := SrvModel.mk_task s u ids m in
  (SrvModel.c_builtin s = true -> has_prefix rpc_prefix (j_method m) = true ->
     (j_method m = rpc_server_info ->
        SrvModel.t_pre t = None /\ SrvModel.t_builtin t = true /\ SrvModel.t_st t = SrvModel.TAtAcquire) /\
     (j_method m <> rpc_server_info ->
        SrvModel.t_pre t = Some SrvModel.err_not_found /\ SrvModel.t_st t = SrvModel.TSkip)) /\
  (SrvModel.c_builtin s = false \/ has_prefix rpc_prefix (j_method m) = false ->
     (assign (methods_assigner (SrvModel.c_methods s)) (j_method m) = None <->
        ~ In (j_method m) (SrvModel.c_methods s)) /\
     (~ In (j_method m) (SrvModel.c_methods s) ->
        SrvModel.t_pre t = Some SrvModel.err_not_found /\ SrvModel.t_st t = SrvModel.TSkip) /\
     (In (j_method m) (SrvModel.c_methods s) ->
        SrvModel.t_pre t = None /\ SrvModel.t_builtin t = false /\ SrvModel.t_st t = SrvModel.TAtAcquire)).
Proof. exact mk_task_gate. Qed.
Print Assumptions c17_task_gate.

(* The pre-gates.  A request with a duplicate id or a deferred validation error, or with an empty
   method name, fails BEFORE setContext and the assignment: the assigner is not consulted - the
   task is the same for every method set and either DisableBuiltin setting (s' is any state with
   the same ids in use) - and it carries no context. *)
Theorem c17_task_pregate : forall s s' u ids m,
  SrvModel.used s = SrvModel.used s' ->
  SrvModel.pre_err s ids m <> None \/ j_method m = [] ->
  let t := SrvModel.mk_task s u ids m in
  SrvModel.mk_task s' u ids m = t /\ SrvModel.t_hasctx t = false /\ SrvModel.t_st t = SrvModel.TSkip /\
  SrvModel.t_builtin t = false /\
  (forall e, SrvModel.pre_err s ids m = Some e -> SrvModel.t_pre t = Some e) /\
  (SrvModel.pre_err s ids m = None -> SrvModel.t_pre t = Some SrvModel.err_empty_method).
Proof. exact mk_task_pregate. Qed.
Print Assumptions c17_task_pregate.

Theorem c17_duplicate_id_pregate : forall s ids m,
  fix_id (j_id m) <> [] ->
  SrvModel.assoc (fix_id (j_id m)) (SrvModel.used s) <> None \/
    (1 < SrvModel.count_bytes (fix_id (j_id m)) ids)%nat ->
  SrvModel.pre_err s ids m = Some SrvModel.err_dup.
Proof. exact pre_err_duplicate. Qed.
Print Assumptions c17_duplicate_id_pregate.

(* every task of the transition system is made this way: the dispatcher's nextRequest step
   (label LRelNext) appends mk_task of every member of the batch at the head of the queue *)
Theorem c17_tasks_made_by_mk_task : forall s batch ms q,
  SrvModel.inq s = (batch, ms) :: q ->
  SrvModel.tasks (SrvModel.dequeue s) =
  SrvModel.tasks s ++
  map (SrvModel.mk_task s (length (SrvModel.units s)) (map (fun m => fix_id (j_id m)) ms)) ms.
Proof. exact dequeue_tasks. Qed.
Print Assumptions c17_tasks_made_by_mk_task.

(* ON THE TRANSITION SYSTEM.  In every reachable state of a server with configuration c (method
   names cf_methods c, built-ins enabled iff cf_builtin c), every task whose context was attached
   is exactly what the gate says for its method under THAT configuration - method-not-found when
   the gate yields no target, otherwise no error and the built-in flag of the target - and every
   other task failed a pre-check (it has an error; the assigner was never consulted). *)
Theorem c17_reach_gated : forall c s k t,
  SrvLemmas.reach c s -> nth_error (SrvModel.tasks s) k = Some t ->
  (SrvModel.t_hasctx t = true ->
     match server_assign (SrvLemmas.cf_builtin c) (methods_assigner (SrvLemmas.cf_methods c)) (SrvModel.t_method t) with
     | None => SrvModel.t_pre t = Some SrvModel.err_not_found
     | Some tg => SrvModel.t_pre t = None /\ SrvModel.t_builtin t = is_builtin tg
     end) /\
  (SrvModel.t_hasctx t = false -> SrvModel.t_pre t <> None /\ SrvModel.t_builtin t = false).
Proof. exact DispatchReach.reach_gated. Qed.
Print Assumptions c17_reach_gated.

(* ... so a task that may run (only tasks without a recorded error ever start a handler: C02) is
   either the built-in rpc.serverInfo - only while built-ins are enabled - or a method the
   assigner has under its exact name, and never a reserved rpc.* name while built-ins are enabled *)
Theorem c17_reach_runnable_assigned : forall c s k t,
  SrvLemmas.reach c s -> nth_error (SrvModel.tasks s) k = Some t -> SrvModel.t_pre t = None ->
  (SrvModel.t_builtin t = true /\ SrvLemmas.cf_builtin c = true /\ SrvModel.t_method t = rpc_server_info) \/
  (SrvModel.t_builtin t = false /\ In (SrvModel.t_method t) (SrvLemmas.cf_methods c) /\
   (SrvLemmas.cf_builtin c = true -> has_prefix rpc_prefix (SrvModel.t_method t) = false)).
Proof. exact DispatchReach.reach_runnable_assigned. Qed.
Print Assumptions c17_reach_runnable_assigned.

(* ---- the context ---- *)

(* (definitional: the extracted dispatch_request hands the request itself to both) *)
Theorem c17_context : forall b a r,
  d_ctx_assigner (dispatch_request b a r) = r /\ d_ctx_handler (dispatch_request b a r) = r /\
  d_target (dispatch_request b a r) = server_assign b a (rq_method r).
Proof. exact context_is_request. Qed.
Print Assumptions c17_context.

(* The context with content.  A context is what ctx.go can observe of it: the request stored under
   inboundRequestKey (inbound_request = InboundRequest) and whether a server is stored under
   serverKey (server_from_context = ServerFromContext, which panics without one).  setContext
   attaches the request BEFORE the assignment; the server is added in invoke, for the handler only
   (server.go).  dispatch_request' gives the context the assigner is called with (None: it is not
   called - a reserved name while built-ins are enabled) and the one the handler is called with
   (None: no handler).  Then: same target and same inbound request as the extracted
   dispatch_request; assigner and handler both see the request being dispatched; the handler's
   context has the server and is the assigner's context plus the server; the ASSIGNER's context has
   NO server (ServerFromContext panics there). *)
Theorem c17_context_observed : forall b a r,
  let d := dispatch_request' b a r in
  d'_target d = d_target (dispatch_request b a r) /\
  (forall c, d'_ctx_assigner d = Some c ->
     inbound_request c = Some (d_ctx_assigner (dispatch_request b a r))) /\
  (forall c, d'_ctx_handler d = Some c ->
     inbound_request c = Some (d_ctx_handler (dispatch_request b a r))) /\
  (forall c, d'_ctx_assigner d = Some c -> inbound_request c = Some r) /\
  (forall c, d'_ctx_handler d = Some c -> inbound_request c = Some r) /\
  (forall c, d'_ctx_handler d = Some c -> server_from_context c = SfcServer) /\
  (forall c, d'_ctx_assigner d = Some c -> server_from_context c = SfcPanic) /\
  (d'_ctx_assigner d = None <-> b = true /\ has_prefix rpc_prefix (rq_method r) = true) /\
  (d'_ctx_handler d = None <-> d'_target d = None) /\
  (forall ca ch, d'_ctx_assigner d = Some ca -> d'_ctx_handler d = Some ch -> ch = invoke_ctx ca).
Proof. exact dispatch_context. Qed.
Print Assumptions c17_context_observed.
