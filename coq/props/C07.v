(* C07 — Server: cancellation hits only its target; ids reserved only while in flight.
   This file only restates the property theorems; proofs are in srv/SrvBasics.v and srv/SrvC07.v. *)
From Coq Require Import List NArith ZArith Bool Arith.
From RecordUpdate Require Import RecordUpdate.
From JV Require Import Bytes Msg SrvModel SrvLemmas SrvBasics SrvC07.
From JV Require SrvNoCrash.
Import ListNotations.

(* 1. In every reachable state a reservation (id, k) belongs to the context-carrying call k with that id whose
      reply has not been delivered; ids are reserved at most once; a stopped server reserves nothing. *)
Theorem c07_reserved_inflight : forall c s, reach c s ->
  (forall id k, In (id, k) (used s) ->
     exists t un, nth_error (tasks s) k = Some t /\ t_id t = id /\ id <> [] /\ t_hasctx t = true /\
                  nth_error (units s) (t_unit t) = Some un /\ u_st un <> UFinished) /\
  NoDup (map fst (used s)) /\
  (running s = false -> used s = []).
Proof. exact SrvC07.c07_reserved_inflight. Qed.
Print Assumptions c07_reserved_inflight.

(* Conversely, while the server runs every context-carrying call whose reply has not been delivered is reserved
   under its own index (in every reachable state: none has crashed, SrvC08.no_crash). *)
Theorem c07_inflight_reserved : forall c s, reach c s -> running s = true ->
  forall k t un, nth_error (tasks s) k = Some t -> t_hasctx t = true -> t_id t <> [] ->
    nth_error (units s) (t_unit t) = Some un -> u_st un <> UFinished -> assoc (t_id t) (used s) = Some k.
Proof. exact SrvNoCrash.c07_inflight_reserved. Qed.
Print Assumptions c07_inflight_reserved.

(* 2. A context is cancelled only by CancelRequest of the id of that very in-flight call, by a stop
      (Stop, or the reader's receive error), or by the delivery of its own reply. *)
Theorem c07_cancel_targets : forall c s l s' os k t t', reach c s -> step s l = Some (s', os) ->
  nth_error (tasks s) k = Some t -> nth_error (tasks s') k = Some t' ->
  t_cancelled t = false -> t_cancelled t' = true ->
  (exists n id, l = LRelCancel n /\ find_op n (ops s) = Some (OpCancel n id) /\ assoc id (used s) = Some k /\ t_id t = id)
  \/ (exists n, l = LRelStop n)
  \/ (l = LRelRead /\ exists e, rd s = RHold (FErr e))
  \/ l = LRelDeliver (t_unit t).
Proof. exact SrvC07.c07_cancel_targets_explicit. Qed.
Print Assumptions c07_cancel_targets.

(* 3. CancelRequest of an id that is not reserved only consumes the pending operation and returns nil. *)
Theorem c07_cancel_unknown_noop : forall s n id,
  find_op n (ops s) = Some (OpCancel n id) -> assoc id (used s) = None ->
  step_raw s (LRelCancel n) = Some (s <| ops ::= del_op n |>, [ORet n AOk]).
Proof. exact SrvC07.c07_cancel_unknown_noop. Qed.
Print Assumptions c07_cancel_unknown_noop.

Theorem c07_cancel_unknown_noop_step : forall s n id s' os,
  find_op n (ops s) = Some (OpCancel n id) -> assoc id (used s) = None ->
  step s (LRelCancel n) = Some (s', os) ->
  (forall k t, nth_error (tasks s) k = Some t -> nth_error (tasks s') k = Some t) /\
  exists extra, os = ORet n AOk :: extra /\ Forall settle_obs extra.
Proof. exact SrvC07.c07_cancel_unknown_noop_step. Qed.
Print Assumptions c07_cancel_unknown_noop_step.

(* 4. A member whose id is reserved, or repeated within its message, is rejected as a duplicate (each copy),
      gets no context and never runs; the owner's reservation and every existing task are untouched. *)
Theorem c07_duplicate_rejected : forall s batch ms q i m,
  inq s = (batch, ms) :: q -> nth_error ms i = Some m ->
  fix_id (j_id m) <> [] ->
  assoc (fix_id (j_id m)) (used s) <> None \/ 2 <= count_bytes (fix_id (j_id m)) (msg_ids ms) ->
  exists t, nth_error (tasks (dequeue s)) (length (tasks s) + i) = Some t /\
    t_id t = fix_id (j_id m) /\ t_pre t = Some err_dup /\ t_hasctx t = false /\ t_st t = TSkip /\
    assoc (fix_id (j_id m)) (used (dequeue s)) = assoc (fix_id (j_id m)) (used s) /\
    (forall k t0, nth_error (tasks s) k = Some t0 -> nth_error (tasks (dequeue s)) k = Some t0).
Proof. exact SrvC07.c07_duplicate_rejected. Qed.
Print Assumptions c07_duplicate_rejected.

(* 5. Delivery releases the ids of the calls it answers, whatever their outcome; an id that is not reserved
      is accepted again. *)
Theorem c07_released_by_deliver : forall s u s1 os t,
  step_raw s (LRelDeliver u) = Some (s1, os) -> In t (unit_tasks s u) -> t_hasctx t = true -> t_id t <> [] ->
  assoc (t_id t) (used s1) = None.
Proof. exact SrvC07.c07_released_by_deliver. Qed.
Print Assumptions c07_released_by_deliver.

Theorem c07_accept_unreserved : forall s u ids m b,
  assoc (fix_id (j_id m)) (used s) = None -> count_bytes (fix_id (j_id m)) ids <= 1 -> j_err m = None ->
  pre_err s ids m = None /\
  (j_method m <> [] -> assign_method s (j_method m) = Some b ->
   let t := mk_task s u ids m in t_pre t = None /\ t_hasctx t = true /\ t_st t = TAtAcquire).
Proof. exact SrvC07.c07_accept_unreserved. Qed.
Print Assumptions c07_accept_unreserved.

Theorem c07_reusable_after_reply : forall s u s1 os t ids m,
  step_raw s (LRelDeliver u) = Some (s1, os) -> In t (unit_tasks s u) -> t_hasctx t = true -> t_id t <> [] ->
  fix_id (j_id m) = t_id t -> count_bytes (t_id t) ids <= 1 -> j_err m = None ->
  pre_err s1 ids m = None.
Proof. exact SrvC07.c07_reusable_after_reply. Qed.
Print Assumptions c07_reusable_after_reply.
