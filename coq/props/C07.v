(* C07 — Server: cancellation hits only its target; ids reserved only while in flight.
   This file only restates the property theorems; proofs are in srv/SrvBasics.v, srv/SrvC07.v and srv/SrvC07b.v.

   GAP LEFT TO THE HARNESS (not a theorem of this file).  The property names three causes for the cancellation of the
   context a handler receives: (1) CancelRequest for the id of that very in-flight call, (2) the server stops,
   (3) ITS BASE CONTEXT ENDS.  The base context is the value returned by ServerOptions.NewContext for that request
   (server.go: setContext builds t.ctx = WithValue(s.newctx(), ...), and for a call WithCancel on top of it, whose
   cancel function is what s.used[id] stores).  srv/SrvModel.v has no base context: there is no label for "the
   context returned by NewContext for task k is cancelled / reaches its deadline", t_cancelled is only ever set by
   cancel_task, i.e. by the stored cancel function of a CALL.  Consequently the theorems below prove the clause
   "cancelled ONLY by (1), (2) [or the post-reply cancel of its own delivery]" for servers whose NewContext returns a
   context that never ends (the default, context.Background), and say nothing about:
     a. cause (3) itself: when the base context of request k ends, the context seen by handler k is cancelled, with
        the base context's error (context.Canceled or context.DeadlineExceeded), and sem.Acquire of a request still
        waiting for a slot fails with that error: a call is then answered with that error (code Cancelled or
        DeadlineExceeded; the model only ever produces cancel_err = Cancelled / "context canceled"), its handler never
        runs; a notification whose Acquire fails still signals the barrier (nbar.Done);
     b. notifications: in Go a notification has a context too (derived from its base context without a stored cancel
        function), so it CAN be cancelled by cause (3) and only by it; the model-level fact notes_never_cancelled
        (srv/SrvC03.v, used for C01 notification_once) is an artefact of the omission;
     c. non-interference of cause (3): the end of the base context of request k must not cancel the context of any
        request whose base context is a different, still live context, and must not touch the reservation table
        (the id stays reserved until the reply is delivered; a second request with that id is still a duplicate);
        with a SHARED base context (NewContext returning the same context for all requests) its end cancels every
        in-flight request and nothing else changes (no Stop, the server keeps serving new requests, whose contexts
        are born cancelled).
   These are checked by the concurrency harness only (harness/conc, racing scenarios): a server configured with a
   NewContext that hands out per-request cancellable contexts (and one shared context), the harness cancelling /
   expiring a chosen base context at a scheduling point while other requests are parked before the semaphore, queued
   in it, inside their handler, or finished but not yet delivered, with monitors that compare for every handler the
   observed ctx.Err() at its gate with the set of causes that occurred for that request (own CancelRequest, Stop,
   own base context) and flag a cancellation with no cause or a missing one.  Closing the gap in Coq needs a model
   change (a label LBaseCtxEnd k / a shared variant, cancelling tasks with t_hasctx whether call or notification, a
   queued waiter leaving the queue with the base error) and a fifth disjunct in c07_cancel_targets; SrvModel.v is
   frozen (tied to the Go code by the differential harness), so this was not done here. *)
From Coq Require Import List NArith ZArith Bool Arith.
From RecordUpdate Require Import RecordUpdate.
From JV Require Import Bytes Msg SrvModel SrvLemmas SrvBasics SrvC07 SrvC07b.
From JV Require SrvNoCrash.
Import ListNotations.

(* 1. In every reachable state a reservation (id, k) belongs to the context-carrying call k with that id whose
      reply has not been delivered; ids are reserved at most once; a stopped server reserves nothing. *)
Theorem c07_reserved_inflight : forall c s, reach c s ->
  (forall id k, In (id, k) (used s) ->
     exists t un, nth_error (tasks s) k = Some t /\ t_id t = id /\ id <> [] /\ t_hasctx t = true /\
                  nth_error (units s) (t_unit t) = Some un /\ u_st un <> UFinished) /\
  NoDup (map fst (used s)) /\
  (running s = false -> used s = []).
Proof. exact SrvC07.c07_reserved_inflight. Qed.
Print Assumptions c07_reserved_inflight.

(* Conversely, while the server runs every context-carrying call whose reply has not been delivered is reserved
   under its own index (in every reachable state: none has crashed, SrvC08.no_crash). *)
Theorem c07_inflight_reserved : forall c s, reach c s -> running s = true ->
  forall k t un, nth_error (tasks s) k = Some t -> t_hasctx t = true -> t_id t <> [] ->
    nth_error (units s) (t_unit t) = Some un -> u_st un <> UFinished -> assoc (t_id t) (used s) = Some k.
Proof. exact SrvNoCrash.c07_inflight_reserved. Qed.
Print Assumptions c07_inflight_reserved.

(* 2. A context is cancelled only by CancelRequest of the id of that very in-flight call, by a stop
      (Stop, or the reader's receive error), or by the delivery of its own reply. *)
Theorem c07_cancel_targets : forall c s l s' os k t t', reach c s -> step s l = Some (s', os) ->
  nth_error (tasks s) k = Some t -> nth_error (tasks s') k = Some t' ->
  t_cancelled t = false -> t_cancelled t' = true ->
  (exists n id, l = LRelCancel n /\ find_op n (ops s) = Some (OpCancel n id) /\ assoc id (used s) = Some k /\ t_id t = id)
  \/ (exists n, l = LRelStop n)
  \/ (l = LRelRead /\ exists e, rd s = RHold (FErr e))
  \/ l = LRelDeliver (t_unit t).
Proof. exact SrvC07.c07_cancel_targets_explicit. Qed.
Print Assumptions c07_cancel_targets.

(* 3. CancelRequest of an id that is not reserved only consumes the pending operation and returns nil. *)
Theorem c07_cancel_unknown_noop : forall s n id,
  find_op n (ops s) = Some (OpCancel n id) -> assoc id (used s) = None ->
  step_raw s (LRelCancel n) = Some (s <| ops ::= del_op n |>, [ORet n AOk]).
Proof. exact SrvC07.c07_cancel_unknown_noop. Qed.
Print Assumptions c07_cancel_unknown_noop.

Theorem c07_cancel_unknown_noop_step : forall s n id s' os,
  find_op n (ops s) = Some (OpCancel n id) -> assoc id (used s) = None ->
  step s (LRelCancel n) = Some (s', os) ->
  (forall k t, nth_error (tasks s) k = Some t -> nth_error (tasks s') k = Some t) /\
  exists extra, os = ORet n AOk :: extra /\ Forall settle_obs extra.
Proof. exact SrvC07.c07_cancel_unknown_noop_step. Qed.
Print Assumptions c07_cancel_unknown_noop_step.

(* 4. A member whose id is reserved, or repeated within its message, is rejected as a duplicate (each copy),
      gets no context and never runs; the owner's reservation and every existing task are untouched. *)
Theorem c07_duplicate_rejected : forall s batch ms q i m,
  inq s = (batch, ms) :: q -> nth_error ms i = Some m ->
  fix_id (j_id m) <> [] ->
  assoc (fix_id (j_id m)) (used s) <> None \/ 2 <= count_bytes (fix_id (j_id m)) (msg_ids ms) ->
  exists t, nth_error (tasks (dequeue s)) (length (tasks s) + i) = Some t /\
    t_id t = fix_id (j_id m) /\ t_pre t = Some err_dup /\ t_hasctx t = false /\ t_st t = TSkip /\
    assoc (fix_id (j_id m)) (used (dequeue s)) = assoc (fix_id (j_id m)) (used s) /\
    (forall k t0, nth_error (tasks s) k = Some t0 -> nth_error (tasks (dequeue s)) k = Some t0).
Proof. exact SrvC07.c07_duplicate_rejected. Qed.
Print Assumptions c07_duplicate_rejected.

(* 5. Delivery releases the ids of the calls it answers, whatever their outcome; an id that is not reserved
      is accepted again. *)
Theorem c07_released_by_deliver : forall s u s1 os t,
  step_raw s (LRelDeliver u) = Some (s1, os) -> In t (unit_tasks s u) -> t_hasctx t = true -> t_id t <> [] ->
  assoc (t_id t) (used s1) = None.
Proof. exact SrvC07.c07_released_by_deliver. Qed.
Print Assumptions c07_released_by_deliver.

Theorem c07_accept_unreserved : forall s u ids m b,
  assoc (fix_id (j_id m)) (used s) = None -> count_bytes (fix_id (j_id m)) ids <= 1 -> j_err m = None ->
  pre_err s ids m = None /\
  (j_method m <> [] -> assign_method s (j_method m) = Some b ->
   let t := mk_task s u ids m in t_pre t = None /\ t_hasctx t = true /\ t_st t = TAtAcquire).
Proof. exact SrvC07.c07_accept_unreserved. Qed.
Print Assumptions c07_accept_unreserved.

Theorem c07_reusable_after_reply : forall s u s1 os t ids m,
  step_raw s (LRelDeliver u) = Some (s1, os) -> In t (unit_tasks s u) -> t_hasctx t = true -> t_id t <> [] ->
  fix_id (j_id m) = t_id t -> count_bytes (t_id t) ids <= 1 -> j_err m = None ->
  pre_err s1 ids m = None.
Proof. exact SrvC07.c07_reusable_after_reply. Qed.
Print Assumptions c07_reusable_after_reply.

(* 6. free iff no unfinished holder (running servers; a stopped one reserves nothing: c07_reserved_inflight).
      no_holder s id = no context-carrying task with that id belongs to a unit that has not finished. *)
Theorem c07_free_iff_no_holder : forall c s id, reach c s -> running s = true -> id <> [] ->
  (assoc id (used s) = None <->
   forall k t un, nth_error (tasks s) k = Some t -> t_id t = id -> t_hasctx t = true ->
     nth_error (units s) (t_unit t) = Some un -> u_st un = UFinished).
Proof. exact SrvC07b.c07_free_iff_no_holder. Qed.
Print Assumptions c07_free_iff_no_holder.

(* hence the next request with that id is accepted: in the window of the dispatcher's nextRequest a member whose id
   has no unfinished holder and is not repeated within its message is not rejected as a duplicate, and if it is valid
   with a known method it gets a context and is parked before the semaphore.  (c07_free_id_accepted: the same for the
   dequeue performed in any intermediate state of any window.) *)
Theorem c07_free_id_accepted_step : forall c s s' os b ms q i m, reach c s -> running s = true ->
  step s LRelNext = Some (s', os) -> inq s = (b, ms) :: q ->
  nth_error ms i = Some m -> fix_id (j_id m) <> [] -> no_holder s (fix_id (j_id m)) ->
  count_bytes (fix_id (j_id m)) (msg_ids ms) <= 1 -> j_err m = None ->
  exists t, nth_error (tasks s') (length (tasks s) + i) = Some t /\ t_id t = fix_id (j_id m) /\
    t_pre t <> Some err_dup /\
    (j_method m <> [] -> forall bb, assign_method s (j_method m) = Some bb ->
       t_pre t = None /\ t_hasctx t = true /\ t_st t = TAtAcquire).
Proof. exact SrvC07b.c07_free_id_accepted_step. Qed.
Print Assumptions c07_free_id_accepted_step.

Theorem c07_free_id_accepted : forall c s b ms q i m, reachf c s -> running s = true -> inq s = (b, ms) :: q ->
  nth_error ms i = Some m -> fix_id (j_id m) <> [] -> no_holder s (fix_id (j_id m)) ->
  count_bytes (fix_id (j_id m)) (msg_ids ms) <= 1 -> j_err m = None ->
  exists t, nth_error (tasks (dequeue s)) (length (tasks s) + i) = Some t /\ t_id t = fix_id (j_id m) /\
    t_pre t <> Some err_dup /\
    (j_method m <> [] -> forall bb, assign_method s (j_method m) = Some bb ->
       t_pre t = None /\ t_hasctx t = true /\ t_st t = TAtAcquire).
Proof. exact SrvC07b.c07_free_id_accepted. Qed.
Print Assumptions c07_free_id_accepted.

(* once the reply of a unit has been sent (the whole deliver window, on the transition system), the ids of its
   context-carrying calls are free again, whatever their outcome, and nothing unfinished holds them *)
Theorem c07_reply_frees_id : forall c s u s' os t, reach c s -> step s (LRelDeliver u) = Some (s', os) ->
  In t (unit_tasks s u) -> t_hasctx t = true -> t_id t <> [] ->
  assoc (t_id t) (used s') = None /\ (running s' = true -> no_holder s' (t_id t)).
Proof. exact SrvC07b.c07_reply_frees_id. Qed.
Print Assumptions c07_reply_frees_id.

(* 7. a duplicate's error reply leaves the owner alone: the delivery of unit u does not cancel the context of a task
      of another unit and does not touch its reservation *)
Theorem c07_deliver_leaves_others : forall c s u s' os k t, reach c s -> step s (LRelDeliver u) = Some (s', os) ->
  nth_error (tasks s) k = Some t -> t_unit t <> u ->
  exists t', nth_error (tasks s') k = Some t' /\ t_cancelled t' = t_cancelled t /\
    (assoc (t_id t) (used s) = Some k -> assoc (t_id t) (used s') = Some k).
Proof. exact SrvC07b.c07_deliver_leaves_others. Qed.
Print Assumptions c07_deliver_leaves_others.

(** * Monitor over the observation sequence of a run (srv/SrvMonitors2.v, proof: srv/SrvMonDup.v), extracted and
    evaluated by the model runner on every harness log, racing ones included.  [env_of tr] = the environment labels of
    the trace in order, [concat oss] = the observations of the run in order; [dup_ids os] = the ids of the replies in
    os whose body is the error (-32600, "duplicate request ID"); [fed_ids env] = the ids (after fixID) of the members
    fed; [label_excuse l] = the environment itself produced that error value (a handler outcome LGate _ (OErr ..) or
    the recorded parse error of a fed member);
    [mon_duplicate env os] = some label of env is an excuse, or every id of dup_ids os is null or occurs at least
    twice in fed_ids env. *)
From JV Require SrvMonitors SrvMonitors2 SrvMonDup SrvMonitors3 SrvMonCancel.
Module Monitors.
Import SrvMonitors SrvMonitors2 SrvMonitors3.
Theorem c07_mon_duplicate_sound : forall c tr s oss, run (init_of c) tr = Some (s, oss) ->
  mon_duplicate (env_of tr) (concat oss) = true.
Proof. exact SrvMonDup.mon_duplicate_sound. Qed.
Print Assumptions c07_mon_duplicate_sound.

(* a reply with the duplicate-id error and an id other than null is sent only if two members with that id were fed *)
Theorem c07_dup_reply_fed_twice : forall c tr s oss i, run (init_of c) tr = Some (s, oss) ->
  existsb label_excuse (env_of tr) = false -> In i (dup_ids (concat oss)) ->
  i = null_bytes \/ 2 <= count_bytes i (fed_ids (env_of tr)).
Proof. exact SrvMonDup.dup_reply_fed_twice. Qed.
Print Assumptions c07_dup_reply_fed_twice.

(* the hypothesis is needed: a handler that returns that very error value has it sent for an id received once *)
Theorem c07_dup_reply_fed_twice_unconditional_refuted :
  exists tr s oss i, run (init_of ex_cfg) tr = Some (s, oss) /\ In i (dup_ids (concat oss)) /\ i <> null_bytes /\
    count_bytes i (fed_ids (env_of tr)) = 1 /\ existsb label_excuse (env_of tr) = true.
Proof. exact SrvMonDup.dup_reply_fed_twice_unconditional_refuted. Qed.
Print Assumptions c07_dup_reply_fed_twice_unconditional_refuted.

(** * Monitor for the first sentence of the property (srv/SrvMonitors3.v, proof: srv/SrvMonCancel.v), extracted and
    evaluated by the model runner on every harness log, racing ones included (except scenarios with a base context
    that ends: the model has no such cause, see the head of this file).  Counting / membership only, no interleaving.
    [cancelled_params os] = the params of the observations that report a handler context as cancelled
    ([OStart p true], [OGate p true]); [stop_in env] = env contains a stop cause (a Stop call [LCallStop _] or a fed
    Recv error [LFeed (FErr _)]); [cancel_ids env] = the ids named by the CancelRequest calls [LCallCancel _ id];
    [fed_msgs env] = the members fed; [cancel_named env p] = some fed member with params p has a non-empty id (after
    fixID) in cancel_ids env;
    [before_close os] = the observations of os before its first [OClose] (stopLocked closes the channel before it
    cancels any context);
    [mon_cancel_cause env os] = cancel_named env p for every p of cancelled_params (before_close os), and: stop_in env,
    or cancel_named env p for every p of cancelled_params os. *)
Theorem c07_mon_cancel_cause_sound : forall c tr s oss, run (init_of c) tr = Some (s, oss) ->
  mon_cancel_cause (env_of tr) (concat oss) = true.
Proof. exact SrvMonCancel.mon_cancel_cause_sound. Qed.
Print Assumptions c07_mon_cancel_cause_sound.

(* a context reported as cancelled before the first close of the channel (order of the observations only) was
   cancelled by CancelRequest: some fed member with the handler's params has a non-empty id that a CancelRequest call
   names *)
Theorem c07_cancelled_before_close_named : forall c tr s oss p, run (init_of c) tr = Some (s, oss) ->
  In p (cancelled_params (before_close (concat oss))) -> cancel_named (env_of tr) p = true.
Proof. exact SrvMonCancel.cancelled_before_close_named. Qed.
Print Assumptions c07_cancelled_before_close_named.

Theorem c07_before_close_spec : forall os o, In o (before_close os) <->
  exists pre post, os = pre ++ o :: post /\ ~ In OClose pre /\ o <> OClose.
Proof. exact SrvMonCancel.before_close_spec. Qed.
Print Assumptions c07_before_close_spec.

(* spelled out: a handler sees its context cancelled only if the environment stopped the server (Stop, or a Recv error
   or EOF), or called CancelRequest with the non-empty id of a fed member that carries the handler's params *)
Theorem c07_cancel_cause_spelled : forall c tr s oss p, run (init_of c) tr = Some (s, oss) ->
  In (OStart p true) (concat oss) \/ In (OGate p true) (concat oss) ->
  (exists n, In (LCallStop n) (env_of tr)) \/ (exists e, In (LFeed (FErr e)) (env_of tr)) \/
  exists m n, In m (fed_msgs (env_of tr)) /\ j_params m = p /\ idk m <> [] /\ In (LCallCancel n (idk m)) (env_of tr).
Proof. exact SrvMonCancel.cancel_cause_spelled. Qed.
Print Assumptions c07_cancel_cause_spelled.

(* with the harness's unique tokens and no stop cause: THE fed member with the handler's params is a call, and a
   CancelRequest call names its id *)
Theorem c07_cancel_cause_unique : forall c tr s oss p m, run (init_of c) tr = Some (s, oss) ->
  unique_params (env_of tr) = true -> stop_in (env_of tr) = false ->
  In (OStart p true) (concat oss) \/ In (OGate p true) (concat oss) ->
  In m (fed_msgs (env_of tr)) -> j_params m = p ->
  idk m <> [] /\ exists n, In (LCallCancel n (idk m)) (env_of tr).
Proof. exact SrvMonCancel.cancel_cause_unique. Qed.
Print Assumptions c07_cancel_cause_unique.
End Monitors.
