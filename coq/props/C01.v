(* C01 — Server: exactly one correlated response per call, none per notification.
   This file only restates the property theorems; proofs are in srv/SrvBasics.v, srv/SrvC07.v, srv/SrvC01.v. *)
From Coq Require Import List NArith ZArith Bool Arith.
From RecordUpdate Require Import RecordUpdate.
From JV Require Import Bytes Msg SrvModel SrvLemmas SrvBasics SrvC07 SrvC01 SrvHist SrvC01b.
From JV Require SrvNoCrash SrvC03.
From JV Require Import SrvC08m SrvEventually SrvProgress.
Import ListNotations.

(* 1. tasks.responses: one element per call, in request order, with the call's id and body; an id-less member
      contributes only a null-id error when it failed with -32700/-32600; a valid notification contributes nothing. *)
Theorem c01_responses_shape : forall ts,
  exists rss, Forall2 rsp_spec ts rss /\ responses ts = concat rss.
Proof. exact SrvC01.c01_responses_shape. Qed.
Print Assumptions c01_responses_shape.

Theorem c01_responses_calls : forall ts, (forall t, In t ts -> t_id t <> null_bytes) ->
  filter (fun r => negb (beq (r_id r) null_bytes)) (responses ts) =
  map (fun t => {| r_id := t_id t; r_body := task_body t |}) (filter (fun t => negb (is_note t)) ts).
Proof. exact SrvC01.c01_responses_calls. Qed.
Print Assumptions c01_responses_calls.

Theorem c01_responses_notes_silent : forall ts,
  (forall t, In t ts -> is_note t = true /\ runnable t = true) -> responses ts = [].
Proof. exact SrvC01.c01_responses_notes_silent. Qed.
Print Assumptions c01_responses_notes_silent.

(* 2. correlation: a rejected member is answered with its recorded error and never runs; the gate gives its
      outcome to exactly one running task with those params; invoke's return stores the body of that outcome. *)
Theorem c01_pre_body : forall c s k t code msg,
  reach c s -> nth_error (tasks s) k = Some t -> t_pre t = Some (code, msg) ->
  task_body t = BErr code msg /\ t_st t = TSkip /\ forall tr, enter_count k s tr = 0.
Proof. exact SrvC01.c01_pre_body. Qed.
Print Assumptions c01_pre_body.

Theorem c01_gate_window : forall s p o s' os, step s (LGate p o) = Some (s', os) ->
  exists k t, nth_error (tasks s) k = Some t /\ t_st t = TRunning /\ t_params t = p /\
    nth_error (tasks s') k = Some (t <| t_st := TAtHandled o |>) /\
    (forall j tj, j <> k -> nth_error (tasks s) j = Some tj -> nth_error (tasks s') j = Some tj).
Proof. exact SrvC01.c01_gate_window. Qed.
Print Assumptions c01_gate_window.

Theorem c01_handled_window : forall c s k s' os t o, reach c s -> step s (LRelHandled k) = Some (s', os) ->
  nth_error (tasks s) k = Some t -> t_st t = TAtHandled o ->
  nth_error (tasks s') k = Some (t <| t_st := TDone (body_of_outcome t o) |>).
Proof. exact SrvC01.c01_handled_window. Qed.
Print Assumptions c01_handled_window.

Theorem c01_done_body : forall c s k t bo, reach c s -> nth_error (tasks s) k = Some t -> t_st t = TDone bo ->
  t_pre t = None /\ (bo = Some cancel_err \/ exists o, bo = body_of_outcome t o).
Proof. exact SrvC01.c01_done_body. Qed.
Print Assumptions c01_done_body.

Theorem c01_correlated : forall c s tr s' oss k t o, reach c s -> run s tr = Some (s', oss) ->
  nth_error (tasks s) k = Some t -> t_st t = TAtHandled o ->
  exists t', nth_error (tasks s') k = Some t' /\
    (t_st t' = TAtHandled o \/ t_st t' = TDone (body_of_outcome t o)) /\
    (forall b, t_st t' = TDone (Some b) -> task_body t' = b /\ Some b = body_of_outcome t o).
Proof. exact SrvC01.c01_correlated. Qed.
Print Assumptions c01_correlated.

Theorem c01_correlated_running : forall c s tr s' oss k t, reach c s -> run s tr = Some (s', oss) ->
  nth_error (tasks s) k = Some t -> t_st t = TRunning ->
  exists t', nth_error (tasks s') k = Some t' /\
    (t_st t' = TRunning \/ exists o, t_st t' = TAtHandled o \/ t_st t' = TDone (body_of_outcome t o)).
Proof. exact SrvC01.c01_correlated_running. Qed.
Print Assumptions c01_correlated_running.

(* 3. a reply is sent by the deliver step of its unit, once, as responses of the unit's tasks with the unit's
      batch flag, when all its tasks have finished; every other message is a reader's null-id error. *)
Theorem c01_send_origin : forall c s l s' os ok b rs,
  reach c s -> step s l = Some (s', os) -> In (OSend ok b rs) os ->
  (exists u un, l = LRelDeliver u /\ nth_error (units s) u = Some un /\ u_st un = UAtDeliver /\
                rs = responses (unit_tasks s u) /\ b = u_batch un /\ all_finished s u = true) \/
  (l = LRelRead /\ b = false /\
   (rs = [null_err ParseError s_invalid_value] \/ rs = [null_err InvalidRequest s_empty_batch])).
Proof. exact SrvC01.c01_send_origin. Qed.
Print Assumptions c01_send_origin.

Theorem c01_deliver_window : forall c s u s' os, reach c s -> step s (LRelDeliver u) = Some (s', os) ->
  exists un, nth_error (units s) u = Some un /\ u_st un = UAtDeliver /\ all_finished s u = true /\
    ((u_chok un = true /\ exists ok extra,
        os = OSend ok (u_batch un) (responses (unit_tasks s u)) :: extra /\ Forall settle_obs extra) \/
     (u_chok un = false /\ os = [OCrash CrNilChannel])).
Proof. exact SrvC01.c01_deliver_window. Qed.
Print Assumptions c01_deliver_window.

Theorem c01_deliver_once : forall c tr s oss u,
  run (init_of c) tr = Some (s, oss) -> countb (is_deliver u) tr <= 1.
Proof. exact SrvC01.c01_deliver_once. Qed.
Print Assumptions c01_deliver_once.

(* 4. a handler entry is the move of one task into TRunning; that happens at most once per task on any trace,
      and never for a task rejected by checkAndAssign. *)
Theorem c01_start_origin : forall c s l s' os p cn,
  reach c s -> step s l = Some (s', os) -> In (OStart p cn) os ->
  exists k t t', nth_error (tasks s) k = Some t /\ nth_error (tasks s') k = Some t' /\
    t_params t = p /\ t_cancelled t = cn /\ rank (t_st t) < 2 /\ t_st t' = TRunning /\ t_pre t = None /\
    (l = LRelAcquire k \/ exists k0, l = LRelHandled k0 /\ k0 <> k).
Proof. exact SrvC01.c01_start_origin. Qed.
Print Assumptions c01_start_origin.

Theorem c01_handler_once : forall c tr s oss k,
  run (init_of c) tr = Some (s, oss) -> enter_count k (init_of c) tr <= 1.
Proof. exact SrvC01.c01_handler_once. Qed.
Print Assumptions c01_handler_once.

Theorem c01_skip_never_starts : forall c s k t tr e,
  reach c s -> nth_error (tasks s) k = Some t -> t_pre t = Some e -> enter_count k s tr = 0.
Proof. exact SrvC01.c01_skip_never_starts. Qed.
Print Assumptions c01_skip_never_starts.

(* 5. a message with nothing to report is never parked at deliver, is never delivered, and its unit goes from
      running to finished directly. *)
Theorem c01_silent_unit : forall c s u un tr s' oss,
  reach c s -> nth_error (units s) u = Some un ->
  responses (unit_tasks s u) = [] -> run s tr = Some (s', oss) ->
  responses (unit_tasks s' u) = [] /\
  (forall un', nth_error (units s') u = Some un' -> u_st un' <> UAtDeliver) /\
  countb (is_deliver u) tr = 0.
Proof. exact SrvC01.c01_silent_unit. Qed.
Print Assumptions c01_silent_unit.

Theorem c01_silent_unit_step : forall c s u un l s' os un',
  reach c s -> nth_error (units s) u = Some un ->
  responses (unit_tasks s u) = [] -> u_st un = URunning -> step s l = Some (s', os) ->
  nth_error (units s') u = Some un' -> u_st un' = URunning \/ u_st un' = UFinished.
Proof. exact SrvC01.c01_silent_unit_step. Qed.
Print Assumptions c01_silent_unit_step.

(* 6. at a quiescent point (no reachable state has crashed: C08), every released message whose handlers have all
      returned has been answered: a running unit still has an unfinished task, and none waits at deliver. *)
Theorem c01_quiescent_complete : forall c s, reach c s -> quiescent s = true ->
  (forall u un, nth_error (units s) u = Some un -> u_st un = URunning -> all_finished s u = false) /\
  (forall u un, nth_error (units s) u = Some un -> u_st un <> UAtDeliver).
Proof. exact SrvNoCrash.c01_quiescent_complete_nc. Qed.
Print Assumptions c01_quiescent_complete.

(* 7. units are the accepted inbound messages, first in first out.  [accepted s0 tr] is the ghost history of the
      run: what every reader window appended to the work queue (batch flag of the record, its request and
      notification members), in trace order; [alog] is the same with stops applied: a window that stops the server
      ([stop_window]: running before, not after) keeps the entries already dispatched and rewrites the queued ones
      with stop_queue (one message per retained notification).  jmem m = (fixID'ed id, method, params) of a
      member, tmem t = the same of a task, unit_hist s = the dispatch units of s as (batch flag, members). *)
Theorem c01_units_are_accepted_fifo : forall c tr s oss,
  run (init_of c) tr = Some (s, oss) -> stop_free (init_of c) tr = true ->
  unit_hist s ++ map qmem (inq s) = map qmem (accepted (init_of c) tr).
Proof. exact SrvHist.units_are_accepted_fifo. Qed.
Print Assumptions c01_units_are_accepted_fifo.

Theorem c01_units_fifo_with_stops : forall c tr s oss, run (init_of c) tr = Some (s, oss) ->
  exists done, alog (init_of c) tr [] = done ++ inq s /\ map qmem done = unit_hist s.
Proof. exact SrvHist.hist_units_fifo. Qed.
Print Assumptions c01_units_fifo_with_stops.

Theorem c01_unit_hist_nth : forall s u un, nth_error (units s) u = Some un ->
  nth_error (unit_hist s) u = Some (u_batch un, map tmem (unit_tasks s u)).
Proof. exact SrvHist.unit_hist_nth. Qed.
Print Assumptions c01_unit_hist_nth.

(* one window: a stop rewrites the queue, any other window appends what its reader accepted *)
Theorem c01_hist_window : forall c s l s' os, reach c s -> step s l = Some (s', os) ->
  unit_hist s' ++ map qmem (inq s') =
  unit_hist s ++ map qmem (if stop_window s s' then stop_queue (inq s) else inq s ++ acc_raw s l).
Proof. exact SrvHist.hist_window. Qed.
Print Assumptions c01_hist_window.

Theorem c01_stop_queue_singletons : forall q,
  Forall (fun bm => exists m, snd bm = [m] /\ keep_note m = true) (stop_queue q).
Proof. exact SrvHist.stop_queue_singletons. Qed.
Print Assumptions c01_stop_queue_singletons.

Theorem c01_stop_window_label : forall c s l s' os, reach c s -> step s l = Some (s', os) -> stop_window s s' = true ->
  (exists n, l = LRelStop n) \/ (l = LRelRead /\ exists e, rd s = RHold (FErr e)).
Proof. exact SrvHist.stop_window_label. Qed.
Print Assumptions c01_stop_window_label.

(* 8. the message sent by the deliver window of unit u answers log entry number u: it is an array iff that inbound
      message was an array (same flag b), and the replies that carry an id are those of the calls of that message,
      in request order. *)
Theorem c01_send_answers_accepted : forall c tr s oss u s' os ok b rs,
  run (init_of c) tr = Some (s, oss) -> step s (LRelDeliver u) = Some (s', os) -> In (OSend ok b rs) os ->
  exists ms, nth_error (alog (init_of c) tr []) u = Some (b, ms) /\
    rs = responses (unit_tasks s u) /\ map tmem (unit_tasks s u) = map jmem ms /\
    map r_id (filter has_id rs) = call_ids ms.
Proof. exact SrvC01b.c01_send_answers_accepted. Qed.
Print Assumptions c01_send_answers_accepted.

Theorem c01_send_answers_accepted_nostop : forall c tr s oss u s' os ok b rs,
  run (init_of c) tr = Some (s, oss) -> stop_free (init_of c) tr = true ->
  step s (LRelDeliver u) = Some (s', os) -> In (OSend ok b rs) os ->
  exists ms, nth_error (accepted (init_of c) tr) u = Some (b, ms) /\
    rs = responses (unit_tasks s u) /\ map tmem (unit_tasks s u) = map jmem ms /\
    map r_id (filter has_id rs) = call_ids ms.
Proof. exact SrvC01b.c01_send_answers_accepted_nostop. Qed.
Print Assumptions c01_send_answers_accepted_nostop.

(* 9. delivered iff non-silent.  ufin s u = unit u is finished; is_deliver u l = the label is LRelDeliver u.
      A finished unit with something to say was delivered exactly once on the trace, one with nothing to say never. *)
Theorem c01_delivered_iff_nonsilent : forall c tr s oss u, run (init_of c) tr = Some (s, oss) -> ufin s u = true ->
  (responses (unit_tasks s u) <> [] -> countb (is_deliver u) tr = 1) /\
  (responses (unit_tasks s u) = [] -> countb (is_deliver u) tr = 0).
Proof. exact SrvC01b.c01_delivered_iff_nonsilent. Qed.
Print Assumptions c01_delivered_iff_nonsilent.

(* the output history: unit_sends tr oss = the (unit, array flag, responses) of the OSend observations of the
   LRelDeliver windows of the run, in trace order; delivered tr = the units of those windows.  They are exactly the
   finished units with a non-empty reply, each once, with the unit's batch flag and the responses of its tasks
   (every other OSend of a run is a reader's null-id error: c01_send_origin). *)
Theorem c01_output_history : forall c tr s oss, run (init_of c) tr = Some (s, oss) ->
  unit_sends tr oss = map (fun u => (u, ubatch s u, responses (unit_tasks s u))) (delivered tr) /\
  NoDup (delivered tr) /\
  (forall u, In u (delivered tr) <-> ufin s u = true /\ responses (unit_tasks s u) <> []).
Proof. exact SrvC01b.c01_output_history. Qed.
Print Assumptions c01_output_history.

(* the reply of a complete unit never changes afterwards *)
Theorem c01_reply_stable_run : forall c s tr s' oss u un, reach c s -> run s tr = Some (s', oss) ->
  nth_error (units s) u = Some un -> all_finished s u = true ->
  responses (unit_tasks s' u) = responses (unit_tasks s u).
Proof. exact SrvC01b.c01_reply_stable_run. Qed.
Print Assumptions c01_reply_stable_run.

(* 10. the body of a call is the outcome of its one handler invocation.  Ghosts of the run: enter_count k s0 tr =
       number of windows in which task k moves into its handler (OStart); gate_log k s0 tr = the outcomes the LGate
       labels of the run gave to task k (an LGate p o goes to gate_idx s p = the first running task with params p).
       lifet t ec gl = what the status of a task says about them. *)
Theorem c01_task_life : forall c tr s oss k t, run (init_of c) tr = Some (s, oss) -> nth_error (tasks s) k = Some t ->
  match t_st t with
  | TSkip | TAtAcquire | TWaiting => enter_count k (init_of c) tr = 0 /\ gate_log k (init_of c) tr = []
  | TRunning => enter_count k (init_of c) tr = 1 /\ gate_log k (init_of c) tr = [] /\ t_builtin t = false
  | TAtHandled o =>
      if t_builtin t then enter_count k (init_of c) tr = 0 /\ gate_log k (init_of c) tr = [] /\ o = ORes []
      else enter_count k (init_of c) tr = 1 /\ gate_log k (init_of c) tr = [o]
  | TDone bo =>
      (enter_count k (init_of c) tr = 0 /\ gate_log k (init_of c) tr = [] /\
       (bo = Some cancel_err \/ (t_builtin t = true /\ bo = body_of_outcome t (ORes [])))) \/
      (enter_count k (init_of c) tr = 1 /\ t_builtin t = false /\
       exists o, gate_log k (init_of c) tr = [o] /\ bo = body_of_outcome t o)
  end.
Proof. exact SrvC01b.c01_task_life. Qed.
Print Assumptions c01_task_life.

Theorem c01_body_is_unique_outcome : forall c tr s oss k t b, run (init_of c) tr = Some (s, oss) ->
  nth_error (tasks s) k = Some t -> t_st t = TDone (Some b) -> t_builtin t = false -> b <> cancel_err ->
  enter_count k (init_of c) tr = 1 /\ exists o, gate_log k (init_of c) tr = [o] /\ Some b = body_of_outcome t o.
Proof. exact SrvC01b.c01_body_is_unique_outcome. Qed.
Print Assumptions c01_body_is_unique_outcome.

Theorem c01_cancel_err_body : forall c tr s oss k t, run (init_of c) tr = Some (s, oss) ->
  nth_error (tasks s) k = Some t -> t_st t = TDone (Some cancel_err) -> t_builtin t = false ->
  (enter_count k (init_of c) tr = 0 /\ gate_log k (init_of c) tr = []) \/
  (enter_count k (init_of c) tr = 1 /\ exists o, gate_log k (init_of c) tr = [o] /\ body_of_outcome t o = Some cancel_err).
Proof. exact SrvC01b.c01_cancel_err_body. Qed.
Print Assumptions c01_cancel_err_body.

Theorem c01_rejected_never_entered : forall c tr s oss k t e, run (init_of c) tr = Some (s, oss) ->
  nth_error (tasks s) k = Some t -> t_pre t = Some e ->
  enter_count k (init_of c) tr = 0 /\ gate_log k (init_of c) tr = [].
Proof. exact SrvC01b.c01_rejected_never_entered. Qed.
Print Assumptions c01_rejected_never_entered.

Theorem c01_builtin_never_entered : forall c tr s oss k t, run (init_of c) tr = Some (s, oss) ->
  nth_error (tasks s) k = Some t -> t_builtin t = true ->
  enter_count k (init_of c) tr = 0 /\ gate_log k (init_of c) tr = [].
Proof. exact SrvC01b.c01_builtin_never_entered. Qed.
Print Assumptions c01_builtin_never_entered.

(* notifications: a finished one (user handler) ran exactly once; at a quiescent point every runnable one of a
   released message has been entered exactly once unless it still waits for a slot with all slots taken *)
Theorem c01_notification_once : forall c tr s oss k t bo, run (init_of c) tr = Some (s, oss) ->
  nth_error (tasks s) k = Some t -> is_note t = true -> t_builtin t = false -> t_st t = TDone bo ->
  enter_count k (init_of c) tr = 1 /\ (exists o, gate_log k (init_of c) tr = [o]) /\ bo = None.
Proof. exact SrvC01b.c01_notification_once. Qed.
Print Assumptions c01_notification_once.

Theorem c01_notification_once_at_quiescence : forall c tr s oss k t, run (init_of c) tr = Some (s, oss) ->
  quiescent s = true -> nth_error (tasks s) k = Some t -> is_note t = true -> t_pre t = None -> t_builtin t = false ->
  SrvC03.released s (t_unit t) = true ->
  enter_count k (init_of c) tr = 1 \/
  (t_st t = TWaiting /\ sem_free s = 0 /\ enter_count k (init_of c) tr = 0).
Proof. exact SrvC01b.c01_notification_once_at_quiescence. Qed.
Print Assumptions c01_notification_once_at_quiescence.

(* 11. "no stop so far" can be read off the final state: the run has no stop window iff stopLocked never ran on a
       running server (closes = 0) *)
Theorem c01_stop_free_iff_closes : forall c tr s oss, run (init_of c) tr = Some (s, oss) ->
  (stop_free (init_of c) tr = true <-> closes s = 0).
Proof. exact SrvHist.stop_free_iff_closes. Qed.
Print Assumptions c01_stop_free_iff_closes.

(* 12. at rest everything has been answered: at a quiescent point of a running server (Concurrency >= 1) at which
       no handler is still executing, the work queue is empty, every dispatch unit has finished, each unit with
       something to say was delivered exactly once and each silent one never *)
Theorem c01_all_answered_at_rest : forall c tr s oss, run (init_of c) tr = Some (s, oss) ->
  quiescent s = true -> running s = true -> 0 < cf_K c ->
  (forall k t, nth_error (tasks s) k = Some t -> t_st t <> TRunning) ->
  inq s = [] /\
  forall u, u < length (units s) ->
    ufin s u = true /\
    (responses (unit_tasks s u) <> [] -> countb (is_deliver u) tr = 1) /\
    (responses (unit_tasks s u) = [] -> countb (is_deliver u) tr = 0).
Proof. exact SrvC01b.c01_all_answered_at_rest. Qed.
Print Assumptions c01_all_answered_at_rest.

(* 13. from 'at quiescence' to 'eventually' (srv/SrvEventually.v).  A release label (is_rel) is a goroutine of the server
       passing a scheduling point; every window of one strictly decreases the measure mu_rel (props/C08.v), from every
       reachable state.  [eventually s P]: P holds in the last state of every MAXIMAL release-only run from s (no
       action of the environment in between); such runs exist and none is longer than mu_rel s.  A release-only run
       is maximal exactly when it has reached a quiescent state. *)
Theorem c01_eventually_spec : forall s P, eventually s P <->
  (exists tr s' oss, run s tr = Some (s', oss) /\ Forall (fun l => is_rel l = true) tr /\ length tr <= mu_rel s /\
     quiescent s' = true) /\
  (forall tr s' oss, run s tr = Some (s', oss) -> Forall (fun l => is_rel l = true) tr ->
     length tr <= mu_rel s /\ (quiescent s' = true -> P tr s' oss)).
Proof. exact eventually_spec. Qed.
Print Assumptions c01_eventually_spec.

Theorem c01_quiescent_iff_maximal : forall s, quiescent s = true <-> forall l, is_rel l = true -> step s l = None.
Proof. exact quiescent_iff_maximal. Qed.
Print Assumptions c01_quiescent_iff_maximal.

(* every release-only run from a reachable state is short and is a prefix of a maximal one *)
Theorem c01_rel_run_extends : forall c s tr s1 oss1, reach c s -> run s tr = Some (s1, oss1) ->
  Forall (fun l => is_rel l = true) tr ->
  length tr <= mu_rel s /\
  exists tr2 s' oss2, run s (tr ++ tr2) = Some (s', oss1 ++ oss2) /\ Forall (fun l => is_rel l = true) (tr ++ tr2) /\
    length (tr ++ tr2) <= mu_rel s /\ quiescent s' = true.
Proof. exact rel_run_extends. Qed.
Print Assumptions c01_rel_run_extends.

(* what is still unfinished at a quiescent point.  held_in_handler s t: the handler of t has been entered and has not
   returned, or t is queued for a handler slot while every slot is taken *)
Theorem c01_held_in_handler_spec : forall s t,
  held_in_handler s t <-> t_st t = TRunning \/ (t_st t = TWaiting /\ sem_free s = 0).
Proof. exact (fun s t => conj (fun x => x) (fun x => x)). Qed.
Print Assumptions c01_held_in_handler_spec.

Theorem c01_quiescent_unfinished : forall c s, reach c s -> quiescent s = true ->
  (forall u un, nth_error (units s) u = Some un -> u_st un <> UFinished ->
     (u_st un = URunning /\
      exists k t, nth_error (tasks s) k = Some t /\ t_unit t = u /\ held_in_handler s t) \/
     ((u_st un = UAtBarrier \/ u_st un = UBarrierWait) /\ dp s = DBarrierWait u /\ 0 < nbar s /\
      exists k t, nth_error (tasks s) k = Some t /\ is_note t = true /\ runnable t = true /\ t_unit t < u /\
        held_in_handler s t)) /\
  (inq s <> [] ->
     exists u k t, dp s = DBarrierWait u /\ 0 < nbar s /\ nth_error (tasks s) k = Some t /\ is_note t = true /\
       runnable t = true /\ t_unit t < u /\ held_in_handler s t) /\
  (forall k t, nth_error (tasks s) k = Some t -> held_in_handler s t -> 0 < cf_K c ->
     exists j tj, nth_error (tasks s) j = Some tj /\ t_st tj = TRunning).
Proof. exact quiescent_unfinished. Qed.
Print Assumptions c01_quiescent_unfinished.

(* at rest (quiescent, no handler executing, Concurrency >= 1) everything has finished, running or stopped *)
Theorem c01_quiescent_at_rest : forall c s, reach c s -> quiescent s = true -> 0 < cf_K c ->
  (forall k t, nth_error (tasks s) k = Some t -> t_st t <> TRunning) ->
  inq s = [] /\ (forall u un, nth_error (units s) u = Some un -> u_st un = UFinished) /\
  (forall k t, nth_error (tasks s) k = Some t -> finished t = true).
Proof. exact quiescent_at_rest. Qed.
Print Assumptions c01_quiescent_at_rest.

(* c01_answered c tr0 oss0 tr s' oss, spelled out: tr0/oss0 = the history so far, tr/oss = the release-only run *)
Theorem c01_answered_spec : forall c tr0 oss0 tr s' oss, c01_answered c tr0 oss0 tr s' oss <->
  ((forall u un, nth_error (units s') u = Some un -> u_st un <> UFinished ->
      (u_st un = URunning /\
       exists k t, nth_error (tasks s') k = Some t /\ t_unit t = u /\ held_in_handler s' t) \/
      ((u_st un = UAtBarrier \/ u_st un = UBarrierWait) /\ dp s' = DBarrierWait u /\ 0 < nbar s' /\
       exists k t, nth_error (tasks s') k = Some t /\ is_note t = true /\ runnable t = true /\ t_unit t < u /\
         held_in_handler s' t)) /\
   (inq s' <> [] ->
      exists u k t, dp s' = DBarrierWait u /\ 0 < nbar s' /\ nth_error (tasks s') k = Some t /\ is_note t = true /\
        runnable t = true /\ t_unit t < u /\ held_in_handler s' t) /\
   (forall k t, nth_error (tasks s') k = Some t -> held_in_handler s' t -> 0 < cf_K c ->
      exists j tj, nth_error (tasks s') j = Some tj /\ t_st tj = TRunning)) /\
  ((forall k t, nth_error (tasks s') k = Some t -> t_st t <> TRunning) -> 0 < cf_K c ->
     inq s' = [] /\ (forall k t, nth_error (tasks s') k = Some t -> finished t = true) /\
     forall u, u < length (units s') ->
       ufin s' u = true /\
       (responses (unit_tasks s' u) <> [] -> countb (is_deliver u) (tr0 ++ tr) = 1) /\
       (responses (unit_tasks s' u) = [] -> countb (is_deliver u) (tr0 ++ tr) = 0)) /\
  (unit_sends (tr0 ++ tr) (oss0 ++ oss) =
     map (fun u => (u, ubatch s' u, responses (unit_tasks s' u))) (delivered (tr0 ++ tr)) /\
   NoDup (delivered (tr0 ++ tr)) /\
   (forall u, In u (delivered (tr0 ++ tr)) <-> ufin s' u = true /\ responses (unit_tasks s' u) <> [])).
Proof. exact (fun c tr0 oss0 tr s' oss => conj (fun x => x) (fun x => x)). Qed.
Print Assumptions c01_answered_spec.

(* after ANY history tr0 (environment actions, partial schedules), if the environment does nothing more, the server
   reaches within mu_rel s windows a state in which the only unfinished work is held by handlers that have not
   returned; if none is executing there, every accepted message has been answered: every unit finished, each
   non-silent one delivered exactly once (with the responses of its tasks: the output history), each silent one never *)
Theorem c01_eventually_answered : forall c tr0 s oss0, run (init_of c) tr0 = Some (s, oss0) ->
  eventually s (c01_answered c tr0 oss0).
Proof. exact SrvEventually.c01_eventually_answered. Qed.
Print Assumptions c01_eventually_answered.

(* REFUTED with 'no handler is executing' as a hypothesis on the state s BEFORE the release-only run: a request that
   was received but not yet entered enters its handler during the run, and its return is the environment's move *)
Theorem c01_eventually_answered_naive_refuted :
  exists s tr s' oss, reach ex_cfg s /\ running s = true /\ 0 < cf_K ex_cfg /\
    forallb (fun t => match t_st t with TRunning => false | _ => true end) (tasks s) = true /\
    run s tr = Some (s', oss) /\ Forall (fun l => is_rel l = true) tr /\ quiescent s' = true /\
    map u_st (units s') = [URunning] /\ map t_st (tasks s') = [TRunning].
Proof. exact SrvEventually.c01_eventually_answered_naive_refuted. Qed.
Print Assumptions c01_eventually_answered_naive_refuted.

(* 14. with the handlers returning (srv/SrvProgress.v).  A PROGRESS label is a release label or a handler return (LGate):
       what the server does on its own plus the one obligation of the environment (every handler it was given returns);
       no new input, no API call.  Every window of a progress label strictly decreases the measure mu_prog, from every
       reachable state; a progress run is maximal exactly when it is AT REST (quiescent, no handler executing).
       [eventually_prog s P]: P holds in the last state of every maximal progress run from s; such runs exist and none
       is longer than mu_prog s. *)
Theorem c01_is_prog_spec : forall l, is_prog l = true <-> is_rel l = true \/ exists p o, l = LGate p o.
Proof. exact is_prog_spec. Qed.
Print Assumptions c01_is_prog_spec.

Theorem c01_at_rest_spec : forall s, at_rest s = true <->
  quiescent s = true /\ forall k t, nth_error (tasks s) k = Some t -> t_st t <> TRunning.
Proof. exact at_rest_spec. Qed.
Print Assumptions c01_at_rest_spec.

Theorem c01_prog_step_decreases : forall c s l s' os, reach c s -> is_prog l = true -> step s l = Some (s', os) ->
  mu_prog s' < mu_prog s.
Proof. exact rel_step_decreases_p. Qed.
Print Assumptions c01_prog_step_decreases.

Theorem c01_mu_prog_spec : forall s, mu_prog s =
  wsum ptw (tasks s) +
  (prdw (rd s) + wsum pfw (ch_in s) + dpw (dp s) + wsum pew (inq s) + wsum uw (units s) + wsum cw (cbs s) +
   wsum ow (ops s) + (if running s then 2 else 0)).
Proof. exact mu_prog_spec. Qed.
Print Assumptions c01_mu_prog_spec.

(* the weights that differ from those of mu_rel (props/C08.v: c08_weights_spec) *)
Theorem c01_prog_weights_spec :
  (forall t, ptw t = match t_st t with TAtAcquire => 3 | TWaiting | TRunning => 2 | TAtHandled _ => 1 | TDone _ | TSkip => 0 end) /\
  (forall bm, pew bm = 6 * Nat.max 1 (length (snd bm))) /\
  (forall f, pfw f = match f with
                     | FMsg (InMsgs _ ms) | FMsgEOF (InMsgs _ ms) => 1 + 6 * Nat.max 1 (length ms)
                     | _ => 1
                     end) /\
  (forall r, prdw r = match r with RHold f => pfw f | _ => 0 end).
Proof. exact prog_weights_spec. Qed.
Print Assumptions c01_prog_weights_spec.

Theorem c01_at_rest_iff_maximal : forall c s, reach c s ->
  (at_rest s = true <-> forall l, is_prog l = true -> step s l = None).
Proof. exact at_rest_iff_maximal. Qed.
Print Assumptions c01_at_rest_iff_maximal.

Theorem c01_prog_run_extends : forall c s tr s1 oss1, reach c s -> run s tr = Some (s1, oss1) ->
  Forall (fun l => is_prog l = true) tr ->
  length tr <= mu_prog s /\
  exists tr2 s' oss2, run s (tr ++ tr2) = Some (s', oss1 ++ oss2) /\ Forall (fun l => is_prog l = true) (tr ++ tr2) /\
    length (tr ++ tr2) <= mu_prog s /\ at_rest s' = true.
Proof. exact prog_run_extends. Qed.
Print Assumptions c01_prog_run_extends.

Theorem c01_eventually_prog_spec : forall s P, eventually_prog s P <->
  (exists tr s' oss, run s tr = Some (s', oss) /\ Forall (fun l => is_prog l = true) tr /\ length tr <= mu_prog s /\
     at_rest s' = true) /\
  (forall tr s' oss, run s tr = Some (s', oss) -> Forall (fun l => is_prog l = true) tr ->
     length tr <= mu_prog s /\ (at_rest s' = true -> P tr s' oss)).
Proof. exact eventually_prog_spec. Qed.
Print Assumptions c01_eventually_prog_spec.

Theorem c01_all_answered_spec : forall tr0 oss0 tr s' oss, c01_all_answered tr0 oss0 tr s' oss <->
  inq s' = [] /\ (forall k t, nth_error (tasks s') k = Some t -> finished t = true) /\
  (forall u, u < length (units s') ->
     ufin s' u = true /\
     (responses (unit_tasks s' u) <> [] -> countb (is_deliver u) (tr0 ++ tr) = 1) /\
     (responses (unit_tasks s' u) = [] -> countb (is_deliver u) (tr0 ++ tr) = 0)) /\
  unit_sends (tr0 ++ tr) (oss0 ++ oss) =
    map (fun u => (u, ubatch s' u, responses (unit_tasks s' u))) (delivered (tr0 ++ tr)) /\
  NoDup (delivered (tr0 ++ tr)) /\
  (forall u, In u (delivered (tr0 ++ tr)) <-> u < length (units s') /\ responses (unit_tasks s' u) <> []).
Proof. exact (fun tr0 oss0 tr s' oss => conj (fun x => x) (fun x => x)). Qed.
Print Assumptions c01_all_answered_spec.

(* after ANY history tr0, if every handler that is (or will be) entered returns and nothing new arrives, then within
   mu_prog s windows the server is at rest with every accepted message answered: nothing queued, every task and unit
   finished, each non-silent unit delivered exactly once with the responses of its tasks, each silent one never
   (Concurrency >= 1; with Concurrency = 0 nothing ever runs: props/C08.v, c08_terminates_K0_refuted) *)
Theorem c01_eventually_all_answered : forall c tr0 s oss0, run (init_of c) tr0 = Some (s, oss0) -> 0 < cf_K c ->
  eventually_prog s (c01_all_answered tr0 oss0).
Proof. exact SrvProgress.c01_eventually_all_answered. Qed.
Print Assumptions c01_eventually_all_answered.

(* monitor over the observation sequence of a run (srv/SrvMonitors.v: mon_reply_once; proof: srv/SrvMonReply.v),
   extracted and evaluated on every harness log, racing ones included.  No hypothesis.  A response id other than null
   is sent - counting every element of every message sent during the run - at most as often as members with that id
   (after fixID) were fed: every reply answers a received request, and none is answered twice.
   The second half asked of the monitor, "no message is sent after the channel was closed (until a restart)", is NOT
   true of the model nor of the server: a unit whose handlers return after Stop is still delivered, to the closed
   channel, where the send fails (c01_no_send_after_close_refuted). *)
From JV Require SrvMonitors SrvMonReply.
Theorem c01_mon_reply_once_sound : forall c tr s oss, run (init_of c) tr = Some (s, oss) ->
  SrvMonitors.mon_reply_once (SrvMonitors.env_of tr) (concat oss) = true.
Proof. exact SrvMonReply.mon_reply_once_sound. Qed.
Print Assumptions c01_mon_reply_once_sound.

Theorem c01_reply_count_le_fed : forall c tr s oss i, run (init_of c) tr = Some (s, oss) -> i <> null_bytes ->
  count_bytes i (SrvMonitors.sent_ids (concat oss)) <= count_bytes i (SrvMonitors.fed_ids (SrvMonitors.env_of tr)).
Proof. exact SrvMonReply.reply_count_le_fed. Qed.
Print Assumptions c01_reply_count_le_fed.

Theorem c01_no_send_after_close_refuted :
  exists tr s oss pre ok b rs post,
    run (init_of ex_cfg) tr = Some (s, oss) /\ concat oss = pre ++ OSend ok b rs :: post /\
    In OClose pre /\ ~ In LStart (tl tr) /\ ok = false.
Proof. exact SrvMonReply.no_send_after_close_refuted. Qed.
Print Assumptions c01_no_send_after_close_refuted.
