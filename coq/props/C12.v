(* C12 - Framing robustness: on every byte stream Recv terminates without panicking and
   returns the record the documented format yields or an error; nothing is fabricated or
   shortened; truncation is an error; an exhausted stream keeps failing.
   This file only restates the property theorems; proofs are in frame/*Proofs.v. *)
From Coq Require Import List NArith ZArith Bool.
From JV Require Import Bytes FrameBase FrameBaseProofs FrameSpec Split SplitProofs Hdr HdrProofs
  HdrSpec HdrSpecProofs JsonScan JsonScanProofs RawJson RawJsonProofs FrameMore Chunked ChunkedProofs ChunkedHdr ChunkedHdrProofs HdrMore RawJsonMore RawJsonGrammar.
From JV Require Json.
From RecordUpdate Require Import RecordUpdate.
From JV Require Import Msg SrvModel SrvC12.
Import ListNotations.
Local Open Scope N_scope.

(* ---- Split(b) / Line ---- *)

Theorem c12_split_total_no_crash : forall b s,
  match Split.recv cfg_fixed b tt s with
  | Ok _ _ _ | OkWithErr _ _ _ _ | Err _ _ _ => True
  | Crash _ | OutOfFuel => False
  end.
Proof. exact split_total_no_crash. Qed.
Print Assumptions c12_split_total_no_crash.

Theorem c12_split_no_crash_all : forall b s, clean (Split.recv_all cfg_fixed b s).
Proof. exact (split_recv_all_clean cfg_fixed). Qed.
Print Assumptions c12_split_no_crash_all.

(* a record returned without error is a frame of the reference grammar *)
Theorem c12_split_sound : forall b s r st rest,
  Split.recv cfg_fixed b tt s = Ok r st rest -> SplitSpec.frame b s r rest.
Proof. exact split_sound. Qed.
Print Assumptions c12_split_sound.

(* completeness: every frame of the reference grammar is returned, whatever follows it *)
Theorem c12_split_complete : forall b r rest,
  ~ In b r -> Split.recv cfg_fixed b tt (r ++ b :: rest) = Ok r tt rest.
Proof. exact split_complete. Qed.
Print Assumptions c12_split_complete.

(* fragmentation (Chunked.v: transport = non-empty chunks under a bufio.Reader): one Recv from ANY
   reachable reader state, on any stream, returns what the stream model returns on the bytes the
   reader still delivers, and leaves a reader that delivers exactly the model's remaining stream *)
Theorem c12_split_chunked_recv : forall c eager b r x,
  wf bufio_size r ->
  forget (crecv c eager b (tt, r) x) = Split.recv c b tt (stream r) /\
  match crecv c eager b (tt, r) x with
  | Ok _ st rest | OkWithErr _ _ st rest | Err _ st rest => wf bufio_size (snd st) /\ stream (snd st) = rest
  | _ => True
  end.
Proof. exact split_chunked_recv_state. Qed.
Print Assumptions c12_split_chunked_recv.

(* bytes returned together with an error are the WHOLE unterminated tail (fix F6) *)
Theorem c12_split_partial_whole : forall b s r e st rest,
  Split.recv cfg_fixed b tt s = OkWithErr r e st rest -> r = s /\ e = EEOF /\ rest = [] /\ ~ In b s.
Proof. exact split_partial_whole. Qed.
Print Assumptions c12_split_partial_whole.

Theorem c12_split_truncation : forall b rs p,
  Forall (fun r => ~ In b r) rs -> ~ In b p -> p <> [] ->
  Split.recv_all cfg_fixed b (SplitSpec.encode b rs ++ p) = map IRec rs ++ [IRecErr p EEOF; IErr EEOF].
Proof. exact split_truncation. Qed.
Print Assumptions c12_split_truncation.

Theorem c12_refuted_without_F6 :
  Split.recv_all cfg_without_F6 10 [97; 98; 99; 10; 100; 101; 102]
  = [IRec [97; 98; 99]; IRecErr [100; 101] EEOF; IErr EEOF].
Proof. exact split_refuted_without_F6. Qed.
Print Assumptions c12_refuted_without_F6.

Theorem c12_split_exhausted : forall c b,
  Split.recv c b tt [] = Err EEOF tt [] /\ Split.recv_all c b [] = [IErr EEOF].
Proof. exact (fun c b => conj (split_exhausted c b) (split_exhausted_all c b)). Qed.
Print Assumptions c12_split_exhausted.

(* the n-th call for EVERY n (call_n recv n st s = the result of call number n+1; after a crash
   there is no later call): never a panic, never out of fuel *)
Theorem c12_split_every_call : forall n b s,
  match call_n (Split.recv cfg_fixed b) n tt s with Crash _ | OutOfFuel => False | _ => True end.
Proof. exact split_every_call. Qed.
Print Assumptions c12_split_every_call.

(* "once the stream is exhausted it keeps failing": from call |s|+1 on EVERY call returns io.EOF *)
Theorem c12_split_eventually_eof : forall n b s,
  (length s <= n)%nat -> call_n (Split.recv cfg_fixed b) n tt s = Err EEOF tt [].
Proof. exact split_eventually_eof. Qed.
Print Assumptions c12_split_eventually_eof.

(* ---- StrictHeader / Header / LSP ---- *)

(* one Recv, from any buffer state the reuse policy can produce, on any stream: no panic (in
   particular for every Content-Length value), no fuel exhaustion, and the buffer state stays
   within the bound *)
Theorem c12_hdr_total_no_crash : forall p want st s,
  st <= buf_bound ->
  match Hdr.recv cfg_fixed p want st s with
  | Ok _ st' _ | OkWithErr _ _ st' _ | Err _ st' _ => st' <= buf_bound
  | Crash _ | OutOfFuel => False
  end.
Proof. exact hdr_total_no_crash. Qed.
Print Assumptions c12_hdr_total_no_crash.

Theorem c12_hdr_no_crash_all : forall p want st s,
  st <= buf_bound -> clean (Hdr.recv_all cfg_fixed p want st s).
Proof. exact hdr_recv_all_clean. Qed.
Print Assumptions c12_hdr_no_crash_all.

(* fragmentation (ChunkedHdr.v): one Recv from ANY reachable reader state, for every request
   schedule of the CopyN path, both defect switches (a crash of one side is a crash of the other) *)
Theorem c12_hdr_chunked_recv : forall c eager req p want st r x,
  wf bufio_size r ->
  forget (chdr_recv c eager req p want (st, r) x) = Hdr.recv c p want st (stream r) /\
  match chdr_recv c eager req p want (st, r) x with
  | Ok _ st' rest | OkWithErr _ _ st' rest | Err _ st' rest => wf bufio_size (snd st') /\ stream (snd st') = rest
  | _ => True
  end.
Proof. exact hdr_chunked_recv_state. Qed.
Print Assumptions c12_hdr_chunked_recv.

Theorem c12_refuted_without_F5 :
  Hdr.recv cfg_without_F5 Strict [] 0 stream_maxint = Crash MakeSliceRange /\
  Hdr.recv cfg_without_F5 Optional lsp_mime 0 stream_2p62 = Crash MakeSliceRange /\
  Hdr.recv cfg_fixed Strict [] 0 stream_maxint = Err EEOF 0 [] /\
  Hdr.recv cfg_fixed Optional lsp_mime 0 stream_2p62 = Err EUnexpectedEOF 0 [].
Proof. exact hdr_refuted_without_F5. Qed.
Print Assumptions c12_refuted_without_F5.

Theorem c12_hdr_truncation_payload : forall p mt rs r a b st,
  usable_mime mt = true -> st <= buf_bound ->
  Forall (fun r => (Z.of_nat (length r) <= max_int)%Z) rs -> (Z.of_nat (length r) <= max_int)%Z ->
  r = a ++ b -> b <> [] ->
  Hdr.recv_all cfg_fixed p mt st (concat (map (HdrProofs.enc mt) rs) ++ enc_hdr mt (N.of_nat (length r)) ++ a)
  = map IRec rs ++ match a with [] => [IErr EEOF] | _ => [IErr EUnexpectedEOF; IErr EEOF] end.
Proof. exact hdr_truncation_payload. Qed.
Print Assumptions c12_hdr_truncation_payload.

(* truncation anywhere inside a record - in its header block or in its payload: the complete
   records, then an error and NO bytes (err_tail e = [IErr e] or [IErr e; IErr EEOF]).  The one
   exception is stated exactly: an EMPTY record whose header block lacks only its final LF is
   returned (complete, empty, not shortened). *)
Theorem c12_hdr_truncation : forall p mt rs r pre suf st,
  usable_mime mt = true -> st <= buf_bound ->
  Forall (fun r => (Z.of_nat (length r) <= max_int)%Z) rs -> (Z.of_nat (length r) <= max_int)%Z ->
  HdrProofs.enc mt r = pre ++ suf -> pre <> [] -> suf <> [] ->
  exists tail,
    Hdr.recv_all cfg_fixed p mt st (concat (map (HdrProofs.enc mt) rs) ++ pre) = map IRec rs ++ tail /\
    ((exists e, tail = err_tail e) \/ (r = [] /\ suf = [10] /\ tail = [IRec []; IErr EEOF])).
Proof. exact hdr_truncation. Qed.
Print Assumptions c12_hdr_truncation.

Theorem c12_hdr_exhausted : forall c p want st,
  Hdr.recv c p want st [] = Err EEOF st [] /\ Hdr.recv_all c p want st [] = [IErr EEOF].
Proof. exact hdr_exhausted. Qed.
Print Assumptions c12_hdr_exhausted.

(* soundness with respect to the reference grammar HdrSpec (written from the documentation): a
   record returned by Recv - alone or with a content-type error - is the payload of a frame
   at the front of the stream and [rest] is what follows the frame: nothing fabricated,
   reordered or shortened; hence a missing, negative or non-decimal Content-Length (no frame)
   can only give an error.  Content type: StrictHeader must match; Header/LSP may be absent;
   a mismatch is reported WITH the record. *)
Theorem c12_hdr_sound : forall p want st s,
  st <= buf_bound ->
  match Hdr.recv cfg_fixed p want st s with
  | Ok r _ rest => exists ct, HdrSpec.frame s ct r rest /\ (ct = want \/ (p = Optional /\ ct = []))
  | OkWithErr r e _ rest =>
      exists ct, HdrSpec.frame s ct r rest /\ e = EContentTypeMismatch ct /\ ct <> want /\ (p = Optional -> ct <> [])
  | _ => True
  end.
Proof. exact hdr_sound. Qed.
Print Assumptions c12_hdr_sound.

(* header rules: every frame of the grammar (field names in any case, unknown fields, duplicates
   with the last one winning, LF or CR LF line ends, white space around values, signed
   non-negative length) is accepted, with the documented content-type policy *)
Theorem c12_header_rules : forall p want st s ct r rest,
  st <= buf_bound -> HdrSpec.frame s ct r rest ->
  exists st', st' <= buf_bound /\
    Hdr.recv cfg_fixed p want st s =
    if beq ct want || match p with Optional => is_nil ct | Strict => false end
    then Ok r st' rest else OkWithErr r (EContentTypeMismatch ct) st' rest.
Proof. exact hdr_complete. Qed.
Print Assumptions c12_header_rules.

(* "require a non-negative decimal Content-Length", explicitly: for EVERY header block of the
   reference grammar (any fields, any line ends) whose Content-Length field is absent or is not a
   HdrSpec.decimal, Recv returns "missing required content-length" / "invalid content-length", with
   the buffer state untouched and nothing of the body consumed; any defect switch, any policy *)
Theorem c12_hdr_length_required : forall c p want st s fs body,
  HdrSpec.headers s fs body ->
  (forall v n, HdrSpec.field HdrSpec.key_length fs = Some v -> ~ HdrSpec.decimal v n) ->
  Hdr.recv c p want st s = Err EMissingLength st body \/ Hdr.recv c p want st s = Err EInvalidLength st body.
Proof. exact hdr_length_required. Qed.
Print Assumptions c12_hdr_length_required.

Theorem c12_hdr_length_missing : forall c p want st s fs body,
  HdrSpec.headers s fs body ->
  HdrSpec.field HdrSpec.key_length fs = None \/ HdrSpec.field HdrSpec.key_length fs = Some [] ->
  Hdr.recv c p want st s = Err EMissingLength st body.
Proof. exact hdr_length_missing. Qed.
Print Assumptions c12_hdr_length_missing.

Theorem c12_hdr_length_invalid : forall c p want st s fs body v,
  HdrSpec.headers s fs body ->
  HdrSpec.field HdrSpec.key_length fs = Some v -> v <> [] -> (forall n, ~ HdrSpec.decimal v n) ->
  Hdr.recv c p want st s = Err EInvalidLength st body.
Proof. exact hdr_length_invalid. Qed.
Print Assumptions c12_hdr_length_invalid.

Theorem c12_hdr_every_call : forall n p want st s,
  st <= buf_bound ->
  match call_n (Hdr.recv cfg_fixed p want) n st s with
  | Ok _ st' _ | OkWithErr _ _ st' _ | Err _ st' _ => st' <= buf_bound
  | Crash _ | OutOfFuel => False
  end.
Proof. exact hdr_every_call. Qed.
Print Assumptions c12_hdr_every_call.

(* errors of the header framings consume input; from call |s|+1 on EVERY call returns io.EOF *)
Theorem c12_hdr_eventually_eof : forall n p want st s,
  st <= buf_bound -> (length s <= n)%nat ->
  exists st', st' <= buf_bound /\ call_n (Hdr.recv cfg_fixed p want) n st s = Err EEOF st' [].
Proof. exact hdr_eventually_eof. Qed.
Print Assumptions c12_hdr_eventually_eof.

(* ---- all stream framings: what is left is a suffix of what was there, for EVERY outcome ---- *)

(* records, records with an error, bare errors of every kind, either defect switch, any state: the
   remaining stream is a suffix of the input - nothing fabricated or reordered on error paths *)
Theorem c12_rest_is_suffix :
  (forall c b s rest, rest_of (Split.recv c b tt s) = Some rest -> FrameMore.suffix rest s) /\
  (forall c p want st s rest, rest_of (Hdr.recv c p want st s) = Some rest -> FrameMore.suffix rest s) /\
  (forall st s rest, rest_of (RawJson.recv st s) = Some rest -> FrameMore.suffix rest s).
Proof.
  exact (conj (fun c b s rest => split_rest_is_suffix c b bufio_size s rest bufio_size_pos)
              (conj hdr_rest_is_suffix rawjson_rest_is_suffix)).
Qed.
Print Assumptions c12_rest_is_suffix.

(* ---- RawJSON ---- *)

(* one Recv on any stream, in any decoder state: no panic, no fuel exhaustion *)
Theorem c12_rawjson_total_no_crash : forall st s,
  match RawJson.recv st s with Crash _ | OutOfFuel => False | _ => True end.
Proof. exact rawjson_total_no_crash. Qed.
Print Assumptions c12_rawjson_total_no_crash.

Theorem c12_rawjson_no_crash_all : forall s, clean (RawJson.recv_all s).
Proof. exact rawjson_recv_all_clean. Qed.
Print Assumptions c12_rawjson_no_crash_all.

(* the scanner's fuel suffices on every input, and a value consumes at least one byte *)
Theorem c12_rawjson_scan_fuel : forall s,
  match scan s with NoFuel => False | Done r => (length r + 1 <= length s)%nat | _ => True end.
Proof. exact scan_fuel_ok. Qed.
Print Assumptions c12_rawjson_scan_fuel.

(* once Recv has failed it keeps failing with the same error; an exhausted stream is io.EOF *)
Theorem c12_rawjson_sticky : forall e s, RawJson.recv (Some e) s = Err e (Some e) s.
Proof. exact rawjson_sticky. Qed.
Print Assumptions c12_rawjson_sticky.

Theorem c12_rawjson_exhausted : forall j, all_ws j -> RawJson.recv_all j = [IErr EEOF].
Proof. exact rawjson_exhausted. Qed.
Print Assumptions c12_rawjson_exhausted.

(* soundness of the framing layer: a record returned by Recv is a contiguous span of the stream -
   white space, then the bytes of exactly one JSON value as the scanner delimits it (null is
   returned as the empty record) - and [rest] is everything after it *)
Theorem c12_rawjson_sound : forall st s r st' rest,
  RawJson.recv st s = Ok r st' rest ->
  st = None /\ st' = None /\
  exists j raw, s = j ++ raw ++ rest /\ all_ws j /\
                (exists c t, raw = c :: t /\ is_ws c = false) /\
                scan (raw ++ rest) = Done rest /\
                r = (if is_null raw then [] else raw).
Proof. exact rawjson_sound. Qed.
Print Assumptions c12_rawjson_sound.

(* truncation: complete records followed by a proper, non-empty prefix of a JSON object, array or
   string: the complete records, then an error and no (shortened) record *)
Theorem c12_rawjson_truncation : forall rs r pre suf,
  Forall (fun r => r = [] \/ json_record r = true) rs -> json_record r = true ->
  r = pre ++ suf -> pre <> [] -> suf <> [] ->
  exists e, RawJson.recv_all (concat (map RawJsonProofs.enc rs) ++ pre) = map IRec rs ++ [IErr e].
Proof. exact rawjson_truncation. Qed.
Print Assumptions c12_rawjson_truncation.

(* EVERY error Recv returns - io.EOF, syntax, io.ErrUnexpectedEOF - becomes the decoder state at
   the call that produced it and consumes nothing; every later Recv returns the same error *)
Theorem c12_rawjson_error_sticky_from_start : forall st s e st' rest,
  RawJson.recv st s = Err e st' rest ->
  st' = Some e /\ rest = s /\ forall s', RawJson.recv st' s' = Err e st' s'.
Proof. exact rawjson_error_sticky_from_start. Qed.
Print Assumptions c12_rawjson_error_sticky_from_start.

Theorem c12_rawjson_error_sticky_every_call : forall st s e st' rest,
  RawJson.recv st s = Err e st' rest -> forall n, call_n RawJson.recv n st s = Err e (Some e) s.
Proof. exact rawjson_error_sticky_every_call. Qed.
Print Assumptions c12_rawjson_error_sticky_every_call.

(* truncation, with the error kind and the literals: complete records (objects, arrays, strings,
   true, false, empty), then a proper non-empty prefix of an object, array, string, true, false or
   null: the complete records, then io.ErrUnexpectedEOF, and no shortened record *)
Theorem c12_rawjson_truncation_kind : forall rs r pre suf,
  Forall (fun r => r = [] \/ json_record_lit r = true) rs ->
  (json_record r = true \/ r = j_true \/ r = j_false \/ r = s_null) ->
  r = pre ++ suf -> pre <> [] -> suf <> [] ->
  RawJson.recv_all (concat (map RawJsonProofs.enc rs) ++ pre) = map IRec rs ++ [IErr EUnexpectedEOF].
Proof. exact rawjson_truncation_kind. Qed.
Print Assumptions c12_rawjson_truncation_kind.

(* THE EXCEPTION to "a final record cut off by end of stream is reported with an error": a bare
   number is not self-delimiting - 12 cut from 123 is accepted as 12, and 1 followed by 2 arrives
   as 12 - which is why the record grammar of C11 (json_record_lit) excludes numbers *)
Theorem c12_rawjson_number_exception :
  RawJson.recv_all [49; 50; 51] = [IRec [49; 50; 51]; IErr EEOF] /\
  RawJson.recv_all [49; 50] = [IRec [49; 50]; IErr EEOF] /\
  RawJson.recv_all ([49] ++ [50]) = [IRec [49; 50]; IErr EEOF] /\
  json_record_lit [49; 50; 51] = false.
Proof. exact rawjson_number_truncation_accepted. Qed.
Print Assumptions c12_rawjson_number_exception.

Theorem c12_rawjson_every_call : forall n st s,
  match call_n RawJson.recv n st s with Crash _ | OutOfFuel => False | _ => True end.
Proof. exact rawjson_every_call. Qed.
Print Assumptions c12_rawjson_every_call.

(* after at most |s| records the first error has happened; from then on EVERY call returns it *)
Theorem c12_rawjson_eventually_fails : forall n s,
  (length s <= n)%nat ->
  exists e rest, forall m, (n <= m)%nat -> call_n RawJson.recv m None s = Err e (Some e) rest.
Proof. exact rawjson_eventually_fails. Qed.
Print Assumptions c12_rawjson_eventually_fails.

(* soundness against the INDEPENDENT JSON grammar of json/Json.v (the recursive-descent parser
   behind json.Valid, written for the wire properties): every non-empty record Recv returns is
   valid JSON ... *)
Theorem c12_rawjson_recv_valid : forall s r rest,
  RawJson.recv None s = Ok r None rest -> r <> [] -> Json.valid r = true.
Proof. exact rawjson_recv_valid. Qed.
Print Assumptions c12_rawjson_recv_valid.

(* ... and in general: what one Recv consumes is white space followed by exactly one value of that
   grammar, without surrounding white space (tight_at 0), which is the record unless it is null *)
Theorem c12_rawjson_recv_grammar : forall st s r st' rest,
  RawJson.recv st s = Ok r st' rest ->
  exists j raw, s = j ++ raw ++ rest /\ all_ws j /\
                Json.valid raw = true /\ Json.tight_at 0 raw = true /\
                r = (if is_null raw then [] else raw).
Proof. exact rawjson_recv_grammar. Qed.
Print Assumptions c12_rawjson_recv_grammar.

(* completeness against that grammar: every value of it that is not a number - object, array,
   string, true, false, null - is returned by Recv whatever follows it (null as the empty record) *)
Theorem c12_rawjson_complete : forall r rest,
  Json.tight_at 0 r = true -> nonnum r ->
  RawJson.recv None (r ++ rest) = Ok (if is_null r then [] else r) None rest.
Proof. exact rawjson_complete. Qed.
Print Assumptions c12_rawjson_complete.

(* ---- the server and a final record delivered together with io.EOF ---- *)

(* SrvModel handles [FMsgEOF i] (record returned WITH io.EOF) exactly like [FMsg i] wherever it
   looks at a feed: the reader's critical section is the same, LFeed only enqueues it, an idle reader
   picks it up, LRelRead runs the critical section of a plain record; while the server runs the
   reader returns to idle and sees the separately fed [FErr SCEOF] next *)
Theorem c12_server_final_record : forall i s,
  read_cs (FMsgEOF i) s = read_cs (FMsg i) s /\
  step_raw s (LFeed (FMsgEOF i)) = Some (s <| ch_in ::= fun q => q ++ [FMsgEOF i] |>, []) /\
  (forall q, rd s = RIdle -> ch_in s = FMsgEOF i :: q ->
             settle1 s = Some (s <| rd := RHold (FMsgEOF i) |> <| ch_in := q |>, [])) /\
  (rd s = RHold (FMsgEOF i) -> step_raw s LRelRead = Some (read_cs (FMsg i) s)) /\
  (forall s' os, read_cs (FMsgEOF i) s = (s', os) -> rd s' = if running s then RIdle else RExited).
Proof. exact srv_final_record. Qed.
Print Assumptions c12_server_final_record.
