(* C11 - Framing round trip: records arrive intact and in order, for any record sequence
   (pipelined) and any record sizes; Send refuses what the framing cannot represent.
   The models are functions of the concatenated stream: independence from how the transport
   cuts it is the contract of bufio/io/json.Decoder, checked by the correspondence harness.
   This file only restates the property theorems; proofs are in frame/*Proofs.v. *)
From Coq Require Import List NArith ZArith Bool.
From JV Require Import Bytes FrameBase FrameBaseProofs FrameSpec Split SplitProofs Hdr HdrProofs
  JsonScan JsonScanProofs RawJson RawJsonProofs Direct DirectProofs DirectMore FrameMore Chunked ChunkedProofs ChunkedHdr ChunkedHdrProofs RawJsonMore RawJsonGrammar.
From JV Require Json.
Import ListNotations.
Local Open Scope N_scope.

(* Split(b) / Line: any number of records, none containing the split byte *)
Theorem c11_split : forall b rs,
  Forall (fun r => ~ In b r) rs ->
  send_all (Split.send b) rs = Some (SplitSpec.encode b rs) /\
  Split.recv_all cfg_fixed b (SplitSpec.encode b rs) = map IRec rs ++ [IErr EEOF].
Proof. exact (split_round_trip cfg_fixed). Qed.
Print Assumptions c11_split.

(* Send refuses (error, nothing written) exactly the records containing the split byte *)
Theorem c11_split_refuses : forall b r, Split.send b r = Refused <-> In b r.
Proof. exact send_refuses_iff. Qed.
Print Assumptions c11_split_refuses.

(* StrictHeader mt / Header mt / LSP: every media type whose trimmed form is itself and that
   has no line feed; ALL byte records (empty included; a Go slice is never longer than
   MaxInt64); any receive-buffer state the reuse policy can produce (initially 0) *)
Theorem c11_hdr : forall p mt rs st,
  usable_mime mt = true -> st <= buf_bound ->
  Forall (fun r => (Z.of_nat (length r) <= max_int)%Z) rs ->
  send_all (Hdr.send mt) rs = Some (concat (map (HdrProofs.enc mt) rs)) /\
  Hdr.recv_all cfg_fixed p mt st (concat (map (HdrProofs.enc mt) rs)) = map IRec rs ++ [IErr EEOF].
Proof. exact hdr_round_trip. Qed.
Print Assumptions c11_hdr.

Theorem c11_hdr_lsp_usable : usable_mime lsp_mime = true.
Proof. exact (eq_refl true). Qed.
Print Assumptions c11_hdr_lsp_usable.

(* RawJSON: every sequence of records each of which is empty (sent as null LF, received empty) or
   a JSON object, array or string without outer white space (json_record: a boolean checker -
   opening brace, bracket or quote, and Go's scanner grammar accepts exactly the whole text).
   Bare numbers / literals are outside the claim (not self-delimiting: 1 then 2 is 12). *)
Theorem c11_rawjson : forall rs,
  Forall (fun r => r = [] \/ json_record r = true) rs ->
  send_all RawJson.send rs = Some (concat (map RawJsonProofs.enc rs)) /\
  RawJson.recv_all (concat (map RawJsonProofs.enc rs)) = map IRec rs ++ [IErr EEOF].
Proof. exact rawjson_round_trip. Qed.
Print Assumptions c11_rawjson.

(* what makes it work: the scanner finds exactly the end of a json_record whatever follows *)
Theorem c11_rawjson_self_delimiting : forall r rest,
  json_record r = true -> scan (r ++ rest) = Done rest.
Proof. exact scan_self_delimiting. Qed.
Print Assumptions c11_rawjson_self_delimiting.

(* Direct: FIFO, then io.EOF after Close; Send after Close fails *)
Theorem c11_direct : forall rs,
  exists st st',
    dsend_all dinit rs = Some st /\ dclose st = DClosed st' /\
    drecv_all (length rs + 2) false st' = map IRec rs ++ [IErr EEOF] /\
    (forall r, dsend st' r = DSendErr).
Proof. exact direct_fifo. Qed.
Print Assumptions c11_direct.

(* the fuel of the models never runs out (Split here; header framings and RawJSON: c12_*_no_crash_all) *)
Theorem c11_fuel_split : forall b s, clean (Split.recv_all cfg_fixed b s).
Proof. exact (split_recv_all_clean cfg_fixed). Qed.
Print Assumptions c11_fuel_split.

(* Direct under ARBITRARY interleavings of Send, Recv and Close ([run st ops]: the final state and
   the records received; undefined only when an operation would never return - Recv on an empty
   open direction, a second Close): at every moment the records received so far followed by the
   records still queued are exactly the records accepted so far (those sent before Close), in
   the order sent *)
Theorem c11_direct_interleaved : forall ops st st' got,
  DirectMore.run st ops = Some (st', got) ->
  got ++ dqueue st' = dqueue st ++ accepted (dclosed st) ops.
Proof. exact direct_interleaved. Qed.
Print Assumptions c11_direct_interleaved.

(* from the initial state and before any Close, "accepted" is every record handed to Send *)
Theorem c11_direct_interleaved_open : forall ops st' got,
  ~ In OClose ops -> DirectMore.run dinit ops = Some (st', got) -> got ++ dqueue st' = sends ops.
Proof. exact direct_interleaved_open. Qed.
Print Assumptions c11_direct_interleaved_open.

(* "so far": every prefix of a run is a run (so the invariant above holds after each operation) *)
Theorem c11_direct_run_prefix : forall ops1 ops2 st st' got,
  DirectMore.run st (ops1 ++ ops2) = Some (st', got) ->
  exists st1 got1 got2, DirectMore.run st ops1 = Some (st1, got1) /\
                        DirectMore.run st1 ops2 = Some (st', got2) /\ got = got1 ++ got2.
Proof. exact run_prefix. Qed.
Print Assumptions c11_direct_run_prefix.

(* once a run has reached a closed and drained direction, EVERY later Recv returns io.EOF and every
   later Send its error, for every continuation (the state no longer changes) *)
Theorem c11_direct_eof_forever : forall ops1 ops2 st st1 xs,
  run_trace st ops1 = Some (st1, xs) -> dclosed st1 = true -> dqueue st1 = [] ->
  ~ In OClose ops2 ->
  run_trace st (ops1 ++ ops2) = Some (st1, xs ++ map after_eof ops2).
Proof. exact direct_eof_forever. Qed.
Print Assumptions c11_direct_eof_forever.

(* after Close, Recv drains the queue in order and then returns io.EOF n times, for every n *)
Theorem c11_direct_drain_then_eof : forall q n,
  run_trace {| dqueue := q; dclosed := true |} (repeat ORecv (length q + n))
  = Some ({| dqueue := []; dclosed := true |}, map RRecvd q ++ repeat REof n).
Proof. exact direct_drain_then_eof. Qed.
Print Assumptions c11_direct_drain_then_eof.

(* rendezvous variant (Send enabled only when the queue is empty, as the unbuffered Go channel):
   every such run is a run of the queue model, the same FIFO invariant holds, and at most one
   record is ever in flight *)
Theorem c11_direct_rendezvous : forall ops st' got,
  run_rv dinit ops = Some (st', got) ->
  DirectMore.run dinit ops = Some (st', got) /\
  got ++ dqueue st' = accepted false ops /\
  (length (dqueue st') <= 1)%nat.
Proof. exact direct_rendezvous. Qed.
Print Assumptions c11_direct_rendezvous.

(* Split: the result of one Recv does not depend on the bufio window size k > 0 *)
Theorem c11_split_window_indep : forall c b k s,
  0 < k -> Split.recv_k c b k tt s = Split.recv c b tt s.
Proof. exact split_window_indep. Qed.
Print Assumptions c11_split_window_indep.

(* ---- fragmentation: "regardless of how the transport fragments or coalesces the byte stream" ----
   Chunked.v models the transport as a list of non-empty chunks (one Read returns at most the next
   chunk, cut to the space offered; io.EOF after the last chunk or, with [eager], together with the
   last bytes) and bufio.Reader's buffer / fill / ReadSlice on top of it. *)

(* Split: the whole sequence of Recv calls through the chunked reader is the stream model's
   observation of the concatenated chunks *)
Theorem c11_split_chunked : forall c eager b chunks,
  Forall nonempty chunks ->
  crecv_all c eager b chunks = Split.recv_all c b (concat chunks).
Proof. exact split_chunked_recv_all. Qed.
Print Assumptions c11_split_chunked.

(* hence the round trip for EVERY way of cutting the encoded stream into reads *)
Theorem c11_split_chunked_round_trip : forall eager b rs chunks,
  Forall (fun r => ~ In b r) rs -> Forall nonempty chunks ->
  concat chunks = SplitSpec.encode b rs ->
  crecv_all cfg_fixed eager b chunks = map IRec rs ++ [IErr EEOF].
Proof. exact split_chunked_round_trip. Qed.
Print Assumptions c11_split_chunked_round_trip.

(* header framings: ReadString, io.ReadFull and io.CopyN on the chunked reader (ChunkedHdr.v);
   [req] is the request-size schedule of the CopyN path (bytes.Buffer's growth policy): any *)
Theorem c11_hdr_chunked : forall c eager req p want st chunks,
  Forall nonempty chunks ->
  chdr_recv_all c eager req p want st chunks = Hdr.recv_all c p want st (concat chunks).
Proof. exact hdr_chunked_recv_all. Qed.
Print Assumptions c11_hdr_chunked.

Theorem c11_hdr_chunked_round_trip : forall eager req p mt rs st chunks,
  usable_mime mt = true -> st <= buf_bound ->
  Forall (fun r => (Z.of_nat (length r) <= max_int)%Z) rs ->
  Forall nonempty chunks -> concat chunks = concat (map (HdrProofs.enc mt) rs) ->
  chdr_recv_all cfg_fixed eager req p mt st chunks = map IRec rs ++ [IErr EEOF].
Proof. exact hdr_chunked_round_trip. Qed.
Print Assumptions c11_hdr_chunked_round_trip.

(* RawJSON, extended to the literal records true and false (json_record_lit r = json_record r, or
   r is the text true, or the text false): every JSON value that ends at its own last byte except
   null, which is the wire form of the EMPTY record.  Numbers stay excluded (c12_rawjson_number_exception). *)
Theorem c11_rawjson_lit : forall rs,
  Forall (fun r => r = [] \/ json_record_lit r = true) rs ->
  send_all RawJson.send rs = Some (concat (map RawJsonProofs.enc rs)) /\
  RawJson.recv_all (concat (map RawJsonProofs.enc rs)) = map IRec rs ++ [IErr EEOF].
Proof. exact rawjson_round_trip_lit. Qed.
Print Assumptions c11_rawjson_lit.

Theorem c11_rawjson_self_delimiting_lit : forall r rest,
  json_record_lit r = true -> scan (r ++ rest) = Done rest.
Proof. exact scan_self_delimiting_lit. Qed.
Print Assumptions c11_rawjson_self_delimiting_lit.

(* the record class of c11_rawjson, characterised in the INDEPENDENT JSON grammar of json/Json.v
   (the recursive-descent parser behind json.Valid): json_record r holds exactly when r is one value
   of that grammar without surrounding white space (tight_at 0) and is an object, array or string -
   so the round trip is claimed for every such record, not for a class defined by the scanner itself *)
Theorem c11_json_record_iff : forall r,
  json_record r = true <-> starts_container_or_string r /\ Json.tight_at 0 r = true.
Proof. exact json_record_iff. Qed.
Print Assumptions c11_json_record_iff.
