(* C11 - Framing round trip: records arrive intact and in order, for any record sequence
   (pipelined) and any record sizes; Send refuses what the framing cannot represent.
   The models are functions of the concatenated stream: independence from how the transport
   cuts it is the contract of bufio/io/json.Decoder, checked by the correspondence harness.
   This file only restates the property theorems; proofs are in frame/*Proofs.v. *)
From Coq Require Import List NArith ZArith Bool.
From JV Require Import Bytes FrameBase FrameBaseProofs FrameSpec Split SplitProofs Hdr HdrProofs
  JsonScan JsonScanProofs RawJson RawJsonProofs Direct DirectProofs.
Import ListNotations.
Local Open Scope N_scope.

(* Split(b) / Line: any number of records, none containing the split byte *)
Theorem c11_split : forall b rs,
  Forall (fun r => ~ In b r) rs ->
  send_all (Split.send b) rs = Some (SplitSpec.encode b rs) /\
  Split.recv_all cfg_fixed b (SplitSpec.encode b rs) = map IRec rs ++ [IErr EEOF].
Proof. exact (split_round_trip cfg_fixed). Qed.
Print Assumptions c11_split.

(* Send refuses (error, nothing written) exactly the records containing the split byte *)
Theorem c11_split_refuses : forall b r, Split.send b r = Refused <-> In b r.
Proof. exact send_refuses_iff. Qed.
Print Assumptions c11_split_refuses.

(* StrictHeader mt / Header mt / LSP: every media type whose trimmed form is itself and that
   has no line feed; ALL byte records (empty included; a Go slice is never longer than
   MaxInt64); any receive-buffer state the reuse policy can produce (initially 0) *)
Theorem c11_hdr : forall p mt rs st,
  usable_mime mt = true -> st <= buf_bound ->
  Forall (fun r => (Z.of_nat (length r) <= max_int)%Z) rs ->
  send_all (Hdr.send mt) rs = Some (concat (map (HdrProofs.enc mt) rs)) /\
  Hdr.recv_all cfg_fixed p mt st (concat (map (HdrProofs.enc mt) rs)) = map IRec rs ++ [IErr EEOF].
Proof. exact hdr_round_trip. Qed.
Print Assumptions c11_hdr.

Theorem c11_hdr_lsp_usable : usable_mime lsp_mime = true.
Proof. exact (eq_refl true). Qed.
Print Assumptions c11_hdr_lsp_usable.

(* RawJSON: every sequence of records each of which is empty (sent as null LF, received empty) or
   a JSON object, array or string without outer white space (json_record: a boolean checker -
   opening brace, bracket or quote, and Go's scanner grammar accepts exactly the whole text).
   Bare numbers / literals are outside the claim (not self-delimiting: 1 then 2 is 12). *)
Theorem c11_rawjson : forall rs,
  Forall (fun r => r = [] \/ json_record r = true) rs ->
  send_all RawJson.send rs = Some (concat (map RawJsonProofs.enc rs)) /\
  RawJson.recv_all (concat (map RawJsonProofs.enc rs)) = map IRec rs ++ [IErr EEOF].
Proof. exact rawjson_round_trip. Qed.
Print Assumptions c11_rawjson.

(* what makes it work: the scanner finds exactly the end of a json_record whatever follows *)
Theorem c11_rawjson_self_delimiting : forall r rest,
  json_record r = true -> scan (r ++ rest) = Done rest.
Proof. exact scan_self_delimiting. Qed.
Print Assumptions c11_rawjson_self_delimiting.

(* Direct: FIFO, then io.EOF after Close; Send after Close fails *)
Theorem c11_direct : forall rs,
  exists st st',
    dsend_all dinit rs = Some st /\ dclose st = DClosed st' /\
    drecv_all (length rs + 2) false st' = map IRec rs ++ [IErr EEOF] /\
    (forall r, dsend st' r = DSendErr).
Proof. exact direct_fifo. Qed.
Print Assumptions c11_direct.

(* the fuel of the models never runs out (Split here; header framings and RawJSON: c12_*_no_crash_all) *)
Theorem c11_fuel_split : forall b s, clean (Split.recv_all cfg_fixed b s).
Proof. exact (split_recv_all_clean cfg_fixed). Qed.
Print Assumptions c11_fuel_split.
