(* C04 - Client: replies are matched to requests by id, whatever the peer's ordering.
   Property theorems only; every proof is `exact <lemma>` (lemmas in coq/cli/CliProofs.v, invariant in
   coq/cli/CliInv.v).  [traces_to c tr s]: s is the state of the client model after the label sequence
   tr (any interleaving of API calls, context ends, peer records, transport faults and goroutine
   releases) from the initial state with hook configuration c. *)
From Coq Require Import List NArith ZArith Bool Arith.
From RecordUpdate Require Import RecordUpdate.
From JV Require Import Bytes Msg CliModel CliLemmas CliInv CliProofs.
Import ListNotations.

(* ids allocated are pairwise distinct; no two pending entries share an id; every pending entry is the
   registered, unanswered request bearing that id; no registration ever replaced a pending entry *)
Theorem c04_ids_fresh : forall c tr s, traces_to c tr s ->
  (forall i i' sl sl', slot_at s i = Some sl -> slot_at s i' = Some sl' ->
                       id_text (sl_id sl) = id_text (sl_id sl') -> i = i')
  /\ NoDup (map fst (pending s))
  /\ (forall key i, In (key, i) (pending s) ->
        exists sl, slot_at s i = Some sl /\ key = id_text (sl_id sl) /\ sl_reg sl = true /\ sl_buf sl = None)
  /\ overwrites s = 0.
Proof. exact ids_fresh. Qed.
Print Assumptions c04_ids_fresh.

(* no schedule and no peer stream reaches a crash state: no second write to a slot channel (full or
   closed), no id mismatch in Response.wait; a written slot holds a message whose fixID(id) is its id *)
Theorem c04_slot_single_writer : forall c tr s, traces_to c tr s ->
  crash s = None
  /\ (forall i sl v, slot_at s i = Some sl -> sl_buf sl = Some v -> fix_id (v_id v) = id_text (sl_id sl)).
Proof. exact slot_single_writer. Qed.
Print Assumptions c04_slot_single_writer.

(* what delivering one member does in any reachable state: requests/notifications and members whose id
   is not pending (unknown, duplicate, "1" for 1, null, absent, rejected) complete nothing; a reply whose
   id is pending is written to exactly the slot registered under that id, whose own id is that id, the
   entry leaves the pending set and no other slot changes.
   FULL STATEMENT NOT YET PROVED (hence _partial): "for every trace, if ORet n (RetCall r) is in the
   history then r = call_res (val_of_member j k m) for a member m of inbound record j with
   fix_id (j_id m) = the id sent for n, and (j,k) is the first such member delivered while n was
   pending; Batch analogously per entry, in spec order".  Missing: the invariant tying the ghost source
   (v_src) of slot values and the returned value to the delivery log (stability of written slots across
   steps); the local statement below plus c04_slot_single_writer (no second write) are its ingredients. *)
Theorem c04_reply_is_peers_partial : forall c tr s, traces_to c tr s -> forall j k m,
  (is_req_or_notif m = true ->
     slots (deliver_member j k m s) = slots s /\ pending (deliver_member j k m s) = pending s)
  /\ (is_req_or_notif m = false -> assoc (fix_id (j_id m)) (pending s) = None -> deliver_member j k m s = s)
  /\ (is_req_or_notif m = false -> forall i, assoc (fix_id (j_id m)) (pending s) = Some i ->
        exists sl, slot_at s i = Some sl /\ fix_id (j_id m) = id_text (sl_id sl) /\ sl_buf sl = None
                   /\ slots (deliver_member j k m s)
                      = upd_nth i (fun sl => set sl_buf (fun _ => Some (val_of_member j k m)) sl) (slots s)
                   /\ pending (deliver_member j k m s) = assoc_del (fix_id (j_id m)) (pending s)
                   /\ crash (deliver_member j k m s) = None).
Proof. exact (fun c tr s T j k m => deliver_member_spec j k m s (inv1_reach c s (traces_reach c tr s T))). Qed.
Print Assumptions c04_reply_is_peers_partial.

(* the value carried to the caller is the member's error object if it has one (a deferred validation
   error first) and its result otherwise, tagged with the member's own id *)
Theorem c04_reply_payload : forall j k m,
  v_id (val_of_member j k m) = j_id m /\ v_src (val_of_member j k m) = SPeer j k
  /\ (j_err m = None -> v_err (val_of_member j k m) = j_error m /\ v_res (val_of_member j k m) = j_result m)
  /\ (forall e, j_err m = Some e -> v_err (val_of_member j k m) = Some e /\ v_res (val_of_member j k m) = []).
Proof. exact val_of_member_payload. Qed.
Print Assumptions c04_reply_payload.

(* step is total on every peer record and no record makes the client crash *)
Theorem c04_total : forall c tr s, traces_to c tr s ->
  (forall f, exists s' os, step s (LFeed f) = Some (s', os) /\ crash s' = None)
  /\ (forall j d, nth_error (delivs s) j = Some d -> d_st d = DParked ->
        exists s' os, step s (LRelDeliver j) = Some (s', os) /\ crash s' = None).
Proof. exact total_on_records. Qed.
Print Assumptions c04_total.
