(* C04 - Client: replies are matched to requests by id, whatever the peer's ordering.
   Property theorems only; every proof is `exact <lemma>` (lemmas in coq/cli/CliProofs.v, CliHist.v, CliSend.v, CliFed.v, CliWire.v;
   invariants in coq/cli/CliInv.v, CliCtx.v, CliOps.v, CliHist.v, CliSend.v).  [traces_to c tr s]: s is the state of the client model after the label sequence
   tr (any interleaving of API calls, context ends, peer records, transport faults and goroutine
   releases) from the initial state with hook configuration c. *)
From Coq Require Import List NArith ZArith Bool Arith.
From RecordUpdate Require Import RecordUpdate.
From JV Require Import Bytes Msg CliModel CliLemmas CliInv CliProofs CliCtx CliOps CliHist CliSend CliFed CliWire.
Import ListNotations.

(* ids allocated are pairwise distinct; no two pending entries share an id; every pending entry is the
   registered, unanswered request bearing that id; no registration ever replaced a pending entry *)
Theorem c04_ids_fresh : forall c tr s, traces_to c tr s ->
  (forall i i' sl sl', slot_at s i = Some sl -> slot_at s i' = Some sl' ->
                       id_text (sl_id sl) = id_text (sl_id sl') -> i = i')
  /\ NoDup (map fst (pending s))
  /\ (forall key i, In (key, i) (pending s) ->
        exists sl, slot_at s i = Some sl /\ key = id_text (sl_id sl) /\ sl_reg sl = true /\ sl_buf sl = None)
  /\ overwrites s = 0.
Proof. exact ids_fresh. Qed.
Print Assumptions c04_ids_fresh.

(* no schedule and no peer stream reaches a crash state: no second write to a slot channel (full or
   closed), no id mismatch in Response.wait; a written slot holds a message whose fixID(id) is its id *)
Theorem c04_slot_single_writer : forall c tr s, traces_to c tr s ->
  crash s = None
  /\ (forall i sl v, slot_at s i = Some sl -> sl_buf sl = Some v -> fix_id (v_id v) = id_text (sl_id sl)).
Proof. exact slot_single_writer. Qed.
Print Assumptions c04_slot_single_writer.

(* THE REPLY IS THE PEER'S (full statement, every trace).
   [evlog (init_of c) tr] is the delivery log of the run (CliHist.v): in order of occurrence, every reply-shaped
   member handed to deliverLocked ([DMember j k m tgt]: member m at position k of inbound record j; tgt = what the
   lookup of its id in the pending set returned at that moment) and every watcher critical section ([DWatch i w]).
   [answered_by s log i sl v e] (CliHist.v): slot i (sl) holds v; e is the ONE event of the log that found the
   slot's id pending - [filter (hits id) log = [e]] - and v is its value; if e is a member delivery then m is member
   k of record j of the delivery records of s, reply-shaped, fixID(m.id) = the slot's id, it was written to slot i
   and v = val_of_member j k m; if e is the slot's watcher then v is the context's own error (or an internal error
   carrying the stop cause) and the slot's context ended because the caller's context ended or the client stopped.
   Call: if [ORet n (RetCall r)] is in the history then r = call_res v for the value v of the slot allocated by
   n, answered as above.  Batch: the responses are, per slot of n in allocation (= spec) order, the pair of the
   slot's id and batch_res of the slot's value, each answered as above. *)
Theorem c04_reply_is_peers : forall c tr s, traces_to c tr s ->
  (forall n r, In (ORet n (RetCall r)) (hist s) ->
     exists o i rest sl v e,
       op_at s n = Some o /\ o_kind o = KCall /\ o_slots o = i :: rest /\ slot_at s i = Some sl /\ sl_op sl = n
       /\ answered_by s (evlog (init_of c) tr) i sl v e /\ r = call_res v)
  /\ (forall n rs, In (ORet n (RetBatch rs)) (hist s) ->
        exists o, op_at s n = Some o /\ o_kind o = KBatch
          /\ Forall2 (fun i p => exists sl v e, slot_at s i = Some sl /\ sl_op sl = n
                                   /\ answered_by s (evlog (init_of c) tr) i sl v e
                                   /\ p = (id_text (sl_id sl), batch_res v)) (o_slots o) rs).
Proof. exact reply_is_peers. Qed.
Print Assumptions c04_reply_is_peers.

(* "the FIRST such member delivered while the entry was pending": the answering event is the only event of the
   whole log that found the id pending; the log splits around it into a part before and a part after in which no
   event found that id pending (members carrying the id there were dropped: tgt = None) *)
Theorem c04_answer_first_only : forall s log i sl v e, answered_by s log i sl v e ->
  (forall e', In e' log -> hits (id_text (sl_id sl)) e' = true -> e' = e)
  /\ exists l1 l2, log = l1 ++ e :: l2 /\ filter (hits (id_text (sl_id sl))) l1 = [] /\ filter (hits (id_text (sl_id sl))) l2 = [].
Proof. exact answered_only. Qed.
Print Assumptions c04_answer_first_only.

(* the delivery records are the peer's: the message arrays fed by the environment (LFeed labels of the trace) are,
   in order, those picked up by the reader so far followed by those still queued; hence the member (j, k) of the
   delivery log named in c04_reply_is_peers is member k of the j-th array the peer sent *)
Theorem c04_delivered_are_fed : forall c tr s, traces_to c tr s ->
  fed tr = map d_msgs (delivs s) ++ flat_map feed_msgs (ch_in s)
  /\ (forall j k m, member_at s j k m -> exists ms, nth_error (fed tr) j = Some ms /\ nth_error ms k = Some m).
Proof. exact delivered_are_fed. Qed.
Print Assumptions c04_delivered_are_fed.

(* the id the replies are matched under is the id that went out on the wire: a returned Call sent one request
   carrying its slot's id, the spec's method and parameters; a returned Batch sent one record [ms] - its own
   [req_members] - with one member per spec in spec order, each carrying its spec's method and parameters
   ([mem_payload] / [spec_payload]), no id at the notification positions and, at the other positions in order, the ids
   of the operation's slots; and its responses are, in order, those for the ids at the non-notification positions of
   that record (one response per non-notification spec, in spec order, notifications omitted) *)
Theorem c04_wire_ids : forall c tr s, traces_to c tr s ->
  (forall n r, In (ORet n (RetCall r)) (hist s) ->
     exists o i sl sp, op_at s n = Some o /\ o_specs o = [sp] /\ sp_notify sp = false /\ o_slots o = [i] /\ slot_at s i = Some sl
       /\ In (OSendReq true false [(id_text (sl_id sl), sp_method sp, sp_params sp)]) (hist s))
  /\ (forall n rs, In (ORet n (RetBatch rs)) (hist s) ->
        exists o ms, op_at s n = Some o /\ In (OSendReq true (negb (length (o_specs o) =? 1)) ms) (hist s)
          /\ length ms = length (o_specs o) /\ map fst rs = nn_ids (o_specs o) ms /\ length rs = nn (o_specs o)
          /\ ms = req_members (o_specs o) (o_slots o) s
          /\ map mem_payload ms = map spec_payload (o_specs o)
          /\ Forall2 (fun sp m => sp_notify sp = true -> fst (fst m) = []) (o_specs o) ms
          /\ nn_ids (o_specs o) ms = map (slot_text s) (o_slots o)).
Proof. exact wire_ids_full. Qed.
Print Assumptions c04_wire_ids.

(* EACH REPLY IS CONSUMED BY AT MOST ONE REQUEST (global form, every trace): one member (j, k) of the peer's records
   is the source of at most one slot value - two slots whose values came from the same member are the same slot - and
   the slot that consumed it bears the member's id *)
Theorem c04_reply_single_consumer : forall c tr s, traces_to c tr s ->
  (forall i i' sl sl' v v' j k, slot_at s i = Some sl -> slot_at s i' = Some sl' -> sl_buf sl = Some v -> sl_buf sl' = Some v' ->
     v_src v = SPeer j k -> v_src v' = SPeer j k -> i = i')
  /\ (forall i sl v j k, slot_at s i = Some sl -> sl_buf sl = Some v -> v_src v = SPeer j k ->
        exists m, member_at s j k m /\ is_req_or_notif m = false /\ fix_id (j_id m) = id_text (sl_id sl) /\ v = val_of_member j k m).
Proof. exact reply_single_consumer. Qed.
Print Assumptions c04_reply_single_consumer.

(* per-operation determinacy: if the caller's context did not end and the client did not stop, the value returned
   is a function of the payload of the members carrying the request's id alone ([answers s key f a]: every
   reply-shaped member with id key among all records delivered, in whatever order and grouping, has f m = a) *)
Theorem c04_reply_determined : forall c tr s, traces_to c tr s ->
  forall n o, op_at s n = Some o -> o_ctx o = None -> err s = None ->
  (forall r key a, In (ORet n (RetCall r)) (hist s) -> hd_error (op_ids s n) = Some key -> answers s key member_res a -> r = a)
  /\ (forall rs key r1 a, In (ORet n (RetBatch rs)) (hist s) -> In (key, r1) rs -> answers s key member_bres a -> r1 = a).
Proof. exact reply_determined. Qed.
Print Assumptions c04_reply_determined.

(* order irrelevance: two runs - any two configurations, schedules, orders, partitions into arrays, duplications
   of the peer's records - in which operation n put the same id on its request and the peer answers that id with
   the same payload return the same value (Call), resp. the same response for every id (Batch) *)
Theorem c04_order_irrelevant : forall c1 tr1 s1 c2 tr2 s2, traces_to c1 tr1 s1 -> traces_to c2 tr2 s2 ->
  forall n o1 o2, op_at s1 n = Some o1 -> op_at s2 n = Some o2 ->
    o_ctx o1 = None -> o_ctx o2 = None -> err s1 = None -> err s2 = None ->
    (forall key a r1 r2,
       hd_error (op_ids s1 n) = Some key -> hd_error (op_ids s2 n) = Some key ->
       answers s1 key member_res a -> answers s2 key member_res a ->
       In (ORet n (RetCall r1)) (hist s1) -> In (ORet n (RetCall r2)) (hist s2) -> r1 = r2)
    /\ (forall rs1 rs2 key a r1 r2,
          In (ORet n (RetBatch rs1)) (hist s1) -> In (ORet n (RetBatch rs2)) (hist s2) ->
          In (key, r1) rs1 -> In (key, r2) rs2 ->
          answers s1 key member_bres a -> answers s2 key member_bres a -> r1 = r2).
Proof. exact order_irrelevant. Qed.
Print Assumptions c04_order_irrelevant.

(* local form (ingredient of c04_reply_is_peers): what delivering one member does in any reachable state:
   requests/notifications and members whose id is not pending (unknown, duplicate, "1" for 1, null, absent,
   rejected) complete nothing; a reply whose id is pending is written to exactly the slot registered under that
   id, whose own id is that id, the entry leaves the pending set and no other slot changes *)
Theorem c04_deliver_local : forall c tr s, traces_to c tr s -> forall j k m,
  (is_req_or_notif m = true ->
     slots (deliver_member j k m s) = slots s /\ pending (deliver_member j k m s) = pending s)
  /\ (is_req_or_notif m = false -> assoc (fix_id (j_id m)) (pending s) = None -> deliver_member j k m s = s)
  /\ (is_req_or_notif m = false -> forall i, assoc (fix_id (j_id m)) (pending s) = Some i ->
        exists sl, slot_at s i = Some sl /\ fix_id (j_id m) = id_text (sl_id sl) /\ sl_buf sl = None
                   /\ slots (deliver_member j k m s)
                      = upd_nth i (fun sl => set sl_buf (fun _ => Some (val_of_member j k m)) sl) (slots s)
                   /\ pending (deliver_member j k m s) = assoc_del (fix_id (j_id m)) (pending s)
                   /\ crash (deliver_member j k m s) = None).
Proof. exact (fun c tr s T j k m => deliver_member_spec j k m s (inv1_reach c s (traces_reach c tr s T))). Qed.
Print Assumptions c04_deliver_local.

(* the value carried to the caller is the member's error object if it has one (a deferred validation
   error first) and its result otherwise, tagged with the member's own id *)
Theorem c04_reply_payload : forall j k m,
  v_id (val_of_member j k m) = j_id m /\ v_src (val_of_member j k m) = SPeer j k
  /\ (j_err m = None -> v_err (val_of_member j k m) = j_error m /\ v_res (val_of_member j k m) = j_result m)
  /\ (forall e, j_err m = Some e -> v_err (val_of_member j k m) = Some e /\ v_res (val_of_member j k m) = []).
Proof. exact val_of_member_payload. Qed.
Print Assumptions c04_reply_payload.

(* step is total on every peer record and no record makes the client crash *)
Theorem c04_total : forall c tr s, traces_to c tr s ->
  (forall f, exists s' os, step s (LFeed f) = Some (s', os) /\ crash s' = None)
  /\ (forall j d, nth_error (delivs s) j = Some d -> d_st d = DParked ->
        exists s' os, step s (LRelDeliver j) = Some (s', os) /\ crash s' = None).
Proof. exact total_on_records. Qed.
Print Assumptions c04_total.

(** * Monitor over the observation sequence of a run (cli/CliMonitors.v), extracted (extract/climon.list) and
    evaluated by ocaml/run_cli.ml on every harness log, racing ones included.  [env_of tr] = the environment labels
    of the trace in order, [concat oss] = the observations of the run in order.  No hypothesis: the id counter of the
    model is a natural number and never wraps. *)
From JV Require CliMonitors.
Module Monitors.
Import CliMonitors.
(* (b) the ids on all request records handed to the transport in a run (transmitted or failed; members without an
   id - notifications - skipped) are pairwise distinct *)
Theorem c04_mon_ids_fresh_sound : forall c tr s oss, run (init_of c) tr = Some (s, oss) ->
  mon_ids_fresh (env_of tr) (concat oss) = true.
Proof. exact CliMonitors.mon_ids_fresh_sound. Qed.
Print Assumptions c04_mon_ids_fresh_sound.

Theorem c04_sent_ids_nodup : forall c tr s oss, run (init_of c) tr = Some (s, oss) -> NoDup (sent_ids (concat oss)).
Proof. exact CliMonitors.sent_ids_nodup. Qed.
Print Assumptions c04_sent_ids_nodup.
End Monitors.
