(* C08 - Server: clean, crash-free, restartable shutdown for every stop cause/timing.
   This file only restates the property theorems over the frozen model srv/SrvModel.v; the definitions
   (stop_cause, stop_queue facts, owner_in, all_done, started, fresh_fields, ...), the invariants, the proofs
   and the non-vacuity Examples are in srv/SrvC08.v (effects of critical sections, invariant bundle, no crash),
   srv/SrvC08b.v (stop once, status, WaitStatus after the handlers), srv/SrvC08c.v (cancellation, retained
   notifications, restart), srv/SrvC08q.v (quiescence, termination), srv/SrvC08u.v (unblocking channels), srv/SrvC08r.v (drained notifications),
   srv/SrvC08x.v (scenarios), srv/SrvC08y.v (the flags of ServerStatus) srv/SrvC08n.v (notifications handled)
   srv/SrvC08w.v (callback watchers), srv/SrvC08v.v (restart after WaitStatus), srv/SrvRestartSim.v and
   srv/SrvRestartSimCb.v (the restart simulation, without and with callback records in the history)
   and srv/SrvC08m.v (no livelock: a measure every release window decreases).
   All statements quantify over ALL configurations, ALL reachable states (reach = window boundaries, reachf =
   every intermediate state too) and ALL traces; there are no bounds.
   OWaitRet carries an [option stopcause]: "at most one flag" holds by type. *)
From Coq Require Import List NArith ZArith Bool Arith Lia.
From RecordUpdate Require Import RecordUpdate.
From JV Require Import Bytes Msg SrvModel SrvLemmas SrvBasics SrvC10 SrvC08 SrvC08b SrvC08c SrvC08q SrvC08r SrvC08s SrvC08u SrvC08y SrvC08n SrvC08w SrvC08v SrvC08m.
From JV Require Import SrvEventually SrvProgress SrvRestartSim SrvRestartSimCb SrvC09.
Import ListNotations.

(** 1. No interleaving makes the process panic: none of the model's crash outcomes (CrNilChannel = deliver
    through the nil channel, CrSendOnClosedWork = signal after stop, CrCloseOfClosedWork = stop twice,
    CrQueueNotEmpty, CrNegativeBarrier, ...) is ever reached, in any state of any window. *)
Theorem c08_no_crash : forall c s, reachf c s -> crash s = None.
Proof. exact no_crash_f. Qed.
Print Assumptions c08_no_crash.

Theorem c08_no_crash_trace : forall c tr s oss, run (init_of c) tr = Some (s, oss) -> crash s = None.
Proof. exact no_crash_trace. Qed.
Print Assumptions c08_no_crash_trace.

(* the invariants behind it, in the words of the property: a running server has an open work signal; an exited
   (or never started) dispatcher leaves an empty queue; a stopped server queues only single valid notifications;
   a unit dispatched through the nil channel has nothing to say *)
Theorem c08_no_crash_invariants : forall c s, reachf c s ->
  (running s = true -> work_closed s = false) /\
  (dp s = DExited \/ dp s = DNone -> inq s = [] /\ running s = false) /\
  (running s = false -> Forall (fun bm => exists m, snd bm = [m] /\ keep_note m = true) (inq s)) /\
  (forall u un, nth_error (units s) u = Some un -> u_chok un = false -> responses (unit_tasks s u) = []) /\
  nbar s = countb (pend (units s)) (tasks s).
Proof. exact no_crash_invariants. Qed.
Print Assumptions c08_no_crash_invariants.

(** 2. Every Start is closed exactly once; the first cause wins. *)
Theorem c08_stop_once : forall c s, reach c s ->
  closes s <= starts s /\ (closes s = starts s <-> running s = false).
Proof. exact stop_once. Qed.
Print Assumptions c08_stop_once.

Theorem c08_stop_err_set : forall c s, reach c s ->
  (stop_err s = None <-> running s = true \/ starts s = 0) /\
  (forall e, stop_err s = Some e -> running s = false /\ work_closed s = true /\ 0 < starts s).
Proof. exact stop_err_set. Qed.
Print Assumptions c08_stop_err_set.

(* a later cause is the identity: stopLocked on a stopped server changes nothing and closes nothing *)
Theorem c08_stop_idempotent : forall k s, running s = false -> stop_locked k s = (s, []).
Proof. exact stop_idempotent. Qed.
Print Assumptions c08_stop_idempotent.

(* the window that stops the server names the cause (LRelStop -> SCStop; LRelRead holding a Recv error -> that
   error), records it, closes the channel exactly once and releases every reservation *)
Theorem c08_stop_window : forall c s l s' os, reach c s -> step s l = Some (s', os) ->
  running s = true -> running s' = false ->
  exists k, stop_cause s l k /\ stop_err s' = Some k /\ closes s' = S (closes s) /\ work_closed s' = true /\
            used s' = [] /\ countb is_close os = 1.
Proof. exact stop_window. Qed.
Print Assumptions c08_stop_window.

Theorem c08_stop_cause_spec : forall s l k,
  stop_cause s l k <-> (exists n, l = LRelStop n /\ k = SCStop) \/ (l = LRelRead /\ rd s = RHold (FErr k)).
Proof. exact stop_cause_spec. Qed.
Print Assumptions c08_stop_cause_spec.

Theorem c08_first_cause_wins : forall c s l s' os e, reach c s -> step s l = Some (s', os) ->
  stop_err s = Some e -> l <> LStart -> stop_err s' = Some e /\ running s' = false.
Proof. exact first_cause_wins. Qed.
Print Assumptions c08_first_cause_wins.

Theorem c08_first_cause_wins_trace : forall c tr s s' oss e, reach c s -> run s tr = Some (s', oss) ->
  stop_err s = Some e -> ~ In LStart tr -> stop_err s' = Some e /\ running s' = false.
Proof. exact first_cause_wins_trace. Qed.
Print Assumptions c08_first_cause_wins_trace.

Theorem c08_close_per_stop : forall c s l s' os, reach c s -> step s l = Some (s', os) ->
  closes s' = closes s + (if running s && negb (running s') then 1 else 0) /\
  starts s' = starts s + (if negb (running s) && running s' then 1 else 0).
Proof. exact close_per_stop. Qed.
Print Assumptions c08_close_per_stop.

(** 3. What WaitStatus reports. *)
Theorem c08_status : forall c s l s' os r, reach c s -> step s l = Some (s', os) -> In (OWaitRet r) os ->
  r = stop_err s' /\ wg s' = 0 /\ running s' = false /\ (0 < starts s' -> r <> None).
Proof. exact status. Qed.
Print Assumptions c08_status.

(* ... namely the cause of the window that stopped the current run, whatever happens afterwards (later Recv
   errors, Stop calls, records), until the next Start *)
Theorem c08_status_cause : forall c s l s1 os tr s2 oss, reach c s -> step s l = Some (s1, os) ->
  running s = true -> running s1 = false -> run s1 tr = Some (s2, oss) -> ~ In LStart tr ->
  exists k, stop_cause s l k /\ stop_err s2 = Some k /\
    (forall r, In (OWaitRet r) os -> r = Some k) /\
    (forall os' r, In os' oss -> In (OWaitRet r) os' -> r = Some k).
Proof. exact status_cause. Qed.
Print Assumptions c08_status_cause.

(* the three fields of ServerStatus: [status_of e] = (Err, Stopped, Closed) is WaitStatus of server.go applied to
   the recorded cause (Closed for io.EOF or a closing error, Stopped for errServerStopped, Err otherwise) *)
Theorem c08_status_of_table :
  status_of None = (None, false, false) /\ status_of (Some SCStop) = (None, true, false) /\
  status_of (Some SCEOF) = (None, false, true) /\ status_of (Some SCClosing) = (None, false, true) /\
  status_of (Some SCOther) = (Some SCOther, false, false).
Proof. exact status_of_table. Qed.
Print Assumptions c08_status_of_table.

Theorem c08_status_one_flag : forall e, st_stopped e && st_closed e = false.
Proof. exact status_of_one_flag. Qed.
Print Assumptions c08_status_one_flag.

Theorem c08_status_err_no_flag : forall e, st_err e <> None ->
  st_stopped e = false /\ st_closed e = false /\ st_err e = Some SCOther.
Proof. exact status_of_err_no_flag. Qed.
Print Assumptions c08_status_err_no_flag.

(* [flags s l r]: r is classified by the window (state s, label l) that stopped the run: Stopped iff it was a Stop
   call, Closed iff the reader held EOF or a closing error, Err iff it held another error; never two at once *)
Theorem c08_flags_spec : forall s l r, flags s l r <->
  (st_stopped r = true <-> (exists n, l = LRelStop n) \/ (l = LRelRead /\ rd s = RHold (FErr SCStop))) /\
  (st_closed r = true <-> l = LRelRead /\ (rd s = RHold (FErr SCEOF) \/ rd s = RHold (FErr SCClosing))) /\
  (st_err r <> None <-> l = LRelRead /\ rd s = RHold (FErr SCOther)) /\
  (st_err r = None \/ st_err r = Some SCOther) /\
  st_stopped r && st_closed r = false.
Proof. exact flags_spec. Qed.
Print Assumptions c08_flags_spec.

Theorem c08_flags_go_spec : forall s l r, flags_go s l r <->
  (st_stopped r = true <-> exists n, l = LRelStop n) /\
  (st_closed r = true <-> l = LRelRead /\ (rd s = RHold (FErr SCEOF) \/ rd s = RHold (FErr SCClosing))) /\
  (st_err r <> None <-> l = LRelRead /\ rd s = RHold (FErr SCOther)) /\
  (st_err r = None \/ st_err r = Some SCOther) /\
  st_stopped r && st_closed r = false.
Proof. exact flags_go_spec. Qed.
Print Assumptions c08_flags_go_spec.

(* [last_stop s0 tr i s l]: window i of the run of tr from s0 lies in the stopped period begun by label l in state s *)
Theorem c08_last_stop_spec : forall s0 tr i s l, last_stop s0 tr i s l <->
  exists pre mid post oss0 s1 os1,
    tr = pre ++ l :: mid ++ post /\ length pre + length mid = i /\ ~ In LStart mid /\
    run s0 pre = Some (s, oss0) /\ step s l = Some (s1, os1) /\ running s = true /\ running s1 = false.
Proof. exact last_stop_spec. Qed.
Print Assumptions c08_last_stop_spec.

(* every WaitStatus return between the stop window and the next Start *)
Theorem c08_status_flags : forall c s l s1 os tr s2 oss, reach c s -> step s l = Some (s1, os) ->
  running s = true -> running s1 = false -> run s1 tr = Some (s2, oss) -> ~ In LStart tr ->
  forall os' r, In os' (os :: oss) -> In (OWaitRet r) os' -> flags s l r.
Proof. exact status_flags. Qed.
Print Assumptions c08_status_flags.

(* every WaitStatus return of every trace: either the server was never started (zero status), or the flags are those
   of the window that stopped the current run *)
Theorem c08_status_flags_trace : forall c tr s oss i os r, run (init_of c) tr = Some (s, oss) ->
  nth_error oss i = Some os -> In (OWaitRet r) os ->
  (r = None /\ ~ In LStart (firstn (S i) tr)) \/
  (exists s0 l, last_stop (init_of c) tr i s0 l /\ flags s0 l r).
Proof. exact status_flags_trace. Qed.
Print Assumptions c08_status_flags_trace.

(* errServerStopped is unexported: no Channel returns it from Recv.  Under that assumption on the environment
   Stopped is reported exactly when the run was ended by a Stop call *)
Theorem c08_status_flags_nofeed : forall c tr s oss i os r, run (init_of c) tr = Some (s, oss) ->
  (forall f, In (LFeed f) tr -> f <> FErr SCStop) ->
  nth_error oss i = Some os -> In (OWaitRet r) os ->
  (r = None /\ ~ In LStart (firstn (S i) tr)) \/
  (exists s0 l, last_stop (init_of c) tr i s0 l /\ flags_go s0 l r).
Proof. exact status_flags_nofeed. Qed.
Print Assumptions c08_status_flags_nofeed.

(* REFUTED without that assumption (an artefact of the model's type of Recv errors, which contains the sentinel) *)
Theorem c08_status_stopped_only_by_stop_refuted_without_nofeed :
  exists oss s, run (init_of ex_cfg) tr_recv_sentinel = Some (s, oss) /\
    nth_error oss 4 = Some [OClose; OWaitRet (Some SCStop)] /\ st_stopped (Some SCStop) = true /\
    forall n, ~ In (LRelStop n) tr_recv_sentinel.
Proof. exact status_stopped_only_by_stop_refuted_without_nofeed. Qed.
Print Assumptions c08_status_stopped_only_by_stop_refuted_without_nofeed.

(** 4. WaitStatus returns only after every goroutine of the server and every handler has finished. *)
Theorem c08_wait_after_handlers : forall c s l s' os r, reach c s -> step s l = Some (s', os) ->
  In (OWaitRet r) os ->
  all_done s' /\
  (forall k t, nth_error (tasks s') k = Some t ->
     t_st t <> TRunning /\ t_st t <> TWaiting /\ t_st t <> TAtAcquire /\ forall o, t_st t <> TAtHandled o).
Proof. exact wait_after_handlers. Qed.
Print Assumptions c08_wait_after_handlers.

(* [all_done] spelled out *)
Theorem c08_all_done_spec : forall s, all_done s ->
  wg s = 0 /\ (rd s = RExited \/ rd s = RNone) /\ (dp s = DExited \/ dp s = DNone) /\
  (forall u un, nth_error (units s) u = Some un -> u_st un = UFinished) /\
  (forall k t, nth_error (tasks s) k = Some t -> finished t = true) /\
  inq s = [] /\ running s = false /\ used s = [] /\ sem_wait s = [] /\ nbar s = 0.
Proof. exact all_done_spec. Qed.
Print Assumptions c08_all_done_spec.

(* and nothing moves any more until the next Start *)
Theorem c08_idle_until_start : forall c s l s' os, reach c s -> wg s = 0 -> step s l = Some (s', os) ->
  l <> LStart -> wg s' = 0 /\ tasks s' = tasks s /\ units s' = units s /\ same5 s s'.
Proof. exact idle_until_start. Qed.
Print Assumptions c08_idle_until_start.

(** 5. The stop cancels the context of every in-flight call, and queued calls are dropped for good. *)
Theorem c08_calls_cancelled : forall c s l s' os, reach c s -> step s l = Some (s', os) ->
  running s = true -> running s' = false ->
  used s' = [] /\
  (forall k t, nth_error (tasks s) k = Some t ->
     nth_error (tasks s') k = Some (if owner_in (used s) k then cancel_fn t else t)) /\
  (forall k t un, nth_error (tasks s) k = Some t -> t_hasctx t = true -> t_id t <> [] ->
     nth_error (units s) (t_unit t) = Some un -> u_st un <> UFinished -> owner_in (used s) k = true).
Proof. exact calls_cancelled. Qed.
Print Assumptions c08_calls_cancelled.

Theorem c08_calls_cancelled_inflight : forall c s l s' os k t un, reach c s -> step s l = Some (s', os) ->
  running s = true -> running s' = false ->
  nth_error (tasks s) k = Some t -> t_hasctx t = true -> t_id t <> [] ->
  nth_error (units s) (t_unit t) = Some un -> u_st un <> UFinished ->
  exists t', nth_error (tasks s') k = Some t' /\ t_cancelled t' = true /\ t_id t' = t_id t /\
    (t_st t = TWaiting -> t_st t' = TDone (Some cancel_err)) /\ (t_st t <> TWaiting -> t_st t' = t_st t).
Proof. exact calls_cancelled_inflight. Qed.
Print Assumptions c08_calls_cancelled_inflight.

(* until the next Start every task that is created belongs to a retained notification: no queued call is
   ever run, and nothing is ever answered through the closed channel *)
Theorem c08_stopped_only_notes : forall c tr s s' oss, reach c s -> running s = false ->
  run s tr = Some (s', oss) -> ~ In LStart tr ->
  running s' = false /\
  forall k t, length (tasks s) <= k -> nth_error (tasks s') k = Some t -> is_note t = true /\ response_of t = None.
Proof. exact stopped_only_notes_trace. Qed.
Print Assumptions c08_stopped_only_notes.

(** 6. Every valid notification received before the stop is kept, as a unit of its own, in order ... *)
Theorem c08_notifications_kept : forall c s l s' os, reach c s -> step s l = Some (s', os) ->
  running s = true -> running s' = false ->
  inq s' = stop_queue (inq s) /\
  (forall b m, In (b, [m]) (inq s') <-> exists ms, In (b, ms) (inq s) /\ In m ms /\ keep_note m = true) /\
  concat (map snd (inq s')) = queue_notes (inq s).
Proof. exact notifications_kept_full. Qed.
Print Assumptions c08_notifications_kept.

(* ... and is handed to its handler: at a quiescent point of the stopped server the queue is empty, unless the
   dispatcher waits at the barrier for a notification handler that is still running (or queued for a slot) *)
Theorem c08_notifications_quiescent : forall c s, reach c s -> quiescent s = true -> running s = false ->
  inq s = [] \/
  exists u k t, dp s = DBarrierWait u /\ 0 < nbar s /\ nth_error (tasks s) k = Some t /\ is_note t = true /\
    unit_running s t = true /\ (t_st t = TRunning \/ (t_st t = TWaiting /\ sem_free s = 0)).
Proof. exact SrvC08q.c08_notifications_quiescent. Qed.
Print Assumptions c08_notifications_quiescent.

(* once the handlers have returned every retained notification has been dispatched and handled *)
Theorem c08_notifications_drained : forall c s, reach c s -> quiescent s = true -> running s = false ->
  (forall k t, nth_error (tasks s) k = Some t -> t_st t <> TRunning) -> 0 < cf_K c ->
  inq s = [] /\ (dp s = DNone \/ dp s = DExited) /\
  (forall k t, nth_error (tasks s) k = Some t -> finished t = true) /\
  (forall u un, nth_error (units s) u = Some un -> u_st un = UFinished).
Proof. exact notifications_drained. Qed.
Print Assumptions c08_notifications_drained.

(* composed, from the stop window on: at any later quiescent point (no Start in between) at which no handler is still
   running and with a positive concurrency limit, the queue is empty; the valid notifications that were queued at
   the stop have one task each, in queue order, after the tasks that existed; each such task has been handled by its
   handler (TDone None, with the handler's entry OStart among the observations of the run; rpc.serverInfo has no
   user handler) or was skipped because its method is unknown; and every runnable notification task that already
   existed at the stop is done *)
Theorem c08_notifications_handled : forall c s l s1 os tr s2 oss, reach c s -> step s l = Some (s1, os) ->
  running s = true -> running s1 = false -> run s1 tr = Some (s2, oss) -> ~ In LStart tr ->
  quiescent s2 = true -> (forall k t, nth_error (tasks s2) k = Some t -> t_st t <> TRunning) -> 0 < cf_K c ->
  inq s2 = [] /\
  length (tasks s2) = length (tasks s) + length (queue_notes (inq s)) /\
  (forall j m, nth_error (queue_notes (inq s)) j = Some m ->
     exists t, nth_error (tasks s2) (length (tasks s) + j) = Some t /\ note_handled s (concat (os :: oss)) m t) /\
  (forall k t, nth_error (tasks s) k = Some t -> runnable t = true -> is_note t = true ->
     exists t', nth_error (tasks s2) k = Some t' /\ t_st t' = TDone None /\ t_params t' = t_params t).
Proof. exact notifications_handled. Qed.
Print Assumptions c08_notifications_handled.

Theorem c08_note_handled_spec : forall s obs m t, note_handled s obs m t <->
  t_method t = j_method m /\ t_params t = j_params m /\ is_note t = true /\ t_cancelled t = false /\
  ((assign_method s (j_method m) = None /\ t_st t = TSkip /\ t_pre t = Some err_not_found) \/
   (assign_method s (j_method m) = Some true /\ t_st t = TDone None /\ t_builtin t = true) \/
   (assign_method s (j_method m) = Some false /\ t_st t = TDone None /\ t_builtin t = false /\
    In (OStart (j_params m) false) obs)).
Proof. exact note_handled_spec. Qed.
Print Assumptions c08_note_handled_spec.

(* a notification task that is done has no result, and was never cancelled *)
Theorem c08_note_done : forall c s k t b, reachf c s -> nth_error (tasks s) k = Some t -> is_note t = true ->
  t_st t = TDone b -> b = None.
Proof. exact (fun c s k t b R => reachf_note_done c s R k t b). Qed.
Print Assumptions c08_note_done.

(* the status of every task at a quiescent point *)
Theorem c08_quiescent_tasks : forall c s k t, reach c s -> quiescent s = true -> nth_error (tasks s) k = Some t ->
  t_st t = TSkip \/ (exists b, t_st t = TDone b) \/ t_st t = TRunning \/ (t_st t = TWaiting /\ sem_free s = 0) \/
  (t_st t = TAtAcquire /\ unit_running s t = false).
Proof. exact quiescent_tasks. Qed.
Print Assumptions c08_quiescent_tasks.

(* REFUTED as first worded ("quiescent and stopped implies the queue is drained"): a notification handler that
   does not return holds the barrier, and a third retained notification stays queued *)
Theorem c08_notifications_drain_refuted :
  exists s, reach ex_cfgX s /\ quiescent s = true /\ running s = false /\ crash s = None /\ inq s <> [] /\
    0 < cf_K ex_cfgX /\ rd s = RExited /\ inq s = [(true, [ex_note [51%N]])].
Proof. exact SrvC08q.c08_notifications_drain_refuted. Qed.
Print Assumptions c08_notifications_drain_refuted.

(** 7. No deadlock, no goroutine left: once the reader's Recv has returned and the handlers have returned,
    a quiescent stopped server has an empty wait group and every WaitStatus call has returned.
    Environment assumptions are the explicit hypotheses; the concurrency limit must be positive. *)
Theorem c08_terminates : forall c s, reach c s -> quiescent s = true -> running s = false ->
  (rd s = RExited \/ rd s = RNone) ->
  (forall k t, nth_error (tasks s) k = Some t -> t_st t <> TRunning) -> 0 < cf_K c ->
  wg s = 0 /\ waits s = 0 /\ all_done s.
Proof. exact c08_terminates_q. Qed.
Print Assumptions c08_terminates.

(* no callback watcher goroutine outlives the stop: a watcher blocked on its context belongs to a callback that is
   still registered (invariant); the stop cancels every registered callback, so a stopped server has no blocked
   watcher; and at a quiescent point nothing is outstanding and every watcher has exited *)
Theorem c08_watcher_invariant : forall c s i cb0, reachf c s ->
  nth_error (cbs s) i = Some cb0 -> cb_watch cb0 = WBlocked -> In (cb_id cb0, i) (calls s).
Proof. exact (fun c s i cb0 R => reachf_inv_watch c s R i cb0). Qed.
Print Assumptions c08_watcher_invariant.

Theorem c08_stopped_no_blocked_watcher : forall c s i cb0, reach c s -> running s = false ->
  nth_error (cbs s) i = Some cb0 -> cb_watch cb0 <> WBlocked.
Proof. exact stopped_no_blocked_watcher. Qed.
Print Assumptions c08_stopped_no_blocked_watcher.

Theorem c08_no_watcher_left : forall c s, reach c s -> quiescent s = true -> running s = false ->
  calls s = [] /\ forall i cb0, nth_error (cbs s) i = Some cb0 -> cb_watch cb0 = WDone.
Proof. exact no_watcher_left. Qed.
Print Assumptions c08_no_watcher_left.

(* on a channel whose Close unblocks Recv the reader needs no assumption: the closing error is in flight *)
Theorem c08_terminates_unblock : forall c s, reach c s -> quiescent s = true -> running s = false ->
  cf_unblock c = true ->
  (forall k t, nth_error (tasks s) k = Some t -> t_st t <> TRunning) -> 0 < cf_K c ->
  wg s = 0 /\ waits s = 0 /\ all_done s.
Proof. exact terminates_unblock. Qed.
Print Assumptions c08_terminates_unblock.

(* no livelock: [mu_rel] is a measure of the state (scheduling points the parked goroutines may still pass, records
   the reader may still consume, with what each may spawn) that EVERY window of a release label strictly decreases,
   from every reachable state, whatever the configuration; so every sequence of release labels (no action of the
   environment in between) from a reachable state s has at most [mu_rel s] members ... *)
Theorem c08_rel_step_decreases : forall c s l s' os, reach c s -> is_rel l = true -> step s l = Some (s', os) ->
  mu_rel s' < mu_rel s.
Proof. exact rel_step_decreases. Qed.
Print Assumptions c08_rel_step_decreases.

Theorem c08_rel_bounded : forall c tr s s' oss, reach c s -> Forall (fun l => is_rel l = true) tr ->
  run s tr = Some (s', oss) -> length tr + mu_rel s' <= mu_rel s.
Proof. exact rel_bounded. Qed.
Print Assumptions c08_rel_bounded.

(* ... so under any scheduler that keeps releasing some enabled goroutine a quiescent state is reached within
   mu_rel s windows: 'at quiescence' in c08_terminates means 'eventually' *)
Theorem c08_rel_eventually_quiescent : forall c s, reach c s ->
  forall n, mu_rel s <= n -> forall pick : state -> label,
    (forall x, quiescent x = false -> In (pick x) (enabled_rel x)) ->
    exists tr s' oss, run s tr = Some (s', oss) /\ Forall (fun l => is_rel l = true) tr /\ quiescent s' = true /\
      length tr <= mu_rel s.
Proof. exact rel_eventually_quiescent. Qed.
Print Assumptions c08_rel_eventually_quiescent.

Theorem c08_eventually_terminates : forall c s, reach c s -> forall pick : state -> label,
  (forall x, quiescent x = false -> In (pick x) (enabled_rel x)) ->
  exists tr s' oss, run s tr = Some (s', oss) /\ Forall (fun l => is_rel l = true) tr /\ length tr <= mu_rel s /\
    quiescent s' = true /\
    (running s' = false -> (rd s' = RExited \/ rd s' = RNone) ->
     (forall k t, nth_error (tasks s') k = Some t -> t_st t <> TRunning) -> 0 < cf_K c ->
     wg s' = 0 /\ waits s' = 0 /\ all_done s').
Proof. exact eventually_terminates. Qed.
Print Assumptions c08_eventually_terminates.

(* 'eventually' as a predicate of the last states of the maximal release-only runs (srv/SrvEventually.v): P holds in the
   last state of every release-only run from s that cannot be extended (= that has reached a quiescent state); such
   runs exist, and none is longer than mu_rel s *)
Theorem c08_eventually_spec : forall s P, eventually s P <->
  (exists tr s' oss, run s tr = Some (s', oss) /\ Forall (fun l => is_rel l = true) tr /\ length tr <= mu_rel s /\
     quiescent s' = true) /\
  (forall tr s' oss, run s tr = Some (s', oss) -> Forall (fun l => is_rel l = true) tr ->
     length tr <= mu_rel s /\ (quiescent s' = true -> P tr s' oss)).
Proof. exact eventually_spec. Qed.
Print Assumptions c08_eventually_spec.

Theorem c08_quiescent_iff_maximal : forall s, quiescent s = true <-> forall l, is_rel l = true -> step s l = None.
Proof. exact quiescent_iff_maximal. Qed.
Print Assumptions c08_quiescent_iff_maximal.

(* every pending WaitStatus call eventually returns, with the status of the first cause.  [s0 -l-> s1] is the window
   that stopped the server, tr1 any later history without a restart, leading to s; from there the goroutines run on
   their own.  In the last state s' of every maximal release-only run: the server is still stopped with the cause k of
   the stopping window; every WaitStatus return of the run reports k; returns of the run + calls still pending =
   calls pending in s; and once no handler is executing and the reader's Recv has returned (no assumption is needed
   on a channel whose Close unblocks Recv), every pending call has returned and every goroutine has exited.
   count_waitret os = the number of OWaitRet observations in os. *)
Theorem c08_waits_returned_spec : forall c s0 l s tr s' oss, c08_waits_returned c s0 l s tr s' oss <->
  exists k, stop_cause s0 l k /\ stop_err s' = Some k /\ running s' = false /\
    (forall os r, In os oss -> In (OWaitRet r) os -> r = Some k) /\
    count_waitret (concat oss) + waits s' = waits s /\
    ((forall j t, nth_error (tasks s') j = Some t -> t_st t <> TRunning) ->
     (rd s' = RExited \/ rd s' = RNone \/ cf_unblock c = true) -> 0 < cf_K c ->
     waits s' = 0 /\ count_waitret (concat oss) = waits s /\ wg s' = 0 /\ all_done s').
Proof. exact (fun c s0 l s tr s' oss => conj (fun x => x) (fun x => x)). Qed.
Print Assumptions c08_waits_returned_spec.

Theorem c08_count_waitret_spec : forall os,
  count_waitret os = length (filter (fun o => match o with OWaitRet _ => true | _ => false end) os).
Proof. exact count_waitret_spec. Qed.
Print Assumptions c08_count_waitret_spec.

Theorem c08_waitstatus_eventually_returns : forall c s0 l s1 os1 tr1 s oss1, reach c s0 -> step s0 l = Some (s1, os1) ->
  running s0 = true -> running s1 = false -> run s1 tr1 = Some (s, oss1) -> ~ In LStart tr1 ->
  eventually s (c08_waits_returned c s0 l s).
Proof. exact SrvEventually.c08_waitstatus_eventually_returns. Qed.
Print Assumptions c08_waitstatus_eventually_returns.

(* the same with the handlers returning (srv/SrvProgress.v; eventually_prog, is_prog, at_rest, mu_prog are spelled out in
   props/C01.v section 14): in the last state of every maximal PROGRESS run (release labels and handler returns only)
   from s - reached within mu_prog s windows - no hypothesis on the handlers is left: once the reader's Recv has
   returned (nothing to assume on a channel whose Close unblocks Recv) every WaitStatus call that was pending has
   returned with the cause of the stop and every goroutine has exited *)
Theorem c08_all_waits_returned_spec : forall c s0 l s tr s' oss, c08_all_waits_returned c s0 l s tr s' oss <->
  exists k, stop_cause s0 l k /\ stop_err s' = Some k /\ running s' = false /\
    (forall os r, In os oss -> In (OWaitRet r) os -> r = Some k) /\
    count_waitret (concat oss) + waits s' = waits s /\
    ((rd s' = RExited \/ rd s' = RNone \/ cf_unblock c = true) ->
     waits s' = 0 /\ count_waitret (concat oss) = waits s /\ wg s' = 0 /\ all_done s').
Proof. exact (fun c s0 l s tr s' oss => conj (fun x => x) (fun x => x)). Qed.
Print Assumptions c08_all_waits_returned_spec.

Theorem c08_waitstatus_eventually_all_return : forall c s0 l s1 os1 tr1 s oss1, reach c s0 ->
  step s0 l = Some (s1, os1) -> running s0 = true -> running s1 = false -> run s1 tr1 = Some (s, oss1) ->
  ~ In LStart tr1 -> 0 < cf_K c ->
  eventually_prog s (c08_all_waits_returned c s0 l s).
Proof. exact SrvProgress.c08_waitstatus_eventually_all_return. Qed.
Print Assumptions c08_waitstatus_eventually_all_return.

(* the measure and the release labels, spelled out; every label [enabled_rel] offers is a release label *)
Theorem c08_mu_rel_spec : forall s, mu_rel s =
  wsum tw (tasks s) +
  (rdw (rd s) + wsum fw (ch_in s) + dpw (dp s) + wsum ew (inq s) + wsum uw (units s) + wsum cw (cbs s) +
   wsum ow (ops s) + (if running s then 2 else 0)).
Proof. exact mu_rel_spec. Qed.
Print Assumptions c08_mu_rel_spec.

Theorem c08_weights_spec :
  (forall t, tw t = match t_st t with TAtAcquire => 2 | TWaiting | TRunning | TAtHandled _ => 1 | TDone _ | TSkip => 0 end) /\
  (forall u, uw u = match u_st u with UFinished => 0 | _ => 1 end) /\
  (forall c, cw c = match cb_watch c with WDone => 0 | _ => 1 end) /\
  (forall o, ow o = match o with OpPush _ _ _ _ => 2 | _ => 1 end) /\
  (forall bm, ew bm = 5 * Nat.max 1 (length (snd bm))) /\
  (forall f, fw f = match f with
                    | FMsg (InMsgs _ ms) | FMsgEOF (InMsgs _ ms) => 1 + 5 * Nat.max 1 (length ms)
                    | _ => 1
                    end) /\
  (forall r, rdw r = match r with RHold f => fw f | _ => 0 end) /\
  (forall d, dpw d = match d with DAtNext => 1 | DAtBarrier _ => 2 | DBarrierWait _ => 1 | _ => 0 end) /\
  (forall A (w : A -> nat) x r, wsum w (x :: r) = w x + wsum w r) /\ (forall A (w : A -> nat), wsum w [] = 0).
Proof. exact weights_spec. Qed.
Print Assumptions c08_weights_spec.

Theorem c08_is_rel_spec : forall l, is_rel l = true <->
  l = LRelRead \/ l = LRelNext \/ l = LRelBarrier \/ (exists k, l = LRelAcquire k) \/ (exists k, l = LRelHandled k) \/
  (exists u, l = LRelDeliver u) \/ (exists n, l = LRelStop n) \/ (exists n, l = LRelCancel n) \/
  (exists n, l = LRelPush n) \/ (exists i, l = LRelCbWatch i).
Proof. exact is_rel_spec. Qed.
Print Assumptions c08_is_rel_spec.

Theorem c08_enabled_rel_is_rel : forall s l, In l (enabled_rel s) -> is_rel l = true.
Proof. exact enabled_rel_is_rel. Qed.
Print Assumptions c08_enabled_rel_is_rel.

(* with a concurrency limit of 0 a retained notification queues for a slot for ever *)
Theorem c08_terminates_K0_refuted :
  exists s, cf_K ex_cfgK0 = 0 /\ reach ex_cfgK0 s /\ quiescent s = true /\ running s = false /\ rd s = RExited /\
    crash s = None /\ (forall k t, nth_error (tasks s) k = Some t -> t_st t <> TRunning) /\
    wg s = 1 /\ dp s = DExited /\ map t_st (tasks s) = [TWaiting] /\ map u_st (units s) = [URunning] /\
    sem_free s = 0 /\ sem_wait s = [0].
Proof. exact SrvC08q.c08_terminates_K0_refuted. Qed.
Print Assumptions c08_terminates_K0_refuted.

(** 8. Restart.  Start is enabled, produces no observation, and the restarted state equals the freshly started initial
    state on every field except the history (finished tasks and units, dead callbacks and their counter, start/close
    counters) and what the environment has pending.  The restarted state is reachable, so every theorem of this file
    applies to the restarted server.  Below (the c08_restart_simulation theorems) the SIMULATION: the runs of the restarted
    server are exactly the runs of a freshly started one, with task/unit(/callback) indices shifted, and the same
    observations (up to the renaming of callback ids when the history contains callback records). *)
Theorem c08_restart_fresh : forall c s, reach c s -> wg s = 0 -> running s = false ->
  step s LStart = Some (started s, []) /\ fresh_fields c (started s) /\
  tasks (started s) = tasks s /\ units (started s) = units s /\ cbs (started s) = cbs s /\
  call_id (started s) = call_id s /\ starts (started s) = S (starts s) /\ closes (started s) = closes s.
Proof. exact restart_fresh. Qed.
Print Assumptions c08_restart_fresh.

Theorem c08_restart_state : forall c s, reach c s -> wg s = 0 -> running s = false ->
  started s = started (init_of c)
                <| tasks := tasks s |> <| units := units s |>
                <| calls := calls s |> <| call_id := call_id s |> <| cbs := cbs s |>
                <| starts := S (starts s) |> <| closes := closes s |>
                <| ops := ops s |> <| waits := waits s |> <| ended := ended s |> <| send_fail := send_fail s |>.
Proof. exact restart_fresh_eq. Qed.
Print Assumptions c08_restart_state.

(* The simulation (srv/SrvRestartSim.v).
   fresh_of c s = the freshly started server with the same pending environment calls as s (API operations not yet
   run, caller contexts that ended early, the state of the transport); it is REACHABLE, so every theorem of the
   property files applies to it.
   rs_emb s x = the state x of that fresh server placed behind the history of s: the (finished) tasks and units of s
   come first, every task index of x (sem_wait, used) is shifted by |tasks s|, every unit index (t_unit, dp) by
   |units s|, the start/close counters are added; every other field is that of x.
   rs_label s l = the label l with its task index (LRelAcquire, LRelHandled) or unit index (LRelDeliver) shifted
   likewise; old_label: a label that addresses a task or unit of the history. *)
Theorem c08_fresh_of_spec : forall c s,
  fresh_of c s = started (init_of c) <| ops := ops s |> <| ended := ended s |> <| send_fail := send_fail s |>.
Proof. exact fresh_of_spec. Qed.
Print Assumptions c08_fresh_of_spec.

Theorem c08_rs_emb_spec : forall s x,
  tasks (rs_emb s x) = tasks s ++ map (fun t => mkTask (length (units s) + t_unit t) (t_id t) (t_method t) (t_params t)
                                               (t_pre t) (t_hasctx t) (t_builtin t) (t_cancelled t) (t_st t)) (tasks x) /\
  units (rs_emb s x) = units s ++ units x /\
  sem_wait (rs_emb s x) = map (Nat.add (length (tasks s))) (sem_wait x) /\
  used (rs_emb s x) = map (fun p => (fst p, length (tasks s) + snd p)) (used x) /\
  dp (rs_emb s x) = match dp x with
                    | DAtBarrier u => DAtBarrier (length (units s) + u)
                    | DBarrierWait u => DBarrierWait (length (units s) + u)
                    | d => d
                    end /\
  starts (rs_emb s x) = starts s + starts x /\ closes (rs_emb s x) = closes s + closes x /\
  (c_K (rs_emb s x), c_push (rs_emb s x), c_builtin (rs_emb s x), c_methods (rs_emb s x), c_unblock (rs_emb s x)) =
    (c_K x, c_push x, c_builtin x, c_methods x, c_unblock x) /\
  (ch_in (rs_emb s x), send_fail (rs_emb s x), running (rs_emb s x), stop_err (rs_emb s x), work_closed (rs_emb s x)) =
    (ch_in x, send_fail x, running x, stop_err x, work_closed x) /\
  (rd (rs_emb s x), inq (rs_emb s x), nbar (rs_emb s x), sem_free (rs_emb s x), wg (rs_emb s x)) =
    (rd x, inq x, nbar x, sem_free x, wg x) /\
  (calls (rs_emb s x), call_id (rs_emb s x), cbs (rs_emb s x)) = (calls x, call_id x, cbs x) /\
  (ops (rs_emb s x), waits (rs_emb s x), ended (rs_emb s x), crash (rs_emb s x)) = (ops x, waits x, ended x, crash x).
Proof. exact rs_emb_spec. Qed.
Print Assumptions c08_rs_emb_spec.

Theorem c08_rs_label_spec : forall s l, rs_label s l =
  match l with
  | LRelAcquire k => LRelAcquire (length (tasks s) + k)
  | LRelHandled k => LRelHandled (length (tasks s) + k)
  | LRelDeliver u => LRelDeliver (length (units s) + u)
  | x => x
  end.
Proof. exact rs_label_spec. Qed.
Print Assumptions c08_rs_label_spec.

Theorem c08_old_label_spec : forall ot ou l, old_label ot ou l = true <->
  (exists k, (l = LRelAcquire k \/ l = LRelHandled k) /\ k < length ot) \/ (exists u, l = LRelDeliver u /\ u < length ou).
Proof. exact old_label_spec. Qed.
Print Assumptions c08_old_label_spec.

(* without AllowPush (no Callback, no callback ids): from any stopped state with an empty wait group, Start is enabled;
   the restarted state IS the embedding of the reachable fresh state; [step] commutes with the embedding for EVERY
   label, with the same observations; the labels of the history are disabled and every other label is a shifted one
   (so the simulation holds in both directions); hence the runs of the restarted server and of the fresh one
   correspond one to one with identical observations *)
Theorem c08_restart_simulation_nopush : forall c s, cf_push c = false -> reach c s -> wg s = 0 -> running s = false ->
  step s LStart = Some (started s, []) /\ reach c (fresh_of c s) /\ started s = rs_emb s (fresh_of c s) /\
  (forall x l, step (rs_emb s x) (rs_label s l) =
               match step x l with Some (x', os) => Some (rs_emb s x', os) | None => None end) /\
  (forall x l', old_label (tasks s) (units s) l' = true -> step (rs_emb s x) l' = None) /\
  (forall l', old_label (tasks s) (units s) l' = false -> exists l, l' = rs_label s l) /\
  (forall tr x oss, run (fresh_of c s) tr = Some (x, oss) ->
     run (started s) (map (rs_label s) tr) = Some (rs_emb s x, oss)) /\
  (forall tr' sr oss, run (started s) tr' = Some (sr, oss) ->
     exists tr x, tr' = map (rs_label s) tr /\ run (fresh_of c s) tr = Some (x, oss) /\ sr = rs_emb s x).
Proof. exact restart_simulation_nopush_full. Qed.
Print Assumptions c08_restart_simulation_nopush.

(* so every property of the observations of a fresh server holds of the restarted one, and conversely *)
Theorem c08_restart_trace_properties_nopush : forall c s (P : list (list obs) -> Prop), cf_push c = false ->
  reach c s -> wg s = 0 -> running s = false ->
  ((forall tr x oss, run (fresh_of c s) tr = Some (x, oss) -> P oss) <->
   (forall tr' sr oss, run (started s) tr' = Some (sr, oss) -> P oss)).
Proof. exact restart_trace_properties_nopush. Qed.
Print Assumptions c08_restart_trace_properties_nopush.

(* The special case of a history without callback records (cbs s = [] and call_id s = 1; AllowPush or not, Notify
   is fine): the same exact simulation as without AllowPush - identical observations, no renaming, and NO hypothesis
   on the environment.  (Formerly c08_restart_simulation_partial; the general case is c08_restart_simulation below.) *)
Theorem c08_restart_simulation_no_callbacks : forall c s, reach c s -> wg s = 0 -> running s = false ->
  cbs s = [] -> call_id s = 1 ->
  step s LStart = Some (started s, []) /\ reach c (fresh_of c s) /\ started s = rs_emb s (fresh_of c s) /\
  (forall x l, step (rs_emb s x) (rs_label s l) =
               match step x l with Some (x', os) => Some (rs_emb s x', os) | None => None end) /\
  (forall x l', old_label (tasks s) (units s) l' = true -> step (rs_emb s x) l' = None) /\
  (forall l', old_label (tasks s) (units s) l' = false -> exists l, l' = rs_label s l) /\
  (forall tr x oss, run (fresh_of c s) tr = Some (x, oss) ->
     run (started s) (map (rs_label s) tr) = Some (rs_emb s x, oss)) /\
  (forall tr' sr oss, run (started s) tr' = Some (sr, oss) ->
     exists tr x, tr' = map (rs_label s) tr /\ run (fresh_of c s) tr = Some (x, oss) /\ sr = rs_emb s x).
Proof. exact restart_simulation. Qed.
Print Assumptions c08_restart_simulation_no_callbacks.

(* THE GENERAL CASE (srv/SrvRestartSimCb.v): a server with AllowPush restarted after ANY history, whatever Callbacks
   its earlier incarnations registered, including Callbacks that are still registered at the restart (their context
   cancelled by Stop, their watcher not yet run).

   The restarted server numbers its callbacks from call_id s, the fresh one from 1, so the simulation holds up to the
   RENAMING of callback ids  ren dk  with dk = call_id s - 1: the numeral of k >= 1 becomes the numeral of dk + k, every
   other byte string is left alone (c08_restart_ren_spec).  It is applied
     - to the ids in the callback table and in [calls] of the embedded state (c08_rsc_emb_cb_spec: the old records ocb
       come first, callback indices are shifted by |ocb|, the registrations ocl of old callbacks still pending are kept
       behind those of the new run, the id counter is advanced by dk; tasks/units/counters as in rs_emb),
     - to the ids of the members of fed records that are not requests/notifications: in LFeed labels, in the channel
       and in the reader's hands (c08_restart_feed_spec), and to the index of LRelCbWatch (c08_rsc_label_spec),
     - to the ids of the OSendReq observations (ren_obs); no other observation changes, in particular not the ids of
       the responses to the peer's own calls.
   ENVIRONMENT HYPOTHESES, stated as boolean predicates on labels (lab_ok for the fresh run, lab_ok' for the restarted
   run; oops = the operation numbers of the old records; c08_restart_lab_ok_spec), each shown necessary or discharged:
     (ii)  shaped_feed: a fed member that is neither a request/notification nor reply-shaped (no method, and a result
           or an error) does not carry a positive numeral as its id.  Such a member is answered under its own id when
           that id is not registered and completes a callback when it is, so no renaming FUNCTION on fed records can
           be right for it: c08_restart_unshaped_refuted.  (Real peers send requests, notifications and replies.)
     (iii) LCbCtxEnd n is not used with the operation number n of an old record (operation numbers are not reused
           across incarnations for the context-end signal): c08_restart_ops_reuse_refuted shows it is needed.
     (iv)  in the RESTARTED run no fed member that is not a request bears the id of an old callback (no_old_feed);
           these are exactly the records outside the image of the renaming.  A reply bearing the id of an old callback
           that has returned is unsolicited: c08_restart_old_reply_unsolicited (it is a late reply in the sense of
           C09.5 and is skipped like any unknown id).  NOT COVERED: a reply that bears the id of an old callback
           STILL registered at the restart (it is delivered to that old Callback's caller, which has no counterpart in
           a fresh server); runs that contain records violating (ii)-(iv) are outside the run-level statements.
   pinv (c08_restart_pinv_spec) collects what the one-window statement needs of the fresh state: AllowPush, the id
   counter is at least 1, the records in the channel and in the reader's hands are shaped; it holds of fresh_of c s and
   is preserved by every window whose label is shaped (c08_restart_pinv_step).
   WHAT IS PROVED: Start is enabled; the fresh state is reachable; the restarted state IS the embedding of the fresh
   one behind the history; [step] commutes with the embedding for EVERY label of the fresh server (observations
   renamed); labels that address a task or unit of the history are disabled; the label LRelCbWatch i of an OLD callback
   record (i < |ocb|) is disabled or changes the old records only (old_release, c08_old_release_spec): it marks the
   watcher done and, if that callback is still registered and unanswered, completes it with the cancellation, which
   returns to its caller (one ORet of an old operation number, only possible while some old registration is pending);
   every other label of the restarted server is a relabelled one.  Hence whole runs correspond in both directions:
   forward with renamed observations; backward, the restarted run minus the windows of old watchers (strip,
   fresh_windows: c08_restart_strip_spec, c08_restart_windows_spec) is a renamed fresh run, and each window of an old
   watcher (old_windows) is empty or one return of an old Callback. *)
Theorem c08_restart_simulation : forall c s, reach c s -> cf_push c = true -> wg s = 0 -> running s = false ->
  let dk := call_id s - 1 in
  let nc := length (cbs s) in
  let oops := map cb_op (cbs s) in
  step s LStart = Some (started s, []) /\ reach c (fresh_of c s) /\ pinv (fresh_of c s) /\
  old_ok dk (cbs s) (calls s) /\ started s = rsc_emb s (cbs s) (calls s) (fresh_of c s) /\
  (forall ocb ocl x l, old_ok dk ocb ocl -> pinv x -> lab_ok (map cb_op ocb) l = true ->
     step (rsc_emb s ocb ocl x) (rsc_label s (length ocb) l) =
     match step x l with Some (x', os) => Some (rsc_emb s ocb ocl x', map (ren_obs dk) os) | None => None end) /\
  (forall ocb ocl x l', old_label (tasks s) (units s) l' = true -> step (rsc_emb s ocb ocl x) l' = None) /\
  (forall ocb ocl x i, old_ok dk ocb ocl -> i < length ocb -> settle1 x = None ->
     step (rsc_emb s ocb ocl x) (LRelCbWatch i) =
     match crash x, old_release i ocb ocl with
     | None, Some (ocb', ocl', os) => Some (rsc_emb s ocb' ocl' x, os)
     | _, _ => None
     end) /\
  (forall l', old_label (tasks s) (units s) l' = false -> old_watch nc l' = false -> lab_ok' dk oops l' = true ->
     exists l, l' = rsc_label s nc l /\ lab_ok oops l = true) /\
  (forall tr x oss, forallb (lab_ok oops) tr = true -> run (fresh_of c s) tr = Some (x, oss) ->
     run (started s) (map (rsc_label s nc) tr) = Some (rsc_emb s (cbs s) (calls s) x, map (map (ren_obs dk)) oss) /\
     forallb (lab_ok' dk oops) (map (rsc_label s nc) tr) = true) /\
  (forall tr' sr oss, forallb (lab_ok' dk oops) tr' = true -> run (started s) tr' = Some (sr, oss) ->
     exists ocb' ocl' x ossf,
       run (fresh_of c s) (strip (tasks s) (units s) dk nc tr') = Some (x, ossf) /\
       forallb (lab_ok oops) (strip (tasks s) (units s) dk nc tr') = true /\
       sr = rsc_emb s ocb' ocl' x /\
       fresh_windows nc tr' oss = map (map (ren_obs dk)) ossf /\
       Forall (old_window oops (calls s)) (old_windows nc tr' oss) /\
       old_ok dk ocb' ocl' /\ length ocb' = nc /\ map cb_op ocb' = oops /\ map cb_id ocb' = map cb_id (cbs s) /\
       (forall p, In p ocl' -> In p (calls s))).
Proof. exact restart_simulation_cb. Qed.
Print Assumptions c08_restart_simulation.

(* so every property of the observations of a fresh server that is invariant under the renaming of callback ids holds
   of the observations of the restarted server outside the windows of old watchers, and conversely (environments as
   above) *)
Theorem c08_restart_trace_properties : forall c s (P : list obs -> Prop), reach c s -> cf_push c = true -> wg s = 0 ->
  running s = false ->
  (forall os, P os <-> P (map (ren_obs (call_id s - 1)) os)) ->
  ((forall tr x oss, forallb (lab_ok (map cb_op (cbs s))) tr = true -> run (fresh_of c s) tr = Some (x, oss) ->
      P (concat oss)) <->
   (forall tr' sr oss, forallb (lab_ok' (call_id s - 1) (map cb_op (cbs s))) tr' = true ->
      run (started s) tr' = Some (sr, oss) -> P (concat (fresh_windows (length (cbs s)) tr' oss)))).
Proof. exact restart_trace_properties_cb. Qed.
Print Assumptions c08_restart_trace_properties.

(* the general fact behind it: for ANY finished history (ot, ou as in c08_embedding_commutes), any old records ocb with
   pending registrations ocl (old_ok), any state x with pinv and any label allowed by lab_ok, [step] commutes with the
   embedding *)
Theorem c08_embedding_commutes_cb : forall ot ou ds dc dk,
  (forall t, In t ot -> finished t = true /\ t_unit t < length ou) -> (forall u, In u ou -> u_st u = UFinished) ->
  forall ocb ocl x l, old_ok dk ocb ocl -> pinv x -> lab_ok (map cb_op ocb) l = true ->
    step (embc ot ou ds dc dk ocb ocl x) (rs_labelc ot ou dk (length ocb) l) =
    option_map (fun r => (embc ot ou ds dc dk ocb ocl (fst r), map (ren_obs dk) (snd r))) (step x l).
Proof. exact embc_step. Qed.
Print Assumptions c08_embedding_commutes_cb.

(* (iv) a reply bearing the id of an old callback that has returned (not pending in ocl) is unsolicited in the
   restarted run: a late reply (C09.5, late_reply: AllowPush, not a request, no method, reply fields, id not registered),
   skipped by the reader exactly like a reply with an unknown id; c09_late_reply_* apply to it *)
Theorem c08_restart_old_reply_unsolicited : forall ot ou ds dc dk ocb ocl x m,
  old_ok dk ocb ocl -> c_push x = true -> is_req_or_notif m = false ->
  j_method m = [] -> has_reply_fields m = true -> old_id dk (fix_id (j_id m)) = true ->
  assoc (fix_id (j_id m)) ocl = None ->
  late_reply (embc ot ou ds dc dk ocb ocl x) m /\
  forall r keep acc, filter_batch (m :: r) (embc ot ou ds dc dk ocb ocl x) keep acc =
                     filter_batch r (embc ot ou ds dc dk ocb ocl x) keep acc.
Proof. exact embc_old_reply_late. Qed.
Print Assumptions c08_restart_old_reply_unsolicited.

(* the invariant of the fresh run *)
Theorem c08_restart_pinv_spec : forall x, pinv x <->
  c_push x = true /\ 1 <= call_id x /\ (forall f, In f (ch_in x) -> shaped_feed f = true) /\
  (forall f, rd x = RHold f -> shaped_feed f = true).
Proof. exact pinv_spec. Qed.
Print Assumptions c08_restart_pinv_spec.

Theorem c08_restart_pinv_step : forall s l s' os, step s l = Some (s', os) ->
  (match l with LFeed f => shaped_feed f | _ => true end) = true -> pinv s -> pinv s'.
Proof. exact step_pinv. Qed.
Print Assumptions c08_restart_pinv_step.

(* the callback records of a stopped reachable state are old records for the next incarnation *)
Theorem c08_restart_old_records : forall c s, reach c s -> running s = false -> old_ok (call_id s - 1) (cbs s) (calls s).
Proof. exact reach_old_ok. Qed.
Print Assumptions c08_restart_old_records.

(* the definitions, spelled out *)
Theorem c08_restart_ren_spec : forall dk,
  (forall j, ren dk (dec_of_nat (S j)) = dec_of_nat (dk + S j)) /\
  (forall b, (forall j, b <> dec_of_nat (S j)) -> ren dk b = b) /\
  (forall a b, ren dk a = ren dk b -> a = b).
Proof. exact ren_spec. Qed.
Print Assumptions c08_restart_ren_spec.

Theorem c08_restart_old_id_spec : forall dk b, old_id dk b = true <-> exists j, 1 <= j <= dk /\ b = dec_of_nat j.
Proof. exact old_id_spec. Qed.
Print Assumptions c08_restart_old_id_spec.

Theorem c08_restart_shaped_spec : forall m, shaped_msg m = true <->
  is_req_or_notif m = true \/ (j_method m = [] /\ has_reply_fields m = true) \/ (forall j, j_id m <> dec_of_nat (S j)).
Proof. exact shaped_msg_spec. Qed.
Print Assumptions c08_restart_shaped_spec.

Theorem c08_restart_no_old_spec : forall dk m, no_old_msg dk m = true <->
  is_req_or_notif m = true \/ (forall j, 1 <= j <= dk -> j_id m <> dec_of_nat j).
Proof. exact no_old_msg_spec. Qed.
Print Assumptions c08_restart_no_old_spec.

Theorem c08_restart_feed_spec : forall dk f,
  shaped_feed f = match f with FMsg (InMsgs _ ms) | FMsgEOF (InMsgs _ ms) => forallb shaped_msg ms | _ => true end /\
  no_old_feed dk f = match f with FMsg (InMsgs _ ms) | FMsgEOF (InMsgs _ ms) => forallb (no_old_msg dk) ms | _ => true end /\
  ren_feed dk f = match f with
                  | FMsg (InMsgs b ms) => FMsg (InMsgs b (map (ren_msg dk) ms))
                  | FMsgEOF (InMsgs b ms) => FMsgEOF (InMsgs b (map (ren_msg dk) ms))
                  | x => x
                  end /\
  (forall m, ren_msg dk m = if is_req_or_notif m then m
                            else Build_jmsg (ren dk (j_id m)) (j_method m) (j_params m) (j_error m) (j_result m) (j_err m)).
Proof. exact feed_preds_spec. Qed.
Print Assumptions c08_restart_feed_spec.

Theorem c08_rsc_emb_cb_spec : forall s ocb ocl x,
  let y := embk (call_id s - 1) ocb ocl x in
  rsc_emb s ocb ocl x = rs_emb s y /\
  calls y = map (fun p => (ren (call_id s - 1) (fst p), length ocb + snd p)) (calls x) ++ ocl /\
  call_id y = call_id s - 1 + call_id x /\
  cbs y = ocb ++ map (fun c0 => mkCb (cb_op c0) (ren (call_id s - 1) (cb_id c0)) (cb_slot c0) (cb_ctx c0) (cb_cancelled c0)
                                     (cb_watch c0) (cb_ret c0)) (cbs x) /\
  ch_in y = map (ren_feed (call_id s - 1)) (ch_in x) /\
  rd y = match rd x with RHold f => RHold (ren_feed (call_id s - 1) f) | r => r end /\
  (c_K y, c_push y, c_builtin y, c_methods y, c_unblock y) = (c_K x, c_push x, c_builtin x, c_methods x, c_unblock x) /\
  (send_fail y, running y, stop_err y, work_closed y, closes y, starts y) =
    (send_fail x, running x, stop_err x, work_closed x, closes x, starts x) /\
  (dp y, inq y, units y, tasks y, nbar y, sem_free y, sem_wait y, used y) =
    (dp x, inq x, units x, tasks x, nbar x, sem_free x, sem_wait x, used x) /\
  (wg y, ops y, waits y, ended y, crash y) = (wg x, ops x, waits x, ended x, crash x).
Proof. exact rsc_emb_cb_spec. Qed.
Print Assumptions c08_rsc_emb_cb_spec.

Theorem c08_rsc_label_spec : forall s nc l, rsc_label s nc l =
  match l with
  | LFeed f => LFeed (ren_feed (call_id s - 1) f)
  | LRelCbWatch i => LRelCbWatch (nc + i)
  | LRelAcquire k => LRelAcquire (length (tasks s) + k)
  | LRelHandled k => LRelHandled (length (tasks s) + k)
  | LRelDeliver u => LRelDeliver (length (units s) + u)
  | x => x
  end.
Proof. exact rsc_label_spec. Qed.
Print Assumptions c08_rsc_label_spec.

Theorem c08_restart_lab_ok_spec : forall dk oops l,
  lab_ok oops l = match l with
                  | LFeed f => shaped_feed f
                  | LCbCtxEnd n _ => forallb (fun o => negb (o =? n)) oops
                  | _ => true
                  end /\
  lab_ok' dk oops l = (lab_ok oops l && match l with LFeed f => no_old_feed dk f | _ => true end) /\
  (forall nc, old_watch nc l = match l with LRelCbWatch i => i <? nc | _ => false end).
Proof. exact lab_ok_spec. Qed.
Print Assumptions c08_restart_lab_ok_spec.

Theorem c08_restart_strip_spec : forall ot ou dk nc,
  strip ot ou dk nc [] = [] /\
  (forall l' r, strip ot ou dk nc (l' :: r) =
     if old_watch nc l' then strip ot ou dk nc r
     else match l' with
          | LFeed f => LFeed (map_feed (unren dk) f)
          | LRelCbWatch i => LRelCbWatch (i - nc)
          | LRelAcquire k => LRelAcquire (k - length ot)
          | LRelHandled k => LRelHandled (k - length ot)
          | LRelDeliver u => LRelDeliver (u - length ou)
          | x => x
          end :: strip ot ou dk nc r) /\
  (forall b, unren dk b = match idnum b with Some j => if dk <? j then dec_of_nat (j - dk) else b | None => b end) /\
  (forall b, old_id dk b = false -> ren dk (unren dk b) = b) /\ (forall b, unren dk (ren dk b) = b).
Proof. exact strip_spec. Qed.
Print Assumptions c08_restart_strip_spec.

Theorem c08_restart_windows_spec : forall nc,
  (forall l' r o q, fresh_windows nc (l' :: r) (o :: q) =
     if old_watch nc l' then fresh_windows nc r q else o :: fresh_windows nc r q) /\
  (forall l' r o q, old_windows nc (l' :: r) (o :: q) =
     if old_watch nc l' then o :: old_windows nc r q else old_windows nc r q) /\
  (forall oss, fresh_windows nc [] oss = [] /\ old_windows nc [] oss = []) /\
  (forall tr', fresh_windows nc tr' [] = [] /\ old_windows nc tr' [] = []) /\
  (forall oops ocl w, old_window oops ocl w <-> w = [] \/ (ocl <> [] /\ exists n r, In n oops /\ w = [ORet n r])).
Proof. exact windows_spec. Qed.
Print Assumptions c08_restart_windows_spec.

Theorem c08_old_ok_spec : forall dk ocb ocl, old_ok dk ocb ocl <->
  (forall c, In c ocb -> old_id dk (cb_id c) = true) /\
  (forall p, In p ocl -> old_id dk (fst p) = true) /\
  (forall c, In c ocb -> assoc (cb_id c) ocl <> None -> cb_cancelled c = true /\ cb_watch c <> WBlocked).
Proof. exact old_ok_spec. Qed.
Print Assumptions c08_old_ok_spec.

Theorem c08_old_release_spec : forall i ocb ocl, old_release i ocb ocl =
  match nth_error ocb i with
  | Some c =>
      match cb_watch c with
      | WParked =>
          let done := upd_nth i (fun c0 => c0 <| cb_watch := WDone |>) ocb in
          let '(code, msg) := match cb_ctx c with
                              | Some WDeadline => (DeadlineExceeded, s_ctx_deadline)
                              | _ => (Cancelled, s_ctx_canceled) end in
          match assoc (cb_id c) ocl, cb_slot c with
          | Some j, None =>
              if j =? i then
                Some (upd_nth i (fun c0 => wake_watch (c0 <| cb_slot := Some (CErr code msg) |>)) done,
                      assoc_del (cb_id c) ocl,
                      if cb_ret c then [] else [ORet (cb_op c) (ctx_res code msg)])
              else Some (done, ocl, [])
          | _, _ => Some (done, ocl, [])
          end
      | _ => None
      end
  | None => None
  end.
Proof. exact old_release_spec. Qed.
Print Assumptions c08_old_release_spec.

(* the old records keep their ids, operation numbers and number, stay old records, and registrations only disappear *)
Theorem c08_old_release_preserves : forall dk i ocb ocl ocb' ocl' os, old_ok dk ocb ocl ->
  old_release i ocb ocl = Some (ocb', ocl', os) ->
  old_ok dk ocb' ocl' /\ length ocb' = length ocb /\ map cb_op ocb' = map cb_op ocb /\ map cb_id ocb' = map cb_id ocb /\
  (forall p, In p ocl' -> In p ocl) /\ map (ren_obs dk) os = os /\
  (os = [] \/ (ocl <> [] /\ exists n r, In n (map cb_op ocb) /\ os = [ORet n r])).
Proof. exact old_release_ok. Qed.
Print Assumptions c08_old_release_preserves.

(* hypotheses (iii) and (ii) are needed: concrete reachable counterexamples (the history of
   restart_simulation_cb_nonvacuous: one callback answered, one still registered when Stop closes the server) *)
Theorem c08_restart_ops_reuse_refuted :
  let s := ex_s0 in
  let tr := [LCbCtxEnd 1 WCancel; LCallPush 1 true [112%N] [114%N]; LRelPush 1; LRelCbWatch 0] in
  forallb (lab_ok (map cb_op (cbs s))) tr = false /\
  (exists x, run (fresh_of ex_cfg2 s) tr =
             Some (x, [[]; []; [OSendReq true [49%N] [112%N] [114%N]]; [ORet 1 (ACbCtx WCancel)]])) /\
  run (started s) (map (rsc_label s 2) tr) = None.
Proof. exact restart_ops_reuse_refuted. Qed.
Print Assumptions c08_restart_ops_reuse_refuted.

Theorem c08_restart_unshaped_refuted :
  let s := ex_s0 in
  let m := {| j_id := [49%N]; j_method := []; j_params := []; j_error := None; j_result := []; j_err := None |} in
  let tr := [LFeed (FMsg (InMsgs false [m])); LRelRead; LRelNext; LRelBarrier; LRelDeliver 0] in
  forallb (lab_ok (map cb_op (cbs s))) tr = false /\
  (exists x, run (fresh_of ex_cfg2 s) tr =
     Some (x, [[]; []; []; []; [OSend true false [{| r_id := [49%N]; r_body := BErr InvalidRequest s_empty_method |}]]])) /\
  (exists x, run (started s) (map (rsc_label s 2) tr) =
     Some (x, [[]; []; []; []; [OSend true false [{| r_id := [51%N]; r_body := BErr InvalidRequest s_empty_method |}]]])).
Proof. exact restart_unshaped_refuted. Qed.
Print Assumptions c08_restart_unshaped_refuted.

(* the general fact behind both: for ANY state x (any configuration) and any finished history (ot: finished tasks that
   belong to the units ou; ou: finished units), [step] commutes with the embedding, for every label *)
Theorem c08_embedding_commutes : forall ot ou ds dc,
  (forall t, In t ot -> finished t = true /\ t_unit t < length ou) -> (forall u, In u ou -> u_st u = UFinished) ->
  forall x l, step (emb ot ou ds dc x) (sh_label ot ou l) =
              option_map (fun r => (emb ot ou ds dc (fst r), snd r)) (step x l).
Proof. exact emb_step. Qed.
Print Assumptions c08_embedding_commutes.

(* [fresh_fields] spelled out *)
Theorem c08_fresh_fields_spec : forall c s', fresh_fields c s' ->
  running s' = true /\ stop_err s' = None /\ work_closed s' = false /\ wg s' = 2 /\ rd s' = RIdle /\
  dp s' = DAtNext /\ ch_in s' = [] /\ inq s' = [] /\ used s' = [] /\ sem_wait s' = [] /\ sem_free s' = cf_K c /\
  nbar s' = 0 /\ crash s' = None /\
  (forall u un, nth_error (units s') u = Some un -> u_st un = UFinished) /\
  (forall k t, nth_error (tasks s') k = Some t -> finished t = true) /\
  (forall id i, In (id, i) (calls s') ->
      exists cb0, nth_error (cbs s') i = Some cb0 /\ cb_id cb0 = id /\ cb_cancelled cb0 = true /\
                  cb_watch cb0 = WParked /\ cb_slot cb0 = None).
Proof. exact fresh_fields_spec. Qed.
Print Assumptions c08_fresh_fields_spec.

Theorem c08_restart_reachable : forall c s, reach c s -> wg s = 0 -> running s = false -> reach c (started s).
Proof. exact restart_reachable. Qed.
Print Assumptions c08_restart_reachable.

(* "after WaitStatus returns the same server can be started": the window in which a WaitStatus call returns ends in
   a state in which everything has finished, from which Start is enabled, produces no observation and yields the
   fresh fields; the restarted state is reachable (so every theorem applies to it) ... *)
Theorem c08_restart_after_wait : forall c s l s' os r, reach c s -> step s l = Some (s', os) -> In (OWaitRet r) os ->
  r = stop_err s' /\ all_done s' /\ reach c s' /\
  step s' LStart = Some (started s', []) /\ fresh_fields c (started s') /\ reach c (started s') /\
  tasks (started s') = tasks s' /\ units (started s') = units s' /\ cbs (started s') = cbs s' /\
  starts (started s') = S (starts s') /\ closes (started s') = closes s'.
Proof. exact restart_after_wait. Qed.
Print Assumptions c08_restart_after_wait.

(* ... and Start stays enabled, with the same outcome, whatever else happens before it is taken *)
Theorem c08_restart_after_wait_trace : forall c s l s1 os r tr s2 oss, reach c s -> step s l = Some (s1, os) ->
  In (OWaitRet r) os -> run s1 tr = Some (s2, oss) -> ~ In LStart tr ->
  step s2 LStart = Some (started s2, []) /\ fresh_fields c (started s2) /\ reach c (started s2) /\
  tasks (started s2) = tasks s1 /\ units (started s2) = units s1.
Proof. exact restart_after_wait_trace. Qed.
Print Assumptions c08_restart_after_wait_trace.


(** * Monitor over the two sequences of a run (srv/SrvMonitors3.v, proof: srv/SrvMonWait.v), extracted and evaluated
    by the model runner on every harness log, racing ones included.  Counting / membership only, no interleaving.
    [env_of tr] = the environment labels of the trace in order, [concat oss] = the observations of the run in order;
    [wait_causes os] = the causes c of the WaitStatus returns [OWaitRet (Some c)] of os; [class_of c] = Stopped for
    SCStop, Closed for SCEOF and SCClosing (the log does not tell them apart), Failed for SCOther;
    [cause_in env c] = env contains a fed Recv error [LFeed (FErr c')] of the class of c, or, for Stopped, a Stop call
    [LCallStop _];
    [mon_wait_status env os] = cause_in env c for every c of wait_causes os, and the [OWaitRet _] observations of os
    are at most as many as the [LCallWait] labels of env. *)
From JV Require SrvMonitors SrvMonitors3 SrvMonWait.
Module Monitors.
Import SrvMonitors SrvMonitors3.
Theorem c08_mon_wait_status_sound : forall c tr s oss, run (init_of c) tr = Some (s, oss) ->
  mon_wait_status (env_of tr) (concat oss) = true.
Proof. exact SrvMonWait.mon_wait_status_sound. Qed.
Print Assumptions c08_mon_wait_status_sound.

(* the clauses, spelled out: Stopped needs a Stop call (or the stop sentinel fed as a Recv error, see below) ... *)
Theorem c08_wait_stopped_needs_stop : forall c tr s oss, run (init_of c) tr = Some (s, oss) ->
  In (OWaitRet (Some SCStop)) (concat oss) ->
  (exists n, In (LCallStop n) (env_of tr)) \/ In (LFeed (FErr SCStop)) (env_of tr).
Proof. exact SrvMonWait.wait_stopped_needs_stop. Qed.
Print Assumptions c08_wait_stopped_needs_stop.

(* ... Closed needs a fed EOF or closing error: the closing error the model appends to the channel when the server
   stops is never the recorded cause ... *)
Theorem c08_wait_closed_needs_eof : forall c tr s oss k, run (init_of c) tr = Some (s, oss) ->
  k = SCEOF \/ k = SCClosing -> In (OWaitRet (Some k)) (concat oss) ->
  In (LFeed (FErr SCEOF)) (env_of tr) \/ In (LFeed (FErr SCClosing)) (env_of tr).
Proof. exact SrvMonWait.wait_closed_needs_eof. Qed.
Print Assumptions c08_wait_closed_needs_eof.

(* ... a failure needs a fed Recv error of the other kind ... *)
Theorem c08_wait_failed_needs_error : forall c tr s oss, run (init_of c) tr = Some (s, oss) ->
  In (OWaitRet (Some SCOther)) (concat oss) -> In (LFeed (FErr SCOther)) (env_of tr).
Proof. exact SrvMonWait.wait_failed_needs_error. Qed.
Print Assumptions c08_wait_failed_needs_error.

(* ... and WaitStatus returns at most as often as it was called *)
Theorem c08_waitret_le_callwait : forall c tr s oss, run (init_of c) tr = Some (s, oss) ->
  countb is_waitret (concat oss) <= countb is_callwait (env_of tr).
Proof. exact SrvMonWait.waitret_le_callwait. Qed.
Print Assumptions c08_waitret_le_callwait.

(* REFUTED: "Stopped is reported only after a Stop call" (the flat form of
   c08_status_stopped_only_by_stop_refuted_without_nofeed): a fed FErr SCStop is reported as Stopped *)
Theorem c08_wait_stopped_needs_callstop_refuted :
  exists tr s oss, run (init_of ex_cfg) tr = Some (s, oss) /\ In (OWaitRet (Some SCStop)) (concat oss) /\
    existsb is_callstop (env_of tr) = false.
Proof. exact SrvMonWait.wait_stopped_needs_callstop_refuted. Qed.
Print Assumptions c08_wait_stopped_needs_callstop_refuted.
End Monitors.
