(* C19 — HTTP Getter, query parsing and HTTP client channel are total and faithful.
   This file only restates the property theorems; proofs are in
   http/QueryProofs.v (ParseQuery / ParseBasic / Getter.ServeHTTP, model http/Query.v + http/QStr.v)
   and http/HttpChanProofs.v (jhttp.Channel, transition model http/HttpChan.v).

   Vocabulary (defined in the proof files, all plain Props over byte strings):
     enclosed q s inner   s = q :: inner ++ [q]            (len >= 2, both ends are the quote q)
     quote_at_end q s     s starts with q or s ends with q
     IntNumeral s z       s = [+-]? digit+  denoting z
     DecNumeral s ip fr   s = [+-]? ip [ . fr ]  digits only, at least one digit
     finite_dec s         DecNumeral s ip _ with ip < 2^1024 - 2^970 (ParseFloat does not overflow)
     in_int64 z           -2^63 <= z <= 2^63 - 1
   34 is the double quote, 39 the single quote, 47 the slash, 61 the equals sign. *)
From Coq Require Import List NArith ZArith Bool Permutation.
From JV Require Import Msg CliModel CliLemmas CliInv CliProofs CliHist CliSend CliFed CliNoStop CliSendLog SameResultsCli SameResultsBridge.
From JV Require Json Wire Bridge BridgeProofs.
From JV Require JsonCompact.
From JV Require Import Bytes QStr Query QueryProofs GetterMore HttpChan HttpChanProofs SameResults SameResultsDirect.
Import ListNotations.
Local Open Scope N_scope.

(* Every clause of the documented typing, as an iff on the byte string.  The
   classes are exhaustive (classify is a total function) and, by these iffs, disjoint. *)
Theorem c19_classify_rules : forall s : bytes,
  (forall v, classify s = QStr v <-> exists inner, enclosed 34 s inner /\ unq inner = Some v) /\
  (classify s = QErr EString <->
     (exists inner, enclosed 34 s inner /\ unq inner = None) \/
     (quote_at_end 34 s /\ ~ exists inner, enclosed 34 s inner)) /\
  (forall z, classify s = QInt z <-> IntNumeral s z /\ in_int64 z) /\
  (forall t, classify s = QFloat t <->
     t = s /\ finite_dec s /\ ~ (exists z, IntNumeral s z /\ in_int64 z)) /\
  (forall b, classify s = QBool b <-> s = (if b then w_true else w_false)) /\
  (classify s = QNull <-> s = w_null) /\
  (forall v, classify s = QBytes v <->
     exists inner, enclosed 39 s inner /\ b64_decode (trim_right 61 inner) = Some v) /\
  (classify s = QErr EBytes <->
     ~ quote_at_end 34 s /\
     ((exists inner, enclosed 39 s inner /\ b64_decode (trim_right 61 inner) = None) \/
      (quote_at_end 39 s /\ ~ exists inner, enclosed 39 s inner))) /\
  (forall t, classify s = QLit t <->
     t = s /\ ~ quote_at_end 34 s /\ ~ quote_at_end 39 s /\ ~ finite_dec s /\
     s <> w_true /\ s <> w_false /\ s <> w_null).
Proof. exact classify_rules. Qed.
Print Assumptions c19_classify_rules.

(* The syntactic classes used above are what their names say. *)
Theorem c19_numeral_syntax : forall s : bytes,
  (is_decimal s = true <-> exists ip frac, DecNumeral s ip frac) /\
  (forall z, parse_int64 s = Some z <-> IntNumeral s z /\ in_int64 z).
Proof. exact (fun s => conj (is_decimal_spec s) (parse_int64_spec s)). Qed.
Print Assumptions c19_numeral_syntax.

(* No value that ParseQuery accepts is unmarshalable (no NaN, no infinity). *)
Theorem c19_marshalable : forall s : bytes,
  (forall k, classify s <> QErr k) -> marshalable (classify s) = true.
Proof. exact classify_marshalable. Qed.
Print Assumptions c19_marshalable.

Theorem c19_params_marshalable : forall r m ps,
  parse_query r = PROk m ps -> params_marshalable ps = true.
Proof. exact parse_query_marshalable. Qed.
Print Assumptions c19_params_marshalable.

(* Without fix F8 the property is false: ?x=NaN *)
Theorem c19_refuted_without_F8 :
  classify_cfg false nan_text = QFloat nan_text /\
  marshalable (classify_cfg false nan_text) = false /\
  exists m ps, parse_query_cfg false {| hq_path := [47; 109]; hq_form := Some [([120], nan_text)] |} = PROk m ps /\
               params_marshalable ps = false.
Proof. exact refuted_without_F8. Qed.
Print Assumptions c19_refuted_without_F8.

(* ParseQuery and ParseBasic: on success the method is the path trimmed of
   slashes, it is not empty, and the parameters can be marshalled. *)
Theorem c19_method_nonempty : forall r m ps,
  parse_query r = PROk m ps \/ parse_basic r = PROk m ps ->
  m <> [] /\ m = trim 47 (hq_path r) /\ ~ starts_with 47 m /\ ~ ends_with 47 m /\
  (exists a b, hq_path r = a ++ m ++ b /\ only 47 a /\ only 47 b) /\
  params_marshalable ps = true.
Proof. exact method_nonempty. Qed.
Print Assumptions c19_method_nonempty.

(* ... and they fail exactly when the form cannot be parsed, the path has no
   byte other than slashes, or (ParseQuery) a value is ill-quoted. *)
Theorem c19_parse_query_fails_iff : forall r,
  parse_query r = PRErr <->
  hq_form r = None \/ only 47 (hq_path r) \/
  exists f k v e, hq_form r = Some f /\ In (k, v) f /\ classify v = QErr e.
Proof. exact parse_query_err. Qed.
Print Assumptions c19_parse_query_fails_iff.

(* Getter.ServeHTTP: 400 + ParseError object / 404 / 500 / 200 + result, for every
   request and every behaviour srv of the JSON-RPC server behind the getter. *)
Theorem c19_getter_status : forall r srv,
  match parse_query r with
  | PRErr => getter r srv = (400%Z, BError (-32700)%Z)
  | PROk m ps =>
    m <> [] /\
    match srv m ps with
    | CallOk res => getter r srv = (200%Z, BResult res)
    | CallErr c => getter r srv = ((if (c =? -32601)%Z then 404 else 500)%Z, BError c)
    | CallFail => getter r srv = (500%Z, BOther)
    end
  end.
Proof. exact getter_rules. Qed.
Print Assumptions c19_getter_status.

(* The same for any request parser plugged into GetterOptions.ParseRequest whose
   parameters are marshalable; and nothing but the four statuses is ever written. *)
Theorem c19_getter_status_any_parser : forall p srv,
  match p with
  | PRErr => getter_status p srv = (400%Z, BError (-32700)%Z)
  | PROk m ps =>
    params_marshalable ps = true ->
    match srv m ps with
    | CallOk res => getter_status p srv = (200%Z, BResult res)
    | CallErr c => (c = (-32601)%Z -> getter_status p srv = (404%Z, BError c)) /\
                   (c <> (-32601)%Z -> getter_status p srv = (500%Z, BError c))
    | CallFail => getter_status p srv = (500%Z, BOther)
    end
  end.
Proof. exact getter_status_rules. Qed.
Print Assumptions c19_getter_status_any_parser.

Theorem c19_getter_status_codes : forall p srv,
  In (fst (getter_status p srv)) [200; 400; 404; 500]%Z.
Proof. exact getter_status_codes. Qed.
Print Assumptions c19_getter_status_codes.

(* THE BYTES the Getter writes (http/GetterMore.v).  [getter_reply p perr o srv]: what writeJSON sends for the
   parser result p (perr = err.Error() of the parser's error), the call result [srv m ps] WITH its payload
   (CROk result | CRErr error object | CRFail (json.Marshal of any other Go error value)): [HJson st bits] = status
   st, Content-Type application/json, body bits = json.Marshal of the value ({"code":..,"message":..,"data":..} for
   an error: Wire.marshal_error; the compacted result: Json.compact) or [HFallback] = writeJSON's fallback when
   json.Marshal fails (500, text/plain).  [abs_srv srv] forgets the payloads (the call_result of c19_getter_status).

   Status, over all inputs: whenever JSON is written its status is the one c19_getter_status(_any_parser) gives,
   and the bytes render that abstract body. *)
Theorem c19_getter_bytes_status : forall p perr o srv st bits,
  getter_reply p perr o srv = HJson st bits ->
  st = fst (getter_status p (abs_srv srv)) /\ renders (snd (getter_status p (abs_srv srv))) bits /\ In st [200; 400; 404; 500]%Z.
Proof. exact getter_reply_refines. Qed.
Print Assumptions c19_getter_bytes_status.

(* ALWAYS VALID JSON, for every parser result and every call result, whatever the result text is.
   [srv_json srv]: the data of an error object, if any, are one JSON value that fits one container deep (they
   arrived two deep in a response record); json.Marshal of another Go error value yields JSON (encoding/json's
   contract).  Nothing is assumed of a result: if json.Marshal(RawMessage) accepts it, what it writes is JSON
   (c19_compact_valid).  [Json.valid] = json.Valid, nesting limit included. *)
Theorem c19_getter_always_valid_json : forall p perr o srv st bits,
  srv_json srv -> (forall t, o = Some t -> Json.valid t = true) ->
  getter_reply p perr o srv = HJson st bits -> Json.valid bits = true.
Proof. exact getter_reply_valid. Qed.
Print Assumptions c19_getter_always_valid_json.

(* ... and the text/plain fallback is unreachable when every value to write marshals ([srv_marshals]: results and
   error data are valid JSON, other errors marshal) and the parameters were marshalable (always, for ParseQuery/ParseBasic) *)
Theorem c19_getter_no_fallback : forall p perr o srv,
  srv_marshals srv -> (match p with PROk _ ps => params_marshalable ps = true | PRErr => True end) ->
  exists st bits, getter_reply p perr o srv = HJson st bits.
Proof. exact getter_reply_no_fallback. Qed.
Print Assumptions c19_getter_no_fallback.

(* per status, for Getter + ParseQuery: 400 + the ParseError object carrying the parser's message / 200 + the
   compacted result / 404 or 500 + the error object / 500 + the marshalled other error; each valid JSON *)
Theorem c19_getter_bytes_rules : forall r perr o srv,
  srv_json srv -> srv_marshals srv ->
  match parse_query r with
  | PRErr => exists b, getter_reply (parse_query r) perr o srv = HJson 400%Z b /\ Json.valid b = true /\
                       Wire.unmarshal_error b = (Some {| we_code := (-32700)%Z; we_msg := readback perr; we_data := [] |}, true)
  | PROk m ps =>
    match srv m ps with
    | CROk res => exists b, getter_reply (parse_query r) perr o srv = HJson 200%Z b /\ Json.valid b = true /\ Json.compact res = Some b
    | CRErr e => exists b, getter_reply (parse_query r) perr o srv = HJson (if (we_code e =? -32601)%Z then 404 else 500)%Z b /\
                           Json.valid b = true /\ Wire.marshal_error e = Some b
    | CRFail t => exists b, getter_reply (parse_query r) perr o srv = HJson 500%Z b /\ Json.valid b = true /\ t = Some b
    end
  end.
Proof. exact getter_bytes_rules. Qed.
Print Assumptions c19_getter_bytes_rules.

(* json.Compact / json.Marshal(json.RawMessage) (Json.compact: white space dropped; <, >, &, U+2028, U+2029
   escaped inside strings) maps valid JSON to valid JSON, and one value at nesting depth d to one value at depth d *)
Theorem c19_compact_valid : forall s q, Json.compact s = Some q -> Json.valid q = true /\ Json.tight_at 0 q = true.
Proof. exact JsonCompact.compact_valid. Qed.
Print Assumptions c19_compact_valid.

Theorem c19_compact_tight : forall d s, Json.tight_at d s = true ->
  exists q, Json.compact s = Some q /\ Json.tight_at d q = true.
Proof. exact JsonCompact.compact_tight. Qed.
Print Assumptions c19_compact_tight.

(* each request maps to ONE JSON-RPC call, and to none when the parser rejects it: the reply depends on the
   server behind the getter only through the result of the call (method, params) the parser produced *)
Theorem c19_getter_one_call : forall p perr o srv1 srv2,
  (match p with PRErr => True | PROk m ps => srv1 m ps = srv2 m ps end) ->
  getter_reply p perr o srv1 = getter_reply p perr o srv2.
Proof. exact getter_call_locality. Qed.
Print Assumptions c19_getter_one_call.

(* every error object whose data fit is valid JSON; the 400 body needs no hypothesis at all *)
Theorem c19_error_object_valid_json : forall e b,
  data_fits e -> Wire.marshal_error e = Some b -> Json.valid b = true.
Proof. exact marshal_error_valid. Qed.
Print Assumptions c19_error_object_valid_json.

Theorem c19_getter_400_body : forall perr,
  exists b, Wire.marshal_error (parse_error_obj perr) = Some b /\ Json.valid b = true /\
    Wire.unmarshal_error b = (Some {| we_code := ParseError; we_msg := readback perr; we_data := [] |}, true).
Proof. exact parse_error_body. Qed.
Print Assumptions c19_getter_400_body.

Local Close Scope N_scope.

(* jhttp.Channel, for ALL label sequences (every interleaving of Send, Do
   returning, Recv, Close and the library's own goroutine steps): once Close has
   returned no request goroutine is left (all Done, wg = 0) and every response
   body that cli.Do handed out has been closed; there is one goroutine per
   successful Send and each saw exactly one Do result; a 204 was consumed by the
   goroutine itself (no Recv, no drain); every other reply or Do error was taken
   exactly once: by one Recv or by the drain loop of Close. *)
Theorem c19_chan_no_leak : forall tr s,
  run init tr = Some s -> In HCloseDone tr ->
  no_leak s = true /\
  length (gs s) = n_send tr /\
  (forall j g, nth_error (gs s) j = Some g -> exists r d, g = Done r d) /\
  forall j, j < n_send tr ->
    exists r, dos j tr = [r] /\
      if is204 r then n_recv j tr = 0 /\ n_drain j tr = 0
      else n_recv j tr + n_drain j tr = 1.
Proof. exact chan_no_leak. Qed.
Print Assumptions c19_chan_no_leak.

(* Close waits for every Send: from the moment c.rsp is closed (a fortiori once Close has returned)
   every Send that was accepted has its goroutine registered, that goroutine has made its round trip
   and returned; none is Doing or Holding; the WaitGroup counter is zero.  For all label sequences.
   (In the model, as in the code, the wg increment belongs to the Send label itself, not to the
   goroutine it starts -- that is what makes this true.) *)
Theorem c19_close_waits_for_every_send : forall tr s,
  run init tr = Some s -> phase s = CRspClosed \/ phase s = CReturned ->
  wg s = 0 /\ length (gs s) = n_send tr /\
  forall j, j < n_send tr ->
    exists r d, nth_error (gs s) j = Some (Done r d) /\ dos j tr = [r].
Proof. exact close_waits_for_every_send. Qed.
Print Assumptions c19_close_waits_for_every_send.

(* ... because c.rsp is closed only at a state whose counter is zero and all of whose goroutines are Done *)
Theorem c19_rsp_closed_only_when_idle : forall tr s s',
  run init tr = Some s -> step s HRspClose = Some s' ->
  wg s = 0 /\ forall j g, nth_error (gs s) j = Some g -> exists r d, g = Done r d.
Proof. exact rsp_closed_only_when_idle. Qed.
Print Assumptions c19_rsp_closed_only_when_idle.

(* At every reachable state, closed or not: bodies opened = bodies closed + bodies
   held by goroutines blocked on the rendezvous; wg = goroutines not yet returned;
   nothing is taken twice; a 204 is never handed to Recv or to the drain loop. *)
Theorem c19_chan_accounting : forall tr s,
  run init tr = Some s ->
  opened s = closedb s + sum hbody1 (gs s) /\ wg s = sum live1 (gs s) /\
  forall j, n_recv j tr + n_drain j tr <= 1 /\
            (forall r, In r (dos j tr) -> is204 r = true -> n_recv j tr + n_drain j tr = 0) /\
            length (dos j tr) <= 1.
Proof. exact chan_accounting. Qed.
Print Assumptions c19_chan_accounting.

(* Close can always finish: until it has returned, either a request is still inside
   cli.Do (the HTTP client owes an answer) or a step of the library is enabled. *)
Theorem c19_close_progress : forall tr s,
  run init tr = Some s -> phase s = CDraining \/ phase s = CRspClosed ->
  (exists j, nth_error (gs s) j = Some Doing) \/
  exists l s', In l (enabled_internal s) /\ step s l = Some s'.
Proof. exact close_progress. Qed.
Print Assumptions c19_close_progress.

(* While the channel is open nothing is discarded, and when all request goroutines have returned, Recv
   has yielded exactly the non-empty (non-204) replies and Do errors, each exactly once, and no 204. *)
Theorem c19_open_channel_delivers_all : forall tr s,
  run init tr = Some s -> ~ In HClose tr -> forallb is_done (gs s) = true ->
  forall j, j < n_send tr ->
    exists r, dos j tr = [r] /\ n_drain j tr = 0 /\ n_recv j tr = (if is204 r then 0 else 1).
Proof. exact chan_delivers_all. Qed.
Print Assumptions c19_open_channel_delivers_all.

(* ... as streams: what Recv yielded, in the order it yielded it, is a permutation of what a direct
   connection delivers when the peer answers in request order (every reply but the empty
   acknowledgements), and no request is answered twice in either. *)
Theorem c19_recv_stream_is_permutation : forall tr s,
  run init tr = Some s -> ~ In HClose tr -> forallb is_done (gs s) = true ->
  Permutation (recv_stream tr) (direct_stream tr) /\
  NoDup (map fst (recv_stream tr)) /\ NoDup (map fst (direct_stream tr)).
Proof. exact recv_is_permutation_of_direct. Qed.
Print Assumptions c19_recv_stream_is_permutation.

(* SAME RESULTS ("A Client over jhttp.Channel against a Bridge observes the same results as over a direct
   connection"), for the client model of C04/C05 (coq/cli/CliModel.v), the channel model above and the Bridge model
   of C18 (coq/http/Bridge.v).  Proofs: http/SameResultsCli.v, http/SameResultsBridge.v, cli/CliSendLog.v,
   cli/CliNoStop.v.  Vocabulary:
     traces_to c tr s        s is the state of the client model after the label sequence tr (C04)
     feeds tr                the records the transport handed to the client's reader along tr (LFeed labels), in order
     body j                  what parseJSON makes of the body of the HTTP response of round trip j
     feed_of body (j, r)     what Recv hands to the client for round trip j whose cli.Do returned r: the parsed body
                             for status 200, a transport error otherwise (channel.go Recv)
     http_feeds body htr     = map (feed_of body) (recv_stream htr): in the order Recv yielded the responses
     direct_feeds body htr   = map (feed_of body) (direct_stream htr): the same reply records in request order
     sendlog (init_of c) tr  the operations whose Send put a record on the transport along tr, in order (ghost)
     sends_answered_by_bridge c tr s htr body
                             there are as many entries in the send log as HSend labels in htr; round trip j carried the
                             request record of the j-th entry (its members as req_members put them on the wire, read by
                             the Bridge as requests without a deferred error) and its status and parsed body are those
                             the Bridge model computes for it (serve_internal, any inner client+server with inner_ok,
                             any value of the shared id counter)
     op_ids s n              the wire ids of the requests of operation n
     not_close l             l is not the start of a Close operation.
   THE THEOREM: htr any run of the channel (open, all round trips done, responses handed to Recv in any order); tr1 any
   run of the client over it (any hooks, any schedule of callers, reader, delivery goroutines, watchers); tr2 any run
   of the client fed the same reply records in request order; no Close in either.  An operation that carried the same
   ids in both runs and whose context did not end returned the same value in both, if it returned in both. *)
Theorem c19_same_results : forall body htr hs c1 tr1 s1 c2 tr2 s2,
  HttpChan.run HttpChan.init htr = Some hs -> ~ In HClose htr -> forallb is_done (gs hs) = true ->
  traces_to c1 tr1 s1 -> traces_to c2 tr2 s2 ->
  feeds tr1 = http_feeds body htr -> feeds tr2 = direct_feeds body htr ->
  sends_answered_by_bridge c1 tr1 s1 htr body ->
  Forall not_close tr1 -> Forall not_close tr2 ->
  forall n o1 o2, op_at s1 n = Some o1 -> op_at s2 n = Some o2 ->
    o_ctx o1 = None -> o_ctx o2 = None ->
    op_ids s1 n = op_ids s2 n ->
    (forall r1 r2, In (ORet n (RetCall r1)) (hist s1) -> In (ORet n (RetCall r2)) (hist s2) -> r1 = r2)
    /\ (forall rs1 rs2, In (ORet n (RetBatch rs1)) (hist s1) -> In (ORet n (RetBatch rs2)) (hist s2) -> rs1 = rs2).
Proof. exact same_results. Qed.
Print Assumptions c19_same_results.

(* ... with Close operations allowed in either run, for the operations of runs that have not stopped
   (the premise of c04_order_irrelevant) *)
Theorem c19_same_results_if_not_stopped : forall body htr hs c1 tr1 s1 c2 tr2 s2,
  HttpChan.run HttpChan.init htr = Some hs -> ~ In HClose htr -> forallb is_done (gs hs) = true ->
  traces_to c1 tr1 s1 -> traces_to c2 tr2 s2 ->
  feeds tr1 = http_feeds body htr -> feeds tr2 = direct_feeds body htr ->
  sends_answered_by_bridge c1 tr1 s1 htr body ->
  forall n o1 o2, op_at s1 n = Some o1 -> op_at s2 n = Some o2 ->
    o_ctx o1 = None -> o_ctx o2 = None -> err s1 = None -> err s2 = None ->
    op_ids s1 n = op_ids s2 n ->
    (forall r1 r2, In (ORet n (RetCall r1)) (hist s1) -> In (ORet n (RetCall r2)) (hist s2) -> r1 = r2)
    /\ (forall rs1 rs2, In (ORet n (RetBatch rs1)) (hist s1) -> In (ORet n (RetBatch rs2)) (hist s2) -> rs1 = rs2).
Proof. exact same_results_if_not_stopped. Qed.
Print Assumptions c19_same_results_if_not_stopped.

(* ... against ANY HTTP peer whose reply records answer their own request records
   ([replies_answer_own_requests s htr body]: there is an injective assignment of round trips to operations of the
   client such that the reply-shaped members of body j, for a 200, carry exactly the ids of that operation) *)
Theorem c19_same_results_any_peer : forall body htr hs c1 tr1 s1 c2 tr2 s2,
  HttpChan.run HttpChan.init htr = Some hs -> ~ In HClose htr -> forallb is_done (gs hs) = true ->
  traces_to c1 tr1 s1 -> traces_to c2 tr2 s2 ->
  feeds tr1 = http_feeds body htr -> feeds tr2 = direct_feeds body htr ->
  replies_answer_own_requests s1 htr body ->
  forall n o1 o2, op_at s1 n = Some o1 -> op_at s2 n = Some o2 ->
    o_ctx o1 = None -> o_ctx o2 = None -> err s1 = None -> err s2 = None ->
    op_ids s1 n = op_ids s2 n ->
    (forall r1 r2, In (ORet n (RetCall r1)) (hist s1) -> In (ORet n (RetCall r2)) (hist s2) -> r1 = r2)
    /\ (forall rs1 rs2, In (ORet n (RetBatch rs1)) (hist s1) -> In (ORet n (RetBatch rs2)) (hist s2) -> rs1 = rs2).
Proof. exact same_results_cli. Qed.
Print Assumptions c19_same_results_any_peer.

(* A REAL DIRECT CONNECTION (http/SameResultsDirect.v).  [direct_answer inner next req]: the record a jrpc2.Server
   with the same handlers sends for the request record req on a plain channel: members answered by [inner] as
   behind the Bridge, under the ids AS SENT, in REQUEST order (invalid members at their position), notifications
   silent, an array iff the request was a batch or the replies are not exactly one, and NO record at all (None)
   when there is nothing to report; [direct_members] = its members ([] when no record).
   For every decodable non-empty request record: the Bridge's answer has the same members up to order (same id
   text, same result/error each; the Bridge puts static errors first); the SAME LIST when no member is statically
   invalid (every record a client sends); 204 iff the direct server sends no record, 200 iff it sends one; the
   forms differ exactly as stated (a batch of one call is a single object over HTTP). *)
Theorem c19_direct_vs_bridge : forall inner next b ms,
  BridgeProofs.inner_ok inner -> ms <> [] ->
  exists st body,
    bridge_answer inner next (InMsgs b ms) = Some (st, body) /\
    Permutation (body_msgs body) (direct_members inner next (InMsgs b ms)) /\
    Permutation (map id_body (body_msgs body)) (map id_body (direct_members inner next (InMsgs b ms))) /\
    ((forall m, In m ms -> j_err m = None) -> body_msgs body = direct_members inner next (InMsgs b ms)) /\
    (st = 204%Z <-> direct_answer inner next (InMsgs b ms) = None) /\
    (st = 200%Z <-> exists r, direct_answer inner next (InMsgs b ms) = Some r /\ body_msgs r <> []) /\
    (forall r, direct_answer inner next (InMsgs b ms) = Some r ->
       r = InMsgs (b || negb (Nat.eqb (length (body_msgs r)) 1)) (body_msgs r)) /\
    body = InMsgs (Nat.leb 2 (length (body_msgs body))) (body_msgs body).
Proof. exact direct_vs_bridge. Qed.
Print Assumptions c19_direct_vs_bridge.

(* every record the client puts on the transport has at least one member (Batch with no specs fails before Send) *)
Theorem c19_sent_records_nonempty : forall c tr s, traces_to c tr s ->
  forall n, In n (sendlog (init_of c) tr) -> exists o, op_at s n = Some o /\ o_specs o <> [].
Proof. exact sendlog_nonempty. Qed.
Print Assumptions c19_sent_records_nonempty.

(* SAME RESULTS AS OVER A DIRECT CONNECTION, the direct run being fed what a direct SERVER sends.
   [answered_by_bridge_with inner next bflag c1 tr1 s1 htr body] = sends_answered_by_bridge with its witnesses
   named; [direct_server_feeds inner next bflag c1 tr1 s1]: for the records the client sent over the channel, in
   the order it sent them, the record [direct_answer] gives for each (same handlers, ids as sent) - skipping those
   for which a server sends nothing.  tr2 is ANY run of the client model fed exactly these. *)
Theorem c19_same_results_direct_server : forall inner next bflag body htr hs c1 tr1 s1 c2 tr2 s2,
  HttpChan.run HttpChan.init htr = Some hs -> ~ In HClose htr -> forallb is_done (gs hs) = true ->
  traces_to c1 tr1 s1 -> traces_to c2 tr2 s2 ->
  feeds tr1 = http_feeds body htr ->
  answered_by_bridge_with inner next bflag c1 tr1 s1 htr body ->
  feeds tr2 = direct_server_feeds inner next bflag c1 tr1 s1 ->
  Forall not_close tr1 -> Forall not_close tr2 ->
  forall n o1 o2, op_at s1 n = Some o1 -> op_at s2 n = Some o2 ->
    o_ctx o1 = None -> o_ctx o2 = None ->
    op_ids s1 n = op_ids s2 n ->
    (forall r1 r2, In (ORet n (RetCall r1)) (hist s1) -> In (ORet n (RetCall r2)) (hist s2) -> r1 = r2)
    /\ (forall rs1 rs2, In (ORet n (RetBatch rs1)) (hist s1) -> In (ORet n (RetBatch rs2)) (hist s2) -> rs1 = rs2).
Proof. exact same_results_direct_server. Qed.
Print Assumptions c19_same_results_direct_server.

(* every record of the direct server's stream is one of the reply records Recv yielded over the channel *)
Theorem c19_direct_records_among_http : forall inner next bflag c tr s htr hs body,
  traces_to c tr s ->
  HttpChan.run HttpChan.init htr = Some hs -> ~ In HClose htr -> forallb is_done (gs hs) = true ->
  answered_by_bridge_with inner next bflag c tr s htr body ->
  forall ms, In ms (recs_of (direct_server_feeds inner next bflag c tr s)) -> In ms (recs_of (http_feeds body htr)).
Proof. exact direct_records_among_http. Qed.
Print Assumptions c19_direct_records_among_http.

(* The premise `order_irrelevant` of the abstract theorem below, discharged for the client model: two runs, the
   records fed in the second all occur among those fed in the first (e.g. any permutation, regrouping aside), the
   first stream answers no id twice ([stream_ids recs]: fixID(id) of every reply-shaped member of every record) *)
Theorem c19_client_order_irrelevant : forall c1 tr1 s1 c2 tr2 s2,
  traces_to c1 tr1 s1 -> traces_to c2 tr2 s2 ->
  (forall ms, In ms (fed tr2) -> In ms (fed tr1)) ->
  NoDup (stream_ids (fed tr1)) ->
  forall n o1 o2, op_at s1 n = Some o1 -> op_at s2 n = Some o2 ->
    o_ctx o1 = None -> o_ctx o2 = None -> err s1 = None -> err s2 = None ->
    op_ids s1 n = op_ids s2 n ->
    (forall r1 r2, In (ORet n (RetCall r1)) (hist s1) -> In (ORet n (RetCall r2)) (hist s2) -> r1 = r2)
    /\ (forall rs1 rs2, In (ORet n (RetBatch rs1)) (hist s1) -> In (ORet n (RetBatch rs2)) (hist s2) -> rs1 = rs2).
Proof. exact same_results_any_order. Qed.
Print Assumptions c19_client_order_irrelevant.

(* What the Bridge guarantees (C18 c18_own_responses, composed with the client's id discipline): every reply record
   answers exactly the ids of the request record its round trip carried, each record being one operation's *)
Theorem c19_replies_answer_own_requests : forall c tr s htr body,
  traces_to c tr s -> sends_answered_by_bridge c tr s htr body -> replies_answer_own_requests s htr body.
Proof. exact sends_answer_own_requests. Qed.
Print Assumptions c19_replies_answer_own_requests.

(* ... hence no id is answered twice in the stream Recv yields *)
Theorem c19_reply_ids_distinct : forall c tr s htr hs body,
  traces_to c tr s ->
  HttpChan.run HttpChan.init htr = Some hs -> ~ In HClose htr -> forallb is_done (gs hs) = true ->
  replies_answer_own_requests s htr body ->
  NoDup (stream_ids (recs_of (http_feeds body htr))).
Proof. exact own_requests_nodup. Qed.
Print Assumptions c19_reply_ids_distinct.

(* the Bridge answers 200 with at least one response object or 204 with none: Recv never reports a transport error *)
Theorem c19_bridge_status : forall inner next req st body,
  bridge_answer inner next req = Some (st, body) ->
  (st = 200%Z /\ body_msgs body <> []) \/ (st = 204%Z /\ body_msgs body = []).
Proof. exact bridge_status. Qed.
Print Assumptions c19_bridge_status.

(* an operation of the client calls Send at most once, and what it sent is its complete request record
   (one id allocated per call; [presend o = false]: it is past cli.send) *)
Theorem c19_send_once : forall c tr s, traces_to c tr s ->
  NoDup (sendlog (init_of c) tr)
  /\ forall n, In n (sendlog (init_of c) tr) ->
       exists o, op_at s n = Some o /\ presend o = false /\ length (o_slots o) = nn (o_specs o).
Proof. exact sendlog_spec. Qed.
Print Assumptions c19_send_once.

(* a client that is never closed and is handed only parsed JSON records does not stop
   ([good_label l]: l is not the start of a Close and, if it is a record from the transport, the record is
   FMsg (InMsgs _ _)) *)
Theorem c19_never_closed_never_stops : forall c tr s,
  traces_to c tr s -> Forall good_label tr -> err s = None.
Proof. exact never_closed_never_stops. Qed.
Print Assumptions c19_never_closed_never_stops.

(* The channel-level half for an ABSTRACT client: for ANY function from the reply stream its Recv yields to the
   results its operations return that is invariant under permutations of a stream answering each request at most
   once, the results over jhttp.Channel equal the results over the direct stream.  (Instantiated for the client
   model by the theorems above.) *)
Theorem c19_same_results_abstract :
  forall (outcome : Type) (client_results : list reply -> outcome),
  (forall a b : list reply, NoDup (map fst a) -> Permutation a b -> client_results a = client_results b) ->
  forall tr s,
    run init tr = Some s -> ~ In HClose tr -> forallb is_done (gs s) = true ->
    client_results (recv_stream tr) = client_results (direct_stream tr).
Proof. exact same_results_given_order_irrelevance. Qed.
Print Assumptions c19_same_results_abstract.

(* Without fix F11 (drain loop does not close bodies) the property is false. *)
Theorem c19_refuted_without_F11 :
  exists s, run_cfg false init f11_witness = Some s /\ In HCloseDone f11_witness /\
            opened s = 1 /\ closedb s = 0 /\ no_leak s = false.
Proof. exact refuted_without_F11. Qed.
Print Assumptions c19_refuted_without_F11.
