(* C19 — HTTP Getter, query parsing and HTTP client channel are total and faithful.
   This file only restates the property theorems; proofs are in
   http/QueryProofs.v (ParseQuery / ParseBasic / Getter.ServeHTTP, model http/Query.v + http/QStr.v)
   and http/HttpChanProofs.v (jhttp.Channel, transition model http/HttpChan.v).

   Vocabulary (defined in the proof files, all plain Props over byte strings):
     enclosed q s inner   s = q :: inner ++ [q]            (len >= 2, both ends are the quote q)
     quote_at_end q s     s starts with q or s ends with q
     IntNumeral s z       s = [+-]? digit+  denoting z
     DecNumeral s ip fr   s = [+-]? ip [ . fr ]  digits only, at least one digit
     finite_dec s         DecNumeral s ip _ with ip < 2^1024 - 2^970 (ParseFloat does not overflow)
     in_int64 z           -2^63 <= z <= 2^63 - 1
   34 is the double quote, 39 the single quote, 47 the slash, 61 the equals sign. *)
From Coq Require Import List NArith ZArith Bool Permutation.
From JV Require Import Bytes QStr Query QueryProofs HttpChan HttpChanProofs SameResults.
Import ListNotations.
Local Open Scope N_scope.

(* Every clause of the documented typing, as an iff on the byte string.  The
   classes are exhaustive (classify is a total function) and, by these iffs, disjoint. *)
Theorem c19_classify_rules : forall s : bytes,
  (forall v, classify s = QStr v <-> exists inner, enclosed 34 s inner /\ unq inner = Some v) /\
  (classify s = QErr EString <->
     (exists inner, enclosed 34 s inner /\ unq inner = None) \/
     (quote_at_end 34 s /\ ~ exists inner, enclosed 34 s inner)) /\
  (forall z, classify s = QInt z <-> IntNumeral s z /\ in_int64 z) /\
  (forall t, classify s = QFloat t <->
     t = s /\ finite_dec s /\ ~ (exists z, IntNumeral s z /\ in_int64 z)) /\
  (forall b, classify s = QBool b <-> s = (if b then w_true else w_false)) /\
  (classify s = QNull <-> s = w_null) /\
  (forall v, classify s = QBytes v <->
     exists inner, enclosed 39 s inner /\ b64_decode (trim_right 61 inner) = Some v) /\
  (classify s = QErr EBytes <->
     ~ quote_at_end 34 s /\
     ((exists inner, enclosed 39 s inner /\ b64_decode (trim_right 61 inner) = None) \/
      (quote_at_end 39 s /\ ~ exists inner, enclosed 39 s inner))) /\
  (forall t, classify s = QLit t <->
     t = s /\ ~ quote_at_end 34 s /\ ~ quote_at_end 39 s /\ ~ finite_dec s /\
     s <> w_true /\ s <> w_false /\ s <> w_null).
Proof. exact classify_rules. Qed.
Print Assumptions c19_classify_rules.

(* The syntactic classes used above are what their names say. *)
Theorem c19_numeral_syntax : forall s : bytes,
  (is_decimal s = true <-> exists ip frac, DecNumeral s ip frac) /\
  (forall z, parse_int64 s = Some z <-> IntNumeral s z /\ in_int64 z).
Proof. exact (fun s => conj (is_decimal_spec s) (parse_int64_spec s)). Qed.
Print Assumptions c19_numeral_syntax.

(* No value that ParseQuery accepts is unmarshalable (no NaN, no infinity). *)
Theorem c19_marshalable : forall s : bytes,
  (forall k, classify s <> QErr k) -> marshalable (classify s) = true.
Proof. exact classify_marshalable. Qed.
Print Assumptions c19_marshalable.

Theorem c19_params_marshalable : forall r m ps,
  parse_query r = PROk m ps -> params_marshalable ps = true.
Proof. exact parse_query_marshalable. Qed.
Print Assumptions c19_params_marshalable.

(* Without fix F8 the property is false: ?x=NaN *)
Theorem c19_refuted_without_F8 :
  classify_cfg false nan_text = QFloat nan_text /\
  marshalable (classify_cfg false nan_text) = false /\
  exists m ps, parse_query_cfg false {| hq_path := [47; 109]; hq_form := Some [([120], nan_text)] |} = PROk m ps /\
               params_marshalable ps = false.
Proof. exact refuted_without_F8. Qed.
Print Assumptions c19_refuted_without_F8.

(* ParseQuery and ParseBasic: on success the method is the path trimmed of
   slashes, it is not empty, and the parameters can be marshalled. *)
Theorem c19_method_nonempty : forall r m ps,
  parse_query r = PROk m ps \/ parse_basic r = PROk m ps ->
  m <> [] /\ m = trim 47 (hq_path r) /\ ~ starts_with 47 m /\ ~ ends_with 47 m /\
  (exists a b, hq_path r = a ++ m ++ b /\ only 47 a /\ only 47 b) /\
  params_marshalable ps = true.
Proof. exact method_nonempty. Qed.
Print Assumptions c19_method_nonempty.

(* ... and they fail exactly when the form cannot be parsed, the path has no
   byte other than slashes, or (ParseQuery) a value is ill-quoted. *)
Theorem c19_parse_query_fails_iff : forall r,
  parse_query r = PRErr <->
  hq_form r = None \/ only 47 (hq_path r) \/
  exists f k v e, hq_form r = Some f /\ In (k, v) f /\ classify v = QErr e.
Proof. exact parse_query_err. Qed.
Print Assumptions c19_parse_query_fails_iff.

(* Getter.ServeHTTP: 400 + ParseError object / 404 / 500 / 200 + result, for every
   request and every behaviour srv of the JSON-RPC server behind the getter. *)
Theorem c19_getter_status : forall r srv,
  match parse_query r with
  | PRErr => getter r srv = (400%Z, BError (-32700)%Z)
  | PROk m ps =>
    m <> [] /\
    match srv m ps with
    | CallOk res => getter r srv = (200%Z, BResult res)
    | CallErr c => getter r srv = ((if (c =? -32601)%Z then 404 else 500)%Z, BError c)
    | CallFail => getter r srv = (500%Z, BOther)
    end
  end.
Proof. exact getter_rules. Qed.
Print Assumptions c19_getter_status.

(* The same for any request parser plugged into GetterOptions.ParseRequest whose
   parameters are marshalable; and nothing but the four statuses is ever written. *)
Theorem c19_getter_status_any_parser : forall p srv,
  match p with
  | PRErr => getter_status p srv = (400%Z, BError (-32700)%Z)
  | PROk m ps =>
    params_marshalable ps = true ->
    match srv m ps with
    | CallOk res => getter_status p srv = (200%Z, BResult res)
    | CallErr c => (c = (-32601)%Z -> getter_status p srv = (404%Z, BError c)) /\
                   (c <> (-32601)%Z -> getter_status p srv = (500%Z, BError c))
    | CallFail => getter_status p srv = (500%Z, BOther)
    end
  end.
Proof. exact getter_status_rules. Qed.
Print Assumptions c19_getter_status_any_parser.

Theorem c19_getter_status_codes : forall p srv,
  In (fst (getter_status p srv)) [200; 400; 404; 500]%Z.
Proof. exact getter_status_codes. Qed.
Print Assumptions c19_getter_status_codes.

Local Close Scope N_scope.

(* jhttp.Channel, for ALL label sequences (every interleaving of Send, Do
   returning, Recv, Close and the library's own goroutine steps): once Close has
   returned no request goroutine is left (all Done, wg = 0) and every response
   body that cli.Do handed out has been closed; there is one goroutine per
   successful Send and each saw exactly one Do result; a 204 was consumed by the
   goroutine itself (no Recv, no drain); every other reply or Do error was taken
   exactly once: by one Recv or by the drain loop of Close. *)
Theorem c19_chan_no_leak : forall tr s,
  run init tr = Some s -> In HCloseDone tr ->
  no_leak s = true /\
  length (gs s) = n_send tr /\
  (forall j g, nth_error (gs s) j = Some g -> exists r d, g = Done r d) /\
  forall j, j < n_send tr ->
    exists r, dos j tr = [r] /\
      if is204 r then n_recv j tr = 0 /\ n_drain j tr = 0
      else n_recv j tr + n_drain j tr = 1.
Proof. exact chan_no_leak. Qed.
Print Assumptions c19_chan_no_leak.

(* Close waits for every Send: from the moment c.rsp is closed (a fortiori once Close has returned)
   every Send that was accepted has its goroutine registered, that goroutine has made its round trip
   and returned; none is Doing or Holding; the WaitGroup counter is zero.  For all label sequences.
   (In the model, as in the code, the wg increment belongs to the Send label itself, not to the
   goroutine it starts -- that is what makes this true.) *)
Theorem c19_close_waits_for_every_send : forall tr s,
  run init tr = Some s -> phase s = CRspClosed \/ phase s = CReturned ->
  wg s = 0 /\ length (gs s) = n_send tr /\
  forall j, j < n_send tr ->
    exists r d, nth_error (gs s) j = Some (Done r d) /\ dos j tr = [r].
Proof. exact close_waits_for_every_send. Qed.
Print Assumptions c19_close_waits_for_every_send.

(* ... because c.rsp is closed only at a state whose counter is zero and all of whose goroutines are Done *)
Theorem c19_rsp_closed_only_when_idle : forall tr s s',
  run init tr = Some s -> step s HRspClose = Some s' ->
  wg s = 0 /\ forall j g, nth_error (gs s) j = Some g -> exists r d, g = Done r d.
Proof. exact rsp_closed_only_when_idle. Qed.
Print Assumptions c19_rsp_closed_only_when_idle.

(* At every reachable state, closed or not: bodies opened = bodies closed + bodies
   held by goroutines blocked on the rendezvous; wg = goroutines not yet returned;
   nothing is taken twice; a 204 is never handed to Recv or to the drain loop. *)
Theorem c19_chan_accounting : forall tr s,
  run init tr = Some s ->
  opened s = closedb s + sum hbody1 (gs s) /\ wg s = sum live1 (gs s) /\
  forall j, n_recv j tr + n_drain j tr <= 1 /\
            (forall r, In r (dos j tr) -> is204 r = true -> n_recv j tr + n_drain j tr = 0) /\
            length (dos j tr) <= 1.
Proof. exact chan_accounting. Qed.
Print Assumptions c19_chan_accounting.

(* Close can always finish: until it has returned, either a request is still inside
   cli.Do (the HTTP client owes an answer) or a step of the library is enabled. *)
Theorem c19_close_progress : forall tr s,
  run init tr = Some s -> phase s = CDraining \/ phase s = CRspClosed ->
  (exists j, nth_error (gs s) j = Some Doing) \/
  exists l s', In l (enabled_internal s) /\ step s l = Some s'.
Proof. exact close_progress. Qed.
Print Assumptions c19_close_progress.

(* While the channel is open nothing is discarded, and when all request goroutines have returned, Recv
   has yielded exactly the non-empty (non-204) replies and Do errors, each exactly once, and no 204. *)
Theorem c19_open_channel_delivers_all : forall tr s,
  run init tr = Some s -> ~ In HClose tr -> forallb is_done (gs s) = true ->
  forall j, j < n_send tr ->
    exists r, dos j tr = [r] /\ n_drain j tr = 0 /\ n_recv j tr = (if is204 r then 0 else 1).
Proof. exact chan_delivers_all. Qed.
Print Assumptions c19_open_channel_delivers_all.

(* ... as streams: what Recv yielded, in the order it yielded it, is a permutation of what a direct
   connection delivers when the peer answers in request order (every reply but the empty
   acknowledgements), and no request is answered twice in either. *)
Theorem c19_recv_stream_is_permutation : forall tr s,
  run init tr = Some s -> ~ In HClose tr -> forallb is_done (gs s) = true ->
  Permutation (recv_stream tr) (direct_stream tr) /\
  NoDup (map fst (recv_stream tr)) /\ NoDup (map fst (direct_stream tr)).
Proof. exact recv_is_permutation_of_direct. Qed.
Print Assumptions c19_recv_stream_is_permutation.

(* PARTIAL.  Full statement (DESIGN section 8, c19_same_results): "a jrpc2.Client whose transport is
   jhttp.Channel against a jhttp.Bridge returns, for every call/notify/batch workload and every order in
   which the HTTP responses arrive, what it returns over a direct connection".
   Proved: for ANY client -- given as the function from the reply stream its Recv yields to the results
   its operations return -- whose results are the same for every permutation of a reply stream that
   answers each request at most once (premise `order_irrelevant`, the shape of c04_order_irrelevant),
   the results over jhttp.Channel equal the results over the direct stream.
   Missing: the premise has to be instantiated with the client model's theorem c04_order_irrelevant
   (coq/cli, being proved), and the replies themselves have to be identified with the Bridge model's
   (coq/http/Bridge.v, C18) per-request responses.  The end-to-end comparison is done by the harness
   families hc:bridge and hc:bridgerace. *)
Theorem c19_same_results_partial :
  forall (outcome : Type) (client_results : list reply -> outcome),
  (forall a b : list reply, NoDup (map fst a) -> Permutation a b -> client_results a = client_results b) ->
  forall tr s,
    run init tr = Some s -> ~ In HClose tr -> forallb is_done (gs s) = true ->
    client_results (recv_stream tr) = client_results (direct_stream tr).
Proof. exact same_results_given_order_irrelevance. Qed.
Print Assumptions c19_same_results_partial.

(* Without fix F11 (drain loop does not close bodies) the property is false. *)
Theorem c19_refuted_without_F11 :
  exists s, run_cfg false init f11_witness = Some s /\ In HCloseDone f11_witness /\
            opened s = 1 /\ closedb s = 0 /\ no_leak s = false.
Proof. exact refuted_without_F11. Qed.
Print Assumptions c19_refuted_without_F11.
