(* C16 — handler.Positional, Args, Obj: positional and keyed decoding are exact.
   This file only restates the property theorems; the model is hand/Handler.v, the proofs are in
   hand/HandlerProofs.v, hand/HandlerExtra.v, hand/PosElem.v and hand/HandlerMore.v.  encoding/json is not modelled:
   `decode`, `zero`, `decode_elt`, `decode_into`, `encode` are universally quantified oracles. *)
From Coq Require Import List NArith Bool Arith.
From JV Require Import Bytes Handler HandlerProofs HandlerExtra PosElem HandlerMore.
Import ListNotations.

(* Positional(func(ctx, X1..Xn), names), n >= 1, usable names.  Under the documented contract
   of encoding/json for the synthetic struct (struct_contract, zero_contract: hypotheses on the
   oracle, validated against the real library by the correspondence run), for every params value
   that addresses no argument twice: the function is called once, with element i decoded into
   Xi, iff the params are an array of exactly n decodable elements (decode_each; decode_elt X e
   stands for decoding e into a fresh variable of type X with DisallowUnknownFields, which
   encoding/json applies at every depth; null is whatever decode_elt makes of it: c16_null_allowed), or an object using only the given names, matched as
   encoding/json matches, with decodable values, missing names leaving zero values (fill);
   absent/null params give zero values; everything else is InvalidParams without a call. *)
Theorem c16_positional_accepts_exactly :
  forall (decode : ty -> bool -> pvalue -> option value) (zero : ty -> value)
         (decode_elt : ty -> elt -> option value) xs outs names fi p,
    struct_contract decode zero decode_elt -> zero_contract zero ->
    xs <> [] -> usable_names names = true ->
    positional (FFunc (TCtx :: xs) false outs) names = Ok fi ->
    plain_params names p = true ->
    wrap decode zero fi p =
    match p with
    | PAbsent | PNull => OCall (map zero xs)
    | PArray es => match decode_each decode_elt xs es with Some args => OCall args | None => OInvalidParams end
    | PObject kvs => match fill decode_elt names xs kvs (map zero xs) with
                     | Some args => OCall args | None => OInvalidParams end
    | PScalar _ | PMalformed _ => OInvalidParams
    end.
Proof. exact positional_elementwise. Qed.
Print Assumptions c16_positional_accepts_exactly.

(* ONE call of a Positional handler wrapping f (`handle`: the inputs of all calls of f, and the
   handler's return value): under the same contract f is called exactly once, with the values
   pos_args spells out (zero values for absent/null params, element i decoded into Xi for an
   array, the keyed values for an object), and the handler returns decode_out of the result and
   error of that call; or f is not called and the handler returns InvalidParams. *)
Theorem c16_handle_once :
  forall (decode : ty -> bool -> pvalue -> option value) (zero : ty -> value)
         (decode_elt : ty -> elt -> option value) (R E : Type) xs outs names fi p
         (f : call_input -> R * option E),
    struct_contract decode zero decode_elt -> zero_contract zero ->
    xs <> [] -> usable_names names = true ->
    positional (FFunc (TCtx :: xs) false outs) names = Ok fi ->
    plain_params names p = true ->
    handle decode zero fi p f =
    match pos_args decode_elt zero names xs p with
    | Some args => ([InArgs args], RReturn (decode_out fi (fst (f (InArgs args))) (snd (f (InArgs args)))))
    | None => ([], RInvalidParams)
    end.
Proof. exact (fun decode zero decode_elt R E => @positional_handle decode zero decode_elt R E). Qed.
Print Assumptions c16_handle_once.

(* The same as an equivalence with declarative conditions: the call happens, with the arguments
   args, iff the params are absent or null and args are the zero values; or an array of exactly n
   elements, element i decoding into Xi to args_i; or an object using only the given names
   (match_field: the name itself, else the first name equal ignoring ASCII case - how encoding/json
   matches keys to fields), each value decoding into the argument of its name and the arguments
   no key names being zero.  In every other case, and only then, the answer is InvalidParams. *)
Theorem c16_positional_accepts_iff :
  forall (decode : ty -> bool -> pvalue -> option value) (zero : ty -> value)
         (decode_elt : ty -> elt -> option value) xs outs names fi p,
    struct_contract decode zero decode_elt -> zero_contract zero ->
    xs <> [] -> usable_names names = true ->
    positional (FFunc (TCtx :: xs) false outs) names = Ok fi ->
    plain_params names p = true ->
    (forall args,
       wrap decode zero fi p = OCall args <->
       ((p = PAbsent \/ p = PNull) /\ args = map zero xs) \/
       (exists es, p = PArray es /\ length es = length xs /\ length args = length xs /\
          forall i e, nth_error es i = Some e ->
            exists v, decode_elt (nth i xs TAny) e = Some v /\ nth_error args i = Some v) \/
       (exists kvs, p = PObject kvs /\ length args = length xs /\
          (forall k e, In (k, e) kvs ->
             exists i v, match_field names k = Some i /\ decode_elt (nth i xs TAny) e = Some v /\
                         nth_error args i = Some v) /\
          (forall i, i < length xs -> (forall k e, In (k, e) kvs -> match_field names k <> Some i) ->
             nth_error args i = Some (zero (nth i xs TAny))))) /\
    ((forall args, wrap decode zero fi p <> OCall args) <-> wrap decode zero fi p = OInvalidParams).
Proof. exact positional_accepts_iff. Qed.
Print Assumptions c16_positional_accepts_iff.

(* 'null allowed'.  null_contract: decoding the element `null` into a fresh variable of any type
   reports no error and leaves the zero value (encoding/json: null sets interfaces, maps, pointers
   and slices to nil and "otherwise has no effect"; an assumption on the element oracle).  Then an
   array of n nulls is accepted with all-zero arguments; putting null in place of any element of
   an accepted array keeps it accepted, that argument becoming the zero value and the others
   staying; a null element / a null value under a name leaves the zero value in its argument. *)
Theorem c16_null_allowed :
  forall (decode : ty -> bool -> pvalue -> option value) (zero : ty -> value)
         (decode_elt : ty -> elt -> option value),
    null_contract decode_elt zero ->
    forall xs outs names fi,
    struct_contract decode zero decode_elt -> zero_contract zero ->
    xs <> [] -> usable_names names = true ->
    positional (FFunc (TCtx :: xs) false outs) names = Ok fi ->
    wrap decode zero fi (PArray (repeat null_elt (length xs))) = OCall (map zero xs) /\
    (forall es args i,
       wrap decode zero fi (PArray es) = OCall args ->
       wrap decode zero fi (PArray (set_nth i null_elt es)) = OCall (set_nth i (zero (nth i xs TAny)) args)) /\
    (forall es args i,
       wrap decode zero fi (PArray es) = OCall args -> nth_error es i = Some null_elt ->
       nth_error args i = Some (zero (nth i xs TAny))) /\
    (forall kvs args k i,
       plain_params names (PObject kvs) = true ->
       wrap decode zero fi (PObject kvs) = OCall args ->
       In (k, null_elt) kvs -> match_field names k = Some i -> i < length xs ->
       nth_error args i = Some (zero (nth i xs TAny))).
Proof. exact positional_null. Qed.
Print Assumptions c16_null_allowed.

(* ... and with no assumption on the oracle, for all name lists and all params: one call with
   decoded arguments (never the request), or no call and InvalidParams *)
Theorem c16_handle_shape :
  forall (decode : ty -> bool -> pvalue -> option value) (zero : ty -> value) (R E : Type)
         xs outs names fi p (f : call_input -> R * option E),
    xs <> [] -> positional (FFunc (TCtx :: xs) false outs) names = Ok fi ->
    (exists args, handle decode zero fi p f =
       ([InArgs args], RReturn (decode_out fi (fst (f (InArgs args))) (snd (f (InArgs args))))) /\
       wrap decode zero fi p = OCall args) \/
    (handle decode zero fi p f = ([], RInvalidParams) /\ wrap decode zero fi p = OInvalidParams).
Proof. exact (fun decode zero R E => @positional_handle_shape decode zero R E). Qed.
Print Assumptions c16_handle_shape.

(* what decode_each and fill say *)
Theorem c16_array_exact_length :
  forall (decode_elt : ty -> elt -> option value) xs es vs,
    decode_each decode_elt xs es = Some vs -> length es = length xs /\ length vs = length xs.
Proof. exact decode_each_length. Qed.
Print Assumptions c16_array_exact_length.

Theorem c16_object_unknown_key :
  forall (decode_elt : ty -> elt -> option value) names xs kvs slots k e,
    In (k, e) kvs -> match_field names k = None -> fill decode_elt names xs kvs slots = None.
Proof. exact fill_unknown_key. Qed.
Print Assumptions c16_object_unknown_key.

Theorem c16_object_missing_name :
  forall (decode_elt : ty -> elt -> option value) names xs kvs slots out i,
    fill decode_elt names xs kvs slots = Some out ->
    (forall k e, In (k, e) kvs -> match_field names k <> Some i) ->
    nth_error out i = nth_error slots i.
Proof. exact fill_missing. Qed.
Print Assumptions c16_object_missing_name.

Theorem c16_object_present_name :
  forall (decode_elt : ty -> elt -> option value) names xs kvs slots out k e i,
    fields_once names kvs [] = true ->
    fill decode_elt names xs kvs slots = Some out ->
    In (k, e) kvs -> match_field names k = Some i -> i < length slots ->
    exists v, decode_elt (nth i xs TAny) e = Some v /\ nth_error out i = Some v.
Proof. exact fill_present. Qed.
Print Assumptions c16_object_present_name.

(* the same at the level of the struct oracle, with no assumption on it, for all name lists and
   all params, and with AllowArray(false) applied afterwards (a = false) *)
Theorem c16_positional_wrap :
  forall (decode : ty -> bool -> pvalue -> option value) (zero : ty -> value) xs outs names fi a p,
    xs <> [] -> positional (FFunc (TCtx :: xs) false outs) names = Ok fi ->
    let S := pos_struct names xs in
    let answer (q : pvalue) := match decode S true q with
                               | Some v => OCall (fields_of v)
                               | None => OInvalidParams
                               end in
    wrap decode zero (allow_array a fi) p =
    match p with
    | PAbsent => OCall (fields_of (zero S))
    | PMalformed _ => OInvalidParams
    | PArray es =>
        if a then
          if Nat.eqb (length es) (length names) then answer (PObject (obj_of [] names es)) else OInvalidParams
        else answer p
    | _ => answer p
    end.
Proof. exact positional_wrap. Qed.
Print Assumptions c16_positional_wrap.

(* wrong number of names: an error; no non-context argument: Check decides *)
Theorem c16_positional_arity :
  (forall xs outs names, xs <> [] -> length names <> length xs ->
     positional (FFunc (TCtx :: xs) false outs) names = Err (ENameCount (length names) (length xs))) /\
  (forall v outs names, positional (FFunc [TCtx] v outs) names = check (FFunc [TCtx] v outs)) /\
  (forall fn names,
     (exists fi, positional fn names = Ok fi) <->
     exists xs outs y, fn = FFunc (TCtx :: xs) false outs /\
       (outs = [y] \/ outs = [y; TError]) /\ (xs = [] \/ length names = length xs)).
Proof. exact positional_arity_spec. Qed.
Print Assumptions c16_positional_arity.

(* Args.UnmarshalJSON succeeds iff the params are an array (null: the empty one) of exactly
   len(a) elements each of which decodes into its non-nil target; a' is a with exactly those
   targets overwritten (args_rel) *)
Theorem c16_args :
  forall (decode_into : ty -> value -> elt -> bool * value) a p a',
    args_unmarshal decode_into a p = (true, a') <->
    exists es, as_array p = Some es /\ length es = length a /\ args_rel decode_into a es a'.
Proof. exact args_unmarshal_ok. Qed.
Print Assumptions c16_args.

Theorem c16_args_frame :
  forall (decode_into : ty -> value -> elt -> bool * value) a es a',
    args_rel decode_into a es a' ->
    length a' = length a /\
    forall i, match nth_error a i, nth_error a' i with
              | Some None, Some None => True
              | Some (Some (T, cur)), Some (Some (T', v)) =>
                  T = T' /\ exists e, nth_error es i = Some e /\ decode_into T cur e = (true, v)
              | None, None => True
              | _, _ => False
              end.
Proof. exact args_rel_frame. Qed.
Print Assumptions c16_args_frame.

Theorem c16_args_failure :
  forall (decode_into : ty -> value -> elt -> bool * value) a p a',
    args_unmarshal decode_into a p = (false, a') ->
    (a' = a /\ forall es, as_array p = Some es -> length es <> length a) \/
    exists es a1 es1 a1' T cur e v a2 es2,
      as_array p = Some es /\ length es = length a /\
      a = a1 ++ Some (T, cur) :: a2 /\ es = es1 ++ e :: es2 /\ args_rel decode_into a1 es1 a1' /\
      decode_into T cur e = (false, v) /\ a' = a1' ++ Some (T, v) :: a2.
Proof. exact (fun d => args_unmarshal_failure d (fun _ _ => None)). Qed.
Print Assumptions c16_args_failure.

Theorem c16_args_marshal :
  forall (encode : ty -> value -> option elt) a,
    (forall p, args_marshal encode a = Some p -> exists es, p = PArray es /\ length es = length a) /\
    args_marshal encode [] = Some (PArray []).
Proof. exact (fun encode a => conj (args_marshal_spec encode a) (args_marshal_empty encode)). Qed.
Print Assumptions c16_args_marshal.

(* Args.MarshalJSON position by position: the result is an array with one element per target,
   element i being the encoding of target i and `null` for a nil slot; it fails iff the encoding
   of some target fails *)
Theorem c16_args_marshal_elementwise :
  forall (encode : ty -> value -> option elt) a,
    (forall p, args_marshal encode a = Some p <->
       exists es, p = PArray es /\ length es = length a /\
         forall i s, nth_error a i = Some s ->
           nth_error es i = match s with None => Some null_elt | Some (T, v) => encode T v end) /\
    (args_marshal encode a = None <->
       exists i T v, nth_error a i = Some (Some (T, v)) /\ encode T v = None).
Proof. exact args_marshal_elementwise. Qed.
Print Assumptions c16_args_marshal_elementwise.

Theorem c16_args_roundtrip :
  forall (decode_into : ty -> value -> elt -> bool * value) (encode : ty -> value -> option elt) a b p,
    Forall2 (roundtrips decode_into encode) a b -> args_marshal encode a = Some p ->
    args_unmarshal decode_into b p = (true, a).
Proof. exact args_roundtrip. Qed.
Print Assumptions c16_args_roundtrip.

(* Obj.UnmarshalJSON succeeded (the map visited in any order ord that enumerates its keys):
   the set of targets is unchanged, a target whose key is present holds the decode of the (last)
   value of its key, a target whose key is absent is untouched, other JSON keys are ignored *)
Theorem c16_obj :
  forall (decode_into : ty -> value -> elt -> bool * value) ord o p o',
    NoDup ord -> (forall k, In k ord <-> In k (map fst o)) ->
    obj_unmarshal decode_into ord o p = (true, o') ->
    exists base, as_object p = Some base /\
      map fst o' = map fst o /\
      (forall k, visit_ok decode_into base o k) /\
      (forall k, cell_get k o' = option_map (visited decode_into base k) (cell_get k o)) /\
      (forall k s, cell_get k o = Some s -> last_value k base = None -> cell_get k o' = Some s).
Proof. exact obj_unmarshal_ok. Qed.
Print Assumptions c16_obj.

Theorem c16_obj_succeeds_iff :
  forall (decode_into : ty -> value -> elt -> bool * value) ord o p,
    NoDup ord -> (forall k, In k ord <-> In k (map fst o)) ->
    ((exists o', obj_unmarshal decode_into ord o p = (true, o')) <->
     exists base, as_object p = Some base /\ forall k, visit_ok decode_into base o k).
Proof. exact obj_unmarshal_ok_iff. Qed.
Print Assumptions c16_obj_succeeds_iff.

Theorem c16_obj_order_independent :
  forall (decode_into : ty -> value -> elt -> bool * value) ord1 ord2 o p o1 o2,
    NoDup (map fst o) ->
    NoDup ord1 -> (forall k, In k ord1 <-> In k (map fst o)) ->
    NoDup ord2 -> (forall k, In k ord2 <-> In k (map fst o)) ->
    obj_unmarshal decode_into ord1 o p = (true, o1) ->
    obj_unmarshal decode_into ord2 o p = (true, o2) -> o1 = o2.
Proof. exact obj_unmarshal_order_independent. Qed.
Print Assumptions c16_obj_order_independent.

(* no target is ever added, removed or renamed, whether the call succeeds or fails *)
Theorem c16_obj_frame :
  forall (decode_into : ty -> value -> elt -> bool * value) ord o p ok o',
    obj_unmarshal decode_into ord o p = (ok, o') -> map fst o' = map fst o.
Proof. exact obj_unmarshal_keys. Qed.
Print Assumptions c16_obj_frame.

(* 'touches no other target', success or failure, any visiting order: when the params are not an
   object (or null) the call fails and every target is as before; otherwise a target whose key is
   absent from the JSON object is untouched *)
Theorem c16_obj_untouched_any :
  forall (decode_into : ty -> value -> elt -> bool * value) ord o p ok o',
    obj_unmarshal decode_into ord o p = (ok, o') ->
    (as_object p = None -> ok = false /\ o' = o) /\
    (forall base k, as_object p = Some base -> last_value k base = None -> cell_get k o' = cell_get k o).
Proof. exact obj_unmarshal_untouched. Qed.
Print Assumptions c16_obj_untouched_any.

(* What a FAILED Obj.UnmarshalJSON leaves behind, whatever the order in which the map was visited
   (ord: duplicate-free, keys of the map): a state obj_failure_admissible accepts - the predicate
   the correspondence check holds the real code to.  It says: some key kf of the map fails (nil
   target, or its decode fails) and its target holds what the failed decode left; every other
   target holds its old value or the result of its own successful decode; targets whose key is
   absent from the JSON object hold their old value. *)
Theorem c16_obj_failure_admissible :
  forall (decode_into : ty -> value -> elt -> bool * value) ord o p o',
    NoDup (map fst o) -> NoDup ord -> (forall k, In k ord -> In k (map fst o)) ->
    obj_unmarshal decode_into ord o p = (false, o') ->
    obj_failure_admissible decode_into o p o' = true.
Proof. exact obj_failure_is_admissible. Qed.
Print Assumptions c16_obj_failure_admissible.

(* Calls of one Positional handler do not interfere: it decodes into a scratch variable of the
   synthetic struct type, one per call; under any interleaving sch of the steps of the calls for
   the requests ps (the machine `mrun` of hand/HandlerMore.v, see c15_calls_do_not_interfere) a
   call that has finished finished with wrap's answer to its own params (what that answer is:
   c16_positional_accepts_exactly / c16_positional_wrap), and three steps finish it. *)
Theorem c16_calls_do_not_interfere :
  forall (decode : ty -> bool -> pvalue -> option value) (zero : ty -> value) xs outs names fi ps sch,
    xs <> [] -> positional (FFunc (TCtx :: xs) false outs) names = Ok fi ->
    scratch_type fi = Some (pos_struct names xs) /\
    forall i p, nth_error ps i = Some p ->
      (forall o, nth_error (m_pcs (mrun decode zero fi false ps sch)) i = Some (PcDone o) ->
         o = wrap decode zero fi p) /\
      (3 <= count_occ Nat.eq_dec sch i ->
         nth_error (m_pcs (mrun decode zero fi false ps sch)) i = Some (PcDone (wrap decode zero fi p))).
Proof. exact positional_no_interference. Qed.
Print Assumptions c16_calls_do_not_interfere.

(* A fact about `map` (serve is defined as `map (wrap fi)`; the premise is not used): it holds of
   every function and carries no information about the code.  The statement with content is
   c16_calls_do_not_interfere. *)
Theorem c16_calls_independent :
  forall (decode : ty -> bool -> pvalue -> option value) (zero : ty -> value) xs outs names fi ps1 p ps2,
    positional (FFunc (TCtx :: xs) false outs) names = Ok fi ->
    nth_error (serve decode zero fi (ps1 ++ p :: ps2)) (length ps1) = Some (wrap decode zero fi p).
Proof. exact serve_positional. Qed.
Print Assumptions c16_calls_independent.
