(* C15 — handler.New / Check: the function gets exactly the decoded params or is not called.
   This file only restates the property theorems; the model is hand/Handler.v, the proofs are
   in hand/HandlerProofs.v, hand/HandlerExtra.v and hand/HandlerMore.v.  encoding/json and reflect are not modelled:
   `decode` and `zero` are universally quantified oracles (what encoding/json produces for a
   type, a strictness and a params value; the zero value of a type). *)
From Coq Require Import List NArith Bool Arith Sorting.Permutation.
From JV Require Import Bytes Handler HandlerProofs HandlerExtra PosElem HandlerMore.
Import ListNotations.

(* Check accepts exactly func(context.Context[, X]) (Y | error | (Y, error)), not variadic;
   every other value gets an error (check is total: there is no crash outcome). *)
Theorem c15_check_exact : forall fn,
  ((exists fi, check fn = Ok fi) <-> scheme fn) /\ (~ scheme fn -> exists e, check fn = Err e).
Proof. exact check_exact_total. Qed.
Print Assumptions c15_check_exact.

Theorem c15_check_errors :
  check FNil = Err ENilFunction /\
  (forall t, check (FNotFunc t) = Err ENotFunction) /\
  (forall ins v outs, length ins = 0 \/ 2 < length ins -> check (FFunc ins v outs) = Err EWrongNumParams) /\
  (forall c rest v outs, length rest <= 1 -> c <> TCtx -> check (FFunc (c :: rest) v outs) = Err EFirstNotContext) /\
  (forall rest outs, length rest <= 1 -> check (FFunc (TCtx :: rest) true outs) = Err EVariadic) /\
  (forall rest outs, length rest <= 1 -> length outs = 0 \/ 2 < length outs ->
     check (FFunc (TCtx :: rest) false outs) = Err EWrongNumResults) /\
  (forall rest o0 o1, length rest <= 1 -> o1 <> TError ->
     check (FFunc (TCtx :: rest) false [o0; o1]) = Err EResultNotError).
Proof. exact check_errors. Qed.
Print Assumptions c15_check_errors.

(* What Check records, after SetStrict(s) and AllowArray(a), in the vocabulary of c15_wrap_spec:
   the positional names are the struct field names of the argument type (c15_field_names says
   which those are), the array form is in effect iff it is allowed and there is at least one
   name, the translation applied to the params is c15_translate's `translate` with exactly those
   names, and a stub is interposed iff the array form is in effect or strictness was asked for
   and the type has no DisallowUnknownFields method of its own. *)
Theorem c15_check_info : forall fn fi0 s a,
  check fn = Ok fi0 ->
  let fi := set_strict s (allow_array a fi0) in
  (exists args outs, fn = FFunc (TCtx :: args) false outs /\
     fi_arg fi = match args with [x] => Some x | _ => None end) /\
  fi_pos_names fi = match struct_field_names (fi_arg fi) with Some ns => ns | None => [] end /\
  fi_strict fi = s /\ fi_array fi = a /\ fi_unpack fi = false /\
  array_eff fi = a && negb (is_nil (fi_pos_names fi)) /\
  (forall p, translate_if_array fi p =
     match struct_field_names (fi_arg fi) with
     | Some (n :: ns) => if a then translate (n :: ns) p else Some p
     | _ => Some p
     end) /\
  (forall x, fi_arg fi = Some x -> stubbed fi = array_eff fi || (s && negb (has_strict_method x))).
Proof. exact check_info_options. Qed.
Print Assumptions c15_check_info.

(* handler.New = Check, then Wrap with the default options; it panics (None) exactly on the
   values Check rejects *)
Theorem c15_new :
  forall (decode : ty -> bool -> pvalue -> option value) (zero : ty -> value) fn,
    (new decode zero fn = None <-> ~ scheme fn) /\
    (new decode zero fn = None <-> exists e, check fn = Err e) /\
    (forall h, new decode zero fn = Some h -> exists fi, check fn = Ok fi /\ h = wrap decode zero fi) /\
    (scheme fn -> exists fi, check fn = Ok fi /\ new decode zero fn = Some (wrap decode zero fi)).
Proof. exact new_spec. Qed.
Print Assumptions c15_new.

(* For every accepted function, every option setting and every params value: the function is
   called once (OCall [v]) with v = what encoding/json decodes from the (array-translated)
   params into the declared parameter type under the strictness in effect, or it is not called
   and the error is InvalidParams; functions without a parameter reject non-empty params;
   *jrpc2.Request functions get the request itself. *)
Theorem c15_wrap_spec :
  forall (decode : ty -> bool -> pvalue -> option value) (zero : ty -> value) fn fi0 s a p,
    check fn = Ok fi0 ->
    let fi := set_strict s (allow_array a fi0) in
    match fi_arg fi with
    | None => wrap decode zero fi p = if has_params p then ONoParamsAccepted else OCall []
    | Some x =>
        if is_req x then wrap decode zero fi p = OCallRequest
        else
          wrap decode zero fi p =
          match p with
          | PAbsent => OCall [zero (pointee x)]
          | _ =>
              if malformed p && stubbed fi then OInvalidParams
              else match translate_if_array fi p with
                   | None => OInvalidParams
                   | Some p' => match decode (pointee x) (strict_eff fi x) p' with
                                | Some v => OCall [v]
                                | None => OInvalidParams
                                end
                   end
          end
    end.
Proof. exact wrap_spec. Qed.
Print Assumptions c15_wrap_spec.

(* result and error of the function are handed on unchanged *)
Theorem c15_wrap_result : forall (R E : Type) (fi : finfo) (y : R) (e : option E),
  fi_handler fi = false ->
  decode_out fi y e =
  match fi_result fi, fi_reports_error fi, e with
  | None, _, None => HNil
  | None, _, Some e' => HError e'
  | Some _, false, _ => HResult y
  | Some _, true, None => HResult y
  | Some _, true, Some e' => HError e'
  end.
Proof. exact (@decode_out_spec). Qed.
Print Assumptions c15_wrap_result.

Theorem c15_wrap_result_handler : forall (R E : Type) (fi : finfo) (y : R) (e : option E),
  fi_handler fi = true ->
  decode_out fi y e = match e with None => HResult y | Some e' => HBoth y e' end.
Proof. exact (@decode_out_handler). Qed.
Print Assumptions c15_wrap_result_handler.

(* ONE call of the handler, for every FuncInfo, params value and wrapped function f (f maps what
   it is called with to its result and error): `handle` returns the inputs of all calls of f and
   the handler's return value.  f is called at most once; exactly once - with the decoded
   arguments, or the request itself - iff wrap says OCall / OCallRequest, and then the handler
   returns decode_out of the result and error of THAT call (c15_wrap_result: unchanged); it is
   not called iff the handler returns an InvalidParams error of its own. *)
Theorem c15_handle_once :
  forall (decode : ty -> bool -> pvalue -> option value) (zero : ty -> value) (R E : Type)
         (fi : finfo) (p : pvalue) (f : call_input -> R * option E),
    let calls := fst (handle decode zero fi p f) in
    let ret := snd (handle decode zero fi p f) in
    length calls <= 1 /\
    (forall x, calls = [x] <->
       (exists args, wrap decode zero fi p = OCall args /\ x = InArgs args) \/
       (wrap decode zero fi p = OCallRequest /\ x = InRequest p)) /\
    (forall x, calls = [x] -> ret = RReturn (decode_out fi (fst (f x)) (snd (f x)))) /\
    (calls = [] <-> wrap decode zero fi p = OInvalidParams \/ wrap decode zero fi p = ONoParamsAccepted) /\
    (calls = [] <-> is_invalid_params ret = true) /\
    (ret = RInvalidParams <-> wrap decode zero fi p = OInvalidParams) /\
    (ret = RNoParamsAccepted <-> wrap decode zero fi p = ONoParamsAccepted).
Proof. exact (fun decode zero R E => @handle_spec decode zero R E). Qed.
Print Assumptions c15_handle_once.

(* strictness in effect = SetStrict or the type's own DisallowUnknownFields method, for every
   option combination, array-capable structs included (F12) *)
Theorem c15_strict_eff : forall fn fi0 s a x,
  check fn = Ok fi0 -> fi_arg fi0 = Some x -> named_ptr x = false ->
  strict_eff (set_strict s (allow_array a fi0)) x = s || has_strict_method x.
Proof. exact strict_eff_options. Qed.
Print Assumptions c15_strict_eff.

(* ... and the remaining parameter types, declared pointer types (type P *S): they have no
   methods; in effect is SetStrict, or the method set of *S when no stub is interposed *)
Theorem c15_strict_eff_declared_pointer : forall fn fi0 s a x,
  check fn = Ok fi0 -> fi_arg fi0 = Some x -> named_ptr x = true ->
  let fi := set_strict s (allow_array a fi0) in
  has_strict_method x = false /\
  strict_eff fi x = s || (negb (array_eff fi) && direct_strict x).
Proof. exact strict_eff_declared_pointer_options. Qed.
Print Assumptions c15_strict_eff_declared_pointer.

Theorem c15_refuted_without_F12 :
  exists fn fi0 x,
    check fn = Ok fi0 /\ fi_arg fi0 = Some x /\ named_ptr x = false /\
    strict_eff_gen false fi0 x <> fi_strict fi0 || has_strict_method x /\
    strict_eff_gen true fi0 x = fi_strict fi0 || has_strict_method x.
Proof. exact strict_eff_refuted_without_F12. Qed.
Print Assumptions c15_refuted_without_F12.

Theorem c15_wrap_refuted_without_F12 :
  wrap_gen demo_decode demo_zero false (fi_of strict_fn) demo_params = OCall [Val (bs [118]) []] /\
  wrap demo_decode demo_zero (fi_of strict_fn) demo_params = OInvalidParams /\
  wrap_gen demo_decode demo_zero false (allow_array false (fi_of strict_fn)) demo_params = OInvalidParams.
Proof. exact wrap_refuted_without_F12. Qed.
Print Assumptions c15_wrap_refuted_without_F12.

(* arrayStub.translate: an array of exactly length names elements becomes the object
   names[i] |-> arr[i] (keys sorted, as json.Marshal of a map writes them); any other length is
   the InvalidParams error; non-arrays pass through *)
Theorem c15_translate : forall names p,
  (forall es, p = PArray es -> NoDup names -> length es = length names ->
     exists o, translate names p = Some (PObject o) /\
       (forall i k e, nth_error names i = Some k -> nth_error es i = Some e -> obj_get k o = Some e) /\
       (forall k, In k (map fst o) <-> In k names) /\
       sorted_keys o) /\
  (forall es, p = PArray es -> length es <> length names -> translate names p = None) /\
  ((forall es, p <> PArray es) -> translate names p = Some p).
Proof. exact translate_spec. Qed.
Print Assumptions c15_translate.

(* structFieldNames: exported, not `json:"-"`, the tagged name if non-empty, untagged embedded
   fields skipped - in declaration order (names_rel / eligible spell the rule out) *)
Theorem c15_field_names : forall arg,
  struct_field_names None = None /\
  match struct_field_names (Some arg) with
  | Some ns => exists fs, underlying (pointee arg) = TStruct fs /\ names_rel fs ns
  | None => forall fs, underlying (pointee arg) <> TStruct fs
  end.
Proof. exact field_names_spec. Qed.
Print Assumptions c15_field_names.

Theorem c15_field_eligible : forall f,
  (forall n, field_name f = Some n <-> eligible f n) /\
  (field_name f = None <->
     f_exported f = false \/ f_tag f = Some dash \/
     (f_embedded f = true /\ (f_tag f = None \/ exists tag, f_tag f = Some tag /\ tag_name tag = []))).
Proof. exact eligible_spec. Qed.
Print Assumptions c15_field_eligible.

Theorem c15_field_names_rel : forall fs ns, field_names fs = ns <-> names_rel fs ns.
Proof. exact field_names_rel. Qed.
Print Assumptions c15_field_names_rel.

(* Calls of one handler value do not interfere.  The handler closure made by Wrap allocates a
   fresh scratch variable (and a fresh decoder stub around it) on EVERY call; the machine
   `mrun shared fi ps sch` (hand/HandlerMore.v) makes that variable explicit: the calls for the
   requests ps each take up to three steps (allocate the scratch cell / decode the params into it
   / read it and call the function) and sch is the order in which the steps of all calls are
   taken - any interleaving.  With per-call cells (shared = false, the code as it is) every call
   is, at every moment, exactly where it would be had it run alone for the same number of steps
   (`local`); whenever it has finished it finished with wrap's answer to ITS OWN params; and it
   has finished after three steps, whatever the other calls did in between. *)
Theorem c15_calls_do_not_interfere :
  forall (decode : ty -> bool -> pvalue -> option value) (zero : ty -> value) fi ps sch,
    let st := mrun decode zero fi false ps sch in
    length (m_pcs st) = length ps /\
    forall i p, nth_error ps i = Some p ->
      nth_error (m_pcs st) i = Some (fst (local decode zero fi p (count_occ Nat.eq_dec sch i))) /\
      nth_error (m_cells st) i = Some (snd (local decode zero fi p (count_occ Nat.eq_dec sch i))) /\
      (forall o, nth_error (m_pcs st) i = Some (PcDone o) -> o = wrap decode zero fi p) /\
      (3 <= count_occ Nat.eq_dec sch i -> nth_error (m_pcs st) i = Some (PcDone (wrap decode zero fi p))).
Proof. exact scratch_no_interference. Qed.
Print Assumptions c15_calls_do_not_interfere.

(* every interleaving that lets all calls finish produces the answers of `serve` (= map wrap) *)
Theorem c15_calls_complete :
  forall (decode : ty -> bool -> pvalue -> option value) (zero : ty -> value) fi ps sch,
    (forall i, i < length ps -> 3 <= count_occ Nat.eq_dec sch i) ->
    map outcome_of (m_pcs (mrun decode zero fi false ps sch)) = map Some (serve decode zero fi ps).
Proof. exact scratch_complete. Qed.
Print Assumptions c15_calls_complete.

(* ... and the statement has content: with ONE scratch variable for all calls (the allocation
   hoisted out of the closure) there is an interleaving in which a function receives the
   arguments decoded for another request *)
Theorem c15_refuted_with_shared_scratch :
  map outcome_of (m_pcs (mrun first_decode demo_zero (fi_of strict_fn) true scratch_reqs scratch_sched)) =
    [Some (OCall [Val (bs [50]) []]); Some (OCall [Val (bs [50]) []])] /\
  map outcome_of (m_pcs (mrun first_decode demo_zero (fi_of strict_fn) true scratch_reqs scratch_sched)) <>
    map Some (serve first_decode demo_zero (fi_of strict_fn) scratch_reqs).
Proof. exact scratch_refuted_with_shared_cell. Qed.
Print Assumptions c15_refuted_with_shared_scratch.

(* The two theorems below are facts about `map`: serve is DEFINED as `map (wrap fi)`, and that the
   n-th element of `map f l` is f of the n-th element of l, and that map preserves permutations,
   holds of every function f.  They only record that the model of a handler is a function of
   (descriptor, options, params) and carry no information about the code; what makes calls
   independent is c15_calls_do_not_interfere above, and that the implementation shares nothing
   between calls is what the sequence and the concurrent families of the correspondence check test. *)
Theorem c15_wrap_stateless :
  forall (decode : ty -> bool -> pvalue -> option value) (zero : ty -> value) fi ps1 p ps2,
    nth_error (serve decode zero fi (ps1 ++ p :: ps2)) (length ps1) = Some (wrap decode zero fi p) /\
    length (serve decode zero fi (ps1 ++ p :: ps2)) = length (ps1 ++ p :: ps2).
Proof. exact serve_stateless. Qed.
Print Assumptions c15_wrap_stateless.

Theorem c15_wrap_order_independent :
  forall (decode : ty -> bool -> pvalue -> option value) (zero : ty -> value) fi ps ps',
    Permutation ps ps' -> Permutation (serve decode zero fi ps) (serve decode zero fi ps').
Proof. exact serve_permutation. Qed.
Print Assumptions c15_wrap_order_independent.
