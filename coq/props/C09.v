(* C09 — Server push: Notify/Callback delivery, matching, timeout, shutdown.
   This file only restates the property theorems; proofs are in srv/SrvC09.v, srv/SrvC09b.v (the gate and late
   replies on whole windows) and srv/SrvC09c.v (every call returns exactly once). *)
From Coq Require Import List NArith ZArith Bool Arith.
From RecordUpdate Require Import RecordUpdate.
From JV Require Import Bytes Msg SrvModel SrvLemmas SrvC09 SrvC10 SrvC09b SrvC09c.
From JV Require SrvNoCrash.
From JV Require Import SrvC08m SrvEventually.
Import ListNotations.

(* 1. the push gate: without AllowPush nothing is transmitted and nothing changes; after the
      connection has ended the push returns ErrConnClosed, sends nothing, changes only [ops] *)
Theorem c09_gate :
  (forall s n w m p, c_push s = false ->
     step_raw s (LCallPush n w m p) = Some (s, [ORet n APushUnsupported])) /\
  (forall s n s' os, running s = false -> step_raw s (LRelPush n) = Some (s', os) ->
     s' = s <| ops ::= del_op n |> /\ os = [ORet n AConnClosed]).
Proof. exact (conj gate_push_off gate_conn_closed). Qed.
Print Assumptions c09_gate.

(* 2. one request per push; a callback's id is the next numeral and the counter advances *)
Theorem c09_one_request_each : forall s n s' os,
  step s (LRelPush n) = Some (s', os) -> running s = true ->
  exists w m p, In (OpPush n w m p) (ops s) /\
    filter is_sendreq os = [OSendReq (negb (send_fail s)) (if w then dec_of_nat (call_id s) else []) m p] /\
    call_id s' = (if w then S (call_id s) else call_id s).
Proof. exact push_one_request_step. Qed.
Print Assumptions c09_one_request_each.

Theorem c09_inv_calls : forall c s, reach c s ->
  (forall k i, In (k, i) (calls s) -> exists j, j < call_id s /\ k = dec_of_nat j) /\
  NoDup (map fst (calls s)) /\
  (forall k i, In (k, i) (calls s) ->
     exists cb, i < length (cbs s) /\ nth_error (cbs s) i = Some cb /\ cb_id cb = k /\ cb_slot cb = None).
Proof. exact inv_calls_reach. Qed.
Print Assumptions c09_inv_calls.

Theorem c09_dec_of_nat_injective : forall a b, dec_of_nat a = dec_of_nat b -> a = b.
Proof. exact dec_of_nat_inj. Qed.
Print Assumptions c09_dec_of_nat_injective.

(* hence the id handed out next is new: not registered, and not the id of any callback record *)
Theorem c09_fresh_id : forall c s, reach c s ->
  (forall k i, In (k, i) (calls s) -> k <> dec_of_nat (call_id s)) /\
  (forall i cb, nth_error (cbs s) i = Some cb -> cb_id cb <> dec_of_nat (call_id s)).
Proof. exact (fun c s R => fresh_id s (inv_push_reach c s R)). Qed.
Print Assumptions c09_fresh_id.

Theorem c09_callback_ids_distinct : forall c s i j ci cj, reach c s ->
  nth_error (cbs s) i = Some ci -> nth_error (cbs s) j = Some cj -> cb_id ci = cb_id cj -> i = j.
Proof. exact (fun c s i j ci cj R => cb_ids_distinct s i j ci cj (inv_push_reach c s R)). Qed.
Print Assumptions c09_callback_ids_distinct.

(* 4. whenever a Callback returns a result / error / context error in some window, it is the
      return of a still registered callback, caused either by a reply member bearing exactly
      that callback's id (value = that member's result or error) or by its own watcher *)
Theorem c09_reply_matches : forall c s l s' os n r,
  reach c s -> step s l = Some (s', os) -> In (ORet n r) os -> is_completion r = true ->
  exists i cb, nth_error (cbs s) i = Some cb /\ In (cb_id cb, i) (calls s) /\ cb_op cb = n /\
    ((exists f ms m, l = LRelRead /\ rd s = RHold f /\ msgs_feed f ms /\ In m ms /\ is_req_or_notif m = false /\
                     fix_id (j_id m) = cb_id cb /\ r = member_res m) \/
     (l = LRelCbWatch i /\ r = ACbCtx (ctx_why cb))).
Proof. exact reply_matches. Qed.
Print Assumptions c09_reply_matches.

(* 5. late / duplicate / unsolicited replies are inert (F9) *)
Theorem c09_late_reply_inert : forall s m,
  c_push s = true /\ is_req_or_notif m = false /\ j_method m = [] /\ has_reply_fields m = true /\
  assoc (fix_id (j_id m)) (calls s) = None ->
  filter_batch [m] s [] [] = (s, [], []).
Proof. exact late_reply_inert. Qed.
Print Assumptions c09_late_reply_inert.

Theorem c09_late_reply_no_task_no_send : forall s b m,
  running s = true -> late_reply s m ->
  read_cs (FMsg (InMsgs b [m])) s = (s <| rd := RIdle |>, []).
Proof. exact late_reply_read_cs. Qed.
Print Assumptions c09_late_reply_no_task_no_send.

Theorem c09_late_reply_inert_in_batch : forall ms1 m ms2 s keep acc,
  late_reply (fst (fst (filter_batch ms1 s keep acc))) m ->
  filter_batch (ms1 ++ m :: ms2) s keep acc = filter_batch (ms1 ++ ms2) s keep acc.
Proof. exact late_reply_skipped_in_batch. Qed.
Print Assumptions c09_late_reply_inert_in_batch.

Theorem c09_late_reply_stable : forall ms1 m ms2 s keep acc,
  late_reply s m ->
  filter_batch (ms1 ++ m :: ms2) s keep acc = filter_batch (ms1 ++ ms2) s keep acc.
Proof. exact late_reply_inert_in_batch. Qed.
Print Assumptions c09_late_reply_stable.

(* 6. the reader is enabled whatever the dispatcher does, and a matching reply completes its
      callback in the very window in which it is read *)
Theorem c09_reply_passes_barrier : forall c s f ms m i cb0,
  reach c s -> running s = true -> rd s = RHold f -> msgs_feed f ms ->
  In m ms -> is_req_or_notif m = false -> assoc (fix_id (j_id m)) (calls s) = Some i -> nth_error (cbs s) i = Some cb0 ->
  exists s' os, step s LRelRead = Some (s', os) /\
    assoc (fix_id (j_id m)) (calls s') = None /\ exists r, In (ORet (cb_op cb0) r) os /\ is_completion r = true.
Proof. exact SrvNoCrash.c09_reply_passes_barrier_nc. Qed.
Print Assumptions c09_reply_passes_barrier.

Theorem c09_reader_never_blocked : forall s f, crash s = None -> rd s = RHold f -> exists s' os, step s LRelRead = Some (s', os).
Proof. exact reader_enabled. Qed.
Print Assumptions c09_reader_never_blocked.

(* 3. exactly-once return.  [count_final n oss] counts, over all windows of the run, the
      observations [ORet n r] with r a result, an error, a context error or a send failure.
      They are at most as many as the environment's push calls numbered n; if the environment
      never reuses an operation number (hypothesis NoDup) at most one. *)
Theorem c09_returns_at_most_calls : forall c tr s oss n,
  run (init_of c) tr = Some (s, oss) -> count_final n oss <= count_push n tr.
Proof. exact returns_at_most_calls. Qed.
Print Assumptions c09_returns_at_most_calls.

Theorem c09_returns_once : forall c tr s oss n,
  run (init_of c) tr = Some (s, oss) -> NoDup (push_nums tr) -> count_final n oss <= 1.
Proof. exact returns_once. Qed.
Print Assumptions c09_returns_once.

(* a completed callback (slot written or already returned) is no longer registered *)
Theorem c09_done_not_registered : forall c s i cb0, reach c s ->
  nth_error (cbs s) i = Some cb0 -> live cb0 = false -> ~ In (cb_id cb0, i) (calls s).
Proof. exact (fun c s i cb0 R => done_not_registered s i cb0 (inv_push_reach c s R)). Qed.
Print Assumptions c09_done_not_registered.

(* quiescent completeness: a callback still outstanding in a quiescent state has a live context
   and a running server; so context end and Stop have both led to its completion *)
Theorem c09_quiescent_complete : forall c s k i,
  reach c s -> quiescent s = true -> In (k, i) (calls s) ->
  exists cb0, nth_error (cbs s) i = Some cb0 /\ cb_id cb0 = k /\
    cb_ctx cb0 = None /\ cb_cancelled cb0 = false /\ running s = true.
Proof. exact SrvNoCrash.c09_quiescent_complete_nc. Qed.
Print Assumptions c09_quiescent_complete.

Theorem c09_stopped_callbacks_cancelled : forall c s k i,
  reach c s -> running s = false -> In (k, i) (calls s) ->
  exists cb0, nth_error (cbs s) i = Some cb0 /\ cb_cancelled cb0 = true /\ cb_watch cb0 = WParked.
Proof. exact stopped_callbacks_cancelled. Qed.
Print Assumptions c09_stopped_callbacks_cancelled.

(* 1 again, over whole runs: without AllowPush no request is ever transmitted
   (proved in srv/SrvC10.v from the classification of channel operations) *)
Theorem c09_gate_no_request_ever : forall c tr s oss,
  cf_push c = false -> run (init_of c) tr = Some (s, oss) ->
  forall ok id m p, ~ In (OSendReq ok id m p) (concat oss).
Proof. exact no_push_no_request. Qed.
Print Assumptions c09_gate_no_request_ever.

(* 1 on whole windows ([step] = critical section + wake-ups), from every reachable state: without AllowPush the call
   returns ErrPushUnsupported in its own window, which changes nothing and transmits nothing; on a stopped server a
   pending push is enabled, returns ErrConnClosed, transmits nothing and only removes the pending operation *)
Theorem c09_gate_step :
  (forall c s n w m p, reach c s -> c_push s = false ->
     step s (LCallPush n w m p) = Some (s, [ORet n APushUnsupported])) /\
  (forall c s n w m p, reach c s -> cf_push c = false ->
     step s (LCallPush n w m p) = Some (s, [ORet n APushUnsupported])) /\
  (forall c s n s' os, reach c s -> running s = false -> step s (LRelPush n) = Some (s', os) ->
     s' = s <| ops ::= del_op n |> /\ os = [ORet n AConnClosed]) /\
  (forall c s n w m p, reach c s -> running s = false -> find_op n (ops s) = Some (OpPush n w m p) ->
     step s (LRelPush n) = Some (s <| ops ::= del_op n |>, [ORet n AConnClosed])).
Proof. exact (conj gate_off_step (conj gate_off_step_cfg (conj gate_closed_step gate_closed_enabled))). Qed.
Print Assumptions c09_gate_step.

(* 5 on whole windows: a record (with or without EOF) all of whose members are late / duplicate / unsolicited replies,
   any number of them: the reader's window emits no observation at all and changes nothing but the reader's own
   program counter and the transport buffer it receives from *)
Theorem c09_late_reply_step : forall c s f ms, reach c s -> running s = true -> rd s = RHold f -> msgs_feed f ms ->
  ms <> [] -> (forall m, In m ms -> late_reply s m) ->
  exists s', step s LRelRead = Some (s', []) /\ s' = s <| rd := rd s' |> <| ch_in := ch_in s' |> /\
    ((ch_in s = [] /\ rd s' = RIdle /\ ch_in s' = []) \/
     (exists f' q, ch_in s = f' :: q /\ rd s' = RHold f' /\ ch_in s' = q)).
Proof. exact late_reply_step. Qed.
Print Assumptions c09_late_reply_step.

Theorem c09_late_reply_step_fields : forall c s f ms, reach c s -> running s = true -> rd s = RHold f ->
  msgs_feed f ms -> ms <> [] -> (forall m, In m ms -> late_reply s m) ->
  exists s', step s LRelRead = Some (s', []) /\ tasks s' = tasks s /\ inq s' = inq s /\ units s' = units s /\
    calls s' = calls s /\ cbs s' = cbs s /\ used s' = used s /\ ops s' = ops s /\ dp s' = dp s /\ wg s' = wg s /\
    running s' = true /\ (rd s' = RIdle \/ exists f', rd s' = RHold f').
Proof. exact late_reply_step_fields. Qed.
Print Assumptions c09_late_reply_step_fields.

(* 3, exactly once, counting EVERY return [ORet n _] (results, errors, context errors, send failures, nil,
   ErrConnClosed, ErrPushUnsupported).  Environment hypothesis: the API calls of the trace carry distinct operation
   numbers ([call_nums] lists the numbers of LCallStop / LCallCancel / LCallPush).
   Conservation at a quiescent point: returns + callbacks still outstanding = calls, for every number ... *)
Theorem c09_returns_conservation : forall c tr s oss n, run (init_of c) tr = Some (s, oss) -> NoDup (call_nums tr) ->
  quiescent s = true -> count_ret n oss + countb (live_n n) (cbs s) = count_calls n tr.
Proof. exact returns_conservation. Qed.
Print Assumptions c09_returns_conservation.

(* ... a callback that has not returned is registered ... *)
Theorem c09_live_registered : forall c s i cb0, reach c s -> nth_error (cbs s) i = Some cb0 -> live cb0 = true ->
  In (cb_id cb0, i) (calls s).
Proof. exact live_registered. Qed.
Print Assumptions c09_live_registered.

(* ... so with no callback outstanding every call of the trace has returned exactly once and nothing else has ... *)
Theorem c09_returns_exactly_once : forall c tr s oss, run (init_of c) tr = Some (s, oss) -> NoDup (call_nums tr) ->
  quiescent s = true -> calls s = [] ->
  (forall n, In n (call_nums tr) -> count_ret n oss = 1) /\ (forall n, ~ In n (call_nums tr) -> count_ret n oss = 0).
Proof. exact returns_exactly_once. Qed.
Print Assumptions c09_returns_exactly_once.

(* ... in particular each Notify / Callback; once the server has stopped no callback can be outstanding *)
Theorem c09_push_returns_exactly_once : forall c tr s oss n w m p, run (init_of c) tr = Some (s, oss) ->
  NoDup (call_nums tr) -> quiescent s = true -> calls s = [] \/ running s = false ->
  In (LCallPush n w m p) tr -> count_ret n oss = 1.
Proof. exact push_returns_exactly_once. Qed.
Print Assumptions c09_push_returns_exactly_once.

(* the law behind it, window by window *)
Theorem c09_returns_step : forall c n s l s' os, reach c s -> NoDup (map op_num (ops s)) -> step s l = Some (s', os) ->
  countb (ret_n n) os + pend n s' = pend n s + call_label_n n l.
Proof. exact (fun c n s l s' os R => step_pend n s l s' os (inv_push_reach c s R)). Qed.
Print Assumptions c09_returns_step.

(* 7. a Callback eventually returns (srv/SrvEventually.v; [eventually] = in the last state of every maximal release-only
      run, spelled out in props/C01.v: c01_eventually_spec).  live c: the Callback of record c has not returned (its slot
      is empty and its request was sent).  has_reply k f: the record f contains a reply member bearing the id k;
      reply_pending s k: such a record has been fed (it is in the transport or held by the reader).
      From ANY reachable state s, with no further action of the environment, in the last state s' of every maximal
      release-only run, for every callback record i of s: the record is still there with its operation number and id;
      if its Callback is still outstanding, then it was outstanding in s, it is registered, the server is running, its
      context is alive, the reader is idle with an empty transport, and none of the triggers held in s;
      if it was outstanding in s and the server was stopped, or its context had ended (cancel or deadline), or a reply
      with its id had been fed, then the Callback HAS RETURNED during the run: it is no longer outstanding nor
      registered, and its return (a result, an error or a context error) is among the observations of the run. *)
Theorem c09_live_spec : forall c, live c = true <-> cb_slot c = None /\ cb_ret c = false.
Proof. exact live_spec. Qed.
Print Assumptions c09_live_spec.

Theorem c09_reply_pending_spec : forall s k, reply_pending s k <->
  (exists f, rd s = RHold f /\ has_reply k f) \/ (exists f, In f (ch_in s) /\ has_reply k f).
Proof. exact (fun s k => conj (fun x => x) (fun x => x)). Qed.
Print Assumptions c09_reply_pending_spec.

Theorem c09_has_reply_spec : forall k f, has_reply k f <->
  exists ms m, msgs_feed f ms /\ In m ms /\ is_req_or_notif m = false /\ fix_id (j_id m) = k.
Proof. exact (fun k f => conj (fun x => x) (fun x => x)). Qed.
Print Assumptions c09_has_reply_spec.

Theorem c09_cb_triggered_spec : forall s c0, cb_triggered s c0 <->
  running s = false \/ cb_cancelled c0 = true \/ cb_ctx c0 <> None \/ reply_pending s (cb_id c0).
Proof. exact (fun s c0 => conj (fun x => x) (fun x => x)). Qed.
Print Assumptions c09_cb_triggered_spec.

Theorem c09_returned_spec : forall s tr s' oss, c09_returned s tr s' oss <->
  forall i c0, nth_error (cbs s) i = Some c0 ->
    exists c', nth_error (cbs s') i = Some c' /\ cb_op c' = cb_op c0 /\ cb_id c' = cb_id c0 /\
      (live c' = true -> live c0 = true /\ In (cb_id c0, i) (calls s') /\ running s' = true /\ cb_ctx c' = None /\
         cb_cancelled c' = false /\ rd s' = RIdle /\ ch_in s' = [] /\ ~ cb_triggered s c0) /\
      (live c0 = true -> cb_triggered s c0 ->
         live c' = false /\ ~ In (cb_id c0, i) (calls s') /\
         exists r, In (ORet (cb_op c0) r) (concat oss) /\ is_completion r = true).
Proof. exact (fun s tr s' oss => conj (fun x => x) (fun x => x)). Qed.
Print Assumptions c09_returned_spec.

Theorem c09_callback_eventually_returns : forall c s, reach c s -> eventually s (c09_returned s).
Proof. exact SrvEventually.c09_callback_eventually_returns. Qed.
Print Assumptions c09_callback_eventually_returns.

(* how a callback record evolves along ANY run (environment labels included): it keeps its place, operation number and
   id, a cancelled context stays cancelled, a returned Callback stays returned, and if it was outstanding it still is or
   its return is among the observations *)
Theorem c09_callback_record_run : forall tr s s' oss i c0, run s tr = Some (s', oss) -> nth_error (cbs s) i = Some c0 ->
  exists c', nth_error (cbs s') i = Some c' /\
    (cb_op c' = cb_op c0 /\ cb_id c' = cb_id c0 /\ (cb_cancelled c0 = true -> cb_cancelled c' = true) /\
     (live c' = true -> live c0 = true)) /\
    (live c0 = true -> live c' = true \/ exists r, In (ORet (cb_op c0) r) (concat oss) /\ is_completion r = true).
Proof. exact run_cb_next. Qed.
Print Assumptions c09_callback_record_run.

(** * Monitor over the observation sequence of a run (srv/SrvMonitors2.v, proof: srv/SrvMonPush.v), extracted and
    evaluated by the model runner on every harness log, racing ones included.  [env_of tr] = the environment labels of
    the trace in order, [concat oss] = the observations of the run in order; [req_ids os] = the non-empty ids of the
    OSendReq observations in order; [final_of n] = "is a final return of operation n" (callback result, callback error,
    context error, send failure); [push_of n] = "is an LCallPush n label";
    [mon_push_ids env os] = req_ids os pairwise distinct, and for every n with a final return in os the final returns
    of n in os are at most the LCallPush n labels in env. *)
From JV Require SrvMonitors SrvMonitors2 SrvMonPush.
Module Monitors.
Import SrvMonitors SrvMonitors2.
Theorem c09_mon_push_ids_sound : forall c tr s oss, run (init_of c) tr = Some (s, oss) ->
  mon_push_ids (env_of tr) (concat oss) = true.
Proof. exact SrvMonPush.mon_push_ids_sound. Qed.
Print Assumptions c09_mon_push_ids_sound.

(* the ids of the pushed requests of a whole run (restarts included: nothing resets the counter) are the decimal
   numerals of 1, 2, 3, ... in order *)
Theorem c09_push_ids_consecutive : forall c tr s oss, run (init_of c) tr = Some (s, oss) ->
  req_ids (concat oss) = map dec_of_nat (seq 1 (call_id s - 1)).
Proof. exact SrvMonPush.push_ids_consecutive. Qed.
Print Assumptions c09_push_ids_consecutive.

Theorem c09_push_ids_distinct : forall c tr s oss, run (init_of c) tr = Some (s, oss) ->
  nodupb (req_ids (concat oss)) = true.
Proof. exact SrvMonPush.push_ids_distinct. Qed.
Print Assumptions c09_push_ids_distinct.

(* a Callback result (or any other final return of a push) for operation n needs an LCallPush n of the environment:
   counting form of C09.3 over the two sequences *)
Theorem c09_push_returns_le_calls : forall c tr s oss n, run (init_of c) tr = Some (s, oss) ->
  countb (final_of n) (concat oss) <= countb (push_of n) (env_of tr).
Proof. exact SrvMonPush.push_returns_le_calls. Qed.
Print Assumptions c09_push_returns_le_calls.
End Monitors.
