(* CliShape: the shape of every request record the client model passes to Send.
   Every OSendReq observation of every reachable history has at least one member, carries the batch
   flag "not exactly one member", and the id of each member is absent (a notification) or the decimal
   text of a slot id.  (Used by wire/WireLink.v to tie the client model to the encoder: C10 "whole
   messages", C13 "every message the library emits".) *)
From Coq Require Import List NArith ZArith Bool Arith Lia.
From RecordUpdate Require Import RecordUpdate.
From JV Require Import Bytes Msg CliModel CliLemmas CliInv CliOps.
Import ListNotations.

Definition is_sr (o : obs) : Prop := match o with OSendReq _ _ _ => True | _ => False end.
Definition nosr (os : list obs) : Prop := Forall (fun o => ~ is_sr o) os.

(* the history is extended by observations none of which is a request record *)
Definition hx (s s' : state) : Prop := exists os, hist s' = hist s ++ os /\ nosr os.
(* ... and the operations are untouched *)
Definition okx (s s' : state) : Prop := ops s' = ops s /\ hx s s'.

Lemma hx_refl s s' : hist s' = hist s -> hx s s'.
Proof. intros H. exists []. rewrite app_nil_r. split; [exact H | constructor]. Qed.

Lemma hx_trans a b c : hx a b -> hx b c -> hx a c.
Proof.
  intros (o1 & H1 & N1) (o2 & H2 & N2). exists (o1 ++ o2). rewrite H2, H1, app_assoc. split; [reflexivity|].
  apply Forall_app. split; assumption.
Qed.

Lemma hx_emit s os : nosr os -> hx s (emit os s).
Proof. intros H. exists os. split; [reflexivity | exact H]. Qed.

Lemma okx_refl s s' : ops s' = ops s -> hist s' = hist s -> okx s s'.
Proof. intros A B. split; [exact A | apply hx_refl; exact B]. Qed.

Lemma okx_trans a b c : okx a b -> okx b c -> okx a c.
Proof. intros [A1 H1] [A2 H2]. split; [congruence | eapply hx_trans; eauto]. Qed.

Lemma nosr1 o : ~ is_sr o -> nosr [o].
Proof. intros H. constructor; [exact H | constructor]. Qed.

Lemma okx_emit s os : nosr os -> okx s (emit os s).
Proof. intros H. split; [reflexivity | apply hx_emit; exact H]. Qed.

(* helpers of the model *)
Lemma write_slot_okx i v s : okx s (write_slot i v s).
Proof.
  unfold write_slot. destruct (slot_at s i) as [sl|]; [destruct (sl_buf sl)|].
  - split; [reflexivity|]. exists [OCrash (if sl_settled sl then CrSendClosed else CrSlotFull)]. split; [reflexivity | apply nosr1; intros []].
  - apply okx_refl; reflexivity.
  - split; [reflexivity|]. exists [OCrash CrNoSlot]. split; [reflexivity | apply nosr1; intros []].
Qed.

Lemma settle_slot_okx i s : okx s (settle_slot i s).
Proof.
  unfold settle_slot. destruct (slot_at s i) as [sl|]; [|apply okx_refl; reflexivity].
  destruct (sl_buf sl) as [v|]; [|apply okx_refl; reflexivity].
  destruct (sl_settled sl); [apply okx_refl; reflexivity|].
  destruct (beq (fix_id (v_id v)) (id_text (sl_id sl))); [apply okx_refl; reflexivity|].
  split; [reflexivity|]. exists [OCrash CrIdMismatch]. split; [reflexivity | apply nosr1; intros []].
Qed.

Lemma stop_locked_okx c s s1 b : stop_locked c s = (s1, b) -> okx s s1.
Proof.
  unfold stop_locked. destruct (err s).
  - intros [= <- <-]. apply okx_refl; reflexivity.
  - rewrite fold_cancel_eq. intros H. injection H as <- <-.
    destruct (c_unblock _); (split; [reflexivity|]); exists [OClose]; (split; [reflexivity | apply nosr1; intros []]).
Qed.

Lemma deliver_member_okx j k m s : okx s (deliver_member j k m s).
Proof.
  unfold deliver_member. destruct (is_req_or_notif m).
  - destruct (is_notification m).
    + destruct (c_onnotify s); [apply okx_emit; apply nosr1; intros [] | apply okx_refl; reflexivity].
    + destruct (negb (c_oncallback s)); [apply okx_refl; reflexivity|].
      destruct (is_some (err s)); [apply okx_refl; reflexivity|].
      split; [reflexivity|]. eexists. split; [reflexivity | apply nosr1; intros []].
  - destruct (assoc (fix_id (j_id m)) (pending s)) as [i|]; [|apply okx_refl; reflexivity].
    eapply okx_trans; [|apply write_slot_okx]. apply okx_refl; reflexivity.
Qed.

Lemma deliver_all_okx j ms : forall k s, okx s (deliver_all j k ms s).
Proof.
  induction ms as [|m r IH]; intros k s; cbn [deliver_all]; [apply okx_refl; reflexivity|].
  destruct (crash s); [apply okx_refl; reflexivity|].
  eapply okx_trans; [apply deliver_member_okx | apply IH].
Qed.

Lemma register_okx ctx i s : okx s (register ctx i s).
Proof.
  unfold register. destruct (slot_at s i) as [sl|]; [|apply okx_refl; reflexivity].
  destruct (is_some (assoc (id_text (sl_id sl)) (pending s))); apply okx_refl; reflexivity.
Qed.

Lemma register_fold_okx ctx L : forall s, okx s (fold_left (fun st i => register ctx i st) L s).
Proof.
  induction L as [|i r IH]; intros s; cbn [fold_left]; [apply okx_refl; reflexivity|].
  eapply okx_trans; [apply register_okx | apply IH].
Qed.

(* ---- operations about to send have something to send ---- *)
Definition viol (o : oprec) : Prop := presend o = true /\ o_specs o = [].
Definition noviol (s : state) : Prop := forall n o, op_at s n = Some o -> ~ viol o.

Lemma noviol_ops s s' : ops s' = ops s -> noviol s -> noviol s'.
Proof. intros E H n o Ho. apply (H n). unfold op_at in *. rewrite <- E. exact Ho. Qed.

Lemma noviol_set s s' n g : ops s' = ops (set_op n g s) -> noviol s ->
  (forall o, op_at s n = Some o -> ~ viol (g o)) -> noviol s'.
Proof.
  intros E H Hg m o' Ho'. destruct (ops_upd_set_op s s' n g E m o' Ho') as [(-> & o & Ho & ->)|(N & Ho)].
  - exact (Hg o Ho).
  - exact (H m o' Ho).
Qed.

Lemma noviol_same s s' n g : ops s' = ops (set_op n g s) -> noviol s ->
  (forall o, op_at s n = Some o -> o_specs (g o) = o_specs o /\ (presend (g o) = true -> presend o = true)) -> noviol s'.
Proof.
  intros E H Hg. apply (noviol_set s s' n g E H). intros o Ho [V1 V2]. destruct (Hg o Ho) as [A B].
  apply (H n o Ho). split; [exact (B V1) | rewrite <- A; exact V2].
Qed.

Lemma noviol_new s s' n g o0 : noviol s -> n = length (ops s) -> ops s' = upd_nth n g (ops s ++ [o0]) -> ~ viol (g o0) -> noviol s'.
Proof.
  intros H En E Hg m o' Ho'. unfold op_at in Ho'. rewrite E, nth_error_upd_nth in Ho'.
  destruct (Nat.eqb_spec n m) as [<-|N].
  - rewrite En, nth_error_app_new in Ho'. cbn in Ho'. injection Ho' as <-. exact Hg.
  - destruct (nth_error_snoc _ _ _ _ Ho') as [[_ H1]|[L _]]; [exact (H m o' H1) | congruence].
Qed.

(* ---- the shape of request records ---- *)
Definition idok (mem : bytes * bytes * bytes) : Prop := fst (fst mem) = [] \/ exists k, fst (fst mem) = id_text k.
Definition shape_ok (o : obs) : Prop :=
  match o with
  | OSendReq _ batch ms => ms <> [] /\ batch = negb (length ms =? 1) /\ Forall idok ms
  | _ => True
  end.
Definition invW (s : state) : Prop := noviol s /\ Forall shape_ok (hist s).

Lemma req_members_length specs : forall sls s, length (req_members specs sls s) = length specs.
Proof.
  induction specs as [|sp r IH]; intros sls s; cbn [req_members]; [reflexivity|].
  destruct (sp_notify sp); [cbn [length]; rewrite IH; reflexivity|].
  destruct sls as [|i sls']; cbn [length]; rewrite IH; reflexivity.
Qed.

Lemma req_members_idok specs : forall sls s, Forall idok (req_members specs sls s).
Proof.
  induction specs as [|sp r IH]; intros sls s; cbn [req_members]; [constructor|].
  destruct (sp_notify sp); [constructor; [left; reflexivity | apply IH]|].
  destruct sls as [|i sls']; (constructor; [|apply IH]).
  - left; reflexivity.
  - unfold idok. cbn [fst]. destruct (slot_at s i) as [sl|]; [right; eexists; reflexivity | left; reflexivity].
Qed.

Lemma shape_nosr h os : Forall shape_ok h -> nosr os -> Forall shape_ok (h ++ os).
Proof.
  intros H N. apply Forall_app. split; [exact H|]. eapply Forall_impl; [|exact N].
  intros o Ho. destruct o; try exact I. exfalso. apply Ho. exact I.
Qed.

Lemma shape_hx s s' : hx s s' -> Forall shape_ok (hist s) -> Forall shape_ok (hist s').
Proof. intros (os & -> & N) H. apply shape_nosr; assumption. Qed.

Lemma invW_okx s s' : okx s s' -> invW s -> invW s'.
Proof. intros [A B] [NV HS]. split; [exact (noviol_ops s s' A NV) | exact (shape_hx s s' B HS)]. Qed.

Lemma invW_same s s' n g : ops s' = ops (set_op n g s) -> hx s s' ->
  (forall o, op_at s n = Some o -> o_specs (g o) = o_specs o /\ (presend (g o) = true -> presend o = true)) ->
  invW s -> invW s'.
Proof. intros E Hh Hg [NV HS]. split; [exact (noviol_same s s' n g E NV Hg) | exact (shape_hx s s' Hh HS)]. Qed.

Lemma finish_hx n r s : hx s (finish n r s).
Proof. exists [ORet n r]. split; [reflexivity | apply nosr1; intros []]. Qed.

Lemma invW_finish n r s : invW s -> invW (finish n r s).
Proof.
  apply (invW_same s _ n (fun o => o <| o_pc := PDone |> <| o_ret := Some r |>)); [reflexivity | apply finish_hx|].
  intros o _. split; [reflexivity | intros H; discriminate H].
Qed.

Lemma invW_set_pc n pc s : invW s -> (forall o, op_at s n = Some o -> presend (o <| o_pc := pc |>) = true -> presend o = true) ->
  invW (set_op n (fun o => o <| o_pc := pc |>) s).
Proof.
  intros H Hp. apply (invW_same s _ n (fun o => o <| o_pc := pc |>)); [reflexivity | apply hx_refl; reflexivity | | exact H].
  intros o Ho. split; [reflexivity | exact (Hp o Ho)].
Qed.

Lemma invW_step_raw s l s' : invW s -> step_raw s l = Some s' -> invW s'.
Proof.
  intros W E. destruct l; cbn in E.
  - (* LOp *)
    destruct (negb (n =? length (ops s)) || negb (specs_ok k specs)) eqn:G0; [discriminate|].
    apply orb_false_iff in G0. destruct G0 as [G1 _]. apply negb_false_iff, Nat.eqb_eq in G1.
    set (o0 := mkOp k specs [] PDone None None) in *.
    destruct W as [NV HS].
    assert (Fr : forall s0 g, ops s0 = upd_nth n g (ops s ++ [o0]) -> hx s s0 -> ~ viol (g o0) -> invW s0).
    { intros s0 g E0 Hh Hg. split; [exact (noviol_new s s0 n g o0 NV G1 E0 Hg) | exact (shape_hx s s0 Hh HS)]. }
    assert (Hfin : forall r, invW (finish n r (s <| ops ::= fun l => l ++ [o0] |>))).
    { intros r. apply (Fr _ (fun o => o <| o_pc := PDone |> <| o_ret := Some r |>)); [reflexivity| |intros [V _]; discriminate V].
      exists [ORet n r]. split; [reflexivity | apply nosr1; intros []]. }
    destruct k.
    1-3: destruct (is_nil specs) eqn:En; [injection E as <-; apply Hfin|];
         destruct (scan specs 0) as [pc|] eqn:Sc; injection E as <-; [|apply Hfin];
         (apply (Fr _ (fun o => o <| o_pc := pc |>)); [reflexivity | apply hx_refl; reflexivity|]);
         intros [_ V]; cbn in V; subst specs; discriminate En.
    injection E as <-. apply (Fr _ (fun o => o <| o_pc := PClose |>)); [reflexivity | apply hx_refl; reflexivity|].
    intros [V _]. discriminate V.
  - (* LFeed *) injection E as <-. apply (invW_okx s); [apply okx_refl; reflexivity | exact W].
  - (* LSendFault *) injection E as <-. apply (invW_okx s); [apply okx_refl; reflexivity | exact W].
  - (* LCtxEnd *)
    destruct (op_at s n) as [o|] eqn:Eo; [|discriminate]. destruct (o_ctx o); injection E as <-; [exact W|].
    apply (invW_same s _ n (fun o => o <| o_ctx := Some w |>)); [reflexivity | apply hx_refl; reflexivity | | exact W].
    intros o1 _. split; [reflexivity | intros H; exact H].
  - (* LCbGate *)
    destruct (find_idx _ 0 (cbs s)); [|discriminate]. injection E as <-. apply (invW_okx s); [apply okx_refl; reflexivity | exact W].
  - (* LRelReq *)
    destruct (op_at s n) as [o|] eqn:Eo; [|discriminate]. destruct (o_pc o) eqn:Epc; try discriminate.
    set (sl0 := mkSlot n (next_id s) false None false None WNone) in *.
    set (s1 := s <| slots ::= fun l => l ++ [sl0] |> <| next_id ::= S |>) in *.
    set (g1 := fun o0 : oprec => o0 <| o_slots ::= fun l => l ++ [length (slots s)] |>) in *.
    assert (W2 : invW (set_op n g1 s1)).
    { apply (invW_same s _ n g1); [reflexivity | apply hx_refl; reflexivity | | exact W].
      intros o1 _. split; [reflexivity | intros H; exact H]. }
    assert (Ho2 : op_at (set_op n g1 s1) n = Some (g1 o)).
    { rewrite op_at_set_op, Nat.eqb_refl. replace (op_at s1 n) with (op_at s n) by reflexivity. rewrite Eo. reflexivity. }
    match type of E with (match ?x with Some _ => _ | None => _ end) = _ => destruct x as [pc|] end; injection E as <-.
    + apply invW_set_pc; [exact W2|]. intros o2 H2 _. rewrite Ho2 in H2. injection H2 as <-.
      unfold presend, g1. cbn. rewrite Epc. reflexivity.
    + apply invW_finish. exact W2.
  - (* LRelSend *)
    destruct (op_at s n) as [o|] eqn:Eo; [|discriminate]. destruct (o_pc o) eqn:Epc; try discriminate.
    destruct (err s); [injection E as <-; apply invW_finish; exact W|].
    set (ms := req_members (o_specs o) (o_slots o) s) in *.
    set (s1 := emit [OSendReq (negb (send_fail s)) (negb (length (o_specs o) =? 1)) ms] s) in *.
    assert (W1 : invW s1).
    { destruct W as [NV HS]. split; [exact (noviol_ops s s1 eq_refl NV)|].
      unfold s1, emit. cbn. apply Forall_app. split; [exact HS|]. constructor; [|constructor].
      cbn [shape_ok]. assert (Hl : length ms = length (o_specs o)) by apply req_members_length.
      split; [|split; [rewrite Hl; reflexivity | apply req_members_idok]].
      intros Hms. rewrite Hms in Hl. cbn in Hl. apply (NV n o Eo). split; [unfold presend; rewrite Epc; reflexivity|].
      destruct (o_specs o); [reflexivity | discriminate Hl]. }
    destruct (negb (send_fail s)); injection E as <-; [|apply invW_finish; exact W1].
    apply invW_set_pc; [|intros o1 _ H; discriminate H].
    apply (invW_okx s1); [apply register_fold_okx | exact W1].
  - (* LRelDeliver *)
    destruct (nth_error (delivs s) j) as [d|]; [|discriminate]. destruct (d_st d); [|discriminate].
    assert (W1 : invW (deliver_all j 0 (d_msgs d) s)) by (apply (invW_okx s); [apply deliver_all_okx | exact W]).
    destruct (crash (deliver_all j 0 (d_msgs d) s)); injection E as <-; [exact W1|].
    apply (invW_okx (deliver_all j 0 (d_msgs d) s)); [apply okx_refl; reflexivity | exact W1].
  - (* LRelWatch *)
    destruct (slot_at s i) as [sl|]; [|discriminate]. destruct (sl_watch sl); try discriminate.
    set (s1 := set_slot i (fun sl0 => sl0 <| sl_watch := WDone |>) s) in *.
    assert (W1 : invW s1) by (apply (invW_okx s); [apply okx_refl; reflexivity | exact W]).
    destruct (assoc (id_text (sl_id sl)) (pending s)); [|injection E as <-; exact W1].
    match type of E with context [write_slot i ?v ?st] => set (s2 := write_slot i v st) in *;
      assert (W2 : invW s2) by (apply (invW_okx s1); [eapply okx_trans; [|apply write_slot_okx]; apply okx_refl; reflexivity | exact W1]) end.
    destruct (crash s2); [injection E as <-; exact W2|].
    destruct (c_oncancel s2); [|injection E as <-; exact W2].
    assert (W3 : invW (settle_slot i s2)) by (apply (invW_okx s2); [apply settle_slot_okx | exact W2]).
    destruct (crash (settle_slot i s2)); injection E as <-; [exact W3|].
    apply (invW_okx (settle_slot i s2)); [apply okx_emit; apply nosr1; intros [] | exact W3].
  - (* LRelRecvErr *)
    destruct (rd s); try discriminate. destruct (stop_locked c s) as [s1 first] eqn:Est.
    assert (W1 : invW s1) by (apply (invW_okx s); [exact (stop_locked_okx _ _ _ _ Est) | exact W]).
    injection E as <-. destruct first.
    + apply (invW_okx s1); [|exact W1]. eapply okx_trans; [apply (okx_emit s1 [OOnStop c]); apply nosr1; intros []|].
      apply okx_refl; reflexivity.
    + apply (invW_okx s1); [apply okx_refl; reflexivity | exact W1].
  - (* LRelClose *)
    destruct (op_at s n) as [o|] eqn:Eo; [|discriminate]. destruct (o_pc o) eqn:Epc; try discriminate.
    destruct (stop_locked SCClosed s) as [s1 first] eqn:Est.
    assert (W1 : invW s1) by (apply (invW_okx s); [exact (stop_locked_okx _ _ _ _ Est) | exact W]).
    injection E as <-. apply invW_set_pc; [exact W1 | intros o1 _ H; discriminate H].
  - (* LRelCbReply *)
    destruct (nth_error (cbs s) c) as [cb|]; [|discriminate]. destruct (cb_st cb); try discriminate.
    injection E as <-. destruct (err s).
    + apply (invW_okx s); [apply okx_refl; reflexivity | exact W].
    + apply (invW_okx s); [|exact W]. eapply okx_trans; [apply (okx_emit s [OSendRsp (negb (send_fail s)) (cb_id cb) o]); apply nosr1; intros []|].
      apply okx_refl; reflexivity.
Qed.

Lemma invW_settle1 s s' : invW s -> settle1 s = Some s' -> invW s'.
Proof.
  intros W E. unfold settle1 in E. destruct (crash s); [discriminate|].
  assert (Hops : match find_idx (op_ready s) 0 (ops s) with
                 | Some n => match op_at s n with Some o => Some (op_advance n o s) | None => None end
                 | None => None end = Some s' -> invW s').
  { clear E. intros E. destruct (find_idx (op_ready s) 0 (ops s)) as [n|]; [|discriminate].
    destruct (op_at s n) as [o|] eqn:Eo; [|discriminate]. injection E as <-.
    unfold op_advance. destruct (o_pc o) eqn:Epc; try exact W.
    - destruct (nth_error (o_slots o) k) as [i|]; [|apply invW_finish; exact W].
      apply invW_set_pc; [apply (invW_okx s); [apply settle_slot_okx | exact W] | intros o1 _ H; discriminate H].
    - apply invW_finish. destruct stopper; [|exact W]. destruct (err s) as [c|]; [|exact W].
      apply (invW_okx s); [apply okx_emit; apply nosr1; intros [] | exact W]. }
  destruct (rd s); auto. destruct (ch_in s) as [|f q]; auto.
  destruct f as [[|b ms]|c]; injection E as <-; (apply (invW_okx s); [apply okx_refl; reflexivity | exact W]).
Qed.

Lemma invW_init c : invW (init_of c).
Proof. split; [intros [|n] o H; discriminate H | constructor]. Qed.

Theorem invW_reach c s : reach c s -> invW s.
Proof.
  apply (reach_inv invW c).
  - apply invW_init.
  - intros s0 l s' W _ E. exact (invW_step_raw s0 l s' W E).
  - intros s0 s' W E. exact (invW_settle1 s0 s' W E).
Qed.

(* the observations of a window are part of the history of its end state *)
Lemma in_skipn {A} (x : A) : forall n l, In x (skipn n l) -> In x l.
Proof.
  induction n as [|n IH]; intros l H; [exact H|]. destruct l as [|y l]; [exact H|]. right. exact (IH l H).
Qed.

Lemma step_obs_in_hist s l s' os : step s l = Some (s', os) -> forall o, In o os -> In o (hist s').
Proof.
  unfold step. destruct (crash s); [discriminate|]. destruct (step_raw s l) as [s1|]; [|discriminate].
  intros H o Ho. injection H as E1 E2. rewrite <- E2 in Ho. rewrite <- E1. exact (in_skipn o _ _ Ho).
Qed.

(* every request record the client passes to Send, in every reachable window *)
Theorem sendreq_shape : forall c s l s' os ok batch ms,
  reach c s -> step s l = Some (s', os) -> In (OSendReq ok batch ms) os ->
  ms <> [] /\ batch = negb (length ms =? 1) /\
  Forall (fun mem => fst (fst mem) = [] \/ exists k, fst (fst mem) = id_text k) ms.
Proof.
  intros c s l s' os ok batch ms R H I.
  destruct (invW_reach c s' (reach_step c s l s' os R H)) as [_ HS].
  rewrite Forall_forall in HS. exact (HS _ (step_obs_in_hist s l s' os H _ I)).
Qed.
