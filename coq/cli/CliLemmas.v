(* Basic facts about the helpers of CliModel, shared by the property proofs. *)
From Coq Require Import List NArith ZArith Bool Arith Lia Decimal DecimalNat.
From JV Require Import Bytes Msg CliModel.
Import ListNotations.

(** * lists *)
Lemma upd_nth_length {A} n (f : A -> A) l : length (upd_nth n f l) = length l.
Proof. revert n; induction l as [|x r IH]; intros [|n]; cbn; auto. Qed.

Lemma nth_error_upd_nth_eq {A} n (f : A -> A) l x :
  nth_error l n = Some x -> nth_error (upd_nth n f l) n = Some (f x).
Proof. revert n; induction l as [|y r IH]; intros [|n]; cbn; try discriminate; auto. intros [= ->]; auto. Qed.

Lemma nth_error_upd_nth_neq {A} n m (f : A -> A) l :
  n <> m -> nth_error (upd_nth n f l) m = nth_error l m.
Proof. revert n m; induction l as [|y r IH]; intros [|n] [|m] H; cbn; auto; try congruence. Qed.

Lemma nth_error_upd_nth {A} n m (f : A -> A) l :
  nth_error (upd_nth n f l) m = if n =? m then option_map f (nth_error l m) else nth_error l m.
Proof.
  destruct (Nat.eqb_spec n m) as [->|N].
  - destruct (nth_error l m) eqn:E; cbn.
    + apply nth_error_upd_nth_eq; auto.
    + apply nth_error_None. rewrite upd_nth_length. apply nth_error_None; auto.
  - apply nth_error_upd_nth_neq; auto.
Qed.

Lemma nth_error_app_new {A} (l : list A) x : nth_error (l ++ [x]) (length l) = Some x.
Proof. rewrite nth_error_app2, Nat.sub_diag; auto. Qed.

Lemma nth_error_app_old {A} (l r : list A) n x : nth_error l n = Some x -> nth_error (l ++ r) n = Some x.
Proof. intros H. rewrite nth_error_app1; auto. apply nth_error_Some; congruence. Qed.

Lemma nth_error_snoc {A} (l : list A) x n y :
  nth_error (l ++ [x]) n = Some y -> (n < length l /\ nth_error l n = Some y) \/ (n = length l /\ y = x).
Proof.
  intros H. destruct (Nat.lt_ge_cases n (length l)) as [L|L].
  - left. rewrite nth_error_app1 in H; auto.
  - right. rewrite nth_error_app2 in H; auto.
    destruct (n - length l) as [|k] eqn:E; cbn in H.
    + injection H as <-. split; auto; lia.
    + destruct k; discriminate.
Qed.

Lemma nth_error_map_some {A B} (f : A -> B) l n y :
  nth_error (map f l) n = Some y -> exists x, nth_error l n = Some x /\ y = f x.
Proof. rewrite nth_error_map. destruct (nth_error l n); cbn; [intros [= <-]; eauto|discriminate]. Qed.

Lemma find_idx_some {A} (p : A -> bool) i l k :
  find_idx p i l = Some k -> exists x, nth_error l (k - i) = Some x /\ p x = true /\ i <= k.
Proof.
  revert i; induction l as [|x r IH]; cbn; intros i; [discriminate|].
  destruct (p x) eqn:P.
  - intros [= <-]. rewrite Nat.sub_diag. exists x; cbn; auto.
  - intros H. destruct (IH _ H) as (y & Hn & Hp & Hle).
    exists y. replace (k - i) with (S (k - S i)) by lia. cbn. repeat split; auto. lia.
Qed.

Lemma find_idx_0 {A} (p : A -> bool) l k :
  find_idx p 0 l = Some k -> exists x, nth_error l k = Some x /\ p x = true.
Proof. intros H. destruct (find_idx_some _ _ _ _ H) as (x & Hn & Hp & _). rewrite Nat.sub_0_r in Hn. eauto. Qed.

(** * association lists keyed by byte strings *)
Lemma assoc_in {A} k (m : list (bytes * A)) v : assoc k m = Some v -> In (k, v) m.
Proof.
  induction m as [|[k' v'] m IH]; cbn; [discriminate|].
  destruct (beq_spec k k') as [->|N]; [intros [= ->]; auto|auto].
Qed.

Lemma assoc_none {A} k (m : list (bytes * A)) : assoc k m = None <-> ~ In k (map fst m).
Proof.
  induction m as [|[k' v'] m IH]; cbn; [tauto|].
  destruct (beq_spec k k') as [->|N]; [split; [discriminate|intros H; exfalso; auto]|].
  rewrite IH. split; intros H; [intros [E|E]; [congruence|auto]|auto].
Qed.

Lemma in_assoc_del {A} k (m : list (bytes * A)) p : In p (assoc_del k m) -> In p m /\ fst p <> k.
Proof.
  induction m as [|[k2 v2] m IH]; cbn; [tauto|].
  destruct (beq_spec k k2) as [->|N].
  - intros H. destruct (IH H); auto.
  - intros [<-|H]; [cbn; split; auto|]. destruct (IH H); auto.
Qed.

Lemma assoc_del_none {A} k (m : list (bytes * A)) : assoc k m = None -> assoc_del k m = m.
Proof.
  induction m as [|[k2 v2] m IH]; cbn; auto.
  destruct (beq_spec k k2) as [->|N]; [discriminate|]. intros H; f_equal; auto.
Qed.

Lemma assoc_del_same {A} k (m : list (bytes * A)) : assoc k (assoc_del k m) = None.
Proof.
  induction m as [|[k' v'] m IH]; cbn; auto.
  destruct (beq_spec k k') as [->|N]; auto. cbn. destruct (beq_spec k k'); [congruence|auto].
Qed.

Lemma nodup_assoc_del {A} k (m : list (bytes * A)) : NoDup (map fst m) -> NoDup (map fst (assoc_del k m)).
Proof.
  induction m as [|[k2 v2] m IH]; cbn; auto. intros H. inversion H as [|? ? Hn Hd]; subst.
  destruct (beq_spec k k2) as [->|N]; auto. cbn. constructor; auto.
  intros Hin. apply Hn. apply in_map_iff in Hin. destruct Hin as (p & E & Hp).
  apply in_assoc_del in Hp. apply in_map_iff. exists p; tauto.
Qed.

Lemma nodup_assoc_unique {A} (m : list (bytes * A)) k v v' :
  NoDup (map fst m) -> In (k, v) m -> In (k, v') m -> v = v'.
Proof.
  induction m as [|[k2 v2] m IH]; cbn; [tauto|]. intros H. inversion H as [|? ? Hn Hd]; subst.
  intros [E|E] [E'|E'].
  - congruence.
  - injection E as -> ->. exfalso. apply Hn. apply in_map_iff. exists (k, v'); auto.
  - injection E' as -> ->. exfalso. apply Hn. apply in_map_iff. exists (k, v); auto.
  - auto.
Qed.

(** * request ids *)
Lemma uint_bytes_inj u u' : uint_bytes u = uint_bytes u' -> u = u'.
Proof.
  revert u'; induction u; intros u'; destruct u'; cbn; intros H; try discriminate; auto;
    injection H as H; f_equal; auto.
Qed.

Lemma id_text_inj n n' : id_text n = id_text n' -> n = n'.
Proof. unfold id_text. intros H. apply uint_bytes_inj in H. apply Unsigned.to_uint_inj; auto. Qed.

Lemma uint_bytes_not_null u : is_null (uint_bytes u) = false.
Proof. destruct u; reflexivity. Qed.

Lemma fix_id_text n : fix_id (id_text n) = id_text n.
Proof. unfold fix_id, id_text. rewrite uint_bytes_not_null; auto. Qed.

(** * reachability: every state of every schedule of every history *)
Record config := { cf_unblock : bool; cf_oncancel : bool; cf_onnotify : bool; cf_oncallback : bool }.
Definition init_of (c : config) : state := init (cf_unblock c) (cf_oncancel c) (cf_onnotify c) (cf_oncallback c).

Inductive reach (c : config) : state -> Prop :=
| reach_init : reach c (init_of c)
| reach_step s l s' os : reach c s -> step s l = Some (s', os) -> reach c s'.

Lemma run_reach c tr : forall s s' oss, reach c s -> run s tr = Some (s', oss) -> reach c s'.
Proof.
  induction tr as [|l r IH]; cbn; intros s s' oss R H.
  - injection H as <- <-; auto.
  - destruct (step s l) as [[s1 os]|] eqn:E; [|discriminate].
    destruct (run s1 r) as [[s2 oss2]|] eqn:E2; [|discriminate].
    injection H as <- <-. eapply IH; [|exact E2]. eapply reach_step; eauto.
Qed.

(* an invariant preserved by every environment action / critical section and by every
   unhooked micro step holds in every reachable state *)
Lemma settle_inv (P : state -> Prop) :
  (forall s s', P s -> settle1 s = Some s' -> P s') ->
  forall fuel s, P s -> P (settle fuel s).
Proof.
  intros H fuel; induction fuel as [|f IH]; cbn; intros s Hs; auto.
  destruct (settle1 s) as [s'|] eqn:E; auto. apply IH. eapply H; eauto.
Qed.

Lemma reach_inv (P : state -> Prop) c :
  P (init_of c) ->
  (forall s l s', P s -> crash s = None -> step_raw s l = Some s' -> P s') ->
  (forall s s', P s -> settle1 s = Some s' -> P s') ->
  forall s, reach c s -> P s.
Proof.
  intros H0 Hraw Hset s R. induction R as [|s l s' os R IH E]; auto.
  unfold step in E. destruct (crash s) eqn:C; [discriminate|].
  destruct (step_raw s l) as [s1|] eqn:E1; [|discriminate].
  assert (Es : settle (settle_fuel s1) s1 = s') by congruence. rewrite <- Es.
  apply (settle_inv P); auto. eapply Hraw; eauto.
Qed.
