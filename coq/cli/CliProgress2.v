(* CliProgress2: liveness groundwork (c).  A potential that strictly decreases along every
   release label (and does not increase along the unhooked micro steps): every goroutine
   parked at a scheduling point makes progress towards blocking or exiting.  Hence from every
   reachable state a quiescent state is reachable by releases only - the scheduler of the
   correspondence harness can always drain the client. *)
From Coq Require Import List NArith ZArith Bool Arith Lia Wf_nat.
From RecordUpdate Require Import RecordUpdate.
From JV Require Import Bytes Msg CliModel CliLemmas CliInv CliRet CliProofs CliC05 CliCtx CliOps CliHist CliLive CliWg CliSend CliNoStop CliStep CliGo CliOpTrans CliProgress.
Import ListNotations.

Arguments wsum : simpl never.

(* work left at the scheduling points *)
Definition w_op (o : oprec) : nat :=
  match o_pc o with PReq k => 2 * (length (o_specs o) - k) + 1 | PSend => 1 | PClose => 1 | _ => 0 end.
Definition w_sl (sl : slot) : nat := match sl_watch sl with WDone => 0 | _ => 1 end.
Definition w_d (d : deliv) : nat := match d_st d with DParked => 1 + length (d_msgs d) | DDone => 0 end.
Definition w_cb (c : cbrec) : nat := match cb_st c with CbDone => 0 | _ => 1 end.
Definition w_rd (r : rdpc) : nat := match r with RHold _ => 1 | _ => 0 end.
Definition w_f (f : feed) : nat := match f with FMsg (InMsgs _ ms) => 1 + length ms | _ => 1 end.
Definition w_err (e : option stopcause) : nat := match e with None => 2 | Some _ => 0 end.

Definition rest (s : state) : nat :=
  wsum w_sl (slots s) + wsum w_d (delivs s) + wsum w_cb (cbs s) + w_rd (rd s) + wsum w_f (ch_in s) + w_err (err s).
Definition potential (s : state) : nat := wsum w_op (ops s) + rest s.

(** * helper functions *)
Lemma wsum_cons {A} (w : A -> nat) x l : wsum w (x :: l) = w x + wsum w l.
Proof. reflexivity. Qed.

Lemma rest_eq s s2 : wsum w_sl (slots s2) = wsum w_sl (slots s) -> delivs s2 = delivs s -> cbs s2 = cbs s -> rd s2 = rd s ->
  ch_in s2 = ch_in s -> err s2 = err s -> rest s2 = rest s.
Proof. unfold rest. intros -> -> -> -> -> ->. reflexivity. Qed.

Lemma rest_parts s s2 a : wsum w_sl (slots s2) = wsum w_sl (slots s) -> delivs s2 = delivs s ->
  wsum w_cb (cbs s2) = wsum w_cb (cbs s) + a -> rd s2 = rd s -> ch_in s2 = ch_in s -> err s2 = err s -> rest s2 = rest s + a.
Proof. unfold rest. intros -> -> -> -> -> ->. lia. Qed.

Lemma rest_slots s s2 : delivs s2 = delivs s -> cbs s2 = cbs s -> rd s2 = rd s -> ch_in s2 = ch_in s -> err s2 = err s ->
  rest s2 + wsum w_sl (slots s) = rest s + wsum w_sl (slots s2).
Proof. unfold rest. intros -> -> -> -> ->. lia. Qed.

Lemma slots_set_slot i f s : slots (set_slot i f s) = upd_nth i f (slots s).
Proof. reflexivity. Qed.

Lemma w_sl_cancel w sl : w_sl (cancel_slot w sl) = w_sl sl.
Proof. unfold w_sl, cancel_slot. destruct (sl_pctx sl); auto. cbn. destruct (sl_watch sl); reflexivity. Qed.

Lemma settle_slot_rest i s : inv1 s -> rest (settle_slot i s) = rest s /\ ops (settle_slot i s) = ops s.
Proof.
  intros I. destruct (settle_slot_inv1 i s I) as (_ & Eo & _). split; auto.
  destruct (settle_slot_eq s i I) as [->|(sl & v & _ & _ & _ & ->)]; auto.
  apply rest_eq; try reflexivity. rewrite slots_set_slot, wsum_upd_same; auto. intros x. rewrite w_sl_cancel. reflexivity.
Qed.

Lemma deliver_member_rest j k m s : inv1 s ->
  rest (deliver_member j k m s) <= rest s + 1 /\ ops (deliver_member j k m s) = ops s /\ delivs (deliver_member j k m s) = delivs s.
Proof.
  intros I. destruct (deliver_member_cases j k m s I) as [->|[(_ & ->)|[(_ & _ & _ & ->)|(i & _ & _ & ->)]]].
  - splits; auto. lia.
  - splits; try reflexivity. rewrite (rest_eq s); try reflexivity. lia.
  - splits; try reflexivity. rewrite (rest_parts s _ 1); try reflexivity.
    match goal with |- wsum w_cb (cbs ?X) = _ =>
      replace (cbs X) with (cbs s ++ [mkCb (j_id m) (j_method m) (j_params m) CbRunning]) by reflexivity end.
    rewrite wsum_app, wsum_one. reflexivity.
  - splits; try reflexivity. rewrite (rest_eq s); try reflexivity; [lia|]. rewrite slots_set_slot. apply wsum_upd_same. reflexivity.
Qed.

Lemma deliver_all_rest j ms : forall k s, inv1 s ->
  rest (deliver_all j k ms s) <= rest s + length ms /\ ops (deliver_all j k ms s) = ops s /\ delivs (deliver_all j k ms s) = delivs s.
Proof.
  induction ms as [|m r IH]; intros k s I; cbn; [splits; auto; lia|].
  rewrite (i_crash _ (proj1 I)). destruct (deliver_member_rest j k m s I) as (A1 & A2 & A3).
  destruct (IH (S k) _ (proj1 (deliver_member_inv1 j k m s I))) as (B1 & B2 & B3). splits; try congruence. lia.
Qed.

Lemma wsum_fold_cancel l : forall sls,
  wsum w_sl (fold_left (fun sls (p : bytes * nat) => upd_nth (snd p) (cancel_slot WCancel) sls) l sls) = wsum w_sl sls.
Proof.
  induction l as [|p r IH]; intros sls; cbn [fold_left]; auto. rewrite IH. apply wsum_upd_same. intros x. apply w_sl_cancel.
Qed.

Lemma stop_locked_rest c s s1 b : stop_locked c s = (s1, b) -> rest s1 <= rest s /\ ops s1 = ops s /\ rd s1 = rd s.
Proof.
  intros H. destruct (err s) as [c0|] eqn:Ee.
  - rewrite (stop_locked_some c s c0 Ee) in H. injection H as <- <-. auto.
  - destruct (stop_locked_none c s Ee) as (s1' & Est & B). rewrite Est in H. injection H as <- <-.
    destruct B as (B1 & _ & B3 & _ & _ & B6 & B7 & _ & _ & _ & B11 & B12 & B13). splits; auto.
    unfold rest. rewrite B1, Ee, B6, B7, B11, B12, B13, wsum_fold_cancel. cbn.
    assert (X : wsum w_cb (map (fun c1 => match cb_st c1 with
                                         | CbRunning => c1 <| cb_st := CbAtReply (CbErr Cancelled s_ctx_canceled) |>
                                         | _ => c1 end) (cbs s)) = wsum w_cb (cbs s)).
    { apply wsum_map. intros x. unfold w_cb. destruct (cb_st x) eqn:Ex; cbn; rewrite ?Ex; reflexivity. }
    rewrite X. destruct (c_unblock s); [rewrite wsum_app, wsum_one; cbn|]; lia.
Qed.

(* registering an unregistered slot (whose watcher does not exist yet) starts its watcher *)
Lemma register_rest ctx i s sl : inv1w s -> slot_at s i = Some sl -> sl_reg sl = false -> sl_watch sl = WNone ->
  rest (register ctx i s) = rest s.
Proof.
  intros W Hs Hr Hw. rewrite (register_eq ctx i s sl W Hs Hr). apply rest_eq; try reflexivity.
  match goal with |- wsum w_sl (slots (set_slot ?i ?f ?s0)) = _ => change (slots (set_slot i f s0)) with (upd_nth i f (slots s)); set (F := f) end.
  assert (X := wsum_upd w_sl F (slots s) i sl Hs).
  assert (E1 : w_sl sl = 1) by (unfold w_sl; rewrite Hw; reflexivity).
  assert (E2 : w_sl (F sl) = 1) by (unfold w_sl, F; cbn; destruct ctx; reflexivity).
  rewrite E1, E2 in X. lia.
Qed.

Lemma register_fold_rest ctx L : forall s, inv1w s -> NoDup L ->
  (forall i, In i L -> exists sl, slot_at s i = Some sl /\ sl_reg sl = false /\ sl_watch sl = WNone) ->
  rest (fold_left (fun st i => register ctx i st) L s) = rest s.
Proof.
  induction L as [|i r IH]; intros s W ND H; cbn; auto.
  inversion ND as [|? ? Hni ND']; subst.
  destruct (H i (or_introl eq_refl)) as (sl & Hs & Hr & Hw).
  destruct (register_ok ctx i s sl W Hs Hr) as (W1 & _ & _ & _ & Hother & _).
  rewrite IH; auto; [eapply register_rest; eauto|].
  intros j Hj. destruct (H j (or_intror Hj)) as (sl' & H1 & H2 & H3). exists sl'. rewrite Hother; auto. intros ->. contradiction.
Qed.

(** * the unhooked micro steps do not increase the potential *)
Lemma settle1_potential s s' : inv1 s -> settle1 s = Some s' -> potential s' <= potential s.
Proof.
  intros I E. unfold potential.
  destruct (settle1_inv s s' (i_crash _ (proj1 I)) E) as [(b & ms & q & X & Y & ->)|[(q & X & Y & ->)|[(c & q & X & Y & ->)|(n & o & Ho & Hr & ->)]]].
  - unfold rest. cbn. rewrite X, Y, wsum_cons, wsum_app, wsum_one. unfold w_f, w_d, w_rd. cbn. lia.
  - unfold rest. cbn. rewrite X, Y, wsum_cons. unfold w_f, w_rd. lia.
  - unfold rest. cbn. rewrite X, Y, wsum_cons. unfold w_f, w_rd. lia.
  - assert (Hd : forall s2 o', rest s2 = rest s -> ops s2 = upd_nth n (fun _ => o') (ops s) -> w_op o' <= w_op o ->
              wsum w_op (ops s2) + rest s2 <= wsum w_op (ops s) + rest s).
    { intros s2 o' E1 E2 Hle. rewrite E1, E2. assert (X := wsum_upd w_op (fun _ => o') (ops s) n o Ho). cbv beta in X. lia. }
    destruct (op_advance_cases n o s Hr) as [(k & i & Hpc & Hn & _ & ->)|[(k & Hpc & Hn & ->)|(b & Hpc & Hw & ->)]].
    + destruct (settle_slot_rest i s I) as (A1 & A2). eapply (Hd _ (o <| o_pc := PWait (S k) |>)).
      * unfold rest in *. cbn. exact A1.
      * cbn. rewrite A2. eapply upd_nth_const'; [exact Ho|reflexivity].
      * unfold w_op. cbn. lia.
    + eapply (Hd _ (o <| o_pc := PDone |> <| o_ret := Some (result_of s o) |>)); [reflexivity| |unfold w_op; cbn; lia].
      cbn. eapply upd_nth_const'; [exact Ho|reflexivity].
    + eapply (Hd _ (o <| o_pc := PDone |> <| o_ret := Some (close_ret s) |>)).
      * destruct b; [destruct (err s)|]; reflexivity.
      * destruct b; [destruct (err s)|]; cbn; (eapply upd_nth_const'; [exact Ho|reflexivity]).
      * unfold w_op. cbn. lia.
Qed.

Lemma settle_potential fuel : forall s, inv1 s -> potential (settle fuel s) <= potential s.
Proof.
  induction fuel as [|f IH]; intros s I; cbn; auto. destruct (settle1 s) as [s'|] eqn:E; auto.
  assert (X := settle1_potential s s' I E). specialize (IH s' (inv1_settle1 s s' I E)). lia.
Qed.

(** * every critical section at a scheduling point strictly decreases the potential *)
Lemma step_raw_potential s l s' : inv1 s -> invS s -> invC s -> is_rel l = true -> step_raw s l = Some s' -> potential s' < potential s.
Proof.
  intros I SI C Hl E. unfold potential. destruct l; try discriminate; cbn in E.
  - (* LRelReq *)
    destruct (op_at s n) as [o|] eqn:Eo; [|discriminate]. destruct (o_pc o) eqn:Epc; try discriminate.
    destruct (SI _ _ Eo) as (_ & Cn & _). unfold cnt_ok in Cn. rewrite Epc in Cn. destruct Cn as (_ & sp & Hsp & _).
    assert (Hk : k < length (o_specs o)) by (apply nth_error_Some; congruence).
    change (match o_specs o with [] => [] | _ :: l => skipn k l end) with (skipn (S k) (o_specs o)) in E.
    assert (Hd : forall s2 o', rest s2 = rest s + 1 -> ops s2 = upd_nth n (fun _ => o') (ops s) -> w_op o' + 2 <= w_op o ->
              wsum w_op (ops s2) + rest s2 < wsum w_op (ops s) + rest s).
    { intros s2 o' E1 E2 Hle. rewrite E1, E2. assert (X := wsum_upd w_op (fun _ => o') (ops s) n o Eo). cbv beta in X. lia. }
    assert (Hrest : forall s2, slots s2 = slots s ++ [mkSlot n (next_id s) false None false None WNone] -> delivs s2 = delivs s ->
              cbs s2 = cbs s -> rd s2 = rd s -> ch_in s2 = ch_in s -> err s2 = err s -> rest s2 = rest s + 1).
    { intros s2 E1 E2 E3 E4 E5 E6. unfold rest. rewrite E1, E2, E3, E4, E5, E6, wsum_app, wsum_one. cbn. lia. }
    destruct (scan (skipn (S k) (o_specs o)) (S k)) as [pc|] eqn:Sc; injection E as <-.
    + eapply (Hd _ (o <| o_slots ::= fun l => l ++ [length (slots s)] |> <| o_pc := pc |>)).
      * apply Hrest; reflexivity.
      * cbn. rewrite upd_nth_comp. eapply upd_nth_const'; [exact Eo|reflexivity].
      * unfold w_op. cbn. rewrite Epc.
        destruct (scan_spec _ _ _ Sc) as [[-> _]|(k' & -> & Hle & _)]; lia.
    + eapply (Hd _ (o <| o_slots ::= fun l => l ++ [length (slots s)] |> <| o_pc := PDone |> <| o_ret := Some (RetFail EBadParams) |>)).
      * apply Hrest; reflexivity.
      * cbn. rewrite upd_nth_comp. eapply upd_nth_const'; [exact Eo|reflexivity].
      * unfold w_op. cbn. rewrite Epc. lia.
  - (* LRelSend *)
    destruct (op_at s n) as [o|] eqn:Eo; [|discriminate]. destruct (o_pc o) eqn:Epc; try discriminate.
    assert (Hd : forall s2 o', rest s2 = rest s -> ops s2 = upd_nth n (fun _ => o') (ops s) -> w_op o' = 0 ->
              wsum w_op (ops s2) + rest s2 < wsum w_op (ops s) + rest s).
    { intros s2 o' E1 E2 Hle. rewrite E1, E2. assert (X := wsum_upd w_op (fun _ => o') (ops s) n o Eo). cbv beta in X.
      assert (E0 : w_op o = 1) by (unfold w_op; rewrite Epc; reflexivity). lia. }
    destruct (err s); [injection E as <-; eapply (Hd _ (o <| o_pc := PDone |> <| o_ret := Some _ |>)); try reflexivity;
                       cbn; eapply upd_nth_const'; [exact Eo|reflexivity]|].
    destruct (negb (send_fail s)); injection E as <-.
    2: { eapply (Hd _ (o <| o_pc := PDone |> <| o_ret := Some _ |>)); try reflexivity. cbn. eapply upd_nth_const'; [exact Eo|reflexivity]. }
    assert (Hp0 : presend o = true) by (unfold presend; rewrite Epc; auto).
    set (s1 := emit _ s) in *.
    assert (I1 : inv1 s1). { apply (inv1_frame s); try reflexivity; auto; try apply I. apply ops_frame_refl; reflexivity. }
    destruct I1 as [W1 P1].
    assert (Hun : forall i, In i (o_slots o) -> exists sl, slot_at s1 i = Some sl /\ sl_reg sl = false /\ sl_watch sl = WNone).
    { intros i Hi. destruct (P1 n o i Eo Hp0 Hi) as (sl & Hs & Hr). exists sl. splits; auto. apply (c_unreg _ C _ _ Hs Hr). }
    assert (R := register_fold_rest (o_ctx o) (o_slots o) s1 W1 (i_nd _ W1 n o Eo) Hun).
    destruct (env_register_fold (o_ctx o) (o_slots o) s1) as (_ & _ & _ & A).
    eapply (Hd _ (o <| o_pc := PWait 0 |>)); try reflexivity.
    + unfold rest in *. cbn. exact R.
    + cbn. rewrite A. cbn. eapply upd_nth_const'; [exact Eo|reflexivity].
  - (* LRelDeliver *)
    destruct (nth_error (delivs s) j) as [d|] eqn:Ed; [|discriminate]. destruct (d_st d) eqn:Est; [|discriminate].
    destruct (deliver_all_inv1 j (d_msgs d) 0 s I) as (I1 & _).
    rewrite (i_crash _ (proj1 I1)) in E. injection E as <-.
    destruct (deliver_all_rest j (d_msgs d) 0 s I) as (A1 & A2 & A3).
    set (s1 := deliver_all j 0 (d_msgs d) s) in *. cbn [ops set]. unfold rest in *. cbn. rewrite A2.
    assert (Hd' : nth_error (delivs s1) j = Some d) by (rewrite A3; auto).
    assert (X := wsum_upd w_d (fun d0 => d0 <| d_st := DDone |>) (delivs s1) j d Hd').
    assert (E1 : w_d d = 1 + length (d_msgs d)) by (unfold w_d; rewrite Est; reflexivity).
    assert (E2 : w_d (d <| d_st := DDone |>) = 0) by reflexivity.
    cbv beta in X. rewrite E1, E2 in X. rewrite A3 in A1, X |- *. lia.
  - (* LRelWatch *)
    destruct (watch_decomp s i s' I E) as (sl & Es & Ew & D). cbn zeta in D.
    set (f := fun sl0 : slot => sl0 <| sl_watch := WDone |>) in *.
    assert (X := wsum_upd w_sl f (slots s) i sl Es).
    assert (E1 : w_sl sl = 1) by (unfold w_sl; rewrite Ew; reflexivity).
    assert (E2 : w_sl (f sl) = 0) by reflexivity.
    rewrite E1, E2 in X.
    destruct (assoc (id_text (sl_id sl)) (pending s)).
    2: { rewrite D. assert (Y := rest_slots s (set_slot i f s) eq_refl eq_refl eq_refl eq_refl eq_refl).
         rewrite slots_set_slot in Y. change (ops (set_slot i f s)) with (ops s). lia. }
    destruct D as (_ & _ & I2 & ->).
    match type of I2 with inv1 ?x => set (s2 := x) in * end.
    assert (R2 : rest s2 + 1 = rest s).
    { assert (Y := rest_slots s s2 eq_refl eq_refl eq_refl eq_refl eq_refl).
      assert (Z : wsum w_sl (slots s2) = wsum w_sl (upd_nth i f (slots s))).
      { unfold s2. rewrite slots_set_slot. apply wsum_upd_same. reflexivity. }
      lia. }
    assert (O2 : ops s2 = ops s) by reflexivity.
    destruct (c_oncancel s); [|rewrite O2; lia].
    destruct (settle_slot_rest i s2 I2) as (A1 & A2).
    match goal with |- wsum w_op (ops ?X) + rest ?X < _ =>
      change (ops X) with (ops (settle_slot i s2)); change (rest X) with (rest (settle_slot i s2)) end.
    rewrite A1, A2, O2. lia.
  - (* LRelRecvErr *)
    destruct (rd s) eqn:Erd; try discriminate. destruct (stop_locked c s) as [s1 first] eqn:Est.
    destruct (stop_locked_rest _ _ _ _ Est) as (A1 & A2 & A3). injection E as <-.
    assert (Y : rest ((if first then emit [OOnStop c] s1 else s1) <| rd := RExited |> <| wg ::= pred |>) + 1 = rest s1).
    { unfold rest. destruct first; cbn; rewrite A3, Erd; cbn; lia. }
    assert (Z : ops ((if first then emit [OOnStop c] s1 else s1) <| rd := RExited |> <| wg ::= pred |>) = ops s).
    { destruct first; cbn; exact A2. }
    rewrite Z. lia.
  - (* LRelClose *)
    destruct (op_at s n) as [o|] eqn:Eo; [|discriminate]. destruct (o_pc o) eqn:Epc; try discriminate.
    destruct (stop_locked SCClosed s) as [s1 first] eqn:Est.
    destruct (stop_locked_rest _ _ _ _ Est) as (A1 & A2 & A3). injection E as <-.
    replace (rest (set_op n (fun o0 => o0 <| o_pc := PCloseWait first |>) s1)) with (rest s1) by reflexivity.
    cbn [ops set_op set]. replace (ops (set_op n (fun o0 => o0 <| o_pc := PCloseWait first |>) s1))
      with (upd_nth n (fun o0 => o0 <| o_pc := PCloseWait first |>) (ops s1)) by reflexivity.
    rewrite A2. assert (X := wsum_upd w_op (fun o0 => o0 <| o_pc := PCloseWait first |>) (ops s) n o Eo).
    assert (E1 : w_op o = 1) by (unfold w_op; rewrite Epc; reflexivity).
    assert (E2 : w_op (o <| o_pc := PCloseWait first |>) = 0) by reflexivity.
    cbv beta in X. rewrite E1, E2 in X. lia.
  - (* LRelCbReply *)
    destruct (nth_error (cbs s) c) as [cb|] eqn:Ecb; [|discriminate]. destruct (cb_st cb) eqn:Est; try discriminate.
    injection E as <-.
    assert (X := wsum_upd w_cb (fun cb0 => cb0 <| cb_st := CbDone |>) (cbs s) c cb Ecb).
    assert (E1 : w_cb cb = 1) by (unfold w_cb; rewrite Est; reflexivity).
    assert (E2 : w_cb (cb <| cb_st := CbDone |>) = 0) by reflexivity.
    cbv beta in X. rewrite E1, E2 in X.
    destruct (err s) eqn:Ee; unfold rest; cbn; rewrite ?Ee; lia.
Qed.

Theorem release_decreases c s l s' os : reach c s -> is_rel l = true -> step s l = Some (s', os) -> potential s' < potential s.
Proof.
  intros R Hl E. destruct (invS_reach c s R) as (I & SI). destruct (invC_reach c s R) as (_ & C).
  unfold step in E. destruct (crash s); [discriminate|]. destruct (step_raw s l) as [s1|] eqn:E1; [|discriminate].
  assert (Es : settle (settle_fuel s1) s1 = s') by congruence. rewrite <- Es.
  assert (I1 : inv1 s1) by (eapply inv1_step_raw; eauto; apply I).
  assert (X := step_raw_potential s l s1 I SI C Hl E1). assert (Y := settle_potential (settle_fuel s1) s1 I1). lia.
Qed.

(** * a quiescent state is reachable by releases only *)
Theorem quiescent_reachable c s : reach c s ->
  exists tr s' oss, Forall (fun l => is_rel l = true) tr /\ run s tr = Some (s', oss) /\ quiescent s' = true
                    /\ length tr <= potential s.
Proof.
  remember (potential s) as p eqn:Ep. revert s Ep. induction p as [p IH] using lt_wf_ind. intros s Ep R.
  destruct (enabled_rel s) as [|l r] eqn:En.
  - exists [], s, []. splits; auto; [|cbn; lia]. apply (reach_quiescent_iff c s R). exact En.
  - assert (Hin : In l (enabled_rel s)) by (rewrite En; left; auto).
    destruct (enabled_rel_step s l (i_crash _ (proj1 (inv1_reach c s R))) Hin) as (Hl & s1 & os & E).
    assert (Hlt := release_decreases c s l s1 os R Hl E).
    destruct (IH (potential s1) ltac:(lia) s1 eq_refl (reach_step c s l s1 os R E)) as (tr & s' & oss & F & Hrun & Q & Hlen).
    exists (l :: tr), s', (os :: oss). splits; auto.
    + cbn. rewrite E, Hrun. reflexivity.
    + cbn. lia.
Qed.

(* stated over traces: every history can be extended, by releasing parked goroutines only, to a quiescent one *)
Corollary trace_drains c tr s : traces_to c tr s ->
  exists tr2 s', Forall (fun l => is_rel l = true) tr2 /\ traces_to c (tr ++ tr2) s' /\ quiescent s' = true.
Proof.
  intros T. destruct (quiescent_reachable c s (traces_reach _ _ _ T)) as (tr2 & s' & oss & F & Hrun & Q & _).
  destruct T as [oss1 H1]. exists tr2, s'. splits; auto. exists (oss1 ++ oss). eapply run_app; eauto.
Qed.

(* non-vacuity: a state with two parked callers, the potential and a draining schedule *)
Example release_decreases_nonvacuous :
  match run (init_of ex_cfg) [LOp 0 KCall [ex_spec 49]; LOp 1 KBatch [ex_spec 50; ex_nspec; ex_spec 51]] with
  | Some (s, _) =>
      potential s = 12 /\ enabled_rel s = [LRelReq 0; LRelReq 1]
      /\ match run s [LRelReq 0; LRelReq 1; LRelSend 0; LRelReq 1; LRelSend 1] with
         | Some (s', _) => quiescent s' = true /\ potential s' = 5
         | None => False
         end
  | None => False
  end.
Proof. vm_compute. splits; auto. Qed.
