(* CliGo: no goroutine is left behind (C05).  The first wait() on a response settles it and
   cancels its context, so its waitComplete goroutine ends; an operation that has returned
   has settled every request it registered.  Consequence: in a quiescent state of a stopped
   client whose reader can exit (Close unblocks Recv, or the reader has exited) no logical
   goroutine is alive: [gcount s = 0]. *)
From Coq Require Import List NArith ZArith Bool Arith Lia.
From RecordUpdate Require Import RecordUpdate.
From JV Require Import Bytes Msg CliModel CliLemmas CliInv CliRet CliProofs CliC05 CliCtx CliOps CliHist CliLive CliWg CliSend CliNoStop CliStep.
Import ListNotations.

Definition settled_ok (sl : slot) : Prop := sl_settled sl = true -> sl_pctx sl <> None /\ sl_buf sl <> None.
(* the caller has been through wait() on its p-th response *)
Definition must_settle (o : oprec) (p : nat) : Prop :=
  match o_pc o with PReq _ | PSend => False | PWait k => p < k | _ => True end.

Record invG (s : state) : Prop := {
  g_settled : forall i sl, slot_at s i = Some sl -> settled_ok sl;
  g_owner : forall i sl, slot_at s i = Some sl -> exists o, op_at s (sl_op sl) = Some o /\ In i (o_slots o);
  g_done : forall n o p i sl, op_at s n = Some o -> nth_error (o_slots o) p = Some i -> slot_at s i = Some sl ->
             sl_reg sl = true -> must_settle o p -> sl_settled sl = true
}.

(** * frame *)
Definition sl_g (sl sl' : slot) : Prop :=
  sl_op sl' = sl_op sl /\ sl_reg sl' = sl_reg sl /\ (sl_settled sl = true -> sl_settled sl' = true)
  /\ (settled_ok sl -> settled_ok sl').

Definition gsl (s s' : state) : Prop :=
  forall i sl', slot_at s' i = Some sl' -> exists sl, slot_at s i = Some sl /\ sl_g sl sl'.

Lemma sl_g_refl sl : sl_g sl sl.
Proof. unfold sl_g; auto. Qed.

Lemma sl_g_trans a b c : sl_g a b -> sl_g b c -> sl_g a c.
Proof. unfold sl_g. intros (A1 & A2 & A3 & A4) (B1 & B2 & B3 & B4). splits; try congruence; auto. Qed.

Lemma gsl_refl s s' : slots s' = slots s -> gsl s s'.
Proof. intros E i sl H. exists sl. unfold slot_at in *. rewrite <- E. split; auto. apply sl_g_refl. Qed.

Lemma gsl_trans a b c : gsl a b -> gsl b c -> gsl a c.
Proof.
  intros F G i sl H. destruct (G _ _ H) as (sl2 & H2 & L2). destruct (F _ _ H2) as (sl1 & H1 & L1).
  exists sl1. split; auto. eapply sl_g_trans; eauto.
Qed.

Lemma gsl_set_slot s i f : (forall sl, slot_at s i = Some sl -> sl_g sl (f sl)) -> gsl s (set_slot i f s).
Proof.
  intros Hf j sl' H. rewrite slot_at_set_slot in H. destruct (Nat.eqb_spec i j) as [<-|N].
  - destruct (slot_at s i) as [sl|] eqn:E; [|discriminate]. injection H as <-. exists sl. split; auto.
  - exists sl'. split; auto. apply sl_g_refl.
Qed.

Lemma gsl_map s s' h : slots s' = map h (slots s) -> (forall sl, sl_g sl (h sl)) -> gsl s s'.
Proof.
  intros E Hh i sl' H. unfold slot_at in *. rewrite E in H. apply nth_error_map_some in H. destruct H as (sl & H1 & ->).
  exists sl. auto.
Qed.

Lemma sl_g_cancel w sl : sl_g sl (cancel_slot w sl).
Proof.
  unfold sl_g, settled_ok, cancel_slot. destruct (sl_pctx sl) eqn:E; cbn; splits; auto.
  - intros H Hs. rewrite E. apply H; auto.
  - intros H Hs. destruct (H Hs) as (A & _). exfalso. apply A. reflexivity.
Qed.

Definition ops_g (s s' : state) : Prop :=
  forall n o', op_at s' n = Some o' ->
    o_slots o' = [] \/
    exists o, op_at s n = Some o /\ o_slots o' = o_slots o
      /\ forall p i, nth_error (o_slots o) p = Some i -> must_settle o' p ->
           must_settle o p \/ presend o = true \/ (forall sl', slot_at s' i = Some sl' -> sl_settled sl' = true).

Definition ops_keep (s s' : state) : Prop :=
  forall n o, op_at s n = Some o -> exists o', op_at s' n = Some o' /\ o_slots o' = o_slots o.

Lemma invG_step s s' : inv1 s -> gsl s s' -> ops_g s s' -> ops_keep s s' -> invG s -> invG s'.
Proof.
  intros I Sl Og Ok [A B C]. constructor.
  - intros i sl' H. destruct (Sl _ _ H) as (sl & H1 & _ & _ & _ & H5). apply H5. eapply A; eauto.
  - intros i sl' H. destruct (Sl _ _ H) as (sl & H1 & H2 & _). destruct (B _ _ H1) as (o & Ho & Hin).
    destruct (Ok _ _ Ho) as (o' & Ho' & Es). exists o'. rewrite H2, Es. auto.
  - intros n o' p i sl' Ho' Hn Hs' Hr Hm. destruct (Sl _ _ Hs') as (sl & Hs & _ & H2 & H3 & _).
    destruct (Og _ _ Ho') as [E0|(o & Ho & Es & Hp)]; [rewrite E0 in Hn; destruct p; discriminate|].
    rewrite Es in Hn. destruct (Hp _ _ Hn Hm) as [X|[X|X]].
    + apply H3. eapply C; eauto; congruence.
    + exfalso. destruct (proj2 I n o i Ho X (nth_error_In _ _ Hn)) as (sl0 & Hs0 & Hr0). congruence.
    + auto.
Qed.

Lemma ops_g_same s s' : ops s' = ops s -> ops_g s s'.
Proof. intros E n o' H. right. exists o'. unfold op_at in *. rewrite <- E. splits; auto. Qed.

Lemma ops_keep_same s s' : ops s' = ops s -> ops_keep s s'.
Proof. intros E n o H. exists o. unfold op_at in *. rewrite E. auto. Qed.

Lemma ops_keep_upd s s' n g : ops s' = upd_nth n g (ops s) -> (forall o, o_slots (g o) = o_slots o) -> ops_keep s s'.
Proof.
  intros E Hg m o H. unfold op_at in *. rewrite E, nth_error_upd_nth. destruct (n =? m); rewrite H; cbn; eauto.
Qed.

(* operation n is replaced by g o *)
Lemma ops_g_upd s s' n g : ops s' = upd_nth n g (ops s) -> (forall o, o_slots (g o) = o_slots o) ->
  (forall o p i, op_at s n = Some o -> nth_error (o_slots o) p = Some i -> must_settle (g o) p ->
     must_settle o p \/ presend o = true \/ (forall sl', slot_at s' i = Some sl' -> sl_settled sl' = true)) ->
  ops_g s s'.
Proof.
  intros E Hg Hm m o' H. right. unfold op_at in H. rewrite E, nth_error_upd_nth in H.
  destruct (Nat.eqb_spec n m) as [<-|N].
  - fold (op_at s n) in H. destruct (op_at s n) as [o|] eqn:Eo; [|discriminate]. injection H as <-.
    exists o. split; [reflexivity|]. split; [apply Hg|]. intros p i Hn Hx. eapply Hm; eauto.
  - exists o'. splits; auto.
Qed.

Lemma invG_same s s' : inv1 s -> slots s' = slots s -> ops s' = ops s -> invG s -> invG s'.
Proof. intros I E1 E2. apply invG_step; auto; [apply gsl_refl|apply ops_g_same|apply ops_keep_same]; auto. Qed.

(** * helper functions *)
Lemma sl_g_settle sl v : sl_buf sl = Some v -> sl_g sl (cancel_slot WCancel (sl <| sl_settled := true |>)).
Proof.
  intros Hb. unfold sl_g, settled_ok, cancel_slot. cbn. destruct (sl_pctx sl) eqn:E; cbn; splits; auto.
  - intros _ _. rewrite E, Hb. split; discriminate.
  - intros _ _. rewrite Hb. split; discriminate.
Qed.

Lemma settle_slot_g i s : inv1 s -> gsl s (settle_slot i s) /\ ops (settle_slot i s) = ops s
  /\ (slot_val s i <> None -> forall sl', slot_at (settle_slot i s) i = Some sl' -> sl_settled sl' = true).
Proof.
  intros I. destruct (settle_slot_inv1 i s I) as (_ & Eo & _). split; [|split; auto].
  - destruct (settle_slot_eq s i I) as [->|(sl & v & Hs & Hb & Ht & ->)]; [apply gsl_refl; auto|].
    apply gsl_set_slot. intros sl0 H0. rewrite Hs in H0. injection H0 as <-. eapply sl_g_settle; eauto.
  - intros Hv sl' H. unfold settle_slot in H. unfold slot_val in Hv. destruct (slot_at s i) as [sl|] eqn:Es; [|contradiction].
    destruct (sl_buf sl) as [v|] eqn:Hb; [|contradiction]. destruct (sl_settled sl) eqn:Ht; [congruence|].
    rewrite (i_val _ (proj1 I) _ _ _ Es Hb), beq_refl in H. rewrite slot_at_set_slot, Nat.eqb_refl, Es in H. injection H as <-.
    unfold cancel_slot. cbn. destruct (sl_pctx sl); reflexivity.
Qed.

Lemma sl_g_buf sl v : sl_g sl (sl <| sl_buf := Some v |>).
Proof. unfold sl_g, settled_ok. cbn. splits; auto. intros H Hs. destruct (H Hs). split; [auto|discriminate]. Qed.

Lemma deliver_member_g j k m s : inv1 s -> gsl s (deliver_member j k m s) /\ ops (deliver_member j k m s) = ops s.
Proof.
  intros I. destruct (deliver_member_cases j k m s I) as [->|[(_ & ->)|[(_ & _ & _ & ->)|(i & _ & _ & ->)]]];
    (split; [|reflexivity]); try (apply gsl_refl; reflexivity).
  eapply gsl_trans; [|apply gsl_set_slot; intros; apply sl_g_buf]. apply gsl_refl; reflexivity.
Qed.

Lemma deliver_all_g j ms : forall k s, inv1 s -> gsl s (deliver_all j k ms s) /\ ops (deliver_all j k ms s) = ops s.
Proof.
  induction ms as [|m r IH]; intros k s I; cbn; [split; [apply gsl_refl|]; auto|].
  rewrite (i_crash _ (proj1 I)). destruct (deliver_member_g j k m s I) as (A1 & A2).
  destruct (IH (S k) _ (proj1 (deliver_member_inv1 j k m s I))) as (B1 & B2).
  split; [eapply gsl_trans; eauto|congruence].
Qed.

Lemma fold_cancel_g l : forall sls j sl',
  nth_error (fold_left (fun sls (p : bytes * nat) => upd_nth (snd p) (cancel_slot WCancel) sls) l sls) j = Some sl' ->
  exists sl, nth_error sls j = Some sl /\ sl_g sl sl'.
Proof.
  intros sls j sl' H. destruct (fold_cancel_slots l sls j sl' H) as (sl & H1 & H2 & H3). exists sl. split; auto.
  destruct (in_dec Nat.eq_dec j (map snd l)) as [Hin|Hn].
  - rewrite (H2 Hin). apply sl_g_cancel.
  - rewrite (H3 Hn). apply sl_g_refl.
Qed.

Lemma stop_locked_g c s s1 b : stop_locked c s = (s1, b) -> gsl s s1 /\ ops s1 = ops s.
Proof.
  intros H. destruct (err s) as [c0|] eqn:Ee.
  - rewrite (stop_locked_some c s c0 Ee) in H. injection H as <- <-. split; [apply gsl_refl|]; auto.
  - destruct (stop_locked_none c s Ee) as (s1' & Est & B). rewrite Est in H. injection H as <- <-.
    destruct B as (_ & _ & B3 & _ & _ & _ & _ & _ & _ & _ & _ & _ & B13). split; auto.
    intros i sl' Hs. unfold slot_at in *. rewrite B13 in Hs. apply (fold_cancel_g _ _ _ _ Hs).
Qed.

(* registration touches only the registered slots, and neither their owner nor whether they are settled *)
Lemma register_fold_g ctx L : forall s i sl',
  slot_at (fold_left (fun st i => register ctx i st) L s) i = Some sl' ->
  exists sl, slot_at s i = Some sl /\ sl_op sl' = sl_op sl /\ sl_settled sl' = sl_settled sl /\ sl_buf sl' = sl_buf sl.
Proof.
  induction L as [|j r IH]; intros s i sl' H; cbn in H; [eauto|].
  destruct (IH _ _ _ H) as (sl1 & H1 & A1 & A2 & A3).
  unfold register in H1. destruct (slot_at s j) as [slj|] eqn:Ej; [|eauto].
  rewrite slot_at_set_slot in H1.
  match type of H1 with (if _ then option_map _ (slot_at ?s0 i) else slot_at ?s0 i) = _ =>
    replace (slot_at s0 i) with (slot_at s i) in H1 by (destruct (is_some (assoc (id_text (sl_id slj)) (pending s))); reflexivity) end.
  destruct (j =? i); [|eauto].
  destruct (slot_at s i) as [sl|]; [|discriminate]. cbn in H1. injection H1 as <-. exists sl. cbn in *. auto.
Qed.

(** * the invariant holds in every reachable state *)
Lemma invG_init c : invG (init_of c).
Proof. constructor; intros; unfold slot_at, op_at in *; cbn in *; try (destruct i; discriminate); destruct n; discriminate. Qed.

Lemma must_settle_presend o p : presend o = true -> ~ must_settle o p.
Proof. unfold presend, must_settle. destruct (o_pc o); try discriminate; auto. Qed.

Lemma invG_step_raw s l s' : inv1 s -> invG s -> step_raw s l = Some s' -> invG s'.
Proof.
  intros I G E. destruct l; cbn in E.
  - (* LOp *)
    destruct (negb (n =? length (ops s)) || negb (specs_ok k specs)) eqn:G0; [discriminate|].
    apply orb_false_iff in G0. destruct G0 as [G1 _]. apply negb_false_iff, Nat.eqb_eq in G1. subst n.
    set (o0 := mkOp k specs [] PDone None None) in *.
    assert (Fr : forall s0 g, ops s0 = upd_nth (length (ops s)) g (ops s ++ [o0]) -> o_slots (g o0) = [] -> slots s0 = slots s -> invG s0).
    { intros s0 g E0 Hg E1. rewrite upd_nth_snoc in E0. apply (invG_step s _ I); [| | |exact G].
      - apply gsl_refl; auto.
      - intros m o' H. unfold op_at in H. rewrite E0 in H. destruct (nth_error_snoc _ _ _ _ H) as [[_ H1]|[_ ->]]; auto.
        right. exists o'. splits; auto.
      - intros m o H. exists o. unfold op_at in *. rewrite E0. split; auto. apply nth_error_app_old; auto. }
    destruct k.
    1-3: destruct (is_nil specs); [injection E as <-; eapply Fr; reflexivity|];
         destruct (scan specs 0); injection E as <-; eapply Fr; reflexivity.
    injection E as <-; eapply Fr; reflexivity.
  - injection E as <-. apply (invG_same s); auto.
  - injection E as <-. apply (invG_same s); auto.
  - (* LCtxEnd *)
    destruct (op_at s n) as [o|] eqn:Eo; [|discriminate]. destruct (o_ctx o); injection E as <-; auto.
    apply (invG_step s _ I); [| | |exact G].
    + eapply gsl_map; [reflexivity|]. intros sl. cbv beta. destruct ((sl_op sl =? n) && sl_reg sl); [apply sl_g_cancel|apply sl_g_refl].
    + eapply ops_g_upd; [reflexivity|reflexivity|]. intros o1 p i _ _ H. left. exact H.
    + eapply ops_keep_upd; reflexivity.
  - destruct (find_idx _ 0 (cbs s)); [|discriminate]. injection E as <-. apply (invG_same s); auto.
  - (* LRelReq *)
    destruct (op_at s n) as [o|] eqn:Eo; [|discriminate]. destruct (o_pc o) eqn:Epc; try discriminate.
    set (sl0 := mkSlot n (next_id s) false None false None WNone) in *.
    assert (Hp0 : presend o = true) by (unfold presend; rewrite Epc; auto).
    assert (Fr : forall s0 g, slots s0 = slots s ++ [sl0] ->
                   ops s0 = upd_nth n (fun o1 => g (o1 <| o_slots ::= fun l => l ++ [length (slots s)] |>)) (ops s) ->
                   (forall o1, o_slots (g o1) = o_slots o1) -> invG s0).
    { intros s0 g E1 E2 Hg. destruct G as [A B C].
      assert (Hat : forall i sl, slot_at s0 i = Some sl -> (slot_at s i = Some sl /\ i < length (slots s)) \/ (i = length (slots s) /\ sl = sl0)).
      { intros i sl H. unfold slot_at in H. rewrite E1 in H. destruct (nth_error_snoc _ _ _ _ H) as [[? ?]|[? ?]]; auto. }
      assert (Hop : forall m o', op_at s0 m = Some o' ->
                (m = n /\ o' = g (o <| o_slots ::= fun l => l ++ [length (slots s)] |>)) \/ (m <> n /\ op_at s m = Some o')).
      { intros m o' H. unfold op_at in H. rewrite E2, nth_error_upd_nth in H. destruct (Nat.eqb_spec n m) as [<-|N]; [|auto].
        fold (op_at s n) in H. rewrite Eo in H. cbn in H. injection H as <-. auto. }
      constructor.
      - intros i sl H. destruct (Hat _ _ H) as [[H1 _]|[_ ->]]; [eapply A; eauto|]. intros X; discriminate.
      - intros i sl H. destruct (Hat _ _ H) as [[H1 _]|[-> ->]].
        + destruct (B _ _ H1) as (o1 & Ho1 & Hin). unfold op_at. rewrite E2, nth_error_upd_nth.
          destruct (Nat.eqb_spec n (sl_op sl)) as [En|N].
          * rewrite <- En in *. fold (op_at s n). rewrite Eo. cbn. eexists. split; [reflexivity|]. rewrite Hg. cbn.
            rewrite Eo in Ho1. injection Ho1 as <-. apply in_or_app. auto.
          * exists o1. auto.
        + cbn. unfold op_at. rewrite E2, nth_error_upd_nth, Nat.eqb_refl. fold (op_at s n). rewrite Eo. cbn.
          eexists. split; [reflexivity|]. rewrite Hg. cbn. apply in_or_app. right. left. auto.
      - intros m o' p i sl Ho' Hn Hs Hr Hm. destruct (Hop _ _ Ho') as [[-> ->]|[N H1]].
        + rewrite Hg in Hn. cbn in Hn. exfalso.
          destruct (Hat _ _ Hs) as [[Hs1 _]|[_ ->]]; [|discriminate].
          assert (Hin : In i (o_slots o)).
          { apply nth_error_In in Hn. apply in_app_or in Hn. destruct Hn as [?|[<-|[]]]; auto. apply slot_at_lt in Hs1. lia. }
          destruct (proj2 I n o i Eo Hp0 Hin) as (sl1 & Hs2 & Hr2). congruence.
        + destruct (Hat _ _ Hs) as [[Hs1 _]|[_ ->]]; [|discriminate]. eapply C; eauto. }
    match type of E with (match ?x with Some _ => _ | None => _ end) = _ => destruct x as [pc|] end; injection E as <-.
    + eapply (Fr _ (fun o1 => o1 <| o_pc := pc |>)); try reflexivity. cbn. rewrite upd_nth_comp. reflexivity.
    + eapply (Fr _ (fun o1 => o1 <| o_pc := PDone |> <| o_ret := Some (RetFail EBadParams) |>)); try reflexivity.
      cbn. rewrite upd_nth_comp. reflexivity.
  - (* LRelSend *)
    destruct (op_at s n) as [o|] eqn:Eo; [|discriminate]. destruct (o_pc o) eqn:Epc; try discriminate.
    assert (Hp0 : presend o = true) by (unfold presend; rewrite Epc; auto).
    assert (Hfin : forall r s0, slots s0 = slots s -> ops s0 = upd_nth n (fun o1 => o1 <| o_pc := PDone |> <| o_ret := Some r |>) (ops s) -> invG s0).
    { intros r s0 E1 E2. apply (invG_step s _ I); [| | |exact G].
      - apply gsl_refl; auto.
      - eapply ops_g_upd; [exact E2|reflexivity|]. intros o1 p i H1 _ _. rewrite Eo in H1. injection H1 as <-. auto.
      - eapply ops_keep_upd; [exact E2|reflexivity]. }
    destruct (err s); [injection E as <-; eapply Hfin; reflexivity|].
    destruct (negb (send_fail s)); injection E as <-; [|eapply Hfin; reflexivity].
    set (s1 := emit _ s) in *.
    assert (I1 : inv1 s1). { apply (inv1_frame s); try reflexivity; auto; try apply I. apply ops_frame_refl; reflexivity. }
    destruct I1 as [W1 P1].
    destruct (register_fold (o_ctx o) (o_slots o) s1 W1 (i_nd _ W1 n o Eo)) as (W2 & E2 & _ & _ & Hother).
    { intros i Hi. apply (P1 n o i Eo Hp0 Hi). }
    assert (RG := register_fold_g (o_ctx o) (o_slots o) s1).
    set (s2 := fold_left _ (o_slots o) s1) in *.
    destruct G as [A B C].
    assert (Hunset : forall i, In i (o_slots o) -> forall sl, slot_at s i = Some sl -> sl_settled sl = false).
    { intros i Hi sl Hs. destruct (proj2 I n o i Eo Hp0 Hi) as (sl1 & Hs1 & Hr1). rewrite Hs in Hs1. injection Hs1 as <-.
      destruct (sl_settled sl) eqn:Et; auto. destruct (A _ _ Hs Et) as (_ & Hb). rewrite (i_unreg _ (proj1 I) _ _ Hs Hr1) in Hb. contradiction. }
    assert (Hop : forall m o', op_at (set_op n (fun o0 => o0 <| o_pc := PWait 0 |>) s2) m = Some o' ->
              (m = n /\ o' = o <| o_pc := PWait 0 |>) \/ (m <> n /\ op_at s m = Some o')).
    { intros m o' H. rewrite op_at_set_op in H. unfold op_at in H. rewrite E2 in H. change (nth_error (ops s1) m) with (op_at s m) in H.
      destruct (Nat.eqb_spec n m) as [<-|N]; [|auto]. rewrite Eo in H. injection H as <-. auto. }
    constructor.
    + intros i sl' H. change (slot_at (set_op n (fun o0 => o0 <| o_pc := PWait 0 |>) s2) i) with (slot_at s2 i) in H.
      destruct (in_dec Nat.eq_dec i (o_slots o)) as [Hin|Hn].
      * destruct (RG _ _ H) as (sl & H1 & _ & H3 & _). change (slot_at s1 i) with (slot_at s i) in H1.
        intros X. rewrite H3, (Hunset i Hin sl H1) in X. discriminate.
      * rewrite (Hother i Hn) in H. eapply A; eauto.
    + intros i sl' H. change (slot_at (set_op n (fun o0 => o0 <| o_pc := PWait 0 |>) s2) i) with (slot_at s2 i) in H.
      destruct (RG _ _ H) as (sl & H1 & H2 & _). change (slot_at s1 i) with (slot_at s i) in H1.
      destruct (B _ _ H1) as (o1 & Ho1 & Hin). rewrite H2. rewrite op_at_set_op. unfold op_at. rewrite E2. change (nth_error (ops s1) (sl_op sl)) with (op_at s (sl_op sl)).
      destruct (Nat.eqb_spec n (sl_op sl)) as [En|N]; [|eauto].
      rewrite <- En in *. rewrite Eo. rewrite Eo in Ho1. injection Ho1 as <-. cbn. eauto.
    + intros m o' p i sl' Ho' Hn Hs Hr Hm. destruct (Hop _ _ Ho') as [[-> ->]|[N H1]].
      * unfold must_settle in Hm. cbn in Hm. lia.
      * change (slot_at (set_op n (fun o0 => o0 <| o_pc := PWait 0 |>) s2) i) with (slot_at s2 i) in Hs.
        assert (Hni : ~ In i (o_slots o)).
        { intros Hi. destruct (i_own _ (proj1 I) _ _ _ Eo Hi) as (sla & Ha & Hb).
          destruct (i_own _ (proj1 I) _ _ _ H1 (nth_error_In _ _ Hn)) as (slb & Hc & Hd). congruence. }
        rewrite (Hother i Hni) in Hs. eapply C; eauto.
  - (* LRelDeliver *)
    destruct (nth_error (delivs s) j) as [d|] eqn:Ed; [|discriminate]. destruct (d_st d); [|discriminate].
    destruct (deliver_all_inv1 j (d_msgs d) 0 s I) as (I1 & _).
    rewrite (i_crash _ (proj1 I1)) in E. injection E as <-.
    destruct (deliver_all_g j (d_msgs d) 0 s I) as (A1 & A2).
    apply (invG_step s _ I); [| | |exact G]; [|apply ops_g_same; exact A2|apply ops_keep_same; exact A2].
    eapply gsl_trans; [exact A1|apply gsl_refl; reflexivity].
  - (* LRelWatch *)
    destruct (watch_decomp s i s' I E) as (sl & Es & Ew & D). cbn zeta in D.
    assert (G1 : gsl s (set_slot i (fun sl0 => sl0 <| sl_watch := WDone |>) s)).
    { apply gsl_set_slot. intros sl0 _. unfold sl_g, settled_ok. cbn. auto. }
    destruct (assoc (id_text (sl_id sl)) (pending s)).
    { destruct D as (_ & _ & I2 & ->).
      match type of I2 with inv1 ?x => set (s2 := x) in * end.
      assert (G2 : gsl s s2).
      { eapply gsl_trans; [exact G1|]. eapply gsl_trans; [|apply gsl_set_slot; intros; apply sl_g_buf]. apply gsl_refl; reflexivity. }
      destruct (c_oncancel s).
      - destruct (settle_slot_g i s2 I2) as (G3 & E3 & _).
        apply (invG_step s _ I); [| | |exact G]; [|apply ops_g_same; cbn; rewrite E3; reflexivity|apply ops_keep_same; cbn; rewrite E3; reflexivity].
        eapply gsl_trans; [exact G2|]. eapply gsl_trans; [exact G3|apply gsl_refl; reflexivity].
      - apply (invG_step s _ I); [exact G2|apply ops_g_same; reflexivity|apply ops_keep_same; reflexivity|exact G]. }
    rewrite D. apply (invG_step s _ I); [exact G1|apply ops_g_same; reflexivity|apply ops_keep_same; reflexivity|exact G].
  - (* LRelRecvErr *)
    destruct (rd s); try discriminate. destruct (stop_locked c s) as [s1 first] eqn:Est.
    destruct (stop_locked_g _ _ _ _ Est) as (A1 & A2). injection E as <-.
    apply (invG_step s _ I); [| | |exact G].
    + eapply gsl_trans; [exact A1|]. destruct first; apply gsl_refl; reflexivity.
    + apply ops_g_same. destruct first; exact A2.
    + apply ops_keep_same. destruct first; exact A2.
  - (* LRelClose *)
    destruct (op_at s n) as [o|] eqn:Eo; [|discriminate]. destruct (o_pc o) eqn:Epc; try discriminate.
    destruct (stop_locked SCClosed s) as [s1 first] eqn:Est.
    destruct (stop_locked_g _ _ _ _ Est) as (A1 & A2). injection E as <-.
    apply (invG_step s _ I); [| | |exact G].
    + eapply gsl_trans; [exact A1|]. apply gsl_refl; reflexivity.
    + eapply ops_g_upd; [cbn; rewrite A2; reflexivity|reflexivity|]. intros o1 p i H1 _ _. rewrite Eo in H1. injection H1 as <-.
      left. unfold must_settle. rewrite Epc. exact Logic.I.
    + eapply ops_keep_upd; [cbn; rewrite A2; reflexivity|reflexivity].
  - (* LRelCbReply *)
    destruct (nth_error (cbs s) c) as [cb|]; [|discriminate]. destruct (cb_st cb); try discriminate.
    injection E as <-. destruct (err s); apply (invG_same s); auto.
Qed.

Lemma invG_settle1 s s' : inv1 s -> invG s -> settle1 s = Some s' -> invG s'.
Proof.
  intros I G E.
  destruct (settle1_inv s s' (i_crash _ (proj1 I)) E) as [(b & ms & q & _ & _ & ->)|[(q & _ & _ & ->)|[(c & q & _ & _ & ->)|(n & o & Ho & Hr & ->)]]];
    try solve [apply (invG_same s); auto].
  destruct (op_advance_cases n o s Hr) as [(k & i & Hpc & Hn & Hv & ->)|[(k & Hpc & Hn & ->)|(b & Hpc & Hw & ->)]].
  - destruct (settle_slot_g i s I) as (G3 & E3 & Hset).
    apply (invG_step s _ I); [| | |exact G].
    + eapply gsl_trans; [exact G3|apply gsl_refl; reflexivity].
    + eapply ops_g_upd; [cbn; rewrite E3; reflexivity|reflexivity|]. intros o1 p i1 H1 Hp Hm. rewrite Ho in H1. injection H1 as <-.
      unfold must_settle in *. cbn in Hm. rewrite Hpc.
      destruct (Nat.eq_dec p k) as [->|N]; [|left; lia]. right. right. rewrite Hn in Hp. injection Hp as <-. apply (Hset Hv).
    + eapply ops_keep_upd; [cbn; rewrite E3; reflexivity|reflexivity].
  - apply (invG_step s _ I); [| | |exact G].
    + apply gsl_refl; reflexivity.
    + eapply ops_g_upd; [reflexivity|reflexivity|]. intros o1 p i1 H1 Hp _. rewrite Ho in H1. injection H1 as <-.
      left. unfold must_settle. rewrite Hpc. destruct (Nat.lt_ge_cases p k) as [L|L]; auto.
      exfalso. assert (X : nth_error (o_slots o) p = None). { apply nth_error_None. apply nth_error_None in Hn. lia. } congruence.
    + eapply ops_keep_upd; reflexivity.
  - apply (invG_step s _ I); [| | |exact G].
    + apply gsl_refl. destruct b; [destruct (err s)|]; reflexivity.
    + eapply ops_g_upd; [destruct b; [destruct (err s)|]; reflexivity|reflexivity|]. intros o1 p i1 H1 _ _. rewrite Ho in H1. injection H1 as <-.
      left. unfold must_settle. rewrite Hpc. exact Logic.I.
    + eapply ops_keep_upd; [destruct b; [destruct (err s)|]; reflexivity|reflexivity].
Qed.

Theorem invG_reach c s : reach c s -> inv1 s /\ invG s.
Proof.
  apply (reach_inv (fun s => inv1 s /\ invG s)).
  - split; [apply inv1_init|apply invG_init].
  - intros s0 l s' (I & G) Cr E. split; [eapply inv1_step_raw|eapply invG_step_raw]; eauto.
  - intros s0 s' (I & G) E. split; [eapply inv1_settle1|eapply invG_settle1]; eauto.
Qed.

(** * C05: leaving no goroutine behind *)
Lemma no_goroutine_left c tr s : traces_to c tr s -> quiescent s = true -> err s <> None ->
  (c_unblock s = true \/ rd s = RExited) ->
  gcount s = 0
  /\ rd s = RExited /\ (forall o, In o (ops s) -> o_pc o = PDone) /\ (forall sl, In sl (slots s) -> watch_alive sl = false)
  /\ (forall d, In d (delivs s) -> d_st d = DDone) /\ (forall cb, In cb (cbs s) -> cb_st cb = CbDone).
Proof.
  intros T Q He Hyp. assert (R := traces_reach _ _ _ T).
  destruct (invCP_reach c s R) as (I & C & P). destruct (invW_reach c s R) as (_ & [WA WB WC WD]).
  destruct (invG_reach c s R) as (_ & [GA GB GC]).
  destruct (quiescent_parked s Q) as (Qo & Qs & Qd & Qr & Qc).
  destruct (live_at_quiescence c tr s T Q) as (L1 & _). destruct (close_returns c tr s T Q) as (_ & _ & CR).
  (* every operation has returned *)
  assert (Hops : forall n o, op_at s n = Some o -> o_pc o = PDone).
  { intros n o Ho. destruct (o_pc o) eqn:Epc; auto; exfalso.
    all: destruct (L1 n o Ho ltac:(congruence)) as [(_ & _ & X & _)|(_ & _ & b & Hb)]; [contradiction|].
    all: rewrite Epc in Hb; try discriminate. eapply CR; eauto. }
  (* the reader has exited *)
  assert (Hrd : rd s = RExited).
  { destruct Hyp as [Hu|?]; auto. destruct (rd s) eqn:Erd; auto.
    - exfalso. destruct (WC He Hu) as [X|(c0 & X)]; [congruence|].
      unfold quiescent in Q. apply andb_true_iff in Q. destruct Q as [_ Q]. unfold settle1 in Q.
      rewrite (i_crash _ (proj1 I)), Erd in Q. destruct (ch_in s) as [|f q]; [destruct X|]. destruct f as [[|b' ms]|c']; discriminate.
    - exfalso. eapply Qr; eauto. }
  assert (Hd : forall d, In d (delivs s) -> d_st d = DDone).
  { intros d Hin. assert (X := Qd d Hin). unfold deliv_parked in X. destruct (d_st d); [discriminate|reflexivity]. }
  assert (Hcb : forall cb, In cb (cbs s) -> cb_st cb = CbDone).
  { intros cb Hin. assert (X := Qc cb Hin). assert (Y := cnt_zero_in _ _ _ (WB He) Hin).
    unfold cb_at_reply, cb_running in *. destruct (cb_st cb); auto; discriminate. }
  (* no watcher is alive: a blocked one would belong to a delivered, not yet awaited response of a returned operation *)
  assert (Hw : forall sl, In sl (slots s) -> watch_alive sl = false).
  { intros sl Hin. apply In_nth_error in Hin. destruct Hin as [i Hs]. fold (slot_at s i) in Hs.
    assert (Hnp : watch_parked sl = false) by (apply Qs; eapply nth_error_In; eauto).
    unfold watch_alive. unfold watch_parked in Hnp. destruct (sl_watch sl) eqn:Ew; auto; try discriminate. exfalso.
    assert (Hr : sl_reg sl = true).
    { destruct (sl_reg sl) eqn:Er; auto. destruct (c_unreg _ C _ _ Hs Er) as (_ & X). congruence. }
    assert (Hp : sl_pctx sl = None). { assert (X := c_watch _ C _ _ Hs Hr). unfold watch_ok in X. rewrite Ew in X. exact X. }
    destruct (sl_buf sl) as [v|] eqn:Hb; [|apply (c_stop _ C _ _ Hs Hr Hb He Hp)].
    destruct (GB _ _ Hs) as (o & Ho & Hi). apply In_nth_error in Hi. destruct Hi as [p Hp'].
    assert (Hset : sl_settled sl = true).
    { eapply GC; eauto. unfold must_settle. rewrite (Hops _ _ Ho). exact Logic.I. }
    destruct (GA _ _ Hs Hset) as (X & _). contradiction. }
  assert (Hall : forall o, In o (ops s) -> o_pc o = PDone).
  { intros o Hin. apply In_nth_error in Hin. destruct Hin as [n Hn]. eapply Hops; eauto. }
  splits; auto.
  unfold gcount. rewrite Hrd.
  rewrite (filter_none deliv_parked (delivs s)), (filter_none cb_alive (cbs s)), (filter_none watch_alive (slots s)), (filter_none op_alive (ops s)); auto.
  all: try (intros o Hin; unfold op_alive; rewrite (Hall o Hin); reflexivity).
  all: try (intros cb Hin; unfold cb_alive; rewrite (Hcb cb Hin); reflexivity).
  all: try (intros d Hin; unfold deliv_parked; rewrite (Hd d Hin); reflexivity).
Qed.

(* non-vacuity: ex_trace5 (a cancelled call, Close, an operation on the stopped client) ends quiescent with no
   goroutine; and a state that is quiescent but whose reader cannot exit keeps the reader and the Close *)
Example no_goroutine_left_nonvacuous :
  (exists s, traces_to ex_cfg ex_trace5 s /\ quiescent s = true /\ err s <> None /\ c_unblock s = true /\ gcount s = 0
             /\ length (slots s) = 1 /\ length (ops s) = 3)
  /\ (exists s, traces_to ex_cfg_nounblock ex_trace_close_blocked s /\ quiescent s = true /\ err s <> None /\ gcount s = 2).
Proof.
  split.
  - destruct (run (init_of ex_cfg) ex_trace5) as [[s oss]|] eqn:E; [|revert E; vm_compute; discriminate].
    exists s. split; [exists oss; exact E|]. revert E. vm_compute. intros [= <- _]. splits; auto. discriminate.
  - destruct (run (init_of ex_cfg_nounblock) ex_trace_close_blocked) as [[s oss]|] eqn:E; [|revert E; vm_compute; discriminate].
    exists s. split; [exists oss; exact E|]. revert E. vm_compute. intros [= <- _]. splits; auto. discriminate.
Qed.
