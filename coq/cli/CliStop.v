(* CliStop: the stop state of the client model (C05 OnStop clause, C10 Close-once clause).

   c.err is set once and never changes (the first stop cause wins); stopLocked closes the
   channel exactly when it sets c.err, so [closes s] and the number of [OClose] observations
   are 1 once the client has stopped and 0 before; OnStop is observed at most once, with the
   recorded cause as its argument: it has run exactly when the client has stopped and no
   Close that recorded the cause is still in done.Wait() (in Go OnStop runs in the goroutine
   that stopped the client: the reader right after stopLocked, a Close after done.Wait()). *)
From Coq Require Import List NArith ZArith Bool Arith Lia.
From RecordUpdate Require Import RecordUpdate.
From JV Require Import Bytes Msg CliModel CliLemmas CliInv CliRet CliProofs CliC05 CliCtx CliOps CliHist CliLive CliWg CliSend CliNoStop CliStep.
Import ListNotations.

Definition is_onstop (o : obs) : bool := match o with OOnStop _ => true | _ => false end.
Definition is_oclose (o : obs) : bool := match o with OClose => true | _ => false end.
(* a Close whose stopLocked recorded the cause and that has not yet come back from done.Wait() *)
Definition stopper_waiting (o : oprec) : bool := match o_pc o with PCloseWait true => true | _ => false end.
Definition stopped (s : state) : nat := if is_some (err s) then 1 else 0.

Definition stopobs (o : obs) : bool := match o with OOnStop _ | OClose => true | _ => false end.
Definition nost (os : list obs) : bool := forallb (fun o => negb (stopobs o)) os.

Record invT (s : state) : Prop := {
  t_closes : closes s = stopped s;
  t_oclose : cnt is_oclose (hist s) = closes s;
  t_onstop : cnt is_onstop (hist s) + cnt stopper_waiting (ops s) = stopped s;
  t_arg : forall c, In (OOnStop c) (hist s) -> err s = Some c;
  t_stopper : cnt stopper_waiting (ops s) <> 0 -> err s = Some SCClosed
}.

Lemma nost_cnt_onstop os : nost os = true -> cnt is_onstop os = 0.
Proof.
  unfold nost, cnt. induction os as [|o r IH]; cbn; auto.
  rewrite andb_true_iff. intros [H1 H2]. destruct o; cbn in *; auto; discriminate.
Qed.

Lemma nost_cnt_oclose os : nost os = true -> cnt is_oclose os = 0.
Proof.
  unfold nost, cnt. induction os as [|o r IH]; cbn; auto.
  rewrite andb_true_iff. intros [H1 H2]. destruct o; cbn in *; auto; discriminate.
Qed.

Lemma nost_in c os : nost os = true -> ~ In (OOnStop c) os.
Proof. unfold nost. rewrite forallb_forall. intros H Hin. apply H in Hin. discriminate. Qed.

(** * frame: steps that neither stop the client nor touch a waiting stopper *)
Definition tframe (s s' : state) : Prop :=
  err s' = err s /\ closes s' = closes s /\ cnt stopper_waiting (ops s') = cnt stopper_waiting (ops s)
  /\ exists os, hist s' = hist s ++ os /\ nost os = true.

Lemma tframe_refl s : tframe s s.
Proof. unfold tframe. splits; auto. exists []. rewrite app_nil_r. auto. Qed.

Lemma tframe_trans a b c : tframe a b -> tframe b c -> tframe a c.
Proof.
  intros (A1 & A2 & A3 & o1 & A4 & A5) (B1 & B2 & B3 & o2 & B4 & B5). unfold tframe. splits; try congruence.
  exists (o1 ++ o2). rewrite B4, A4, app_assoc. split; auto. unfold nost in *. rewrite forallb_app, A5, B5. auto.
Qed.

Lemma tframe_same s s' : err s' = err s -> closes s' = closes s -> ops s' = ops s -> hist s' = hist s -> tframe s s'.
Proof. intros E1 E2 E3 E4. unfold tframe. rewrite E3. splits; auto. exists []. rewrite app_nil_r. auto. Qed.

Lemma tframe_emit os s s' : err s' = err s -> closes s' = closes s -> ops s' = ops s -> hist s' = hist s ++ os -> nost os = true -> tframe s s'.
Proof. intros E1 E2 E3 E4 N. unfold tframe. rewrite E3. splits; auto. exists os. auto. Qed.

(* operation n is replaced by g o, g not touching whether it is a waiting stopper *)
Lemma tframe_set_op os s s' n g : err s' = err s -> closes s' = closes s -> ops s' = upd_nth n g (ops s) ->
  (forall o, op_at s n = Some o -> stopper_waiting (g o) = stopper_waiting o) ->
  hist s' = hist s ++ os -> nost os = true -> tframe s s'.
Proof.
  intros E1 E2 E3 Hg E4 N. unfold tframe. splits; auto; [|exists os; auto]. rewrite E3.
  destruct (op_at s n) as [o|] eqn:Eo.
  - eapply cnt_upd_eq; eauto.
  - rewrite upd_nth_none; auto.
Qed.

Lemma invT_frame s s' : tframe s s' -> invT s -> invT s'.
Proof.
  intros (E1 & E2 & E3 & os & E4 & N) [A B C D F]. constructor; unfold stopped in *.
  - rewrite E2, E1. exact A.
  - rewrite E4, cnt_app, (nost_cnt_oclose _ N), E2, Nat.add_0_r. exact B.
  - rewrite E4, cnt_app, (nost_cnt_onstop _ N), E3, E1. lia.
  - intros c Hin. rewrite E4 in Hin. apply in_app_or in Hin. destruct Hin as [Hin|Hin].
    + rewrite E1. auto.
    + exfalso. eapply nost_in; eauto.
  - rewrite E3, E1. exact F.
Qed.

(** * helper functions *)
Lemma settle_slot_t i s : inv1 s -> tframe s (settle_slot i s).
Proof.
  intros I. destruct (settle_slot_eq s i I) as [->|(sl & v & _ & _ & _ & ->)]; [apply tframe_refl|].
  apply tframe_same; reflexivity.
Qed.

Lemma deliver_member_t j k m s : inv1 s -> tframe s (deliver_member j k m s).
Proof.
  intros I. destruct (deliver_member_cases j k m s I) as [->|[(_ & ->)|[(_ & _ & _ & ->)|(i & _ & _ & ->)]]].
  - apply tframe_refl.
  - eapply tframe_emit; reflexivity.
  - eapply tframe_emit; reflexivity.
  - apply tframe_same; reflexivity.
Qed.

Lemma deliver_all_t j ms : forall k s, inv1 s -> tframe s (deliver_all j k ms s).
Proof.
  induction ms as [|m r IH]; intros k s I; cbn; [apply tframe_refl|].
  rewrite (i_crash _ (proj1 I)). eapply tframe_trans; [apply deliver_member_t; auto|].
  apply IH. apply deliver_member_inv1; auto.
Qed.

Lemma register_fold_t ctx L : forall s,
  let s' := fold_left (fun st i => register ctx i st) L s in
  err s' = err s /\ closes s' = closes s /\ ops s' = ops s /\ hist s' = hist s.
Proof.
  induction L as [|i r IH]; intros s; cbn; [auto|].
  destruct (IH (register ctx i s)) as (A1 & A2 & A3 & A4). rewrite A1, A2, A3, A4.
  unfold register. destruct (slot_at s i); [destruct (is_some _)|]; auto.
Qed.

(** * the invariant holds in every reachable state *)
Lemma invT_init c : invT (init_of c).
Proof.
  constructor; try reflexivity.
  - intros c0 [].
  - intros X. exfalso. apply X. reflexivity.
Qed.

Lemma scan_not_stopper l z pc : scan l z = Some pc -> (match pc with PCloseWait true => true | _ => false end) = false.
Proof. intros H. destruct (scan_pc _ _ _ H) as [->|[k ->]]; reflexivity. Qed.

(* the client stops now: c.err was unset, [s1] is the state right after stopLocked *)
Lemma invT_stop s s1 c : invT s -> err s = None -> err s1 = Some c -> closes s1 = S (closes s) -> hist s1 = hist s ++ [OClose] ->
  (closes s1 = stopped s1 /\ cnt is_oclose (hist s1) = closes s1)
  /\ cnt is_onstop (hist s1) = 0 /\ cnt stopper_waiting (ops s) = 0 /\ (forall c0, ~ In (OOnStop c0) (hist s1)).
Proof.
  intros [A B C D F] Ee E1 E2 E3. unfold stopped in *. rewrite Ee in *. cbn in *.
  rewrite E1, E2, E3, A. cbn. splits; auto; try lia.
  - rewrite cnt_app, cnt_one, B, A. reflexivity.
  - rewrite cnt_app, cnt_one. cbn. lia.
  - intros c0 Hin. apply in_app_or in Hin. destruct Hin as [Hin|[Hin|[]]]; [|discriminate].
    specialize (D _ Hin). discriminate.
Qed.

Lemma invT_step_raw s l s' : inv1 s -> invT s -> step_raw s l = Some s' -> invT s'.
Proof.
  intros I T E. destruct l; cbn in E.
  - (* LOp *)
    destruct (negb (n =? length (ops s)) || negb (specs_ok k specs)) eqn:G0; [discriminate|].
    apply orb_false_iff in G0. destruct G0 as [G1 _]. apply negb_false_iff, Nat.eqb_eq in G1. subst n.
    set (o0 := mkOp k specs [] PDone None None) in *.
    assert (Fr : forall s0 g os, ops s0 = upd_nth (length (ops s)) g (ops s ++ [o0]) -> stopper_waiting (g o0) = false ->
                   err s0 = err s -> closes s0 = closes s -> hist s0 = hist s ++ os -> nost os = true -> invT s0).
    { intros s0 g os E0 Hg E1 E2 E3 N. apply (invT_frame s); auto. unfold tframe. splits; auto; [|exists os; auto].
      rewrite E0, cnt_new, Hg. lia. }
    destruct k.
    1-3: destruct (is_nil specs); [injection E as <-; eapply (Fr _ _ [ORet _ _]); reflexivity|];
         destruct (scan specs 0) as [pc|] eqn:Sc; injection E as <-;
         [eapply (Fr _ _ []); try reflexivity; [unfold stopper_waiting; cbn; eapply scan_not_stopper; eauto|cbn; rewrite app_nil_r; reflexivity]
         |eapply (Fr _ _ [ORet _ _]); reflexivity].
    injection E as <-. eapply (Fr _ _ []); try reflexivity. cbn. rewrite app_nil_r. reflexivity.
  - (* LFeed *) injection E as <-. apply (invT_frame s); auto. apply tframe_same; reflexivity.
  - (* LSendFault *) injection E as <-. apply (invT_frame s); auto. apply tframe_same; reflexivity.
  - (* LCtxEnd *)
    destruct (op_at s n) as [o|] eqn:Eo; [|discriminate]. destruct (o_ctx o); injection E as <-; auto.
    apply (invT_frame s); auto. eapply (tframe_set_op []); try reflexivity. cbn. rewrite app_nil_r. reflexivity.
  - (* LCbGate *)
    destruct (find_idx _ 0 (cbs s)); [|discriminate]. injection E as <-. apply (invT_frame s); auto. apply tframe_same; reflexivity.
  - (* LRelReq *)
    destruct (op_at s n) as [o|] eqn:Eo; [|discriminate]. destruct (o_pc o) eqn:Epc; try discriminate.
    assert (Hs : stopper_waiting o = false) by (unfold stopper_waiting; rewrite Epc; reflexivity).
    match type of E with (match ?x with Some _ => _ | None => _ end) = _ => destruct x as [pc|] eqn:Sc end; injection E as <-;
      apply (invT_frame s); auto.
    + eapply (tframe_set_op [] _ _ n (fun o0 => o0 <| o_slots ::= fun l => l ++ [length (slots s)] |> <| o_pc := pc |>)); try reflexivity.
      * cbn. rewrite upd_nth_comp. reflexivity.
      * intros o1 H1. rewrite Eo in H1. injection H1 as <-. rewrite Hs. unfold stopper_waiting. cbn. eapply scan_not_stopper; eauto.
      * cbn. rewrite app_nil_r. reflexivity.
    + eapply (tframe_set_op [ORet n (RetFail EBadParams)] _ _ n
                (fun o0 => o0 <| o_slots ::= fun l => l ++ [length (slots s)] |> <| o_pc := PDone |> <| o_ret := Some (RetFail EBadParams) |>));
        try reflexivity.
      * cbn. rewrite upd_nth_comp. reflexivity.
      * intros o1 H1. rewrite Eo in H1. injection H1 as <-. rewrite Hs. reflexivity.
  - (* LRelSend *)
    destruct (op_at s n) as [o|] eqn:Eo; [|discriminate]. destruct (o_pc o) eqn:Epc; try discriminate.
    assert (Hs : stopper_waiting o = false) by (unfold stopper_waiting; rewrite Epc; reflexivity).
    assert (Hg : forall g, (forall o1, stopper_waiting (g o1) = false) -> forall o1, op_at s n = Some o1 -> stopper_waiting (g o1) = stopper_waiting o1).
    { intros g H o1 H1. rewrite Eo in H1. injection H1 as <-. rewrite Hs. apply H. }
    apply (invT_frame s); auto.
    destruct (err s); [injection E as <-; eapply (tframe_set_op [ORet _ _]); try reflexivity; apply Hg; reflexivity|].
    destruct (negb (send_fail s)); injection E as <-.
    + match goal with |- tframe s (set_op _ _ (fold_left _ ?L ?s1)) => destruct (register_fold_t (o_ctx o) L s1) as (A1 & A2 & A3 & A4) end.
      eapply (tframe_set_op [OSendReq _ _ _] _ _ n (fun o0 => o0 <| o_pc := PWait 0 |>)); try reflexivity.
      * cbn. cbn in A1. exact A1.
      * cbn. cbn in A2. exact A2.
      * cbn. cbn in A3. rewrite A3. reflexivity.
      * apply Hg; reflexivity.
      * cbn. cbn in A4. exact A4.
    + eapply (tframe_set_op [OSendReq _ _ _; ORet _ _]); try reflexivity; [apply Hg; reflexivity|].
      cbn. rewrite <- app_assoc. reflexivity.
  - (* LRelDeliver *)
    destruct (nth_error (delivs s) j) as [d|] eqn:Ed; [|discriminate]. destruct (d_st d); [|discriminate].
    destruct (deliver_all_inv1 j (d_msgs d) 0 s I) as (I1 & _).
    rewrite (i_crash _ (proj1 I1)) in E. injection E as <-.
    apply (invT_frame s); auto. eapply tframe_trans; [apply deliver_all_t; auto|]. apply tframe_same; reflexivity.
  - (* LRelWatch *)
    destruct (watch_decomp s i s' I E) as (sl & Es & Ew & D). cbn zeta in D. apply (invT_frame s); auto.
    destruct (assoc (id_text (sl_id sl)) (pending s)); [|rewrite D; apply tframe_same; reflexivity].
    destruct D as (_ & _ & I2 & ->). destruct (c_oncancel s); [|apply tframe_same; reflexivity].
    eapply tframe_trans; [|eapply tframe_trans; [apply settle_slot_t; exact I2|eapply tframe_emit; reflexivity]].
    apply tframe_same; reflexivity.
  - (* LRelRecvErr *)
    destruct (rd s); try discriminate. destruct (err s) as [c0|] eqn:Ee.
    + rewrite (stop_locked_some c s c0 Ee) in E. injection E as <-. apply (invT_frame s); auto. apply tframe_same; reflexivity.
    + destruct (stop_locked_none c s Ee) as (s1 & Est & B1 & B2 & B3 & B4 & _). rewrite Est in E. injection E as <-.
      destruct (invT_stop s s1 c T Ee B1 B2 B4) as ((C1 & C2) & C3 & C4 & C5).
      constructor; unfold stopped in *; cbn.
      * rewrite B1 in *. exact C1.
      * rewrite cnt_app, C2, cnt_one. cbn. lia.
      * rewrite cnt_app, C3, cnt_one, B3, C4, B1. reflexivity.
      * intros c0 Hin. apply in_app_or in Hin. destruct Hin as [Hin|[Hin|[]]]; [exfalso; eapply C5; eauto|].
        injection Hin as <-. exact B1.
      * rewrite B3, C4. intros X; contradiction.
  - (* LRelClose *)
    destruct (op_at s n) as [o|] eqn:Eo; [|discriminate]. destruct (o_pc o) eqn:Epc; try discriminate.
    assert (Hs : stopper_waiting o = false) by (unfold stopper_waiting; rewrite Epc; reflexivity).
    destruct (err s) as [c0|] eqn:Ee.
    + rewrite (stop_locked_some SCClosed s c0 Ee) in E. injection E as <-. apply (invT_frame s); auto.
      eapply (tframe_set_op []); try reflexivity.
      * intros o1 H1. rewrite Eo in H1. injection H1 as <-. rewrite Hs. reflexivity.
      * cbn. rewrite app_nil_r. reflexivity.
    + destruct (stop_locked_none SCClosed s Ee) as (s1 & Est & B1 & B2 & B3 & B4 & _). rewrite Est in E. injection E as <-.
      destruct (invT_stop s s1 SCClosed T Ee B1 B2 B4) as ((C1 & C2) & C3 & C4 & C5).
      assert (X := cnt_upd stopper_waiting (fun o0 => o0 <| o_pc := PCloseWait true |>) (ops s) n o Eo).
      rewrite Hs in X. cbn in X.
      constructor; unfold stopped in *; cbn.
      * rewrite B1 in *. exact C1.
      * exact C2.
      * rewrite C3, B3, B1. cbn. lia.
      * intros c0 Hin. exfalso; eapply C5; eauto.
      * intros _. exact B1.
  - (* LRelCbReply *)
    destruct (nth_error (cbs s) c) as [cb|]; [|discriminate]. destruct (cb_st cb); try discriminate.
    injection E as <-. apply (invT_frame s); auto.
    destruct (err s) eqn:Ee; [apply tframe_same; auto|eapply tframe_emit; try reflexivity; auto].
Qed.

Lemma invT_settle1 s s' : inv1 s -> invT s -> settle1 s = Some s' -> invT s'.
Proof.
  intros I T E.
  destruct (settle1_inv s s' (i_crash _ (proj1 I)) E) as [(b & ms & q & _ & _ & ->)|[(q & _ & _ & ->)|[(c & q & _ & _ & ->)|(n & o & Ho & Hr & ->)]]];
    try (apply (invT_frame s); auto; apply tframe_same; reflexivity).
  destruct (op_advance_cases n o s Hr) as [(k & i & Hpc & Hn & _ & ->)|[(k & Hpc & Hn & ->)|(b & Hpc & Hw & ->)]].
  - apply (invT_frame s); auto. eapply tframe_trans; [apply settle_slot_t; auto|].
    destruct (settle_slot_inv1 i s I) as (_ & Eo & _).
    eapply (tframe_set_op [] _ _ n (fun o0 => o0 <| o_pc := PWait (S k) |>)); try reflexivity.
    + intros o1 H1. unfold op_at in H1. rewrite Eo in H1. fold (op_at s n) in H1. rewrite Ho in H1. injection H1 as <-.
      unfold stopper_waiting. cbn. rewrite Hpc. reflexivity.
    + cbn. rewrite app_nil_r. reflexivity.
  - apply (invT_frame s); auto. eapply (tframe_set_op [ORet _ _]); try reflexivity.
    intros o1 H1. rewrite Ho in H1. injection H1 as <-. unfold stopper_waiting. cbn. rewrite Hpc. reflexivity.
  - destruct b.
    + (* the Close that stopped the client comes back from done.Wait(): OnStop *)
      assert (Hst : stopper_waiting o = true) by (unfold stopper_waiting; rewrite Hpc; reflexivity).
      assert (He : err s = Some SCClosed) by (apply (t_stopper _ T); eapply cnt_pos; eauto).
      rewrite He.
      assert (X := cnt_upd stopper_waiting (fun o0 => o0 <| o_pc := PDone |> <| o_ret := Some (close_ret s) |>) (ops s) n o Ho).
      rewrite Hst in X. cbn in X.
      destruct T as [A B C D F]. constructor; unfold stopped in *; cbn; rewrite ?He in *; cbn in *.
      * exact A.
      * rewrite !cnt_app, !cnt_one. cbn. lia.
      * rewrite !cnt_app, !cnt_one. cbn. lia.
      * intros c0 Hin. apply in_app_or in Hin. destruct Hin as [Hin|[Hin|[]]]; [|discriminate].
        apply in_app_or in Hin. destruct Hin as [Hin|[Hin|[]]]; auto. injection Hin as <-. reflexivity.
      * intros _. reflexivity.
    + apply (invT_frame s); auto. eapply (tframe_set_op [ORet _ _]); try reflexivity.
      intros o1 H1. rewrite Ho in H1. injection H1 as <-. unfold stopper_waiting. cbn. rewrite Hpc. reflexivity.
Qed.

Theorem invT_reach c s : reach c s -> inv1 s /\ invT s.
Proof.
  apply (reach_inv (fun s => inv1 s /\ invT s)).
  - split; [apply inv1_init|apply invT_init].
  - intros s0 l s' (I & T) Cr E. split; [eapply inv1_step_raw|eapply invT_step_raw]; eauto.
  - intros s0 s' (I & T) E. split; [eapply inv1_settle1|eapply invT_settle1]; eauto.
Qed.

(** * c.err is stable once set *)
Lemma step_raw_err s l s' c : inv1 s -> step_raw s l = Some s' -> err s = Some c -> err s' = Some c.
Proof.
  intros I E Ee. destruct l; cbn in E.
  - destruct (negb (n =? length (ops s)) || negb (specs_ok k specs)); [discriminate|].
    destruct k.
    1-3: destruct (is_nil specs); [injection E as <-; exact Ee|]; destruct (scan specs 0); injection E as <-; exact Ee.
    injection E as <-; exact Ee.
  - injection E as <-; exact Ee.
  - injection E as <-; exact Ee.
  - destruct (op_at s n) as [o|]; [|discriminate]. destruct (o_ctx o); injection E as <-; exact Ee.
  - destruct (find_idx _ 0 (cbs s)); [|discriminate]. injection E as <-; exact Ee.
  - destruct (op_at s n) as [o|]; [|discriminate]. destruct (o_pc o); try discriminate.
    match type of E with (match ?x with Some _ => _ | None => _ end) = _ => destruct x end; injection E as <-; exact Ee.
  - destruct (op_at s n) as [o|]; [|discriminate]. destruct (o_pc o); try discriminate.
    rewrite Ee in E. injection E as <-; exact Ee.
  - destruct (nth_error (delivs s) j) as [d|]; [|discriminate]. destruct (d_st d); [|discriminate].
    destruct (env_deliver_all j (d_msgs d) 0 s) as (A & _).
    destruct (crash (deliver_all j 0 (d_msgs d) s)); injection E as <-; cbn; rewrite A; exact Ee.
  - destruct (watch_decomp s i s' I E) as (sl & Es & Ew & D). cbn zeta in D.
    destruct (assoc (id_text (sl_id sl)) (pending s)); [|rewrite D; exact Ee].
    destruct D as (_ & _ & I2 & ->). destruct (c_oncancel s); [|exact Ee].
    cbn. match goal with |- err (settle_slot ?i ?s2) = _ => destruct (env_settle_slot i s2) as (A & _); rewrite A end. exact Ee.
  - destruct (rd s); try discriminate. rewrite (stop_locked_some _ s c Ee) in E. injection E as <-; exact Ee.
  - destruct (op_at s n) as [o|]; [|discriminate]. destruct (o_pc o); try discriminate.
    rewrite (stop_locked_some _ s c Ee) in E. injection E as <-; exact Ee.
  - destruct (nth_error (cbs s) c0) as [cb|]; [|discriminate]. destruct (cb_st cb); try discriminate.
    rewrite Ee in E. injection E as <-; exact Ee.
Qed.

Lemma settle1_err s s' : inv1 s -> settle1 s = Some s' -> err s' = err s.
Proof.
  intros I E.
  destruct (settle1_inv s s' (i_crash _ (proj1 I)) E) as [(b & ms & q & _ & _ & ->)|[(q & _ & _ & ->)|[(c & q & _ & _ & ->)|(n & o & Ho & Hr & ->)]]];
    try reflexivity.
  destruct (op_advance_cases n o s Hr) as [(k & i & Hpc & Hn & _ & ->)|[(k & Hpc & Hn & ->)|(b & Hpc & Hw & ->)]]; try reflexivity.
  - cbn. destruct (env_settle_slot i s) as (A & _). exact A.
  - destruct b; [destruct (err s) eqn:Ee|]; cbn; congruence.
Qed.

Lemma step_err c0 s l s' os c : reach c0 s -> step s l = Some (s', os) -> err s = Some c -> err s' = Some c.
Proof.
  intros R E Ee. assert (I := inv1_reach c0 s R). unfold step in E. destruct (crash s); [discriminate|].
  destruct (step_raw s l) as [s1|] eqn:E1; [|discriminate].
  assert (Es : settle (settle_fuel s1) s1 = s') by congruence. rewrite <- Es.
  assert (G : inv1 (settle (settle_fuel s1) s1) /\ err (settle (settle_fuel s1) s1) = Some c); [|apply G].
  apply (settle_inv (fun st => inv1 st /\ err st = Some c)).
  - intros a b [Ia Ha] Hb. split; [eapply inv1_settle1; eauto|]. rewrite (settle1_err a b Ia Hb). exact Ha.
  - split; [eapply inv1_step_raw; eauto; apply I|eapply step_raw_err; eauto].
Qed.

Lemma run_err c0 tr : forall s s' oss c, reach c0 s -> run s tr = Some (s', oss) -> err s = Some c -> err s' = Some c.
Proof.
  induction tr as [|l r IH]; cbn; intros s s' oss c R H Ee.
  - injection H as <- <-. exact Ee.
  - destruct (step s l) as [[s1 os]|] eqn:E; [|discriminate].
    destruct (run s1 r) as [[s2 oss2]|] eqn:E2; [|discriminate]. injection H as <- <-.
    eapply IH; [eapply reach_step; eauto|exact E2|eapply step_err; eauto].
Qed.

(** * C05: the first stop cause wins *)
Lemma err_stable c tr s : traces_to c tr s ->
  (* once set, c.err never changes, whatever happens next (any label, any continuation of the trace) *)
  (forall l s' os c0, step s l = Some (s', os) -> err s = Some c0 -> err s' = Some c0)
  /\ (forall tr2 s2 c0, traces_to c (tr ++ tr2) s2 -> err s = Some c0 -> err s2 = Some c0)
  (* the channel was closed by stopLocked exactly if the client has stopped: at most once *)
  /\ closes s = (if is_some (err s) then 1 else 0) /\ closes s <= 1.
Proof.
  intros T. assert (R := traces_reach _ _ _ T). destruct (invT_reach c s R) as (I & TT). splits.
  - intros l s' os c0 E Ee. eapply step_err; eauto.
  - intros tr2 s2 c0 [oss H] Ee. destruct T as [oss1 H1].
    destruct (run_app_inv _ _ _ _ _ _ _ H1 H) as [oss2 H2].
    eapply run_err; eauto.
  - apply (t_closes _ TT).
  - rewrite (t_closes _ TT). unfold stopped. destruct (is_some (err s)); lia.
Qed.

(** * C05: OnStop runs exactly once per client, with the first stop cause *)
Definition onstop_count (h : list obs) : nat := cnt is_onstop h.

Lemma onstop_once c tr s : traces_to c tr s ->
  (* at most once *)
  onstop_count (hist s) <= 1
  (* exactly once iff the client has stopped and no Close that recorded the cause is still in done.Wait() *)
  /\ onstop_count (hist s) + cnt stopper_waiting (ops s) = (if is_some (err s) then 1 else 0)
  (* such a Close is the one that stopped the client *)
  /\ (forall n o, op_at s n = Some o -> o_pc o = PCloseWait true -> err s = Some SCClosed /\ onstop_count (hist s) = 0)
  (* the reader stopped the client, or the stopping Close has returned: OnStop has run *)
  /\ (err s <> None -> (forall n o, op_at s n = Some o -> o_pc o <> PCloseWait true) -> onstop_count (hist s) = 1)
  (* its argument is the recorded (first) stop cause *)
  /\ (forall c0, In (OOnStop c0) (hist s) -> err s = Some c0).
Proof.
  intros T. destruct (invT_reach c s (traces_reach _ _ _ T)) as (I & [A B C D F]). unfold onstop_count, stopped in *. splits; auto.
  - destruct (is_some (err s)); lia.
  - intros n o Ho Hpc.
    assert (Hp : cnt stopper_waiting (ops s) <> 0).
    { eapply cnt_pos; eauto. unfold stopper_waiting. rewrite Hpc. reflexivity. }
    split; auto. destruct (is_some (err s)); lia.
  - intros He Hno.
    assert (Hz : cnt stopper_waiting (ops s) = 0).
    { apply cnt_zero_all. intros o Hin. apply In_nth_error in Hin. destruct Hin as [n Hn].
      specialize (Hno n o Hn). unfold stopper_waiting. destruct (o_pc o) as [| | | |[|]|]; auto. contradiction. }
    destruct (err s); [|contradiction]. cbn in C. lia.
Qed.

(* non-vacuity: ex_trace5 - Close stops the client (OnStop after done.Wait()); a reader stop *)
Example onstop_once_nonvacuous :
  (exists s, traces_to ex_cfg ex_trace5 s /\ err s = Some SCClosed /\ onstop_count (hist s) = 1 /\ In (OOnStop SCClosed) (hist s) /\ closes s = 1)
  /\ (exists s, traces_to ex_cfg [LFeed (FErr SCEOF); LRelRecvErr; LOp 0 KClose []; LRelClose 0] s
        /\ err s = Some SCEOF /\ onstop_count (hist s) = 1 /\ In (OOnStop SCEOF) (hist s) /\ closes s = 1
        /\ In (ORet 0 (RetClose None)) (hist s))
  /\ (exists s o, traces_to ex_cfg_nounblock ex_trace_close_blocked s /\ op_at s 0 = Some o /\ o_pc o = PCloseWait true
        /\ onstop_count (hist s) = 0 /\ err s = Some SCClosed).
Proof.
  splits.
  - destruct (run (init_of ex_cfg) ex_trace5) as [[s oss]|] eqn:E; [|revert E; vm_compute; discriminate].
    exists s. split; [exists oss; exact E|]. revert E. vm_compute. intros [= <- _]. splits; auto 10.
  - match goal with |- exists s, traces_to ?c ?tr s /\ _ => destruct (run (init_of c) tr) as [[s oss]|] eqn:E; [|revert E; vm_compute; discriminate] end.
    exists s. split; [exists oss; exact E|]. revert E. vm_compute. intros [= <- _]. splits; auto 10.
  - destruct (run (init_of ex_cfg_nounblock) ex_trace_close_blocked) as [[s oss]|] eqn:E; [|revert E; vm_compute; discriminate].
    exists s. revert E. vm_compute. intros E. injection E as <- <-.
    eexists. split; [eexists; reflexivity|]. vm_compute. splits; auto.
Qed.
