(* CliObs: which observations each transition of the client model appends to the history,
   label by label ([step_raw_obs]) and for the unhooked micro steps ([settle1_obs]); which
   transitions change the wait group. *)
From Coq Require Import List NArith ZArith Bool Arith Lia.
From RecordUpdate Require Import RecordUpdate.
From JV Require Import Bytes Msg CliModel CliLemmas CliInv CliRet CliProofs CliC05 CliCtx CliOps CliHist CliLive CliWg CliSend CliNoStop CliStep CliStop.
Import ListNotations.

(* observations made by deliverLocked *)
Definition dobs (o : obs) : bool := match o with OOnNotify _ _ | OCbStart _ _ _ => true | _ => false end.

Definition send_obs (s : state) (o : oprec) : obs :=
  OSendReq (negb (send_fail s)) (negb (length (o_specs o) =? 1)) (req_members (o_specs o) (o_slots o) s).

Definition raw_shape (s : state) (l : label) (os : list obs) : Prop :=
  match l with
  | LOp n k specs => os = [] \/ os = [ORet n (RetFail EEmptyBatch)] \/ os = [ORet n (RetFail EBadParams)]
  | LFeed _ | LSendFault _ | LCtxEnd _ _ | LCbGate _ _ => os = []
  | LRelReq n => os = [] \/ os = [ORet n (RetFail EBadParams)]
  | LRelSend n =>
      exists o, op_at s n = Some o /\ o_pc o = PSend /\
        match err s with
        | Some c => os = [ORet n (RetFail (EStopped c))]
        | None => os = if send_fail s then [send_obs s o; ORet n (RetFail ESendFail)] else [send_obs s o]
        end
  | LRelDeliver j => (exists d, nth_error (delivs s) j = Some d /\ d_st d = DParked) /\ forallb dobs os = true
                     /\ (c_onnotify s = false -> forall m p, ~ In (OOnNotify m p) os)
                     /\ ((c_oncallback s = false \/ err s <> None) -> forall i m p, ~ In (OCbStart i m p) os)
  | LRelWatch i => os = [] \/ exists sl, slot_at s i = Some sl /\ c_oncancel s = true
                                          /\ os = [OOnCancel (id_text (sl_id sl)) (Some (watch_werr (err s) (sl_pctx sl)))]
  | LRelRecvErr => exists c, rd s = RHold c /\ os = match err s with None => [OClose; OOnStop c] | Some _ => [] end
  | LRelClose n => (exists o, op_at s n = Some o /\ o_pc o = PClose) /\ os = match err s with None => [OClose] | Some _ => [] end
  | LRelCbReply c =>
      exists cb o, nth_error (cbs s) c = Some cb /\ cb_st cb = CbAtReply o
        /\ os = match err s with None => [OSendRsp (negb (send_fail s)) (cb_id cb) o] | Some _ => [] end
  end.

Lemma deliver_member_obs j k m s : inv1 s ->
  exists os, hist (deliver_member j k m s) = hist s ++ os /\ forallb dobs os = true
    /\ (c_onnotify s = false -> forall m p, ~ In (OOnNotify m p) os)
    /\ ((c_oncallback s = false \/ err s <> None) -> forall i m p, ~ In (OCbStart i m p) os)
    /\ c_onnotify (deliver_member j k m s) = c_onnotify s /\ c_oncallback (deliver_member j k m s) = c_oncallback s
    /\ err (deliver_member j k m s) = err s.
Proof.
  intros I. unfold deliver_member. destruct (is_req_or_notif m).
  - destruct (is_notification m).
    + destruct (c_onnotify s) eqn:En.
      * eexists. split; [reflexivity|]. splits; auto; try discriminate. all: intros _ i m0 p [H|[]]; discriminate.
      * exists []. rewrite app_nil_r. splits; auto.
    + destruct (c_oncallback s) eqn:Ec; cbn; [|exists []; rewrite app_nil_r; splits; auto].
      destruct (err s) eqn:Ee; cbn; [exists []; rewrite app_nil_r; splits; auto|].
      eexists. split; [reflexivity|]. splits; auto.
      * intros _ m0 p [H|[]]; discriminate.
      * intros [H|H]; [discriminate|contradiction].
  - destruct (assoc (fix_id (j_id m)) (pending s)) as [i|] eqn:E; [|exists []; rewrite app_nil_r; splits; auto].
    apply assoc_in in E. rewrite (write_pending_eq _ _ _ _ I E). exists []. rewrite app_nil_r. splits; auto.
Qed.

Lemma deliver_all_obs j ms : forall k s, inv1 s ->
  exists os, hist (deliver_all j k ms s) = hist s ++ os /\ forallb dobs os = true
    /\ (c_onnotify s = false -> forall m p, ~ In (OOnNotify m p) os)
    /\ ((c_oncallback s = false \/ err s <> None) -> forall i m p, ~ In (OCbStart i m p) os).
Proof.
  induction ms as [|m r IH]; intros k s I; cbn.
  - exists []. rewrite app_nil_r. splits; auto.
  - rewrite (i_crash _ (proj1 I)).
    destruct (deliver_member_obs j k m s I) as (o1 & A1 & A2 & A3 & A4 & A5 & A6 & A7).
    destruct (IH (S k) _ (proj1 (deliver_member_inv1 j k m s I))) as (o2 & B1 & B2 & B3 & B4).
    exists (o1 ++ o2). rewrite B1, A1, app_assoc. splits; auto.
    + rewrite forallb_app, A2, B2. reflexivity.
    + intros H m0 p Hin. apply in_app_or in Hin. destruct Hin as [Hin|Hin]; [eapply A3; eauto|].
      apply (B3 ltac:(rewrite A5; exact H) _ _ Hin).
    + intros H i m0 p Hin. apply in_app_or in Hin. destruct Hin as [Hin|Hin]; [eapply A4; eauto|].
      apply (B4 ltac:(rewrite A6, A7; exact H) _ _ _ Hin).
Qed.

Lemma step_raw_obs s l s' : inv1 s -> step_raw s l = Some s' -> exists os, hist s' = hist s ++ os /\ raw_shape s l os.
Proof.
  intros I E. destruct l; cbn [raw_shape]; cbn in E.
  - destruct (negb (n =? length (ops s)) || negb (specs_ok k specs)); [discriminate|].
    destruct k.
    1-3: destruct (is_nil specs); [injection E as <-; eexists; split; [reflexivity|auto]|];
         destruct (scan specs 0); injection E as <-; [exists []; rewrite app_nil_r; split; [reflexivity|auto]|eexists; split; [reflexivity|auto]].
    injection E as <-. exists []. rewrite app_nil_r. split; [reflexivity|auto].
  - injection E as <-. exists []. rewrite app_nil_r. split; reflexivity.
  - injection E as <-. exists []. rewrite app_nil_r. split; reflexivity.
  - destruct (op_at s n) as [o|]; [|discriminate]. destruct (o_ctx o); injection E as <-; exists []; rewrite app_nil_r; split; reflexivity.
  - destruct (find_idx _ 0 (cbs s)); [|discriminate]. injection E as <-. exists []. rewrite app_nil_r. split; reflexivity.
  - destruct (op_at s n) as [o|]; [|discriminate]. destruct (o_pc o); try discriminate.
    match type of E with (match ?x with Some _ => _ | None => _ end) = _ => destruct x end; injection E as <-.
    + exists []. rewrite app_nil_r. split; [reflexivity|auto].
    + eexists. split; [reflexivity|auto].
  - destruct (op_at s n) as [o|] eqn:Eo; [|discriminate]. destruct (o_pc o) eqn:Epc; try discriminate.
    destruct (err s) eqn:Ee.
    { injection E as <-. eexists. split; [reflexivity|]. exists o. splits; auto. }
    unfold send_obs. destruct (send_fail s) eqn:Ef; cbn in E; injection E as <-.
    + eexists. split; [cbn; rewrite <- app_assoc; reflexivity|]. exists o. splits; auto.
    + match goal with |- context [fold_left _ ?L ?s1] => destruct (register_fold_t (o_ctx o) L s1) as (_ & _ & _ & A4) end.
      eexists. split; [cbn; cbn in A4; rewrite A4; reflexivity|]. exists o. splits; auto.
  - destruct (nth_error (delivs s) j) as [d|] eqn:Ed; [|discriminate]. destruct (d_st d) eqn:Est; [|discriminate].
    destruct (deliver_all_inv1 j (d_msgs d) 0 s I) as (I1 & _).
    rewrite (i_crash _ (proj1 I1)) in E. injection E as <-.
    destruct (deliver_all_obs j (d_msgs d) 0 s I) as (os & A1 & A2 & A3 & A4).
    exists os. split; [cbn; exact A1|]. splits; eauto.
  - destruct (watch_decomp s i s' I E) as (sl & Es & Ew & D). cbn zeta in D.
    destruct (assoc (id_text (sl_id sl)) (pending s)); [|rewrite D; exists []; rewrite app_nil_r; split; [reflexivity|auto]].
    destruct D as (_ & _ & I2 & ->). destruct (c_oncancel s) eqn:Ec; [|exists []; rewrite app_nil_r; split; [reflexivity|auto]].
    destruct (settle_slot_misc i _ I2) as (_ & _ & _ & B4).
    eexists. split; [cbn; rewrite B4; reflexivity|]. right. exists sl. auto.
  - destruct (rd s) eqn:Erd; try discriminate. destruct (err s) as [c0|] eqn:Ee.
    + rewrite (stop_locked_some c s c0 Ee) in E. injection E as <-. exists []. rewrite app_nil_r. split; [reflexivity|]. exists c. auto.
    + destruct (stop_locked_none c s Ee) as (s1 & Est & _ & _ & _ & B4 & _). rewrite Est in E. injection E as <-.
      eexists. split; [cbn; rewrite B4, <- app_assoc; reflexivity|]. exists c. auto.
  - destruct (op_at s n) as [o|] eqn:Eo; [|discriminate]. destruct (o_pc o) eqn:Epc; try discriminate.
    destruct (err s) as [c0|] eqn:Ee.
    + rewrite (stop_locked_some _ s c0 Ee) in E. injection E as <-. exists []. rewrite app_nil_r. split; [reflexivity|]. eauto.
    + destruct (stop_locked_none SCClosed s Ee) as (s1 & Est & _ & _ & _ & B4 & _). rewrite Est in E. injection E as <-.
      eexists. split; [cbn; exact B4|]. eauto.
  - destruct (nth_error (cbs s) c) as [cb|] eqn:Ecb; [|discriminate]. destruct (cb_st cb) eqn:Est; try discriminate.
    injection E as <-. destruct (err s) eqn:Ee.
    + exists []. rewrite app_nil_r. split; [reflexivity|]. exists cb, o. auto.
    + eexists. split; [reflexivity|]. exists cb, o. auto.
Qed.

(* the unhooked micro steps: the reader picks up a record (nothing observed); a caller takes a value in wait()
   (nothing observed) or returns; a Close comes back from done.Wait() - wg = 0 - runs OnStop if it stopped the
   client, and returns *)
Definition settle_shape (s : state) (os : list obs) : Prop :=
  os = []
  \/ (exists n o k, op_at s n = Some o /\ o_pc o = PWait k /\ nth_error (o_slots o) k = None /\ os = [ORet n (result_of s o)])
  \/ (exists n o b, op_at s n = Some o /\ o_pc o = PCloseWait b /\ wg s = 0
        /\ os = (if b then match err s with Some c => [OOnStop c] | None => [] end else []) ++ [ORet n (close_ret s)]).

Lemma settle1_obs s s' : inv1 s -> settle1 s = Some s' -> exists os, hist s' = hist s ++ os /\ settle_shape s os.
Proof.
  intros I E. unfold settle_shape.
  destruct (settle1_inv s s' (i_crash _ (proj1 I)) E) as [(b & ms & q & _ & _ & ->)|[(q & _ & _ & ->)|[(c & q & _ & _ & ->)|(n & o & Ho & Hr & ->)]]];
    try (exists []; rewrite app_nil_r; split; [reflexivity|auto]).
  destruct (op_advance_cases n o s Hr) as [(k & i & Hpc & Hn & _ & ->)|[(k & Hpc & Hn & ->)|(b & Hpc & Hw & ->)]].
  - destruct (settle_slot_misc i s I) as (_ & _ & _ & B4). exists []. rewrite app_nil_r. split; [cbn; exact B4|auto].
  - eexists. split; [reflexivity|]. right. left. exists n, o, k. auto.
  - eexists. split; [|right; right; exists n, o, b; splits; eauto].
    destruct b; [destruct (err s)|]; cbn; rewrite <- ?app_assoc; reflexivity.
Qed.

(** * which transitions change the wait group *)
Definition wg_label (l : label) : bool := match l with LRelDeliver _ | LRelRecvErr | LRelCbReply _ => true | _ => false end.

Lemma step_raw_wg s l s' : inv1 s -> step_raw s l = Some s' -> wg_label l = false -> wg s' = wg s.
Proof.
  intros I E Hl. destruct l; try discriminate; cbn in E.
  - destruct (negb (n =? length (ops s)) || negb (specs_ok k specs)); [discriminate|].
    destruct k.
    1-3: destruct (is_nil specs); [injection E as <-; reflexivity|]; destruct (scan specs 0); injection E as <-; reflexivity.
    injection E as <-; reflexivity.
  - injection E as <-; reflexivity.
  - injection E as <-; reflexivity.
  - destruct (op_at s n) as [o|]; [|discriminate]. destruct (o_ctx o); injection E as <-; reflexivity.
  - destruct (find_idx _ 0 (cbs s)); [|discriminate]. injection E as <-; reflexivity.
  - destruct (op_at s n) as [o|]; [|discriminate]. destruct (o_pc o); try discriminate.
    match type of E with (match ?x with Some _ => _ | None => _ end) = _ => destruct x end; injection E as <-; reflexivity.
  - destruct (op_at s n) as [o|]; [|discriminate]. destruct (o_pc o); try discriminate.
    destruct (err s); [injection E as <-; reflexivity|].
    destruct (negb (send_fail s)); injection E as <-; [|reflexivity].
    match goal with |- context [fold_left _ ?L ?s1] => destruct (register_fold_w (o_ctx o) L s1) as (A & _) end.
    cbn. cbn in A. exact A.
  - destruct (watch_decomp s i s' I E) as (sl & Es & Ew & D). cbn zeta in D.
    destruct (assoc (id_text (sl_id sl)) (pending s)); [|rewrite D; reflexivity].
    destruct D as (_ & _ & I2 & ->). destruct (c_oncancel s); [|reflexivity].
    cbn. destruct (settle_slot_w i _ I2) as (A & _). exact A.
  - destruct (op_at s n) as [o|]; [|discriminate]. destruct (o_pc o); try discriminate.
    destruct (err s) as [c0|] eqn:Ee.
    + rewrite (stop_locked_some _ s c0 Ee) in E. injection E as <-. reflexivity.
    + destruct (stop_locked_none SCClosed s Ee) as (s1 & Est & _ & _ & _ & _ & B5 & _). rewrite Est in E. injection E as <-. exact B5.
Qed.
