(* CliOps: slot values are stable (a written slot buffer never changes), and the invariant
   relating the program counter of every operation to its slots and to the value it
   returned: the value returned by Call / Batch is the value of its slots. *)
From Coq Require Import List NArith ZArith Bool Arith Lia.
From RecordUpdate Require Import RecordUpdate.
From JV Require Import Bytes Msg CliModel CliLemmas CliInv CliRet CliCtx.
Import ListNotations.

(** * monotonicity of slots: ids are fixed, registration and written values are permanent *)
Definition slot_le (sl sl' : slot) : Prop :=
  sl_id sl' = sl_id sl /\ sl_op sl' = sl_op sl /\ (sl_reg sl = true -> sl_reg sl' = true)
  /\ (forall v, sl_buf sl = Some v -> sl_buf sl' = Some v).

Definition slots_mono (s s' : state) : Prop :=
  forall i sl, slot_at s i = Some sl -> exists sl', slot_at s' i = Some sl' /\ slot_le sl sl'.

Lemma slot_le_refl sl : slot_le sl sl.
Proof. unfold slot_le; auto. Qed.

Lemma slot_le_trans a b c : slot_le a b -> slot_le b c -> slot_le a c.
Proof. unfold slot_le. intros (A1 & A2 & A3 & A4) (B1 & B2 & B3 & B4). splits; try congruence; auto. Qed.

Lemma mono_refl s s' : slots s' = slots s -> slots_mono s s'.
Proof. intros E i sl H. exists sl. unfold slot_at in *. rewrite E. split; auto. apply slot_le_refl. Qed.

Lemma mono_trans s1 s2 s3 : slots_mono s1 s2 -> slots_mono s2 s3 -> slots_mono s1 s3.
Proof.
  intros F G i sl H. destruct (F _ _ H) as (sl2 & H2 & L2). destruct (G _ _ H2) as (sl3 & H3 & L3).
  exists sl3. split; auto. eapply slot_le_trans; eauto.
Qed.

Lemma mono_core s s' : map slot_core (slots s') = map slot_core (slots s) -> slots_mono s s'.
Proof.
  intros E i sl H. destruct (core_at _ _ (eq_sym E) _ _ H) as (sl' & H1 & H2). core H2.
  exists sl'. split; auto. unfold slot_le. splits; congruence.
Qed.

Lemma mono_set_slot s i f :
  (forall sl, slot_at s i = Some sl -> slot_le sl (f sl)) -> slots_mono s (set_slot i f s).
Proof.
  intros Hf j sl H. rewrite slot_at_set_slot. destruct (Nat.eqb_spec i j) as [<-|N].
  - rewrite H. cbn. eexists; split; eauto.
  - exists sl. split; auto. apply slot_le_refl.
Qed.

Lemma mono_app s s' l : slots s' = slots s ++ l -> slots_mono s s'.
Proof.
  intros E i sl H. exists sl. split; [|apply slot_le_refl]. unfold slot_at in *. rewrite E. apply nth_error_app_old; auto.
Qed.

Lemma mono_val s s' i v : slots_mono s s' -> slot_val s i = Some v -> slot_val s' i = Some v.
Proof.
  intros M H. unfold slot_val in *. destruct (slot_at s i) as [sl|] eqn:E; [|discriminate].
  destruct (M _ _ E) as (sl' & H1 & _ & _ & _ & H2). rewrite H1. auto.
Qed.

Lemma mono_val_ne s s' i : slots_mono s s' -> slot_val s i <> None -> slot_val s' i <> None.
Proof. intros M H. destruct (slot_val s i) as [v|] eqn:E; [|contradiction]. rewrite (mono_val _ _ _ _ M E). discriminate. Qed.

Lemma mono_text s s' i sl : slots_mono s s' -> slot_at s i = Some sl -> slot_text s' i = slot_text s i.
Proof. intros M H. unfold slot_text. rewrite H. destruct (M _ _ H) as (sl' & H1 & E & _). rewrite H1, E. auto. Qed.

(** * every transition is monotone *)
Lemma mono_write s key i v : inv1 s -> In (key, i) (pending s) ->
  slots_mono s (write_slot i v (s <| pending ::= assoc_del key |>)).
Proof.
  intros I Hin. rewrite (write_pending_eq _ _ _ _ I Hin).
  destruct (pending_slot _ _ _ I Hin) as (sl & Hs & _ & _ & Hb).
  eapply mono_trans; [apply (mono_refl s (s <| pending ::= assoc_del key |>)); reflexivity|].
  apply mono_set_slot. intros sl0 H0. replace (slot_at (s <| pending ::= assoc_del key |>) i) with (slot_at s i) in H0 by reflexivity.
  rewrite Hs in H0. injection H0 as <-. unfold slot_le. cbn. splits; auto. congruence.
Qed.

Lemma mono_settle s i : inv1 s -> slots_mono s (settle_slot i s).
Proof. intros I. apply mono_core. apply (settle_slot_inv1 i s I). Qed.

Lemma mono_deliver_member j k m s : inv1 s -> slots_mono s (deliver_member j k m s).
Proof.
  intros I. unfold deliver_member. destruct (is_req_or_notif m).
  - destruct (is_notification m).
    + destruct (c_onnotify s); apply mono_refl; reflexivity.
    + destruct (c_oncallback s); cbn; [|apply mono_refl; reflexivity]. destruct (err s); cbn; apply mono_refl; reflexivity.
  - destruct (assoc (fix_id (j_id m)) (pending s)) as [i|] eqn:E; [|apply mono_refl; reflexivity].
    apply assoc_in in E. apply mono_write; auto.
Qed.

Lemma mono_deliver_all j ms : forall k s, inv1 s -> slots_mono s (deliver_all j k ms s).
Proof.
  induction ms as [|m r IH]; intros k s I; cbn; [apply mono_refl; reflexivity|].
  rewrite (i_crash _ (proj1 I)). eapply mono_trans; [apply mono_deliver_member; auto|].
  apply IH. apply deliver_member_inv1; auto.
Qed.

Lemma mono_register ctx i s sl : inv1w s -> slot_at s i = Some sl -> sl_reg sl = false -> slots_mono s (register ctx i s).
Proof.
  intros W Hs Hr. rewrite (register_eq ctx i s sl W Hs Hr).
  eapply mono_trans; [apply (mono_refl s (s <| pending ::= fun p => (id_text (sl_id sl), i) :: p |>)); reflexivity|].
  apply mono_set_slot. intros sl0 _. unfold slot_le. cbn. auto.
Qed.

Lemma mono_register_fold ctx L : forall s, inv1w s -> NoDup L ->
  (forall i, In i L -> exists sl, slot_at s i = Some sl /\ sl_reg sl = false) ->
  let s' := fold_left (fun st i => register ctx i st) L s in
  slots_mono s s' /\ (forall i, In i L -> exists sl, slot_at s' i = Some sl /\ sl_reg sl = true).
Proof.
  induction L as [|i r IH]; intros s W ND H; cbn.
  - split; [apply mono_refl; reflexivity|intros i []].
  - inversion ND as [|? ? Hni ND']; subst.
    destruct (H i (or_introl eq_refl)) as (sl & Hs & Hr).
    destruct (register_ok ctx i s sl W Hs Hr) as (W1 & _ & _ & _ & Hother & (sl1 & Hs1 & Hr1 & _)).
    destruct (IH (register ctx i s) W1 ND') as (M2 & R2).
    { intros j Hj. destruct (H j (or_intror Hj)) as (sl' & H1 & H2). exists sl'. split; auto.
      rewrite Hother; auto. intros ->. contradiction. }
    split.
    + eapply mono_trans; [eapply mono_register; eauto|exact M2].
    + intros j [<-|Hj]; auto. destruct (M2 _ _ Hs1) as (sl2 & A & _ & _ & B & _). exists sl2. split; auto.
Qed.

Lemma mono_stop c s s1 b : stop_locked c s = (s1, b) -> slots_mono s s1.
Proof. intros H. apply mono_core. apply (stop_locked_frame _ _ _ _ H). Qed.

Lemma step_raw_mono s l s' : inv1 s -> step_raw s l = Some s' -> slots_mono s s'.
Proof.
  intros I E. destruct l; cbn in E.
  - destruct (negb (n =? length (ops s)) || negb (specs_ok k specs)); [discriminate|].
    destruct k.
    1-3: destruct (is_nil specs); [injection E as <-; apply mono_refl; reflexivity|];
         destruct (scan specs 0); injection E as <-; apply mono_refl; reflexivity.
    injection E as <-; apply mono_refl; reflexivity.
  - injection E as <-; apply mono_refl; reflexivity.
  - injection E as <-; apply mono_refl; reflexivity.
  - destruct (op_at s n) as [o|]; [|discriminate]. destruct (o_ctx o); injection E as <-; [apply mono_refl; reflexivity|].
    apply mono_core. cbn. rewrite map_map. apply map_ext. intros sl. destruct ((sl_op sl =? n) && sl_reg sl); auto. apply cancel_slot_core.
  - destruct (find_idx _ 0 (cbs s)); [|discriminate]. injection E as <-; apply mono_refl; reflexivity.
  - destruct (op_at s n) as [o|]; [|discriminate]. destruct (o_pc o); try discriminate.
    match type of E with (match ?x with Some _ => _ | None => _ end) = _ => destruct x end; injection E as <-;
      eapply mono_app; reflexivity.
  - destruct (op_at s n) as [o|] eqn:Eo; [|discriminate]. destruct (o_pc o) eqn:Epc; try discriminate.
    destruct (err s); [injection E as <-; apply mono_refl; reflexivity|].
    set (s1 := emit _ s) in *.
    destruct (negb (send_fail s)); injection E as <-; [|apply mono_refl; reflexivity].
    assert (I1 : inv1 s1). { apply (inv1_frame s); try reflexivity; auto; try apply I. apply ops_frame_refl; reflexivity. }
    assert (Hp0 : presend o = true) by (unfold presend; rewrite Epc; auto).
    destruct I1 as [W1 P1].
    destruct (mono_register_fold (o_ctx o) (o_slots o) s1 W1 (i_nd _ W1 n o Eo)) as (M & _).
    { intros i Hi. apply (P1 n o i Eo Hp0 Hi). }
    eapply mono_trans; [apply (mono_refl s s1); reflexivity|].
    eapply mono_trans; [exact M|apply mono_refl; reflexivity].
  - destruct (nth_error (delivs s) j) as [d|]; [|discriminate]. destruct (d_st d); [|discriminate].
    destruct (deliver_all_inv1 j (d_msgs d) 0 s I) as (I1 & _).
    rewrite (i_crash _ (proj1 I1)) in E. injection E as <-.
    eapply mono_trans; [apply mono_deliver_all; auto|apply mono_refl; reflexivity].
  - destruct (slot_at s i) as [sl|] eqn:Es; [|discriminate]. destruct (sl_watch sl); try discriminate.
    set (s1 := set_slot i (fun sl0 => sl0 <| sl_watch := WDone |>) s) in *.
    assert (I1 : inv1 s1).
    { apply (inv1_frame s); try reflexivity; auto; try apply I.
      cbn. apply map_core_upd. reflexivity. apply ops_frame_refl; reflexivity. }
    assert (M1 : slots_mono s s1) by (apply mono_set_slot; intros; unfold slot_le; cbn; auto).
    destruct (assoc (id_text (sl_id sl)) (pending s)) as [i'|] eqn:Ea; [|injection E as <-; auto].
    apply assoc_in in Ea. assert (i' = i) by (apply (pending_of_slot s i sl i' I Es Ea)). subst i'.
    set (v := mkVal (id_text (sl_id sl)) (Some (watch_werr (err s) (sl_pctx sl))) [] SWatch) in *.
    destruct (write_pending_ok s1 (id_text (sl_id sl)) i v I1 Ea (fix_id_text _)) as (I2 & _).
    assert (M2 := mono_write s1 _ i v I1 Ea).
    set (s2 := write_slot i v _) in *.
    rewrite (i_crash _ (proj1 I2)) in E.
    destruct (c_oncancel s2); [|injection E as <-; eapply mono_trans; eauto].
    destruct (settle_slot_inv1 i s2 I2) as (I3 & _).
    rewrite (i_crash _ (proj1 I3)) in E. injection E as <-.
    eapply mono_trans; [exact M1|]. eapply mono_trans; [exact M2|].
    eapply mono_trans; [apply mono_settle; auto|apply mono_refl; reflexivity].
  - destruct (rd s); try discriminate. destruct (stop_locked c s) as [s1 first] eqn:Est.
    injection E as <-. eapply mono_trans; [eapply mono_stop; eauto|]. destruct first; apply mono_refl; reflexivity.
  - destruct (op_at s n) as [o|]; [|discriminate]. destruct (o_pc o); try discriminate.
    destruct (stop_locked SCClosed s) as [s1 first] eqn:Est.
    injection E as <-. eapply mono_trans; [eapply mono_stop; eauto|]. apply mono_refl; reflexivity.
  - destruct (nth_error (cbs s) c) as [cb|]; [|discriminate]. destruct (cb_st cb); try discriminate.
    injection E as <-. destruct (err s) eqn:Ee; apply mono_refl; reflexivity.
Qed.

Lemma settle1_mono s s' : inv1 s -> settle1 s = Some s' -> slots_mono s s'.
Proof.
  intros I E. unfold settle1 in E. rewrite (i_crash _ (proj1 I)) in E.
  assert (Hops : match find_idx (op_ready s) 0 (ops s) with
                 | Some n => match op_at s n with Some o => Some (op_advance n o s) | None => None end
                 | None => None end = Some s' -> slots_mono s s').
  { clear E. intros E. destruct (find_idx (op_ready s) 0 (ops s)) as [n|]; [|discriminate].
    destruct (op_at s n) as [o|] eqn:Eo; [|discriminate]. injection E as <-.
    unfold op_advance. destruct (o_pc o) eqn:Epc; try (apply mono_refl; reflexivity).
    - destruct (nth_error (o_slots o) k) as [i|]; [|apply mono_refl; reflexivity].
      eapply mono_trans; [apply mono_settle; auto|apply mono_refl; reflexivity].
    - destruct stopper; [destruct (err s) eqn:Ee|]; apply mono_refl; reflexivity. }
  destruct (rd s); auto. destruct (ch_in s) as [|f q]; auto.
  destruct f as [[|b ms]|c]; injection E as <-; apply mono_refl; reflexivity.
Qed.

(** * operations: program counter, slots, returned value *)
Definition ret_ok (s : state) (o : oprec) (r : ret) : Prop :=
  match r with
  | RetCall r1 => o_kind o = KCall /\ exists i rest v, o_slots o = i :: rest /\ slot_val s i = Some v /\ r1 = call_res v
  | RetBatch rs => o_kind o = KBatch
                   /\ Forall2 (fun i p => exists v, slot_val s i = Some v /\ p = (slot_text s i, batch_res v)) (o_slots o) rs
  | _ => True
  end.

Definition pc_kind (o : oprec) : Prop :=
  match o_pc o with
  | PClose | PCloseWait _ => o_kind o = KClose
  | PReq _ | PSend | PWait _ => o_kind o <> KClose
  | PDone => True
  end.

Definition op_ok (s : state) (o : oprec) : Prop :=
  (o_pc o = PDone <-> is_some (o_ret o) = true)
  /\ pc_kind o
  /\ (forall k, o_pc o = PWait k ->
        (forall i, In i (o_slots o) -> exists sl, slot_at s i = Some sl /\ sl_reg sl = true)
        /\ (forall i, In i (firstn k (o_slots o)) -> slot_val s i <> None))
  /\ (forall r, o_ret o = Some r -> ret_ok s o r).

Definition invP (s : state) : Prop := forall n o, op_at s n = Some o -> op_ok s o.

Definition same4 (o o' : oprec) : Prop :=
  o_kind o' = o_kind o /\ o_slots o' = o_slots o /\ o_pc o' = o_pc o /\ o_ret o' = o_ret o.

Lemma same4_refl o : same4 o o.
Proof. unfold same4; auto. Qed.

Lemma ret_ok_mono s s' o o' r : slots_mono s s' -> o_kind o' = o_kind o -> o_slots o' = o_slots o -> ret_ok s o r -> ret_ok s' o' r.
Proof.
  intros M Ek Es. destruct r; cbn; auto; rewrite Ek, Es.
  - intros (A & i & rest & v & B & C & D). split; auto. exists i, rest, v. splits; auto. eapply mono_val; eauto.
  - intros (A & B). split; auto. clear Es. induction B as [|i p L rs' (v & B1 & B2) B IH]; constructor; auto.
    exists v. split; [eapply mono_val; eauto|]. rewrite B2. f_equal.
    unfold slot_val in B1. destruct (slot_at s i) as [sl|] eqn:E; [|discriminate]. symmetry. eapply mono_text; eauto.
Qed.

Lemma op_ok_mono s s' o o' : slots_mono s s' -> same4 o o' -> op_ok s o -> op_ok s' o'.
Proof.
  intros M (Ek & Es & Ep & Er) (A & B & C & D). unfold op_ok, pc_kind. rewrite Ek, Es, Ep, Er. splits; auto.
  - intros k Hk. destruct (C k Hk) as [C1 C2]. split.
    + intros i Hi. destruct (C1 i Hi) as (sl & H1 & H2). destruct (M _ _ H1) as (sl' & H3 & _ & _ & H4 & _). eauto.
    + intros i Hi. eapply mono_val_ne; eauto.
  - intros r Hr. eapply ret_ok_mono; eauto.
Qed.

Lemma invP_upd s s' n : slots_mono s s' ->
  (forall m o', op_at s' m = Some o' -> m = n \/ exists o, op_at s m = Some o /\ same4 o o') ->
  (forall o', op_at s' n = Some o' -> op_ok s' o') -> invP s -> invP s'.
Proof.
  intros M H Hn P m o' Ho. destruct (H _ _ Ho) as [->|(o & A & B)]; auto.
  eapply op_ok_mono; eauto.
Qed.

Lemma invP_frame s s' : slots_mono s s' ->
  (forall m o', op_at s' m = Some o' -> exists o, op_at s m = Some o /\ same4 o o') -> invP s -> invP s'.
Proof.
  intros M H P m o' Ho. destruct (H _ _ Ho) as (o & A & B). eapply op_ok_mono; eauto.
Qed.

Lemma invP_same s s' : slots_mono s s' -> ops s' = ops s -> invP s -> invP s'.
Proof.
  intros M E. apply invP_frame; auto. intros m o' H. exists o'. unfold op_at in *. rewrite <- E. split; auto. apply same4_refl.
Qed.

Lemma ops_upd_set_op s s' n g : ops s' = ops (set_op n g s) ->
  forall m o', op_at s' m = Some o' ->
    (m = n /\ exists o, op_at s n = Some o /\ o' = g o) \/ (m <> n /\ op_at s m = Some o').
Proof.
  intros E m o' H. unfold op_at in H. rewrite E in H. fold (op_at (set_op n g s) m) in H. rewrite op_at_set_op in H.
  destruct (Nat.eqb_spec n m) as [<-|N]; [|auto]. left. split; auto.
  destruct (op_at s n) as [o|]; [|discriminate]. injection H as <-. eauto.
Qed.

Lemma invP_set_same s s' n g : slots_mono s s' -> ops s' = ops (set_op n g s) -> (forall o, same4 o (g o)) -> invP s -> invP s'.
Proof.
  intros M E Hg. apply invP_frame; auto. intros m o' H.
  destruct (ops_upd_set_op _ _ _ _ E _ _ H) as [(-> & o & A & ->)|(N & A)]; eauto. exists o'. split; auto. apply same4_refl.
Qed.

(* the operation n is replaced by g o *)
Lemma invP_set_op s s' n g o : slots_mono s s' -> ops s' = ops (set_op n g s) -> op_at s n = Some o ->
  op_ok s' (g o) -> invP s -> invP s'.
Proof.
  intros M E Ho Hok. apply (invP_upd s s' n); auto.
  - intros m o' H. destruct (ops_upd_set_op _ _ _ _ E _ _ H) as [(-> & _)|(N & A)]; auto.
    right. exists o'. split; auto. apply same4_refl.
  - intros o' H. destruct (ops_upd_set_op _ _ _ _ E _ _ H) as [(_ & o1 & A & ->)|(N & _)]; [|congruence].
    rewrite Ho in A. injection A as <-. auto.
Qed.

Lemma scan_pc l : forall z pc, scan l z = Some pc -> pc = PSend \/ exists k, pc = PReq k.
Proof.
  induction l as [|x l IH]; cbn; intros z pc H.
  - injection H as <-. auto.
  - destruct (sp_bad x); [discriminate|]. destruct (sp_notify x); [eapply IH; eauto|]. injection H as <-. eauto.
Qed.

Lemma batch_results_all s L : (forall i, In i L -> slot_val s i <> None) ->
  Forall2 (fun i p => exists v, slot_val s i = Some v /\ p = (slot_text s i, batch_res v)) L (batch_results s L).
Proof.
  induction L as [|i r IH]; intros H; cbn; [constructor|].
  destruct (slot_val s i) as [v|] eqn:E; [|exfalso; apply (H i); [left; auto|auto]].
  constructor; [eauto|]. apply IH. intros j Hj. apply H. right; auto.
Qed.

Lemma firstn_snoc {A} (l : list A) k x : nth_error l k = Some x -> firstn (S k) l = firstn k l ++ [x].
Proof.
  revert k; induction l as [|y l IH]; intros [|k] H; cbn in *; try discriminate.
  - injection H as <-. reflexivity.
  - f_equal. apply IH; auto.
Qed.

(* a finished operation holding a failure / notify / close result *)
Lemma op_ok_done s o r : (match r with RetCall _ | RetBatch _ => False | _ => True end) ->
  op_ok s (o <| o_pc := PDone |> <| o_ret := Some r |>).
Proof.
  intros Hr. unfold op_ok, pc_kind. cbn. splits; auto; try tauto.
  - intros k H; discriminate.
  - intros r' [= <-]. destruct r; cbn; auto; contradiction.
Qed.

Lemma op_ok_pc s o pc : op_ok s o -> o_pc o <> PDone -> pc <> PDone ->
  (match pc with PClose | PCloseWait _ => o_kind o = KClose | PReq _ | PSend => o_kind o <> KClose | _ => False end) ->
  op_ok s (o <| o_pc := pc |>).
Proof.
  intros (A & B & C & D) Hn Hp Hk.
  assert (Hr : o_ret o = None). { destruct (o_ret o) eqn:E; auto. exfalso. apply Hn. apply A. reflexivity. }
  unfold op_ok, pc_kind. cbn. rewrite Hr. splits.
  - split; [contradiction|discriminate].
  - destruct pc; auto; contradiction.
  - intros k ->. contradiction.
  - discriminate.
Qed.

Lemma invP_init c : invP (init_of c).
Proof. intros [|n] o H; discriminate. Qed.

Lemma op_ok_fresh s o : o_ret o = None ->
  (match o_pc o with PReq _ | PSend => o_kind o <> KClose | PClose | PCloseWait _ => o_kind o = KClose | _ => False end) ->
  op_ok s o.
Proof.
  intros Hr Hk. unfold op_ok, pc_kind. rewrite Hr. splits.
  - split; [intros E; rewrite E in Hk; contradiction|discriminate].
  - destruct (o_pc o); auto; contradiction.
  - intros k E. rewrite E in Hk. contradiction.
  - discriminate.
Qed.

Lemma op_ok_ret_none s o : op_ok s o -> o_pc o <> PDone -> o_ret o = None.
Proof. intros (A & _) Hn. destruct (o_ret o) eqn:E; auto. exfalso. apply Hn. apply A. reflexivity. Qed.

Lemma invP_step_raw s l s' : inv1 s -> invP s -> step_raw s l = Some s' -> invP s'.
Proof.
  intros I P E. assert (M := step_raw_mono s l s' I E). destruct l; cbn in E.
  - (* LOp *)
    destruct (negb (n =? length (ops s)) || negb (specs_ok k specs)) eqn:G; [discriminate|].
    apply orb_false_iff in G. destruct G as [G G2]. apply negb_false_iff, Nat.eqb_eq in G. apply negb_false_iff in G2.
    set (o0 := mkOp k specs [] PDone None None) in *.
    assert (Fr : forall s' g, ops s' = upd_nth n g (ops s ++ [o0]) -> slots_mono s s' -> op_ok s' (g o0) -> invP s').
    { intros s0 g E1 M0 Hok. apply (invP_upd s s0 n); auto.
      - intros m o' H. unfold op_at in H. rewrite E1, nth_error_upd_nth in H. destruct (Nat.eqb_spec n m) as [|N]; auto.
        right. destruct (nth_error_snoc _ _ _ _ H) as [[_ H1]|[L _]]; [|congruence]. exists o'. split; auto. apply same4_refl.
      - intros o' H. unfold op_at in H. rewrite E1, nth_error_upd_nth, Nat.eqb_refl, G, nth_error_app_new in H.
        injection H as <-. auto. }
    assert (Hpc : forall pc, scan specs 0 = Some pc -> k <> KClose ->
                             forall s0, op_ok s0 (o0 <| o_pc := pc |>)).
    { intros pc Sc Hk s0. apply op_ok_fresh; auto. cbn. destruct (scan_pc _ _ _ Sc) as [->|[z ->]]; auto. }
    destruct k.
    1-3: destruct (is_nil specs); [injection E as <-; eapply Fr; [reflexivity|exact M|apply op_ok_done; exact Logic.I]|];
         destruct (scan specs 0) as [pc|] eqn:Sc; injection E as <-;
         (eapply Fr; [reflexivity|exact M|]); [apply Hpc; auto; discriminate|apply op_ok_done; exact Logic.I].
    injection E as <-. eapply Fr; [reflexivity|exact M|]. apply op_ok_fresh; auto. cbn. auto.
  - (* LFeed *) injection E as <-. apply (invP_same s); auto.
  - (* LSendFault *) injection E as <-. apply (invP_same s); auto.
  - (* LCtxEnd *)
    destruct (op_at s n) as [o|] eqn:Eo; [|discriminate]. destruct (o_ctx o); injection E as <-; auto.
    eapply invP_set_same; eauto; [reflexivity|]. intros o1. unfold same4; auto.
  - (* LCbGate *)
    destruct (find_idx _ 0 (cbs s)); [|discriminate]. injection E as <-. apply (invP_same s); auto.
  - (* LRelReq *)
    destruct (op_at s n) as [o|] eqn:Eo; [|discriminate]. destruct (o_pc o) eqn:Epc; try discriminate.
    set (sl0 := mkSlot n (next_id s) false None false None WNone) in *.
    set (s1 := s <| slots ::= fun l => l ++ [sl0] |> <| next_id ::= S |>) in *.
    set (g1 := fun o0 : oprec => o0 <| o_slots ::= fun l => l ++ [length (slots s)] |>) in *.
    set (s2 := set_op n g1 s1) in *.
    assert (Ok := P _ _ Eo).
    assert (Hr : o_ret o = None) by (apply (op_ok_ret_none s); auto; congruence).
    assert (Hk : o_kind o <> KClose). { destruct Ok as (_ & B & _). unfold pc_kind in B. rewrite Epc in B. auto. }
    assert (M2 : slots_mono s s2) by (eapply mono_app; reflexivity).
    assert (P2 : invP s2).
    { apply (invP_set_op s s2 n g1 o); auto. apply op_ok_fresh; auto. cbn. rewrite Epc. auto. }
    assert (Ho2 : op_at s2 n = Some (g1 o)).
    { unfold s2. rewrite op_at_set_op, Nat.eqb_refl. replace (op_at s1 n) with (op_at s n) by reflexivity. rewrite Eo. reflexivity. }
    match type of E with (match ?x with Some _ => _ | None => _ end) = _ => destruct x as [pc|] eqn:Sc end; injection E as <-.
    + eapply (invP_set_op s2 _ n _ (g1 o)); [apply mono_refl; reflexivity|reflexivity|exact Ho2| |exact P2].
      apply op_ok_fresh; auto. cbn. destruct (scan_pc _ _ _ Sc) as [->|[z ->]]; auto.
    + eapply (invP_set_op s2 _ n _ (g1 o)); [apply mono_refl; reflexivity|reflexivity|exact Ho2| |exact P2].
      apply op_ok_done. exact Logic.I.
  - (* LRelSend *)
    destruct (op_at s n) as [o|] eqn:Eo; [|discriminate]. destruct (o_pc o) eqn:Epc; try discriminate.
    assert (Ok := P _ _ Eo).
    assert (Hr : o_ret o = None) by (apply (op_ok_ret_none s); auto; congruence).
    assert (Hk : o_kind o <> KClose). { destruct Ok as (_ & B & _). unfold pc_kind in B. rewrite Epc in B. auto. }
    destruct (err s).
    { injection E as <-. eapply (invP_set_op s _ n _ o); eauto; [reflexivity|]. apply op_ok_done. exact Logic.I. }
    set (s1 := emit _ s) in *.
    destruct (negb (send_fail s)); injection E as <-.
    2: { eapply (invP_set_op s _ n _ o); eauto; [reflexivity|]. apply op_ok_done. exact Logic.I. }
    assert (I1 : inv1 s1). { apply (inv1_frame s); try reflexivity; auto; try apply I. apply ops_frame_refl; reflexivity. }
    assert (Hp0 : presend o = true) by (unfold presend; rewrite Epc; auto).
    destruct I1 as [W1 P1].
    assert (Hun : forall i, In i (o_slots o) -> exists sl, slot_at s1 i = Some sl /\ sl_reg sl = false).
    { intros i Hi. apply (P1 n o i Eo Hp0 Hi). }
    destruct (mono_register_fold (o_ctx o) (o_slots o) s1 W1 (i_nd _ W1 n o Eo) Hun) as (M2 & R2).
    destruct (register_fold (o_ctx o) (o_slots o) s1 W1 (i_nd _ W1 n o Eo) Hun) as (_ & E2 & _).
    set (s2 := fold_left _ (o_slots o) s1) in *.
    assert (Ms2 : slots_mono s s2) by (eapply mono_trans; [apply (mono_refl s s1); reflexivity|exact M2]).
    assert (P2 : invP s2) by (apply (invP_same s); auto).
    eapply (invP_set_op s2 _ n _ o); [apply mono_refl; reflexivity|reflexivity| | |exact P2].
    + unfold op_at. rewrite E2. exact Eo.
    + unfold op_ok, pc_kind. cbn. rewrite Hr. splits; auto.
      * split; discriminate.
      * intros k [= <-]. split; [exact R2|]. cbn. intros i [].
      * discriminate.
  - (* LRelDeliver *)
    destruct (nth_error (delivs s) j) as [d|] eqn:Ed; [|discriminate]. destruct (d_st d); [|discriminate].
    destruct (deliver_all_inv1 j (d_msgs d) 0 s I) as (I1 & E1 & E2).
    rewrite (i_crash _ (proj1 I1)) in E. injection E as <-.
    apply (invP_same s); auto.
  - (* LRelWatch *)
    destruct (slot_at s i) as [sl|] eqn:Es; [|discriminate]. destruct (sl_watch sl); try discriminate.
    set (s1 := set_slot i (fun sl0 => sl0 <| sl_watch := WDone |>) s) in *.
    assert (I1 : inv1 s1).
    { apply (inv1_frame s); try reflexivity; auto; try apply I.
      cbn. apply map_core_upd. reflexivity. apply ops_frame_refl; reflexivity. }
    destruct (assoc (id_text (sl_id sl)) (pending s)) as [i'|] eqn:Ea; [|injection E as <-; apply (invP_same s); auto].
    apply assoc_in in Ea. assert (i' = i) by (apply (pending_of_slot s i sl i' I Es Ea)). subst i'.
    set (v := mkVal (id_text (sl_id sl)) (Some (watch_werr (err s) (sl_pctx sl))) [] SWatch) in *.
    destruct (write_pending_ok s1 (id_text (sl_id sl)) i v I1 Ea (fix_id_text _)) as (I2 & Eo2 & _).
    set (s2 := write_slot i v _) in *.
    rewrite (i_crash _ (proj1 I2)) in E.
    destruct (c_oncancel s2); [|injection E as <-; apply (invP_same s); auto].
    destruct (settle_slot_inv1 i s2 I2) as (I3 & Eo3 & _).
    rewrite (i_crash _ (proj1 I3)) in E. injection E as <-.
    apply (invP_same s); auto. cbn. rewrite Eo3, Eo2. reflexivity.
  - (* LRelRecvErr *)
    destruct (rd s); try discriminate. destruct (stop_locked c s) as [s1 first] eqn:Est.
    destruct (stop_locked_frame _ _ _ _ Est) as (_ & _ & _ & _ & _ & F6 & _).
    injection E as <-. apply (invP_same s); auto. destruct first; cbn; auto.
  - (* LRelClose *)
    destruct (op_at s n) as [o|] eqn:Eo; [|discriminate]. destruct (o_pc o) eqn:Epc; try discriminate.
    destruct (stop_locked SCClosed s) as [s1 first] eqn:Est.
    destruct (stop_locked_frame _ _ _ _ Est) as (_ & _ & _ & _ & _ & F6 & _).
    assert (M1 := mono_stop _ _ _ _ Est).
    assert (P1 : invP s1) by (apply (invP_same s); auto).
    injection E as <-.
    eapply (invP_set_op s1 _ n _ o); [apply mono_refl; reflexivity|reflexivity| | |exact P1].
    + unfold op_at. rewrite F6. exact Eo.
    + assert (Ok := P _ _ Eo). apply op_ok_pc.
      * eapply op_ok_mono; eauto. apply same4_refl.
      * congruence.
      * discriminate.
      * destruct Ok as (_ & B & _). unfold pc_kind in B. rewrite Epc in B. auto.
  - (* LRelCbReply *)
    destruct (nth_error (cbs s) c) as [cb|]; [|discriminate]. destruct (cb_st cb); try discriminate.
    injection E as <-. destruct (err s) eqn:Ee; apply (invP_same s); auto.
Qed.

Lemma invP_settle1 s s' : inv1 s -> invP s -> settle1 s = Some s' -> invP s'.
Proof.
  intros I P E. assert (M := settle1_mono s s' I E). unfold settle1 in E. rewrite (i_crash _ (proj1 I)) in E.
  assert (Hops : match find_idx (op_ready s) 0 (ops s) with
                 | Some n => match op_at s n with Some o => Some (op_advance n o s) | None => None end
                 | None => None end = Some s' -> invP s').
  { clear E. intros E. destruct (find_idx (op_ready s) 0 (ops s)) as [n|] eqn:Ef; [|discriminate].
    destruct (op_at s n) as [o|] eqn:Eo; [|discriminate]. injection E as <-.
    apply find_idx_0 in Ef. destruct Ef as (o' & Ho' & Hrdy). unfold op_at in Eo. rewrite Eo in Ho'. injection Ho' as <-.
    fold (op_at s n) in Eo.
    assert (Ok := P _ _ Eo). destruct Ok as (A & B & C & D).
    unfold op_ready in Hrdy. unfold op_advance in *. destruct (o_pc o) eqn:Epc; try discriminate.
    - assert (Hr : o_ret o = None) by (apply (op_ok_ret_none s); [exact (P _ _ Eo)|congruence]).
      destruct (C k eq_refl) as [C1 C2]. unfold pc_kind in B. rewrite Epc in B.
      destruct (nth_error (o_slots o) k) as [i|] eqn:En.
      + destruct (settle_slot_inv1 i s I) as (_ & Eo1 & _).
        eapply (invP_set_op (settle_slot i s) _ n _ o); [apply mono_refl; reflexivity|reflexivity| | |].
        * unfold op_at. rewrite Eo1. exact Eo.
        * unfold op_ok, pc_kind. cbn. rewrite Hr. splits; auto.
          -- split; discriminate.
          -- intros k' [= <-]. split.
             ++ intros i' Hi'. destruct (C1 i' Hi') as (sl & H1 & H2). destruct (M _ _ H1) as (sl' & H3 & _ & _ & H4 & _). eauto.
             ++ intros i' Hi'. rewrite (firstn_snoc _ _ _ En) in Hi'. apply in_app_or in Hi'.
                apply (mono_val_ne s); auto. destruct Hi' as [Hi'|[<-|[]]]; auto.
                destruct (slot_val s i); [discriminate|discriminate].
          -- discriminate.
        * apply (invP_same s); auto; apply mono_settle; auto.
      + assert (Hall : forall i, In i (o_slots o) -> slot_val s i <> None).
        { intros i Hi. apply C2. rewrite firstn_all2; auto. apply nth_error_None; auto. }
        eapply (invP_set_op s _ n _ o); eauto; [reflexivity|].
        eapply (op_ok_mono s); [exact M| |].
        { apply same4_refl. }
        unfold op_ok, pc_kind. cbn. splits; auto; try tauto.
        * intros k' H; discriminate.
        * intros r [= <-]. unfold result_of. destruct (o_kind o) eqn:Ek; cbn; auto.
          -- destruct (o_slots o) as [|i rest] eqn:Esl; cbn; auto.
             destruct (slot_val s i) as [v|] eqn:Ev; cbn; [|exfalso; apply (Hall i); [left; auto|auto]].
             split; auto. exists i, rest, v. auto.
          -- split; auto. apply batch_results_all; auto.
    - unfold pc_kind in B. rewrite Epc in B.
      destruct stopper; [destruct (err s) eqn:Ee|];
        (eapply (invP_set_op s _ n _ o); eauto; [reflexivity|apply op_ok_done; exact Logic.I]). }
  destruct (rd s); auto. destruct (ch_in s) as [|f q]; auto.
  destruct f as [[|b ms]|c]; injection E as <-; apply (invP_same s); auto.
Qed.

Theorem invCP_reach c s : reach c s -> inv1 s /\ invC s /\ invP s.
Proof.
  apply (reach_inv (fun s => inv1 s /\ invC s /\ invP s)).
  - split; [apply inv1_init|split; [apply invC_init|apply invP_init]].
  - intros s0 l s' (I & C & P) Cr E. splits; [eapply inv1_step_raw|eapply invC_step_raw|eapply invP_step_raw]; eauto.
  - intros s0 s' (I & C & P) E. splits; [eapply inv1_settle1|eapply invC_settle1|eapply invP_settle1]; eauto.
Qed.
