(* CliBatch: the outcome of a Batch, per entry (C05): every response of a returned Batch is
   either the payload of the peer's member that answered that entry's id, or the error of
   the entry's context / of the stop, with OnCancel run exactly once iff configured. *)
From Coq Require Import List NArith ZArith Bool Arith Lia.
From RecordUpdate Require Import RecordUpdate.
From JV Require Import Bytes Msg CliModel CliLemmas CliInv CliRet CliProofs CliC05 CliCtx CliOps CliHist.
Import ListNotations.

(* how the value of a slot came about: a member of the peer's records, or the slot's own watcher *)
Definition slot_outcome (s : state) (sl : slot) (v : val) : Prop :=
  match v_src v with
  | SPeer j k => exists m, member_at s j k m /\ is_req_or_notif m = false
                           /\ fix_id (j_id m) = id_text (sl_id sl) /\ v = val_of_member j k m
                           /\ oc_count (id_text (sl_id sl)) (hist s) = 0
  | SWatch => exists cw, sl_pctx sl = Some cw /\ cause s sl cw /\ wval s sl cw v
                         /\ oc_count (id_text (sl_id sl)) (hist s) = if c_oncancel s then 1 else 0
  end.

Lemma batch_outcome c tr s : traces_to c tr s ->
  forall n rs, In (ORet n (RetBatch rs)) (hist s) ->
    exists o, op_at s n = Some o /\ o_kind o = KBatch
      /\ Forall2 (fun i p => exists sl v, slot_at s i = Some sl /\ sl_op sl = n /\ sl_buf sl = Some v
                               /\ p = (id_text (sl_id sl), batch_res v) /\ slot_outcome s sl v) (o_slots o) rs.
Proof.
  intros T n rs Hin. destruct (reply_is_peers c tr s T) as [_ RB]. destruct (watch_outcome c tr s T) as (Hcount & _).
  destruct (RB n rs Hin) as (o & Ho & Hk & F). exists o. splits; auto.
  eapply Forall2_impl_in; [exact F|]. intros i p Hi (sl & v & e & Hs & Hop & A & ->).
  exists sl, v. destruct A as (Fl & Hv & Hb & A). splits; auto.
  assert (Hc := Hcount _ _ Hs). unfold watch_written in Hc. rewrite Hb in Hc. unfold slot_outcome.
  destruct e as [j k m tgt|i' w].
  - destruct A as (_ & A1 & A2 & A3 & ->).
    assert (Es' : v_src (val_of_member j k m) = SPeer j k) by (unfold val_of_member; destruct (j_err m); reflexivity).
    rewrite Es' in *. rewrite andb_false_r in Hc. exists m. splits; auto.
  - destruct A as (_ & _ & cw & A1 & A2 & A3). destruct A3 as (e0 & -> & A4). cbn in *.
    rewrite andb_true_r in Hc. exists cw. splits; auto. exists e0. auto.
Qed.

(* non-vacuity: ex_trace_batch (CliHist): a batch of two calls and a notification, both calls answered by the peer *)
Example batch_outcome_nonvacuous :
  exists s, traces_to ex_cfg ex_trace_batch s
    /\ In (ORet 0 (RetBatch [([49%N], RRes [55%N]); ([50%N], RRes [56%N])])) (hist s).
Proof.
  destruct (run (init_of ex_cfg) ex_trace_batch) as [[s oss]|] eqn:E.
  - exists s. split; [exists oss; exact E|]. revert E. vm_compute. intros [= <- _]. auto.
  - revert E. vm_compute. discriminate.
Qed.

(* a batch whose second entry is cancelled by the caller's deadline while the first was answered *)
Definition ex_trace_batch_ctx : list label :=
  [LOp 0 KBatch [ex_spec 49; ex_spec 50]; LRelReq 0; LRelReq 0; LRelSend 0;
   LFeed (FMsg (InMsgs false [ex_reply [49%N] [55%N]])); LRelDeliver 0; LCtxEnd 0 WDeadline; LRelWatch 1; LRelWatch 0].

Example batch_outcome_ctx_nonvacuous :
  exists s, traces_to ex_cfg ex_trace_batch_ctx s
    /\ In (ORet 0 (RetBatch [([49%N], RRes [55%N]); ([50%N], RErr (ctx_werr (Some WDeadline)))])) (hist s)
    /\ oc_count [50%N] (hist s) = 1 /\ oc_count [49%N] (hist s) = 0.
Proof.
  destruct (run (init_of ex_cfg) ex_trace_batch_ctx) as [[s oss]|] eqn:E.
  - exists s. split; [exists oss; exact E|]. revert E. vm_compute. intros [= <- _]. auto.
  - revert E. vm_compute. discriminate.
Qed.
