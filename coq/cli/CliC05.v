(* CliC05: property lemmas for C05 that follow from the return invariant (CliRet). *)
From Coq Require Import List NArith ZArith Bool Arith Lia.
From RecordUpdate Require Import RecordUpdate.
From JV Require Import Bytes Msg CliModel CliLemmas CliInv CliRet CliProofs.
Import ListNotations.

Lemma returns_once c tr s : traces_to c tr s ->
  (* at most one return per operation in the whole history of observations *)
  (forall n, ret_count n (hist s) <= 1)
  (* hence one value *)
  /\ (forall n r r', In (ORet n r) (hist s) -> In (ORet n r') (hist s) -> r = r')
  (* and the operation is finished, holding exactly that value *)
  /\ (forall n r, In (ORet n r) (hist s) -> exists o, op_at s n = Some o /\ o_ret o = Some r /\ o_pc o = PDone)
  (* an operation that has not finished has not returned *)
  /\ (forall n o, op_at s n = Some o -> o_pc o <> PDone -> ret_count n (hist s) = 0).
Proof.
  intros T. destruct (inv1K_reach c s (traces_reach _ _ _ T)) as [I K]. splits.
  - intros n. rewrite (k_count _ K n). destruct (op_at s n) as [o|]; [destruct (is_some (o_ret o))|]; lia.
  - intros n r r' H H'. destruct (k_val _ K _ _ H) as (o & H1 & H2). destruct (k_val _ K _ _ H') as (o' & H3 & H4). congruence.
  - intros n r H. destruct (k_val _ K _ _ H) as (o & H1 & H2). exists o. splits; auto.
    eapply (k_done _ K); eauto. rewrite H2; auto.
  - intros n o Ho Hpc. rewrite (k_count _ K n), Ho. destruct (o_ret o) eqn:E; auto. exfalso. apply Hpc.
    eapply (k_done _ K); eauto. rewrite E; auto.
Qed.

Example returns_once_nonvacuous :
  exists s, traces_to ex_cfg ex_trace s /\ ret_count 0 (hist s) = 1 /\ ret_count 1 (hist s) = 1.
Proof.
  destruct (run (init_of ex_cfg) ex_trace) as [[s oss]|] eqn:E.
  - exists s. split; [exists oss; exact E|]. revert E. vm_compute. intros [= <- _]. auto.
  - revert E. vm_compute. discriminate.
Qed.

(* a history with a cancellation, a Close and a late reply: the watcher wins, OnCancel and OnStop run once *)
Definition ex_trace5 : list label :=
  [LOp 0 KCall [ex_spec 49]; LRelReq 0; LRelSend 0; LCtxEnd 0 WDeadline; LRelWatch 0;
   LOp 1 KClose []; LRelClose 1; LRelRecvErr;
   LOp 2 KNotify [mkSpec [109%N] [] true false]; LRelSend 2].

Example ex_trace5_runs :
  match run (init_of ex_cfg) ex_trace5 with
  | Some (s, _) =>
      hist s = [OSendReq true false [([49%N], [109%N], [91%N; 49%N; 93%N])];
                OOnCancel [49%N] (Some (ctx_werr (Some WDeadline)));
                ORet 0 (RetCall (RCtx WDeadline));
                OClose; OOnStop SCClosed; ORet 1 (RetClose None);
                ORet 2 (RetFail (EStopped SCClosed))]
      /\ gcount s = 0 /\ quiescent s = true
  | None => False
  end.
Proof. vm_compute. auto. Qed.
