(* CliOpTrans: how each transition of the client model changes the list of operations
   ([step_raw_ops], [settle1_ops]): at most one operation record changes per transition, in
   one of a small number of ways ([otrans]); and which transitions register a request slot
   ([step_raw_reg]). *)
From Coq Require Import List NArith ZArith Bool Arith Lia Decimal DecimalNat.
From RecordUpdate Require Import RecordUpdate.
From JV Require Import Bytes Msg CliModel CliLemmas CliInv CliRet CliProofs CliC05 CliCtx CliOps CliHist CliLive CliWg CliSend CliNoStop CliStep CliGo.
Import ListNotations.

Definition has_bad (l : list spec) : Prop := exists sp, In sp l /\ sp_bad sp = true.

Lemma scan_none l : forall z, scan l z = None -> has_bad l.
Proof.
  induction l as [|x l IH]; cbn; intros z H; [discriminate|].
  destruct (sp_bad x) eqn:Eb; [exists x; split; [left|]; auto|].
  destruct (sp_notify x); [|discriminate]. destruct (IH _ H) as (sp & A & B). exists sp. split; [right|]; auto.
Qed.

Lemma has_bad_skipn k l : has_bad (skipn k l) -> has_bad l.
Proof. intros (sp & A & B). exists sp. split; auto. rewrite <- (firstn_skipn k l). apply in_or_app. auto. Qed.

(* the ways in which a transition changes the record of one operation *)
Inductive otrans (s : state) : oprec -> oprec -> Prop :=
| ot_req o k pc : o_pc o = PReq k -> (pc = PSend \/ exists k', pc = PReq k') ->
    otrans s o (o <| o_slots ::= fun l => l ++ [length (slots s)] |> <| o_pc := pc |>)
| ot_req_bad o k : o_pc o = PReq k -> has_bad (o_specs o) ->
    otrans s o (o <| o_slots ::= fun l => l ++ [length (slots s)] |> <| o_pc := PDone |> <| o_ret := Some (RetFail EBadParams) |>)
| ot_send_stopped o c : o_pc o = PSend -> err s = Some c ->
    otrans s o (o <| o_pc := PDone |> <| o_ret := Some (RetFail (EStopped c)) |>)
| ot_send_ok o : o_pc o = PSend -> err s = None -> send_fail s = false -> otrans s o (o <| o_pc := PWait 0 |>)
| ot_send_fail o : o_pc o = PSend -> err s = None -> send_fail s = true ->
    otrans s o (o <| o_pc := PDone |> <| o_ret := Some (RetFail ESendFail) |>)
| ot_close o : o_pc o = PClose -> otrans s o (o <| o_pc := PCloseWait (negb (is_some (err s))) |>)
| ot_wait o k i : o_pc o = PWait k -> nth_error (o_slots o) k = Some i -> slot_val s i <> None ->
    otrans s o (o <| o_pc := PWait (S k) |>)
| ot_ret o k : o_pc o = PWait k -> nth_error (o_slots o) k = None ->
    otrans s o (o <| o_pc := PDone |> <| o_ret := Some (result_of s o) |>)
| ot_close_ret o b : o_pc o = PCloseWait b -> wg s = 0 ->
    otrans s o (o <| o_pc := PDone |> <| o_ret := Some (close_ret s) |>).

(* a freshly issued operation *)
Definition new_op (k : opkind) (specs : list spec) (o : oprec) : Prop :=
  o_kind o = k /\ o_specs o = specs /\ o_slots o = [] /\ o_ctx o = None
  /\ ((k = KClose /\ o_pc o = PClose /\ o_ret o = None)
      \/ (k <> KClose /\ (o_pc o = PSend \/ exists j, o_pc o = PReq j) /\ o_ret o = None)
      \/ (k <> KClose /\ specs = [] /\ o_pc o = PDone /\ o_ret o = Some (RetFail EEmptyBatch))
      \/ (k <> KClose /\ has_bad specs /\ o_pc o = PDone /\ o_ret o = Some (RetFail EBadParams))).

Definition ops_shape (s : state) (l : label) (s' : state) : Prop :=
  match l with
  | LOp n k specs => n = length (ops s) /\ specs_ok k specs = true /\ exists o', ops s' = ops s ++ [o'] /\ new_op k specs o'
  | LCtxEnd n w => ops s' = ops s \/ exists o, op_at s n = Some o /\ ops s' = upd_nth n (fun _ => o <| o_ctx := Some w |>) (ops s)
  | LRelReq n =>
      exists o o', op_at s n = Some o /\ (exists k, o_pc o = PReq k) /\ otrans s o o' /\ ops s' = upd_nth n (fun _ => o') (ops s)
  | LRelSend n =>
      exists o o', op_at s n = Some o /\ o_pc o = PSend /\ otrans s o o' /\ ops s' = upd_nth n (fun _ => o') (ops s)
  | LRelClose n =>
      exists o o', op_at s n = Some o /\ o_pc o = PClose /\ otrans s o o' /\ ops s' = upd_nth n (fun _ => o') (ops s)
  | _ => ops s' = ops s
  end.

Lemma upd_nth_const {A} (f : A -> A) l : forall n x, nth_error l n = Some x -> upd_nth n f l = upd_nth n (fun _ => f x) l.
Proof. induction l as [|y l IH]; intros [|n] x H; cbn in *; try discriminate; [congruence|]. f_equal. eapply IH; eauto. Qed.

Lemma upd_nth_const' {A} (f : A -> A) l n x y : nth_error l n = Some x -> y = f x -> upd_nth n f l = upd_nth n (fun _ => y) l.
Proof. intros H ->. apply upd_nth_const; auto. Qed.

Lemma step_raw_ops s l s' : inv1 s -> step_raw s l = Some s' -> ops_shape s l s'.
Proof.
  intros I E. destruct l; cbn [ops_shape]; cbn in E.
  - destruct (negb (n =? length (ops s)) || negb (specs_ok k specs)) eqn:G0; [discriminate|].
    apply orb_false_iff in G0. destruct G0 as [G1 G2]. apply negb_false_iff, Nat.eqb_eq in G1. apply negb_false_iff in G2. subst n.
    splits; auto. unfold new_op.
    assert (Hk : forall pc, scan specs 0 = Some pc -> pc = PSend \/ exists j, pc = PReq j) by (intros pc; apply scan_pc).
    destruct k.
    1-3: destruct (is_nil specs) eqn:En;
         [injection E as <-; eexists; split; [cbn; apply upd_nth_snoc|]; cbn; splits; auto;
          right; right; left; splits; auto; try discriminate; destruct specs; [reflexivity|discriminate]|];
         destruct (scan specs 0) as [pc|] eqn:Sc; injection E as <-;
         (eexists; split; [cbn; apply upd_nth_snoc|]; cbn; splits; auto);
         [right; left; splits; auto; discriminate|right; right; right; splits; auto; try discriminate; eapply scan_none; eauto].
    injection E as <-. eexists. split; [cbn; apply upd_nth_snoc|]. cbn. splits; auto.
  - injection E as <-. reflexivity.
  - injection E as <-. reflexivity.
  - destruct (op_at s n) as [o|] eqn:Eo; [|discriminate]. destruct (o_ctx o); injection E as <-; auto.
    right. exists o. split; auto. cbn. eapply upd_nth_const'; [exact Eo|reflexivity].
  - destruct (find_idx _ 0 (cbs s)); [|discriminate]. injection E as <-. reflexivity.
  - destruct (op_at s n) as [o|] eqn:Eo; [|discriminate]. destruct (o_pc o) eqn:Epc; try discriminate.
    change (match o_specs o with [] => [] | _ :: l => skipn k l end) with (skipn (S k) (o_specs o)) in E.
    destruct (scan (skipn (S k) (o_specs o)) (S k)) as [pc|] eqn:Sc; injection E as <-.
    + exists o. eexists. split; auto. split; [eauto|]. split; [eapply (ot_req s o k pc); eauto; eapply scan_pc; eauto|].
      cbn. rewrite upd_nth_comp. eapply upd_nth_const'; [exact Eo|reflexivity].
    + exists o. eexists. split; auto. split; [eauto|]. split; [eapply (ot_req_bad s o k); eauto; eapply has_bad_skipn; eapply scan_none; eauto|].
      cbn. rewrite upd_nth_comp. eapply upd_nth_const'; [exact Eo|reflexivity].
  - destruct (op_at s n) as [o|] eqn:Eo; [|discriminate]. destruct (o_pc o) eqn:Epc; try discriminate.
    destruct (err s) eqn:Ee.
    { injection E as <-. exists o. eexists. split; auto. split; [eauto|]. split; [eapply ot_send_stopped; eauto|]. cbn. eapply upd_nth_const'; [exact Eo|reflexivity]. }
    destruct (send_fail s) eqn:Ef; cbn in E; injection E as <-.
    + exists o. eexists. split; auto. split; [eauto|]. split; [eapply ot_send_fail; eauto|]. cbn. eapply upd_nth_const'; [exact Eo|reflexivity].
    + exists o. eexists. split; auto. split; [eauto|]. split; [eapply ot_send_ok; eauto|]. cbn.
      match goal with |- context [fold_left _ ?L ?s1] => destruct (env_register_fold (o_ctx o) L s1) as (_ & _ & _ & A) end.
      rewrite A. cbn. eapply upd_nth_const'; [exact Eo|reflexivity].
  - destruct (nth_error (delivs s) j) as [d|]; [|discriminate]. destruct (d_st d); [|discriminate].
    destruct (deliver_all_inv1 j (d_msgs d) 0 s I) as (I1 & A & _).
    rewrite (i_crash _ (proj1 I1)) in E. injection E as <-. exact A.
  - destruct (watch_decomp s i s' I E) as (sl & Es & Ew & D). cbn zeta in D.
    destruct (assoc (id_text (sl_id sl)) (pending s)); [|rewrite D; reflexivity].
    destruct D as (_ & _ & I2 & ->). destruct (c_oncancel s); [|reflexivity].
    cbn. destruct (settle_slot_inv1 i _ I2) as (_ & A & _). rewrite A. reflexivity.
  - destruct (rd s); try discriminate. destruct (stop_locked c s) as [s1 first] eqn:Est.
    destruct (stop_locked_frame _ _ _ _ Est) as (_ & _ & _ & _ & _ & F6 & _). injection E as <-. destruct first; exact F6.
  - destruct (op_at s n) as [o|] eqn:Eo; [|discriminate]. destruct (o_pc o) eqn:Epc; try discriminate.
    destruct (err s) as [c0|] eqn:Ee.
    + rewrite (stop_locked_some _ s c0 Ee) in E. injection E as <-.
      exists o. eexists. split; auto. split; [eauto|]. split; [eapply ot_close; eauto|]. rewrite Ee. cbn. eapply upd_nth_const'; [exact Eo|reflexivity].
    + destruct (stop_locked_none SCClosed s Ee) as (s1 & Est & _ & _ & B3 & _). rewrite Est in E. injection E as <-.
      exists o. eexists. split; auto. split; [eauto|]. split; [eapply ot_close; eauto|]. rewrite Ee. cbn. rewrite B3. eapply upd_nth_const'; [exact Eo|reflexivity].
  - destruct (nth_error (cbs s) c) as [cb|]; [|discriminate]. destruct (cb_st cb); try discriminate.
    injection E as <-. destruct (err s); reflexivity.
Qed.

Lemma settle1_ops s s' : inv1 s -> settle1 s = Some s' ->
  ops s' = ops s \/ exists n o o', op_at s n = Some o /\ ((exists k, o_pc o = PWait k) \/ (exists b, o_pc o = PCloseWait b))
                                   /\ otrans s o o' /\ ops s' = upd_nth n (fun _ => o') (ops s).
Proof.
  intros I E.
  destruct (settle1_inv s s' (i_crash _ (proj1 I)) E) as [(b & ms & q & _ & _ & ->)|[(q & _ & _ & ->)|[(c & q & _ & _ & ->)|(n & o & Ho & Hr & ->)]]];
    auto.
  right. exists n, o.
  destruct (op_advance_cases n o s Hr) as [(k & i & Hpc & Hn & Hv & ->)|[(k & Hpc & Hn & ->)|(b & Hpc & Hw & ->)]].
  - eexists. split; auto. split; [eauto|]. split; [eapply ot_wait; eauto|]. cbn. destruct (settle_slot_inv1 i s I) as (_ & A & _). rewrite A.
    eapply upd_nth_const'; [exact Ho|reflexivity].
  - eexists. split; auto. split; [eauto|]. split; [eapply ot_ret; eauto|]. cbn. eapply upd_nth_const'; [exact Ho|reflexivity].
  - eexists. split; auto. split; [eauto|]. split; [eapply ot_close_ret; eauto|]. destruct b; [destruct (err s)|]; cbn; (eapply upd_nth_const'; [exact Ho|reflexivity]).
Qed.

(* what an operation record keeps across any transition *)
Lemma otrans_keeps s o o' : otrans s o o' ->
  o_kind o' = o_kind o /\ o_specs o' = o_specs o /\ o_ctx o' = o_ctx o
  /\ (o_slots o' = o_slots o \/ (presend o = true /\ o_slots o' = o_slots o ++ [length (slots s)])).
Proof.
  intros H. destruct H; cbn; splits; auto.
  all: right; split; auto; unfold presend; rewrite H; reflexivity.
Qed.

(** * a request slot is registered only by the successful Send of its owner *)
Lemma step_raw_reg s l s' : inv1 s -> step_raw s l = Some s' ->
  forall i sl', slot_at s' i = Some sl' -> sl_reg sl' = true ->
    (exists sl, slot_at s i = Some sl /\ sl_reg sl = true)
    \/ (exists n o, l = LRelSend n /\ op_at s n = Some o /\ o_pc o = PSend /\ err s = None /\ send_fail s = false /\ In i (o_slots o)).
Proof.
  intros I E i sl' Hs Hr.
  assert (Hg : gsl s s' -> (exists sl, slot_at s i = Some sl /\ sl_reg sl = true) \/
                           (exists n o, l = LRelSend n /\ op_at s n = Some o /\ o_pc o = PSend /\ err s = None /\ send_fail s = false /\ In i (o_slots o))).
  { intros G. left. destruct (G _ _ Hs) as (sl & H1 & _ & H2 & _). exists sl. split; auto. congruence. }
  destruct l; cbn in E.
  - apply Hg. apply gsl_refl.
    destruct (negb (n =? length (ops s)) || negb (specs_ok k specs)); [discriminate|].
    destruct k.
    1-3: destruct (is_nil specs); [injection E as <-; reflexivity|]; destruct (scan specs 0); injection E as <-; reflexivity.
    injection E as <-; reflexivity.
  - injection E as <-. apply Hg, gsl_refl; reflexivity.
  - injection E as <-. apply Hg, gsl_refl; reflexivity.
  - destruct (op_at s n) as [o|]; [|discriminate]. destruct (o_ctx o); injection E as <-; apply Hg; [apply gsl_refl; reflexivity|].
    eapply gsl_map; [reflexivity|]. intros sl. cbv beta. destruct ((sl_op sl =? n) && sl_reg sl); [apply sl_g_cancel|apply sl_g_refl].
  - destruct (find_idx _ 0 (cbs s)); [|discriminate]. injection E as <-. apply Hg, gsl_refl; reflexivity.
  - destruct (op_at s n) as [o|]; [|discriminate]. destruct (o_pc o); try discriminate.
    assert (Hs0 : nth_error (slots s ++ [mkSlot n (next_id s) false None false None WNone]) i = Some sl').
    { match type of E with (match ?x with Some _ => _ | None => _ end) = _ => destruct x end; injection E as <-; exact Hs. }
    left. destruct (nth_error_snoc _ _ _ _ Hs0) as [[_ H1]|[_ ->]]; [eauto|discriminate].
  - destruct (op_at s n) as [o|] eqn:Eo; [|discriminate]. destruct (o_pc o) eqn:Epc; try discriminate.
    destruct (err s) eqn:Ee; [injection E as <-; apply Hg, gsl_refl; reflexivity|].
    destruct (send_fail s) eqn:Ef; cbn in E; injection E as <-; [apply Hg, gsl_refl; reflexivity|].
    assert (Hp0 : presend o = true) by (unfold presend; rewrite Epc; auto).
    set (s1 := emit _ s) in *.
    assert (I1 : inv1 s1). { apply (inv1_frame s); try reflexivity; auto; try apply I. apply ops_frame_refl; reflexivity. }
    destruct I1 as [W1 P1].
    destruct (register_fold (o_ctx o) (o_slots o) s1 W1 (i_nd _ W1 n o Eo)) as (_ & _ & _ & _ & Hother).
    { intros i0 Hi. apply (P1 n o i0 Eo Hp0 Hi). }
    destruct (in_dec Nat.eq_dec i (o_slots o)) as [Hin|Hn].
    + right. exists n, o. splits; auto.
    + left. exists sl'. split; auto. assert (X := Hother i Hn). change (slot_at s1 i) with (slot_at s i) in X. rewrite <- X. exact Hs.
  - destruct (nth_error (delivs s) j) as [d|]; [|discriminate]. destruct (d_st d); [|discriminate].
    destruct (deliver_all_inv1 j (d_msgs d) 0 s I) as (I1 & _).
    rewrite (i_crash _ (proj1 I1)) in E. injection E as <-.
    apply Hg. eapply gsl_trans; [apply (deliver_all_g j (d_msgs d) 0 s I)|apply gsl_refl; reflexivity].
  - destruct (watch_decomp s i0 s' I E) as (sl & Es & Ew & D). cbn zeta in D. apply Hg.
    assert (G1 : gsl s (set_slot i0 (fun sl0 => sl0 <| sl_watch := WDone |>) s)).
    { apply gsl_set_slot. intros sl0 _. unfold sl_g, settled_ok. cbn. auto. }
    destruct (assoc (id_text (sl_id sl)) (pending s)); [|rewrite D; exact G1].
    destruct D as (_ & _ & I2 & ->).
    match type of I2 with inv1 ?x => set (s2 := x) in * end.
    assert (G2 : gsl s s2).
    { eapply gsl_trans; [exact G1|]. eapply gsl_trans; [|apply gsl_set_slot; intros; apply sl_g_buf]. apply gsl_refl; reflexivity. }
    destruct (c_oncancel s); auto.
    eapply gsl_trans; [exact G2|]. eapply gsl_trans; [apply (settle_slot_g i0 s2 I2)|apply gsl_refl; reflexivity].
  - destruct (rd s); try discriminate. destruct (stop_locked c s) as [s1 first] eqn:Est.
    destruct (stop_locked_g _ _ _ _ Est) as (A1 & _). injection E as <-. apply Hg.
    eapply gsl_trans; [exact A1|]. destruct first; apply gsl_refl; reflexivity.
  - destruct (op_at s n) as [o|]; [|discriminate]. destruct (o_pc o); try discriminate.
    destruct (stop_locked SCClosed s) as [s1 first] eqn:Est.
    destruct (stop_locked_g _ _ _ _ Est) as (A1 & _). injection E as <-. apply Hg.
    eapply gsl_trans; [exact A1|]. apply gsl_refl; reflexivity.
  - destruct (nth_error (cbs s) c) as [cb|]; [|discriminate]. destruct (cb_st cb); try discriminate.
    injection E as <-. apply Hg. destruct (err s); apply gsl_refl; reflexivity.
Qed.

Lemma settle1_gsl s s' : inv1 s -> settle1 s = Some s' -> gsl s s'.
Proof.
  intros I E.
  destruct (settle1_inv s s' (i_crash _ (proj1 I)) E) as [(b & ms & q & _ & _ & ->)|[(q & _ & _ & ->)|[(c & q & _ & _ & ->)|(n & o & Ho & Hr & ->)]]];
    try (apply gsl_refl; reflexivity).
  destruct (op_advance_cases n o s Hr) as [(k & i & Hpc & Hn & Hv & ->)|[(k & Hpc & Hn & ->)|(b & Hpc & Hw & ->)]].
  - eapply gsl_trans; [apply (settle_slot_g i s I)|apply gsl_refl; reflexivity].
  - apply gsl_refl; reflexivity.
  - apply gsl_refl. destruct b; [destruct (err s)|]; reflexivity.
Qed.

(** * wire ids are never empty *)
Lemma id_text_nonnil n : id_text n <> [].
Proof.
  unfold id_text. intros H.
  assert (E : Nat.to_uint n = Nil) by (destruct (Nat.to_uint n); try discriminate; auto).
  assert (X := Unsigned.of_to n). rewrite E in X. cbn in X. subst n. discriminate.
Qed.
