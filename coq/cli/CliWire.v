(* CliWire: the request record of a Batch carries the specs' methods and parameters in spec
   order, ids exactly at the non-notification positions (C04); and one member of the peer's
   records is the source of at most one slot value (C04: each reply is consumed by at most
   one request). *)
From Coq Require Import List NArith ZArith Bool Arith Lia.
From RecordUpdate Require Import RecordUpdate.
From JV Require Import Bytes Msg CliModel CliLemmas CliInv CliRet CliProofs CliC05 CliCtx CliOps CliHist CliSend.
Import ListNotations.

Definition mem_payload (m : bytes * bytes * bytes) : bytes * bytes := (snd (fst m), snd m).
Definition spec_payload (sp : spec) : bytes * bytes := (sp_method sp, sp_params sp).

Lemma req_members_payload specs : forall sls s, map mem_payload (req_members specs sls s) = map spec_payload specs.
Proof.
  induction specs as [|sp r IH]; intros sls s; cbn; auto.
  destruct (sp_notify sp); [cbn; f_equal; apply IH|].
  destruct sls as [|i sls']; cbn; f_equal; apply IH.
Qed.

Lemma req_members_notif specs : forall sls s,
  Forall2 (fun sp m => sp_notify sp = true -> fst (fst m) = []) specs (req_members specs sls s).
Proof.
  induction specs as [|sp r IH]; intros sls s; cbn; [constructor|].
  destruct (sp_notify sp) eqn:En; [constructor; auto|].
  destruct sls as [|i sls']; constructor; auto; intros X; congruence.
Qed.

Lemma wire_ids_full c tr s : traces_to c tr s ->
  (forall n r, In (ORet n (RetCall r)) (hist s) ->
     exists o i sl sp, op_at s n = Some o /\ o_specs o = [sp] /\ sp_notify sp = false /\ o_slots o = [i] /\ slot_at s i = Some sl
       /\ In (OSendReq true false [(id_text (sl_id sl), sp_method sp, sp_params sp)]) (hist s))
  /\ (forall n rs, In (ORet n (RetBatch rs)) (hist s) ->
        exists o ms, op_at s n = Some o /\ In (OSendReq true (negb (length (o_specs o) =? 1)) ms) (hist s)
          /\ length ms = length (o_specs o) /\ map fst rs = nn_ids (o_specs o) ms /\ length rs = nn (o_specs o)
          (* the record is the operation's own: one member per spec, in spec order, with the spec's method and parameters *)
          /\ ms = req_members (o_specs o) (o_slots o) s
          /\ map mem_payload ms = map spec_payload (o_specs o)
          (* a notification carries no id; the ids at the other positions are those of the operation's slots, in order *)
          /\ Forall2 (fun sp m => sp_notify sp = true -> fst (fst m) = []) (o_specs o) ms
          /\ nn_ids (o_specs o) ms = map (slot_text s) (o_slots o)).
Proof.
  intros T. destruct (wire_ids c tr s T) as [WC _]. split; auto.
  destruct (trace_invs c tr s T) as (I & K & C & P & H & O).
  destruct (invS_reach c s (traces_reach _ _ _ T)) as (_ & SI).
  intros n rs Hin. destruct (k_val _ K _ _ Hin) as (o & Ho & Hr).
  destruct (P n o Ho) as (A & _ & _ & D). destruct (D _ Hr) as (Hk & F).
  assert (Hpc : o_pc o = PDone) by (apply A; rewrite Hr; reflexivity).
  destruct (SI n o Ho) as (S1 & S2 & S3). unfold cnt_ok in S2. rewrite Hpc, Hr in S2. specialize (S2 eq_refl).
  unfold sent in S3. rewrite Hpc, Hr in S3. specialize (S3 eq_refl).
  destruct (req_members_ids s (o_specs o) (o_slots o) S2) as [L1 L2].
  exists o, (req_members (o_specs o) (o_slots o) s). splits; auto.
  - rewrite L2. clear - F. induction F as [|i p L rs' (v & _ & ->) F IH]; cbn; auto. f_equal. exact IH.
  - rewrite <- S2. symmetry. eapply Forall2_length'; eauto.
  - apply req_members_payload.
  - apply req_members_notif.
Qed.

(** * each reply is consumed by at most one request *)
Lemma reply_single_consumer c tr s : traces_to c tr s ->
  (* one member (j, k) of the peer's records is the source of at most one slot value *)
  (forall i i' sl sl' v v' j k, slot_at s i = Some sl -> slot_at s i' = Some sl' -> sl_buf sl = Some v -> sl_buf sl' = Some v' ->
     v_src v = SPeer j k -> v_src v' = SPeer j k -> i = i')
  (* and that slot bears the member's id *)
  /\ (forall i sl v j k, slot_at s i = Some sl -> sl_buf sl = Some v -> v_src v = SPeer j k ->
        exists m, member_at s j k m /\ is_req_or_notif m = false /\ fix_id (j_id m) = id_text (sl_id sl) /\ v = val_of_member j k m).
Proof.
  intros T. destruct (trace_invs c tr s T) as (I & K & C & P & H & O).
  assert (Hsrc : forall i sl v j k, slot_at s i = Some sl -> sl_buf sl = Some v -> v_src v = SPeer j k ->
            exists m, member_at s j k m /\ is_req_or_notif m = false /\ fix_id (j_id m) = id_text (sl_id sl) /\ v = val_of_member j k m).
  { intros i sl v j k Hs Hb Hv. destruct (slot_answer s _ i sl v I C H Hs Hb) as (e & _ & _ & _ & A).
    destruct e as [j0 k0 m tgt|i0 w].
    - destruct A as (_ & A1 & A2 & A3 & A4). rewrite A4 in Hv.
      assert (X : v_src (val_of_member j0 k0 m) = SPeer j0 k0) by (unfold val_of_member; destruct (j_err m); reflexivity).
      rewrite X in Hv. injection Hv as -> ->. eauto.
    - destruct A as (_ & _ & cw & _ & _ & (e0 & -> & _)). discriminate. }
  split; auto.
  intros i i' sl sl' v v' j k Hs Hs' Hb Hb' Hv Hv'.
  destruct (Hsrc _ _ _ _ _ Hs Hb Hv) as (m & (d & D1 & D2) & _ & E1 & _).
  destruct (Hsrc _ _ _ _ _ Hs' Hb' Hv') as (m' & (d' & D1' & D2') & _ & E1' & _).
  rewrite D1 in D1'. injection D1' as <-. rewrite D2 in D2'. injection D2' as <-.
  eapply slot_key_inj; eauto. congruence.
Qed.

(* non-vacuity: in ex_trace (CliProofs) the duplicate reply for id "1" (member 3) is consumed by nobody, member 2 by slot 0 *)
Example reply_single_consumer_nonvacuous :
  exists s sl v, traces_to ex_cfg ex_trace s /\ slot_at s 0 = Some sl /\ sl_buf sl = Some v /\ v_src v = SPeer 0 2
    /\ filter (fun sl' => match sl_buf sl' with
                          | Some v' => match v_src v' with SPeer 0 3 => true | _ => false end
                          | None => false end) (slots s) = [].
Proof.
  destruct (run (init_of ex_cfg) ex_trace) as [[s oss]|] eqn:E; [|revert E; vm_compute; discriminate].
  exists s. revert E. vm_compute. intros E. injection E as <- <-.
  eexists. eexists. split; [eexists; reflexivity|]. splits; reflexivity.
Qed.

Example wire_ids_full_nonvacuous :
  exists s, traces_to ex_cfg ex_trace_batch s
    /\ In (ORet 0 (RetBatch [([49%N], RRes [55%N]); ([50%N], RRes [56%N])])) (hist s)
    /\ In (OSendReq true true [([49%N], [109%N], [91%N; 49%N; 93%N]); ([], [110%N], []); ([50%N], [109%N], [91%N; 50%N; 93%N])]) (hist s).
Proof.
  destruct (run (init_of ex_cfg) ex_trace_batch) as [[s oss]|] eqn:E.
  - exists s. split; [exists oss; exact E|]. revert E. vm_compute. intros [= <- _]. splits; auto.
  - revert E. vm_compute. discriminate.
Qed.
