(* CliInv: the safety invariant of the client model (ids, pending set, slots, single writer)
   and its preservation by every environment action, critical section and unhooked step. *)
From Coq Require Import List NArith ZArith Bool Arith Lia.
From RecordUpdate Require Import RecordUpdate.
From JV Require Import Bytes Msg CliModel CliLemmas.
Import ListNotations.

#[global] Arguments id_text : simpl never.

Definition presend (o : oprec) : bool := match o_pc o with PReq _ | PSend => true | _ => false end.
Definition slot_core (sl : slot) := (sl_op sl, sl_id sl, sl_reg sl, sl_buf sl).

(* everything but the clause about operations that have not yet sent *)
Record inv1w (s : state) : Prop := {
  i_crash : crash s = None;
  i_over : overwrites s = 0;
  i_next : next_id s = S (length (slots s));
  i_ids : forall i sl, slot_at s i = Some sl -> sl_id sl = S i;
  i_pend : forall key i, In (key, i) (pending s) ->
           exists sl, slot_at s i = Some sl /\ key = id_text (sl_id sl) /\ sl_reg sl = true /\ sl_buf sl = None;
  i_nodup : NoDup (map fst (pending s));
  i_unreg : forall i sl, slot_at s i = Some sl -> sl_reg sl = false -> sl_buf sl = None;
  i_own : forall n o i, op_at s n = Some o -> In i (o_slots o) -> exists sl, slot_at s i = Some sl /\ sl_op sl = n;
  i_nd : forall n o, op_at s n = Some o -> NoDup (o_slots o);
  i_val : forall i sl v, slot_at s i = Some sl -> sl_buf sl = Some v -> fix_id (v_id v) = id_text (sl_id sl)
}.

Definition pre_ok (s : state) : Prop :=
  forall n o i, op_at s n = Some o -> presend o = true -> In i (o_slots o) ->
                exists sl, slot_at s i = Some sl /\ sl_reg sl = false.

Definition inv1 (s : state) : Prop := inv1w s /\ pre_ok s.

(** * access lemmas *)
Lemma slot_at_set_slot i f s j :
  slot_at (set_slot i f s) j = if i =? j then option_map f (slot_at s j) else slot_at s j.
Proof. unfold slot_at, set_slot. cbn. apply nth_error_upd_nth. Qed.

Lemma op_at_set_op n f s m :
  op_at (set_op n f s) m = if n =? m then option_map f (op_at s m) else op_at s m.
Proof. unfold op_at, set_op. cbn. apply nth_error_upd_nth. Qed.

Lemma slot_at_lt s i sl : slot_at s i = Some sl -> i < length (slots s).
Proof. unfold slot_at. intros H. apply nth_error_Some. congruence. Qed.

Lemma map_core_upd i f l : (forall sl, slot_core (f sl) = slot_core sl) ->
  map slot_core (upd_nth i f l) = map slot_core l.
Proof. intros H. revert i; induction l as [|x r IH]; intros [|i]; cbn; auto; f_equal; auto. Qed.

Lemma cancel_slot_core w sl : slot_core (cancel_slot w sl) = slot_core sl.
Proof. unfold cancel_slot. destruct (sl_pctx sl); reflexivity. Qed.

Lemma core_at (l l' : list slot) : map slot_core l' = map slot_core l ->
  forall i sl', nth_error l' i = Some sl' -> exists sl, nth_error l i = Some sl /\ slot_core sl' = slot_core sl.
Proof.
  intros E i sl' H. assert (H1 : nth_error (map slot_core l') i = Some (slot_core sl')) by (apply map_nth_error; auto).
  rewrite E in H1. apply nth_error_map_some in H1. destruct H1 as (sl & H1 & H2). eauto.
Qed.

Ltac splits := repeat match goal with |- _ /\ _ => split end.
Ltac core H := unfold slot_core in H; injection H as ? ? ? ?.

(** * frame lemma: steps that change neither the pending set nor the core of any slot *)
Definition ops_frame (s s' : state) : Prop :=
  forall n o', op_at s' n = Some o' ->
    o_slots o' = [] \/ exists o, op_at s n = Some o /\ o_slots o' = o_slots o /\ (presend o' = true -> presend o = true).

Lemma inv1w_frame s s' :
  map slot_core (slots s') = map slot_core (slots s) -> pending s' = pending s -> next_id s' = next_id s ->
  crash s' = None -> overwrites s' = overwrites s -> ops_frame s s' -> inv1w s -> inv1w s'.
Proof.
  intros Es Ep En Ec Eo Fo W.
  assert (Fwd := core_at (slots s) (slots s') Es). assert (Bwd := core_at (slots s') (slots s) (eq_sym Es)).
  assert (El : length (slots s') = length (slots s)).
  { rewrite <- (map_length slot_core (slots s')), Es, map_length; auto. }
  constructor; unfold slot_at in *.
  - auto.
  - rewrite Eo; apply W.
  - rewrite En, El; apply W.
  - intros i sl' H. destruct (Fwd _ _ H) as (sl & H1 & H2). core H2.
    pose proof (i_ids _ W _ _ H1). congruence.
  - intros key i H. rewrite Ep in H. destruct (i_pend _ W _ _ H) as (sl & H1 & H2 & H3 & H4).
    destruct (Bwd _ _ H1) as (sl' & H5 & H6). core H6. exists sl'. splits; congruence.
  - rewrite Ep; apply W.
  - intros i sl' H R. destruct (Fwd _ _ H) as (sl & H1 & H2). core H2.
    assert (R' : sl_reg sl = false) by congruence. pose proof (i_unreg _ W _ _ H1 R'). congruence.
  - intros n o' i H Hin. destruct (Fo _ _ H) as [E|(o & H1 & H2 & H3)]; [rewrite E in Hin; destruct Hin|].
    rewrite H2 in Hin. destruct (i_own _ W _ _ _ H1 Hin) as (sl & H4 & H5).
    destruct (Bwd _ _ H4) as (sl' & H6 & H7). core H7. exists sl'; split; congruence.
  - intros n o' H. destruct (Fo _ _ H) as [E|(o & H1 & H2 & H3)]; [rewrite E; constructor|].
    rewrite H2. eapply (i_nd _ W); eauto.
  - intros i sl' v H Hb. destruct (Fwd _ _ H) as (sl & H1 & H2). core H2.
    assert (Hb' : sl_buf sl = Some v) by congruence. pose proof (i_val _ W _ _ _ H1 Hb'). congruence.
Qed.

Lemma inv1_frame s s' :
  map slot_core (slots s') = map slot_core (slots s) -> pending s' = pending s -> next_id s' = next_id s ->
  crash s' = None -> overwrites s' = overwrites s -> ops_frame s s' -> inv1 s -> inv1 s'.
Proof.
  intros Es Ep En Ec Eo Fo [W P]. split; [eapply inv1w_frame; eauto|].
  assert (Bwd := core_at (slots s') (slots s) (eq_sym Es)).
  unfold pre_ok, slot_at in *.
  intros n o' i H Hp Hin. destruct (Fo _ _ H) as [E|(o & H1 & H2 & H3)]; [rewrite E in Hin; destruct Hin|].
  rewrite H2 in Hin. destruct (P _ _ _ H1 (H3 Hp) Hin) as (sl & H4 & H5).
  destruct (Bwd _ _ H4) as (sl' & H6 & H7). core H7. exists sl'; split; congruence.
Qed.

Lemma ops_frame_refl s s' : ops s' = ops s -> ops_frame s s'.
Proof. intros E n o' H. right. exists o'. unfold op_at in *. rewrite <- E. auto. Qed.

Lemma ops_frame_set_op s s' n g :
  ops s' = ops (set_op n g s) ->
  (forall o, op_at s n = Some o -> o_slots (g o) = o_slots o /\ (presend (g o) = true -> presend o = true)) ->
  ops_frame s s'.
Proof.
  intros E Hg m o' H. right. unfold op_at in H. rewrite E in H. fold (op_at (set_op n g s) m) in H.
  rewrite op_at_set_op in H. destruct (Nat.eqb_spec n m) as [->|N].
  - destruct (op_at s m) as [o|] eqn:Eo; [|discriminate]. cbn in H. injection H as <-.
    exists o. destruct (Hg o eq_refl); auto.
  - exists o'; auto.
Qed.

(* after appending a fresh operation without slots *)
Lemma ops_frame_new s s' o0 n g :
  ops s' = upd_nth n g (ops s ++ [o0]) -> o_slots o0 = [] -> n = length (ops s) -> (forall o, o_slots (g o) = o_slots o) ->
  ops_frame s s'.
Proof.
  intros E H0 -> Hg m o' H. unfold op_at in H. rewrite E, nth_error_upd_nth in H.
  destruct (Nat.eqb_spec (length (ops s)) m) as [<-|N].
  - rewrite nth_error_app_new in H. cbn in H. injection H as <-. left. rewrite Hg; auto.
  - right. destruct (nth_error_snoc _ _ _ _ H) as [[L H1]|[L _]]; [|congruence]. exists o'; auto.
Qed.

(** * settle_slot, cancel: core preserving *)
Lemma settle_slot_inv1 i s : inv1 s -> inv1 (settle_slot i s) /\ ops (settle_slot i s) = ops s /\ delivs (settle_slot i s) = delivs s
                                        /\ map slot_core (slots (settle_slot i s)) = map slot_core (slots s).
Proof.
  intros I. unfold settle_slot. destruct (slot_at s i) as [sl|] eqn:E; auto.
  destruct (sl_buf sl) as [v|] eqn:Eb; auto. destruct (sl_settled sl); auto.
  rewrite (i_val _ (proj1 I) _ _ _ E Eb), beq_refl.
  assert (C : map slot_core (slots (set_slot i (fun sl0 => cancel_slot WCancel (sl0 <| sl_settled := true |>)) s)) = map slot_core (slots s)).
  { unfold set_slot; cbn. apply map_core_upd. intros x. rewrite cancel_slot_core. reflexivity. }
  splits; auto.
  apply (inv1_frame s); auto; try reflexivity. apply I. apply ops_frame_refl; reflexivity.
Qed.

Lemma fold_cancel_eq l : forall s,
  fold_left (fun st (p : bytes * nat) => set_slot (snd p) (cancel_slot WCancel) st) l s
  = s <| slots := fold_left (fun sls (p : bytes * nat) => upd_nth (snd p) (cancel_slot WCancel) sls) l (slots s) |>.
Proof.
  induction l as [|p r IH]; intros s; cbn.
  - destruct s; reflexivity.
  - rewrite IH. reflexivity.
Qed.

Lemma fold_cancel_core l : forall sls,
  map slot_core (fold_left (fun sls (p : bytes * nat) => upd_nth (snd p) (cancel_slot WCancel) sls) l sls) = map slot_core sls.
Proof.
  induction l as [|p r IH]; intros sls; cbn; auto. rewrite IH. apply map_core_upd. apply cancel_slot_core.
Qed.

Lemma stop_locked_frame c s s1 b : stop_locked c s = (s1, b) ->
  map slot_core (slots s1) = map slot_core (slots s) /\ pending s1 = pending s /\ next_id s1 = next_id s
  /\ crash s1 = crash s /\ overwrites s1 = overwrites s /\ ops s1 = ops s /\ delivs s1 = delivs s.
Proof.
  unfold stop_locked. destruct (err s).
  - intros [= <- <-]. splits; auto.
  - rewrite fold_cancel_eq. intros H. injection H as <- <-.
    destruct (c_unblock _); cbn; rewrite fold_cancel_core; splits; auto.
Qed.

(** * writing a pending slot *)
Lemma write_pending_ok s key i v :
  inv1 s -> In (key, i) (pending s) -> fix_id (v_id v) = key ->
  let s' := write_slot i v (s <| pending ::= assoc_del key |>) in
  inv1 s' /\ ops s' = ops s /\ delivs s' = delivs s /\ slots s' = upd_nth i (fun sl => sl <| sl_buf := Some v |>) (slots s)
  /\ pending s' = assoc_del key (pending s) /\ hist s' = hist s.
Proof.
  intros [W P] Hin Hv. destruct (i_pend _ W _ _ Hin) as (sl & Hs & Hk & Hr & Hb).
  set (f := fun sl0 : slot => sl0 <| sl_buf := Some v |>).
  assert (Es : write_slot i v (s <| pending ::= assoc_del key |>) = set_slot i f (s <| pending ::= assoc_del key |>)).
  { unfold write_slot. replace (slot_at (s <| pending ::= assoc_del key |>) i) with (slot_at s i) by reflexivity.
    rewrite Hs, Hb. reflexivity. }
  rewrite Es. set (s' := set_slot i f _). cbn zeta.
  assert (Hsl : forall j, slot_at s' j = if i =? j then option_map f (slot_at s j) else slot_at s j)
    by (intros; unfold s'; rewrite slot_at_set_slot; reflexivity).
  assert (Hop : forall n, op_at s' n = op_at s n) by reflexivity.
  assert (Hpe : pending s' = assoc_del key (pending s)) by reflexivity.
  assert (Hcr : crash s' = crash s) by reflexivity.
  assert (Hov : overwrites s' = overwrites s) by reflexivity.
  assert (Hnx : next_id s' = next_id s) by reflexivity.
  assert (Hlen : length (slots s') = length (slots s)) by (unfold s', set_slot; cbn; apply upd_nth_length).
  splits; try reflexivity. clearbody s'. split.
  - (* inv1w *)
    constructor.
    + rewrite Hcr; apply W.
    + rewrite Hov; apply W.
    + rewrite Hnx, Hlen; apply W.
    + intros j sl' H. rewrite Hsl in H. destruct (i =? j); [|eapply (i_ids _ W); eauto].
      destruct (slot_at s j) as [x|] eqn:E; [|discriminate]. injection H as <-. unfold f. cbn. eapply (i_ids _ W); eauto.
    + intros key' j H. rewrite Hpe in H. apply in_assoc_del in H. destruct H as [H Hne]. cbn in Hne.
      destruct (i_pend _ W _ _ H) as (sl' & H1 & H2 & H3 & H4).
      assert (i <> j). { intros ->. rewrite Hs in H1. injection H1 as <-. congruence. }
      exists sl'. rewrite Hsl. destruct (Nat.eqb_spec i j); [contradiction|]. auto.
    + rewrite Hpe. apply nodup_assoc_del. apply W.
    + intros j sl' H R. rewrite Hsl in H. destruct (Nat.eqb_spec i j) as [<-|N]; [|eapply (i_unreg _ W); eauto].
      rewrite Hs in H. injection H as <-. unfold f in *. cbn in R. congruence.
    + intros n o j H Hj. rewrite Hop in H. destruct (i_own _ W _ _ _ H Hj) as (sl' & H1 & H2).
      rewrite Hsl. destruct (i =? j); [|eauto]. rewrite H1. unfold f. cbn. eexists; split; eauto.
    + intros n o H. rewrite Hop in H. eapply (i_nd _ W); eauto.
    + intros j sl' v' H Hb'. rewrite Hsl in H. destruct (Nat.eqb_spec i j) as [<-|N]; [|eapply (i_val _ W); eauto].
      rewrite Hs in H. cbn in H. injection H as <-. unfold f in *. cbn in Hb'. injection Hb' as <-. cbn. congruence.
  - (* pre_ok *)
    intros n o j H Hp Hj. rewrite Hop in H. destruct (P _ _ _ H Hp Hj) as (sl' & H1 & H2).
    rewrite Hsl. destruct (i =? j); [|eauto]. rewrite H1. unfold f. cbn. eexists; split; eauto.
Qed.

(** * deliverLocked *)
Lemma deliver_member_inv1 j k m s : inv1 s ->
  inv1 (deliver_member j k m s) /\ ops (deliver_member j k m s) = ops s /\ delivs (deliver_member j k m s) = delivs s.
Proof.
  intros I. unfold deliver_member.
  assert (Fr : forall s', slots s' = slots s -> pending s' = pending s -> next_id s' = next_id s -> crash s' = crash s ->
                          overwrites s' = overwrites s -> ops s' = ops s -> inv1 s').
  { intros s' E1 E2 E3 E4 E5 E6. apply (inv1_frame s); auto. rewrite E1; auto. rewrite E4; apply I.
    apply ops_frame_refl; auto. }
  destruct (is_req_or_notif m).
  - destruct (is_notification m).
    + destruct (c_onnotify s); splits; auto.
    + destruct (c_oncallback s); cbn; [|splits; auto]. destruct (err s); cbn; splits; auto.
  - destruct (assoc (fix_id (j_id m)) (pending s)) as [i|] eqn:E; [|splits; auto].
    apply assoc_in in E.
    destruct (write_pending_ok s (fix_id (j_id m)) i (val_of_member j k m) I E) as (H1 & H2 & H3 & _).
    { unfold val_of_member. destruct (j_err m); reflexivity. }
    splits; auto.
Qed.

Lemma deliver_all_inv1 j ms : forall k s, inv1 s ->
  inv1 (deliver_all j k ms s) /\ ops (deliver_all j k ms s) = ops s /\ delivs (deliver_all j k ms s) = delivs s.
Proof.
  induction ms as [|m r IH]; intros k s I; cbn; auto.
  rewrite (i_crash _ (proj1 I)). destruct (deliver_member_inv1 j k m s I) as (I1 & E1 & E2).
  destruct (IH (S k) _ I1) as (I2 & E3 & E4). splits; auto; congruence.
Qed.

Lemma nodup_snoc {A} (l : list A) x : NoDup l -> ~ In x l -> NoDup (l ++ [x]).
Proof.
  induction l as [|y r IH]; cbn; intros ND H; [constructor; [tauto|constructor]|].
  inversion ND; subst. constructor.
  - rewrite in_app_iff. cbn. intros [?|[?|[]]]; [tauto|]. subst. tauto.
  - apply IH; auto.
Qed.

(** * registration *)
Lemma upd_pending_ext s (g1 g2 : list (bytes * nat) -> list (bytes * nat)) :
  g1 (pending s) = g2 (pending s) -> s <| pending ::= g1 |> = s <| pending ::= g2 |>.
Proof. destruct s. cbn. intros H. unfold set. cbn. rewrite H. reflexivity. Qed.

Lemma register_ok ctx i s sl : inv1w s -> slot_at s i = Some sl -> sl_reg sl = false ->
  inv1w (register ctx i s) /\ ops (register ctx i s) = ops s /\ delivs (register ctx i s) = delivs s
  /\ hist (register ctx i s) = hist s
  /\ (forall j, j <> i -> slot_at (register ctx i s) j = slot_at s j)
  /\ (exists sl', slot_at (register ctx i s) i = Some sl' /\ sl_reg sl' = true /\ sl_op sl' = sl_op sl).
Proof.
  intros W Hs Hr.
  assert (Hn : assoc (id_text (sl_id sl)) (pending s) = None).
  { destruct (assoc (id_text (sl_id sl)) (pending s)) as [i'|] eqn:E; auto. apply assoc_in in E.
    destruct (i_pend _ W _ _ E) as (sl' & H1 & H2 & H3 & H4). apply id_text_inj in H2.
    rewrite (i_ids _ W _ _ Hs), (i_ids _ W _ _ H1) in H2. injection H2 as ->. congruence. }
  set (f := fun sl0 : slot => sl0 <| sl_reg := true |> <| sl_pctx := ctx |>
                               <| sl_watch := match ctx with Some _ => WParked | None => WBlocked end |>).
  assert (Es : register ctx i s = set_slot i f (s <| pending ::= fun p => (id_text (sl_id sl), i) :: p |>)).
  { unfold register. rewrite Hs, Hn. cbn [is_some]. unfold f. f_equal. apply upd_pending_ext. rewrite (assoc_del_none _ _ Hn). reflexivity. }
  rewrite Es. set (s' := set_slot i f _).
  assert (Hsl : forall j, slot_at s' j = if i =? j then option_map f (slot_at s j) else slot_at s j)
    by (intros; unfold s'; rewrite slot_at_set_slot; reflexivity).
  assert (Hop : forall n, op_at s' n = op_at s n) by reflexivity.
  assert (Hpe : pending s' = (id_text (sl_id sl), i) :: pending s) by reflexivity.
  assert (Hcr : crash s' = crash s) by reflexivity.
  assert (Hov : overwrites s' = overwrites s) by reflexivity.
  assert (Hnx : next_id s' = next_id s) by reflexivity.
  assert (Hlen : length (slots s') = length (slots s)) by (unfold s', set_slot; cbn; apply upd_nth_length).
  splits; try reflexivity; clearbody s'.
  - constructor.
    + rewrite Hcr; apply W.
    + rewrite Hov; apply W.
    + rewrite Hnx, Hlen; apply W.
    + intros j sl' H. rewrite Hsl in H. destruct (i =? j); [|eapply (i_ids _ W); eauto].
      destruct (slot_at s j) as [x|] eqn:E; [|discriminate]. injection H as <-. unfold f. cbn. eapply (i_ids _ W); eauto.
    + intros key j H. rewrite Hpe in H. destruct H as [H|H].
      * injection H as <- <-. exists (f sl). rewrite Hsl, Nat.eqb_refl, Hs.
        cbn. splits; auto. eapply (i_unreg _ W); eauto.
      * destruct (i_pend _ W _ _ H) as (sl' & H1 & H2 & H3 & H4).
        assert (i <> j). { intros ->. congruence. }
        exists sl'. rewrite Hsl. destruct (Nat.eqb_spec i j); [contradiction|]. auto.
    + rewrite Hpe. cbn. constructor; [|apply W]. apply assoc_none; auto.
    + intros j sl' H R. rewrite Hsl in H. destruct (Nat.eqb_spec i j) as [<-|N]; [|eapply (i_unreg _ W); eauto].
      rewrite Hs in H. injection H as <-. unfold f in *. cbn in R. discriminate.
    + intros n o j H Hj. rewrite Hop in H. destruct (i_own _ W _ _ _ H Hj) as (sl' & H1 & H2).
      rewrite Hsl. destruct (i =? j); [|eauto]. rewrite H1. unfold f. cbn. eexists; split; eauto.
    + intros n o H. rewrite Hop in H. eapply (i_nd _ W); eauto.
    + intros j sl' v' H Hb'. rewrite Hsl in H. destruct (Nat.eqb_spec i j) as [<-|N]; [|eapply (i_val _ W); eauto].
      rewrite Hs in H. injection H as <-. unfold f in *. cbn in Hb'. rewrite (i_unreg _ W _ _ Hs Hr) in Hb'. discriminate.
  - intros j N. rewrite Hsl. destruct (Nat.eqb_spec i j); [congruence|reflexivity].
  - exists (f sl). rewrite Hsl, Nat.eqb_refl, Hs. cbn. auto.
Qed.

Lemma register_fold ctx L : forall s, inv1w s -> NoDup L ->
  (forall i, In i L -> exists sl, slot_at s i = Some sl /\ sl_reg sl = false) ->
  let s' := fold_left (fun st i => register ctx i st) L s in
  inv1w s' /\ ops s' = ops s /\ delivs s' = delivs s /\ hist s' = hist s
  /\ (forall j, ~ In j L -> slot_at s' j = slot_at s j).
Proof.
  induction L as [|i r IH]; intros s W ND H; cbn.
  - splits; auto.
  - inversion ND as [|? ? Hni ND']; subst.
    destruct (H i (or_introl eq_refl)) as (sl & Hs & Hr).
    destruct (register_ok ctx i s sl W Hs Hr) as (W1 & E1 & E2 & E3 & Hother & _).
    destruct (IH (register ctx i s) W1 ND') as (W2 & E4 & E5 & E6 & Hother2).
    { intros j Hj. destruct (H j (or_intror Hj)) as (sl' & H1 & H2). exists sl'. split; auto.
      rewrite Hother; auto. intros ->. contradiction. }
    splits; auto; try congruence.
    intros j Hj. rewrite Hother2 by tauto. apply Hother. intros ->. tauto.
Qed.

(** * the invariant holds in every reachable state *)
Lemma inv1_init c : inv1 (init_of c).
Proof.
  split; [constructor|]; cbn; auto; unfold slot_at, op_at; cbn; try (intros; destruct i; discriminate);
    try (intros; destruct n; discriminate); try constructor.
  - intros ? ? [].
  - unfold pre_ok, op_at. cbn. intros [|n] o i H; discriminate.
Qed.

Ltac frame I := apply (inv1_frame _ _ (ltac:(try reflexivity)) (ltac:(try reflexivity)) (ltac:(try reflexivity))
                                   (ltac:(try (exact (i_crash _ (proj1 I))))) (ltac:(try reflexivity))).

Lemma finish_inv1 n r s : inv1 s -> inv1 (finish n r s).
Proof.
  intros I. apply (inv1_frame s); try reflexivity; auto. apply I.
  eapply ops_frame_set_op; [reflexivity|]. intros o _. cbn. split; auto. discriminate.
Qed.

Lemma set_pc_inv1 n pc s : inv1 s -> (forall o, op_at s n = Some o -> presend (o <| o_pc := pc |>) = true -> presend o = true) ->
  inv1 (set_op n (fun o => o <| o_pc := pc |>) s).
Proof.
  intros I H. apply (inv1_frame s); try reflexivity; auto. apply I.
  eapply ops_frame_set_op; [reflexivity|]. intros o Ho. split; auto.
Qed.

Lemma inv1_step_raw s l s' : inv1 s -> crash s = None -> step_raw s l = Some s' -> inv1 s'.
Proof.
  intros I _ E. destruct l; cbn in E.
  - (* LOp *)
    destruct (negb (n =? length (ops s)) || negb (specs_ok k specs)) eqn:G; [discriminate|].
    apply orb_false_iff in G. destruct G as [G _]. apply negb_false_iff, Nat.eqb_eq in G.
    assert (Fr : forall s' g, ops s' = upd_nth n g (ops s ++ [mkOp k specs [] PDone None None]) ->
                              (forall o, o_slots (g o) = o_slots o) ->
                              slots s' = slots s -> pending s' = pending s -> next_id s' = next_id s ->
                              crash s' = crash s -> overwrites s' = overwrites s -> inv1 s').
    { intros s0 g E1 Hg E2 E3 E4 E5 E6. apply (inv1_frame s); auto. rewrite E2; auto. rewrite E5; apply I.
      eapply ops_frame_new; eauto. }
    destruct k.
    1-3: destruct (is_nil specs); [injection E as <-; eapply Fr; reflexivity|];
         destruct (scan specs 0); injection E as <-; eapply Fr; reflexivity.
    injection E as <-. eapply Fr; reflexivity.
  - (* LFeed *) injection E as <-. apply (inv1_frame s); try reflexivity; auto; try apply I. apply ops_frame_refl; reflexivity.
  - (* LSendFault *) injection E as <-. apply (inv1_frame s); try reflexivity; auto; try apply I. apply ops_frame_refl; reflexivity.
  - (* LCtxEnd *)
    destruct (op_at s n) as [o|] eqn:Eo; [|discriminate]. destruct (o_ctx o); injection E as <-; auto.
    apply (inv1_frame s); try reflexivity; auto; try apply I.
    + cbn. rewrite map_map. apply map_ext. intros sl. destruct ((sl_op sl =? n) && sl_reg sl); auto. apply cancel_slot_core.
    + eapply ops_frame_set_op; [reflexivity|]. intros o' _. split; auto.
  - (* LCbGate *)
    destruct (find_idx _ 0 (cbs s)); [|discriminate]. injection E as <-.
    apply (inv1_frame s); try reflexivity; auto; try apply I. apply ops_frame_refl; reflexivity.
  - (* LRelReq *)
    destruct (op_at s n) as [o|] eqn:Eo; [|discriminate]. destruct (o_pc o) eqn:Epc; try discriminate.
    set (sl0 := mkSlot n (next_id s) false None false None WNone) in *.
    set (s1 := s <| slots ::= fun l => l ++ [sl0] |> <| next_id ::= S |>) in *.
    set (s2 := set_op n (fun o0 => o0 <| o_slots ::= fun l => l ++ [length (slots s)] |>) s1) in *.
    assert (I2 : inv1 s2).
    { destruct I as [W P].
      assert (Hat : forall i sl, slot_at s2 i = Some sl -> (slot_at s i = Some sl /\ i < length (slots s)) \/ (i = length (slots s) /\ sl = sl0)).
      { intros i sl H. unfold slot_at in H; cbn in H. destruct (nth_error_snoc _ _ _ _ H) as [[? ?]|[? ?]]; auto. }
      assert (Hold : forall i sl, slot_at s i = Some sl -> slot_at s2 i = Some sl).
      { intros i sl H. unfold slot_at; cbn. apply nth_error_app_old; auto. }
      assert (Hop : forall m o', op_at s2 m = Some o' ->
                (m = n /\ o' = o <| o_slots ::= fun l => l ++ [length (slots s)] |>) \/ (m <> n /\ op_at s m = Some o')).
      { intros m o' H. unfold s2 in H. rewrite op_at_set_op in H. destruct (Nat.eqb_spec n m) as [<-|N]; [|auto].
        replace (op_at s1 n) with (op_at s n) in H by reflexivity. rewrite Eo in H. cbn in H. injection H as <-. auto. }
      split; [constructor|]; cbn.
      - apply W.
      - apply W.
      - rewrite app_length; cbn. rewrite (i_next _ W). lia.
      - intros i sl H. destruct (Hat _ _ H) as [[H1 _]|[-> ->]]; [eapply (i_ids _ W); eauto|]. cbn. apply W.
      - intros key i H. destruct (i_pend _ W _ _ H) as (sl & H1 & H2). exists sl; split; auto.
      - apply W.
      - intros i sl H R. destruct (Hat _ _ H) as [[H1 _]|[-> ->]]; [eapply (i_unreg _ W); eauto|]. reflexivity.
      - intros m o' i H Hin. destruct (Hop _ _ H) as [[-> ->]|[N H1]].
        + cbn in Hin. apply in_app_or in Hin. destruct Hin as [Hin|[<-|[]]].
          * destruct (i_own _ W _ _ _ Eo Hin) as (sl & H1 & H2). exists sl; split; auto.
          * exists sl0. split; auto. unfold slot_at; cbn. apply nth_error_app_new.
        + destruct (i_own _ W _ _ _ H1 Hin) as (sl & H2 & H3). exists sl; split; auto.
      - intros m o' H. destruct (Hop _ _ H) as [[-> ->]|[N H1]]; [|eapply (i_nd _ W); eauto].
        cbn. apply nodup_snoc; [eapply (i_nd _ W); eauto|].
        intros Hin. destruct (i_own _ W _ _ _ Eo Hin) as (sl & H1 & _). apply slot_at_lt in H1. lia.
      - intros i sl v H Hb. destruct (Hat _ _ H) as [[H1 _]|[-> ->]]; [eapply (i_val _ W); eauto|]. discriminate.
      - intros m o' i H Hp Hin. destruct (Hop _ _ H) as [[-> ->]|[N H1]].
        + cbn in Hin. apply in_app_or in Hin. destruct Hin as [Hin|[<-|[]]].
          * assert (Hp0 : presend o = true) by (unfold presend; rewrite Epc; auto).
            destruct (P _ _ _ Eo Hp0 Hin) as (sl & H1 & H2). exists sl; split; auto.
          * exists sl0. split; auto. unfold slot_at; cbn. apply nth_error_app_new.
        + destruct (P _ _ _ H1 Hp Hin) as (sl & H2 & H3). exists sl; split; auto. }
    match type of E with (match ?x with Some _ => _ | None => _ end) = _ => destruct x end; injection E as <-.
    + apply set_pc_inv1; auto. intros o' Ho' _. unfold s2 in Ho'. rewrite op_at_set_op, Nat.eqb_refl in Ho'.
      replace (op_at s1 n) with (op_at s n) in Ho' by reflexivity. rewrite Eo in Ho'. injection Ho' as <-.
      unfold presend; cbn. rewrite Epc; auto.
    + apply finish_inv1; auto.
  - (* LRelSend *)
    destruct (op_at s n) as [o|] eqn:Eo; [|discriminate]. destruct (o_pc o) eqn:Epc; try discriminate.
    destruct (err s); [injection E as <-; apply finish_inv1; auto|].
    set (s1 := emit _ s) in *.
    assert (I1 : inv1 s1). { apply (inv1_frame s); try reflexivity; auto; try apply I. apply ops_frame_refl; reflexivity. }
    destruct (negb (send_fail s)); injection E as <-; [|apply finish_inv1; auto].
    assert (Hp0 : presend o = true) by (unfold presend; rewrite Epc; auto).
    destruct I1 as [W1 P1].
    destruct (register_fold (o_ctx o) (o_slots o) s1 W1 (i_nd _ W1 n o Eo)) as (W2 & E2 & E3 & E4 & Hother).
    { intros i Hi. apply (P1 n o i Eo Hp0 Hi). }
    set (s2 := fold_left _ (o_slots o) s1) in *.
    split.
    + apply (inv1w_frame s2); try reflexivity; [exact (i_crash _ W2)| |exact W2].
      eapply ops_frame_set_op; [reflexivity|]. intros o' _. split; auto. discriminate.
    + intros m o' i H Hp Hin. rewrite op_at_set_op in H. destruct (Nat.eqb_spec n m) as [<-|N].
      * destruct (op_at s2 n); [|discriminate]. injection H as <-. discriminate.
      * unfold op_at in H. rewrite E2 in H. fold (op_at s1 m) in H.
        destruct (P1 _ _ _ H Hp Hin) as (sl & H1 & H2). exists sl. split; auto.
        replace (slot_at (set_op n (fun o0 => o0 <| o_pc := PWait 0 |>) s2) i) with (slot_at s2 i) by reflexivity.
        rewrite Hother; auto. intros Hi.
        destruct (i_own _ W1 _ _ _ Eo Hi) as (sla & Ha & Hb). destruct (i_own _ W1 _ _ _ H Hin) as (slb & Hc & Hd). congruence.
  - (* LRelDeliver *)
    destruct (nth_error (delivs s) j) as [d|] eqn:Ed; [|discriminate]. destruct (d_st d); [|discriminate].
    destruct (deliver_all_inv1 j (d_msgs d) 0 s I) as (I1 & E1 & E2).
    rewrite (i_crash _ (proj1 I1)) in E. injection E as <-.
    apply (inv1_frame (deliver_all j 0 (d_msgs d) s)); try reflexivity; auto. apply I1. apply ops_frame_refl; reflexivity.
  - (* LRelWatch *)
    destruct (slot_at s i) as [sl|] eqn:Es; [|discriminate]. destruct (sl_watch sl); try discriminate.
    set (s1 := set_slot i (fun sl0 => sl0 <| sl_watch := WDone |>) s) in *.
    assert (I1 : inv1 s1).
    { apply (inv1_frame s); try reflexivity; auto; try apply I.
      cbn. apply map_core_upd. reflexivity. apply ops_frame_refl; reflexivity. }
    destruct (assoc (id_text (sl_id sl)) (pending s)) as [i'|] eqn:Ea; [|injection E as <-; auto].
    apply assoc_in in Ea.
    assert (i' = i).
    { destruct (i_pend _ (proj1 I) _ _ Ea) as (sl' & H1 & H2 & _). apply id_text_inj in H2.
      rewrite (i_ids _ (proj1 I) _ _ Es), (i_ids _ (proj1 I) _ _ H1) in H2. congruence. }
    subst i'.
    set (v := mkVal (id_text (sl_id sl)) (Some (watch_werr (err s) (sl_pctx sl))) [] SWatch) in *.
    destruct (write_pending_ok s1 (id_text (sl_id sl)) i v I1 Ea (fix_id_text _)) as (I2 & _).
    set (s2 := write_slot i v _) in *.
    rewrite (i_crash _ (proj1 I2)) in E.
    destruct (c_oncancel s2); [|injection E as <-; auto].
    destruct (settle_slot_inv1 i s2 I2) as (I3 & _).
    rewrite (i_crash _ (proj1 I3)) in E. injection E as <-.
    apply (inv1_frame (settle_slot i s2)); try reflexivity; auto. apply I3. apply ops_frame_refl; reflexivity.
  - (* LRelRecvErr *)
    destruct (rd s); try discriminate. destruct (stop_locked c s) as [s1 first] eqn:Est.
    destruct (stop_locked_frame _ _ _ _ Est) as (F1 & F2 & F3 & F4 & F5 & F6 & F7).
    injection E as <-.
    apply (inv1_frame s); auto.
    + destruct first; cbn; auto.
    + destruct first; cbn; auto.
    + destruct first; cbn; auto.
    + destruct first; cbn; rewrite F4; apply I.
    + destruct first; cbn; auto.
    + apply ops_frame_refl. destruct first; cbn; auto.
  - (* LRelClose *)
    destruct (op_at s n) as [o|] eqn:Eo; [|discriminate]. destruct (o_pc o) eqn:Epc; try discriminate.
    destruct (stop_locked SCClosed s) as [s1 first] eqn:Est.
    destruct (stop_locked_frame _ _ _ _ Est) as (F1 & F2 & F3 & F4 & F5 & F6 & F7).
    injection E as <-.
    apply (inv1_frame s); cbn; auto.
    + rewrite F4; apply I.
    + eapply ops_frame_set_op. { cbn. rewrite F6. reflexivity. } intros o' _. split; auto. discriminate.
  - (* LRelCbReply *)
    destruct (nth_error (cbs s) c) as [cb|]; [|discriminate]. destruct (cb_st cb); try discriminate.
    injection E as <-.
    apply (inv1_frame s); auto; try apply I; destruct (err s); try reflexivity; try apply I; apply ops_frame_refl; reflexivity.
Qed.

Lemma inv1_settle1 s s' : inv1 s -> settle1 s = Some s' -> inv1 s'.
Proof.
  intros I E. unfold settle1 in E. rewrite (i_crash _ (proj1 I)) in E.
  assert (Fr : forall s0, slots s0 = slots s -> pending s0 = pending s -> next_id s0 = next_id s -> crash s0 = crash s ->
                          overwrites s0 = overwrites s -> ops s0 = ops s -> inv1 s0).
  { intros s0 E1 E2 E3 E4 E5 E6. apply (inv1_frame s); auto. rewrite E1; auto. rewrite E4; apply I.
    apply ops_frame_refl; auto. }
  assert (Hops : match find_idx (op_ready s) 0 (ops s) with
                 | Some n => match op_at s n with Some o => Some (op_advance n o s) | None => None end
                 | None => None end = Some s' -> inv1 s').
  { clear E. intros E. destruct (find_idx (op_ready s) 0 (ops s)) as [n|]; [|discriminate].
    destruct (op_at s n) as [o|] eqn:Eo; [|discriminate]. injection E as <-.
    unfold op_advance. destruct (o_pc o) eqn:Epc; auto.
    - destruct (nth_error (o_slots o) k) as [i|].
      + destruct (settle_slot_inv1 i s I) as (I1 & E1 & _).
        apply set_pc_inv1; auto. intros ? ? H. discriminate.
      + apply finish_inv1; auto.
    - apply finish_inv1. destruct stopper; [destruct (err s)|]; auto; apply Fr; reflexivity. }
  destruct (rd s); auto. destruct (ch_in s) as [|f q]; auto.
  destruct f as [[|b ms]|c]; injection E as <-; apply Fr; reflexivity.
Qed.

Theorem inv1_reach c s : reach c s -> inv1 s.
Proof.
  apply reach_inv.
  - apply inv1_init.
  - intros; eapply inv1_step_raw; eauto.
  - intros; eapply inv1_settle1; eauto.
Qed.
