(* CliLive: liveness at quiescence (C05).  In a quiescent state - no goroutine parked at a
   scheduling point, no unhooked progress possible - an operation that has not returned is
   either a Call/Batch blocked in wait() on a request that is still pending, whose context is
   live and whose watcher is blocked, on a client that has not stopped; or a Close waiting for
   the reader / deliveries / callbacks (wg <> 0).  Hence every operation whose slots are all
   written, or whose context ended, or whose client stopped has returned, exactly once. *)
From Coq Require Import List NArith ZArith Bool Arith Lia.
From RecordUpdate Require Import RecordUpdate.
From JV Require Import Bytes Msg CliModel CliLemmas CliInv CliRet CliProofs CliC05 CliCtx CliOps.
Import ListNotations.

(** * reading off quiescence *)
Lemma idxs_where_nil {A} (p : A -> bool) l : forall i, idxs_where p i l = [] -> forall x, In x l -> p x = false.
Proof.
  induction l as [|y r IH]; cbn; intros i H x Hx; [contradiction|].
  apply app_eq_nil in H. destruct H as [H1 H2]. destruct Hx as [<-|Hx].
  - destruct (p y); [discriminate|auto].
  - eapply IH; eauto.
Qed.

Lemma find_idx_none {A} (p : A -> bool) l : forall i, find_idx p i l = None -> forall x, In x l -> p x = false.
Proof.
  induction l as [|y r IH]; cbn; intros i H x Hx; [contradiction|].
  destruct (p y) eqn:E; [discriminate|]. destruct Hx as [<-|Hx]; auto. eapply IH; eauto.
Qed.

Lemma map_nil {A B} (f : A -> B) l : map f l = [] -> l = [].
Proof. destruct l; cbn; [auto|discriminate]. Qed.

Lemma quiescent_parked s : quiescent s = true ->
  (forall o, In o (ops s) -> at_req o = false /\ at_send o = false /\ at_close o = false)
  /\ (forall sl, In sl (slots s) -> watch_parked sl = false)
  /\ (forall d, In d (delivs s) -> deliv_parked d = false)
  /\ (forall c, rd s <> RHold c)
  /\ (forall cb, In cb (cbs s) -> cb_at_reply cb = false).
Proof.
  unfold quiescent. intros H. apply andb_true_iff in H. destruct H as [H _].
  unfold enabled_rel, all_sites in H. cbn [flat_map] in H.
  destruct (candidates s SReq) eqn:E1; [|discriminate]. destruct (candidates s SSend) eqn:E2; [|discriminate].
  destruct (candidates s SDeliver) eqn:E3; [|discriminate]. destruct (candidates s SWatchP) eqn:E4; [|discriminate].
  destruct (candidates s SRecvErr) eqn:E5; [|discriminate]. destruct (candidates s SClosePt) eqn:E6; [|discriminate].
  destruct (candidates s SCbReply) eqn:E7; [|discriminate]. clear H.
  cbn in E1, E2, E3, E4, E5, E6, E7.
  apply map_nil in E1, E2, E3, E4, E6, E7. splits.
  - intros o Ho. splits; eapply idxs_where_nil; eauto.
  - intros sl Hsl. eapply idxs_where_nil; eauto.
  - intros d Hd. eapply idxs_where_nil; eauto.
  - intros c Hc. rewrite Hc in E5. discriminate.
  - intros cb Hcb. eapply idxs_where_nil; eauto.
Qed.

Lemma quiescent_not_ready s : quiescent s = true -> crash s = None ->
  forall n o, op_at s n = Some o -> op_ready s o = false.
Proof.
  unfold quiescent. intros H Cr n o Ho. apply andb_true_iff in H. destruct H as [_ H].
  destruct (settle1 s) as [s'|] eqn:E; [discriminate|]. clear H.
  unfold settle1 in E. rewrite Cr in E.
  assert (Hf : match find_idx (op_ready s) 0 (ops s) with
               | Some n => match op_at s n with Some o => Some (op_advance n o s) | None => None end
               | None => None end = None -> op_ready s o = false).
  { clear E. intros E. destruct (find_idx (op_ready s) 0 (ops s)) as [m|] eqn:Ef.
    - destruct (find_idx_0 _ _ _ Ef) as (x & Hx & _). unfold op_at in E. rewrite Hx in E. discriminate.
    - eapply find_idx_none; eauto. eapply nth_error_In; eauto. }
  destruct (rd s); auto. destruct (ch_in s) as [|f q]; auto. destruct f as [[|b ms]|c]; discriminate.
Qed.

(** * what an unfinished operation looks like at quiescence *)
Definition blocked_call (s : state) (o : oprec) : Prop :=
  o_kind o <> KClose /\ o_ctx o = None /\ err s = None
  /\ exists k i sl, o_pc o = PWait k /\ nth_error (o_slots o) k = Some i /\ slot_at s i = Some sl
       /\ sl_reg sl = true /\ sl_buf sl = None /\ In (id_text (sl_id sl), i) (pending s)
       /\ sl_watch sl = WBlocked /\ sl_pctx sl = None.

Definition blocked_close (s : state) (o : oprec) : Prop :=
  o_kind o = KClose /\ wg s <> 0 /\ exists b, o_pc o = PCloseWait b.

Lemma quiescent_unfinished s : inv1 s -> invC s -> invP s -> quiescent s = true ->
  forall n o, op_at s n = Some o -> o_pc o <> PDone -> blocked_call s o \/ blocked_close s o.
Proof.
  intros I C P Q n o Ho Hpc.
  destruct (quiescent_parked s Q) as (Qo & Qs & _).
  assert (Hin : In o (ops s)) by (eapply nth_error_In; eauto).
  destruct (Qo o Hin) as (Q1 & Q2 & Q3).
  assert (Hnr := quiescent_not_ready s Q (i_crash _ (proj1 I)) n o Ho).
  destruct (P n o Ho) as (A & B & D & _). unfold pc_kind in B.
  unfold at_req in Q1. unfold at_send in Q2. unfold at_close in Q3. unfold op_ready in Hnr.
  destruct (o_pc o) eqn:Epc; try discriminate; try contradiction.
  - (* PWait *)
    left. destruct (D k eq_refl) as [D1 _].
    destruct (nth_error (o_slots o) k) as [i|] eqn:En; [|discriminate].
    assert (Hi : In i (o_slots o)) by (eapply nth_error_In; eauto).
    destruct (D1 i Hi) as (sl & Hs & Hr).
    assert (Hb : sl_buf sl = None).
    { unfold slot_val in Hnr. rewrite Hs in Hnr. destruct (sl_buf sl); [discriminate|auto]. }
    destruct (c_inpend _ C _ _ Hs Hr Hb) as [Hp Hnd].
    assert (Hw := c_watch _ C _ _ Hs Hr). unfold watch_ok in Hw.
    assert (Hnp : watch_parked sl = false) by (apply Qs; eapply nth_error_In; eauto).
    unfold watch_parked in Hnp.
    destruct (sl_watch sl) eqn:Ew; try contradiction; try discriminate.
    destruct (i_own _ (proj1 I) _ _ _ Ho Hi) as (sl' & Hs' & Hop). rewrite Hs in Hs'. injection Hs' as <-.
    assert (He : err s = None).
    { destruct (err s) eqn:Ee; auto. exfalso. apply (c_stop _ C _ _ Hs Hr Hb); [rewrite Ee; discriminate|auto]. }
    assert (Hc : o_ctx o = None).
    { destruct (o_ctx o) eqn:Ec; auto. exfalso. rewrite <- Hop in Ho. apply (c_ctx _ C _ _ _ Hs Hr Ho); [rewrite Ec; discriminate|auto]. }
    unfold blocked_call. splits; auto. exists k, i, sl. splits; auto.
  - (* PCloseWait *)
    right. unfold blocked_close. splits; eauto. intros E. rewrite E in Hnr. discriminate.
Qed.

(** * C05: liveness at quiescence *)
Lemma live_at_quiescence c tr s : traces_to c tr s -> quiescent s = true ->
  (* an operation that has not returned is blocked for a reason *)
  (forall n o, op_at s n = Some o -> o_pc o <> PDone -> blocked_call s o \/ blocked_close s o)
  (* nothing blocks once the reply was delivered, the context ended or the client stopped *)
  /\ (forall n o, op_at s n = Some o -> o_kind o <> KClose ->
        (forall i, In i (o_slots o) -> slot_val s i <> None) \/ o_ctx o <> None \/ err s <> None ->
        o_pc o = PDone /\ ret_count n (hist s) = 1)
  (* a Close has returned once reader, deliveries and callbacks are gone *)
  /\ (forall n o, op_at s n = Some o -> o_kind o = KClose -> wg s = 0 -> o_pc o = PDone /\ ret_count n (hist s) = 1).
Proof.
  intros T Q. assert (R := traces_reach _ _ _ T).
  destruct (invCP_reach c s R) as (I & C & P). destruct (inv1K_reach c s R) as (_ & K).
  assert (U := quiescent_unfinished s I C P Q).
  assert (Hcount : forall n o, op_at s n = Some o -> o_pc o = PDone -> ret_count n (hist s) = 1).
  { intros n o Ho Hpc. rewrite (k_count _ K n), Ho. destruct (P n o Ho) as (A & _). rewrite (proj1 A Hpc). reflexivity. }
  splits; auto.
  - intros n o Ho Hk Hyp.
    assert (Hd : o_pc o = PDone).
    { destruct (o_pc o) eqn:Epc; auto; exfalso.
      all: destruct (U n o Ho ltac:(congruence)) as [(_ & Hc & He & k' & i & sl & A1 & A2 & A3 & A4 & A5 & _)|(Hk' & _)]; [|contradiction].
      all: destruct Hyp as [Hw|[Hx|Hx]]; try contradiction.
      all: apply (Hw i); [eapply nth_error_In; eauto|]; unfold slot_val; rewrite A3; auto. }
    split; eauto.
  - intros n o Ho Hk Hwg.
    assert (Hd : o_pc o = PDone).
    { destruct (o_pc o) eqn:Epc; auto; exfalso.
      all: destruct (U n o Ho ltac:(congruence)) as [(Hk' & _)|(_ & Hw & _)]; contradiction. }
    split; eauto.
Qed.

(** * non-vacuity *)
(* ex_trace5 (CliC05): a cancelled call, a Close, an operation on the stopped client - quiescent, all returned *)
Example live_nonvacuous :
  exists s, traces_to ex_cfg ex_trace5 s /\ quiescent s = true
            /\ (exists o, op_at s 0 = Some o /\ o_kind o <> KClose /\ o_ctx o <> None)
            /\ (exists o, op_at s 2 = Some o /\ o_kind o <> KClose /\ err s <> None)
            /\ (exists o, op_at s 1 = Some o /\ o_kind o = KClose /\ wg s = 0).
Proof.
  destruct (run (init_of ex_cfg) ex_trace5) as [[s oss]|] eqn:E.
  - exists s. split; [exists oss; exact E|]. revert E. vm_compute. intros [= <- _].
    splits; auto; eexists; splits; try reflexivity; discriminate.
  - revert E. vm_compute. discriminate.
Qed.

(* a quiescent state in which a call is legitimately blocked: sent, no reply, context live, client running *)
Definition ex_trace_blocked : list label := [LOp 0 KCall [ex_spec 49]; LRelReq 0; LRelSend 0].

Example blocked_nonvacuous :
  exists s o, traces_to ex_cfg ex_trace_blocked s /\ quiescent s = true /\ op_at s 0 = Some o /\ o_pc o = PWait 0
              /\ ret_count 0 (hist s) = 0.
Proof.
  destruct (run (init_of ex_cfg) ex_trace_blocked) as [[s oss]|] eqn:E.
  - revert E. vm_compute. intros E. injection E as <- _. eexists; eexists. split; [eexists; reflexivity|].
    vm_compute. auto.
  - revert E. vm_compute. discriminate.
Qed.

(* and once the reply is delivered the same call has returned at quiescence (all slots written) *)
Definition ex_trace_answered : list label :=
  ex_trace_blocked ++ [LFeed (FMsg (InMsgs false [ex_reply [49%N] [55%N]])); LRelDeliver 0; LRelWatch 0].

Example answered_nonvacuous :
  exists s o, traces_to ex_cfg ex_trace_answered s /\ quiescent s = true /\ op_at s 0 = Some o /\ o_kind o <> KClose
              /\ o_ctx o = None /\ err s = None /\ (forall i, In i (o_slots o) -> slot_val s i <> None)
              /\ In (ORet 0 (RetCall (RRes [55%N]))) (hist s).
Proof.
  destruct (run (init_of ex_cfg) ex_trace_answered) as [[s oss]|] eqn:E.
  - revert E. vm_compute. intros E. injection E as <- _. eexists; eexists. split; [eexists; reflexivity|].
    vm_compute. splits; auto; try discriminate. intros i [<-|[]]. discriminate.
  - revert E. vm_compute. discriminate.
Qed.

(** * C05: every operation returns exactly once (safety half of CliC05 + liveness at quiescence) *)
Lemma returns_once_full c tr s : traces_to c tr s ->
  (forall n, ret_count n (hist s) <= 1)
  /\ (forall n r r', In (ORet n r) (hist s) -> In (ORet n r') (hist s) -> r = r')
  /\ (forall n r, In (ORet n r) (hist s) -> exists o, op_at s n = Some o /\ o_ret o = Some r /\ o_pc o = PDone)
  /\ (forall n o, op_at s n = Some o -> o_pc o <> PDone -> ret_count n (hist s) = 0)
  /\ (quiescent s = true ->
        (forall n o, op_at s n = Some o -> o_pc o <> PDone -> blocked_call s o \/ blocked_close s o)
        /\ (forall n o, op_at s n = Some o -> o_kind o <> KClose ->
              (forall i, In i (o_slots o) -> slot_val s i <> None) \/ o_ctx o <> None \/ err s <> None ->
              o_pc o = PDone /\ ret_count n (hist s) = 1)
        /\ (forall n o, op_at s n = Some o -> o_kind o = KClose -> wg s = 0 -> o_pc o = PDone /\ ret_count n (hist s) = 1)).
Proof.
  intros T. destruct (returns_once c tr s T) as (A & B & C & D). splits; auto.
  intros Q. apply (live_at_quiescence c tr s T Q).
Qed.
