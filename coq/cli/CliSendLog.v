(* CliSendLog: which operations called Send on the transport, in order.

   [sendlog s tr] replays the label sequence [tr] from [s] with the frozen model functions and records, in the
   order in which they happen, the operations whose LRelSend critical section put a record on the wire
   successfully (client not stopped, transport not failing): one channel.Send per entry.  Ghost: computed
   from the run, never read by the transitions.

   [sendlog_spec]: no operation occurs twice in the log (an operation calls Send at most once), and every
   operation in it has allocated one id per call (its request record is complete and does not change). *)
From Coq Require Import List NArith ZArith Bool Arith Lia.
From RecordUpdate Require Import RecordUpdate.
From JV Require Import Bytes Msg CliModel CliLemmas CliInv CliProofs CliCtx CliOps CliHist CliSend CliNoStop.
Import ListNotations.

Definition send_raw (s : state) (l : label) : list nat :=
  match l with
  | LRelSend n =>
      match op_at s n with
      | Some o => match o_pc o, err s with
                  | PSend, None => if send_fail s then [] else [n]
                  | _, _ => []
                  end
      | None => []
      end
  | _ => []
  end.

Fixpoint sendlog (s : state) (tr : list label) : list nat :=
  match tr with
  | [] => []
  | l :: r => match step s l with
              | Some (s1, _) => send_raw s l ++ sendlog s1 r
              | None => []
              end
  end.

(** * operations past Send keep their request record *)
Definition keeps (s s' : state) : Prop :=
  forall n o, op_at s n = Some o -> presend o = false ->
    exists o', op_at s' n = Some o' /\ presend o' = false /\ o_slots o' = o_slots o /\ o_specs o' = o_specs o.

Lemma keeps_same s s' : ops s' = ops s -> keeps s s'.
Proof. intros E n o Ho Hp. exists o. unfold op_at in *. rewrite E. auto. Qed.

Lemma keeps_trans a b c : keeps a b -> keeps b c -> keeps a c.
Proof.
  intros H1 H2 n o Ho Hp. destruct (H1 n o Ho Hp) as (o1 & A1 & A2 & A3 & A4).
  destruct (H2 n o1 A1 A2) as (o2 & B1 & B2 & B3 & B4). exists o2. repeat split; auto; congruence.
Qed.

(* operation n is replaced by g o, g harmless on operations past Send *)
Lemma keeps_upd s s' n g : ops s' = upd_nth n g (ops s) ->
  (forall o, presend o = false -> presend (g o) = false /\ o_slots (g o) = o_slots o /\ o_specs (g o) = o_specs o) ->
  keeps s s'.
Proof.
  intros E Hg m o Ho Hp. unfold op_at in *. rewrite E, nth_error_upd_nth. destruct (Nat.eqb_spec n m) as [->|N].
  - rewrite Ho. cbn. exists (g o). destruct (Hg o Hp) as (A & B & C). auto.
  - exists o. auto.
Qed.

(* operation n, not yet past Send, is replaced by anything *)
Lemma keeps_at s s' n g o : ops s' = upd_nth n g (ops s) -> op_at s n = Some o -> presend o = true -> keeps s s'.
Proof.
  intros E Hn Hpn m o' Ho Hp. unfold op_at in *. rewrite E, nth_error_upd_nth. destruct (Nat.eqb_spec n m) as [->|N].
  - rewrite Hn in Ho. injection Ho as <-. congruence.
  - exists o'. auto.
Qed.

Lemma keeps_app s s' l : ops s' = ops s ++ l -> keeps s s'.
Proof. intros E n o Ho Hp. exists o. unfold op_at in *. rewrite E. split; auto. apply nth_error_app_old. auto. Qed.

Lemma upd_nth_twice {A} n (f g : A -> A) l : upd_nth n g (upd_nth n f l) = upd_nth n (fun x => g (f x)) l.
Proof. revert n; induction l as [|x l IH]; intros [|n]; cbn; auto. f_equal. apply IH. Qed.

Lemma upd_nth_beyond {A} n (f : A -> A) l : length l <= n -> upd_nth n f l = l.
Proof. revert n; induction l as [|x l IH]; intros [|n] H; cbn in *; auto; [lia|]. f_equal. apply IH. lia. Qed.

Lemma upd_nth_last {A} (f : A -> A) l x : upd_nth (length l) f (l ++ [x]) = l ++ [f x].
Proof. induction l as [|y l IH]; cbn; auto. f_equal. exact IH. Qed.

Lemma step_raw_keeps s l s' : step_raw s l = Some s' -> keeps s s'.
Proof.
  intros E. destruct l; cbn in E.
  - (* LOp: a new operation *)
    destruct (negb (n =? length (ops s)) || negb (specs_ok k specs)) eqn:G0; [discriminate|].
    apply orb_false_iff in G0. destruct G0 as [G1 _]. apply negb_false_iff, Nat.eqb_eq in G1. subst n.
    assert (K : forall g s0, ops s0 = upd_nth (length (ops s)) g (ops s ++ [mkOp k specs [] PDone None None]) -> keeps s s0).
    { intros g s0 E0. rewrite upd_nth_last in E0. eapply keeps_app; eauto. }
    destruct k.
    1-3: destruct (is_nil specs); [injection E as <-; eapply K; reflexivity|];
         destruct (scan specs 0); injection E as <-; eapply K; reflexivity.
    injection E as <-; eapply K; reflexivity.
  - injection E as <-. apply keeps_same; reflexivity.
  - injection E as <-. apply keeps_same; reflexivity.
  - (* LCtxEnd *)
    destruct (op_at s n) as [o|]; [|discriminate]. destruct (o_ctx o); injection E as <-; [apply keeps_same; reflexivity|].
    eapply keeps_upd; [reflexivity|]. intros o' Hp. cbn. auto.
  - destruct (find_idx _ 0 (cbs s)); [|discriminate]. injection E as <-. apply keeps_same; reflexivity.
  - (* LRelReq: the operation is before Send *)
    destruct (op_at s n) as [o|] eqn:Eo; [|discriminate]. destruct (o_pc o) eqn:Epc; try discriminate.
    assert (Hp : presend o = true) by (unfold presend; rewrite Epc; reflexivity).
    match type of E with (match ?x with Some _ => _ | None => _ end) = _ => destruct x as [pc|] end; injection E as <-;
      (eapply keeps_at; [|exact Eo|exact Hp]); cbn; rewrite upd_nth_twice; reflexivity.
  - (* LRelSend: the operation is at Send *)
    destruct (op_at s n) as [o|] eqn:Eo; [|discriminate]. destruct (o_pc o) eqn:Epc; try discriminate.
    assert (Hp : presend o = true) by (unfold presend; rewrite Epc; reflexivity).
    destruct (err s); [injection E as <-; eapply keeps_at; [|exact Eo|exact Hp]; reflexivity|].
    destruct (negb (send_fail s)); injection E as <-.
    + eapply keeps_at; [|exact Eo|exact Hp]. cbn.
      match goal with |- context [fold_left _ ?L ?s1] => destruct (env_register_fold (o_ctx o) L s1) as (_ & _ & _ & A) end.
      rewrite A. reflexivity.
    + eapply keeps_at; [|exact Eo|exact Hp]; reflexivity.
  - (* LRelDeliver *)
    destruct (nth_error (delivs s) j) as [d|]; [|discriminate]. destruct (d_st d); [|discriminate].
    destruct (env_deliver_all j (d_msgs d) 0 s) as (_ & _ & _ & A).
    destruct (crash (deliver_all j 0 (d_msgs d) s)); injection E as <-; apply keeps_same; auto.
  - (* LRelWatch *)
    destruct (slot_at s i) as [sl|]; [|discriminate]. destruct (sl_watch sl); try discriminate.
    set (s1 := set_slot i (fun sl0 => sl0 <| sl_watch := WDone |>) s) in *.
    destruct (assoc (id_text (sl_id sl)) (pending s)) as [i'|]; [|injection E as <-; apply keeps_same; reflexivity].
    match type of E with context [write_slot ?i ?v ?s0] => destruct (env_write_slot i v s0) as (_ & _ & _ & A); set (s2 := write_slot i v s0) in * end.
    destruct (crash s2); [injection E as <-; apply keeps_same; exact A|].
    destruct (c_oncancel s2); [|injection E as <-; apply keeps_same; exact A].
    destruct (env_settle_slot i s2) as (_ & _ & _ & A2).
    destruct (crash (settle_slot i s2)); injection E as <-; apply keeps_same; cbn; rewrite A2; exact A.
  - (* LRelRecvErr *)
    destruct (rd s); try discriminate. destruct (stop_locked c s) as [s1 first] eqn:Est.
    destruct (stop_locked_frame _ _ _ _ Est) as (_ & _ & _ & _ & _ & F6 & _).
    injection E as <-. apply keeps_same. destruct first; exact F6.
  - (* LRelClose *)
    destruct (op_at s n) as [o|]; [|discriminate]. destruct (o_pc o); try discriminate.
    destruct (stop_locked SCClosed s) as [s1 first] eqn:Est.
    destruct (stop_locked_frame _ _ _ _ Est) as (_ & _ & _ & _ & _ & F6 & _).
    injection E as <-. eapply keeps_upd; [cbn; rewrite F6; reflexivity|]. intros o' _. cbn. auto.
  - (* LRelCbReply *)
    destruct (nth_error (cbs s) c) as [cb|]; [|discriminate]. destruct (cb_st cb); try discriminate.
    injection E as <-. apply keeps_same. destruct (err s); reflexivity.
Qed.

Lemma settle1_keeps s s' : settle1 s = Some s' -> keeps s s'.
Proof.
  intros E. unfold settle1 in E. destruct (crash s); [discriminate|].
  assert (Hops : match find_idx (op_ready s) 0 (ops s) with
                 | Some n => match op_at s n with Some o => Some (op_advance n o s) | None => None end
                 | None => None end = Some s' -> keeps s s').
  { clear E. intros E. destruct (find_idx (op_ready s) 0 (ops s)) as [n|]; [|discriminate].
    destruct (op_at s n) as [o|]; [|discriminate]. injection E as <-.
    unfold op_advance. destruct (o_pc o); try (apply keeps_same; reflexivity).
    - destruct (nth_error (o_slots o) k) as [i|].
      + destruct (env_settle_slot i s) as (_ & _ & _ & A).
        eapply keeps_upd; [cbn; rewrite A; reflexivity|]. intros o' _. cbn. auto.
      + eapply keeps_upd; [reflexivity|]. intros o' _. cbn. auto.
    - destruct stopper; [destruct (err s)|]; (eapply keeps_upd; [reflexivity|]; intros o' _; cbn; auto). }
  destruct (rd s); auto. destruct (ch_in s) as [|f q]; auto.
  destruct f as [[|b ms]|c]; injection E as <-; apply keeps_same; reflexivity.
Qed.

(** * the invariant of the log *)
Definition log_ok (s : state) (log : list nat) : Prop :=
  NoDup log /\ forall n, In n log -> exists o, op_at s n = Some o /\ presend o = false /\ length (o_slots o) = nn (o_specs o).

Lemma log_ok_keeps s s' log : keeps s s' -> log_ok s log -> log_ok s' log.
Proof.
  intros K [ND H]. split; auto. intros n Hn. destruct (H n Hn) as (o & A & B & C).
  destruct (K n o A B) as (o' & A' & B' & C' & D'). exists o'. repeat split; auto. congruence.
Qed.

Lemma log_ok_step_raw s l s' log : inv1 s -> invS s -> log_ok s log -> step_raw s l = Some s' -> log_ok s' (log ++ send_raw s l).
Proof.
  intros I SI L E. assert (K := step_raw_keeps s l s' E).
  assert (Hnil : send_raw s l = [] -> log_ok s' (log ++ send_raw s l)).
  { intros ->. rewrite app_nil_r. eapply log_ok_keeps; eauto. }
  destruct l; try (apply Hnil; reflexivity).
  unfold send_raw in *. destruct (op_at s n) as [o|] eqn:Eo; [|apply Hnil; reflexivity].
  destruct (o_pc o) eqn:Epc; try (apply Hnil; reflexivity).
  destruct (err s) eqn:Ee; [apply Hnil; reflexivity|].
  destruct (send_fail s) eqn:Ef; [apply Hnil; reflexivity|]. clear Hnil.
  assert (Hp : presend o = true) by (unfold presend; rewrite Epc; reflexivity).
  destruct (log_ok_keeps _ _ _ K L) as [ND H]. destruct L as [_ H0]. split.
  - apply nodup_snoc; auto. intros Hin. destruct (H0 n Hin) as (o' & A & B & _). congruence.
  - intros m Hm. apply in_app_or in Hm. destruct Hm as [Hm|[<-|[]]]; auto.
    cbn in E. rewrite Eo, Epc, Ee, Ef in E. cbn in E. injection E as <-.
    destruct (SI n o Eo) as (_ & Cnt & _). unfold cnt_ok in Cnt. rewrite Epc in Cnt.
    exists (o <| o_pc := PWait 0 |>). split; [|split; [reflexivity|exact Cnt]].
    rewrite op_at_set_op, Nat.eqb_refl.
    match goal with |- context [fold_left _ ?L ?s1] => destruct (env_register_fold (o_ctx o) L s1) as (_ & _ & _ & A) end.
    unfold op_at at 1. rewrite A. fold (op_at s n). cbn. unfold op_at in Eo. unfold op_at. cbn. rewrite Eo. reflexivity.
Qed.

Lemma log_ok_step c s l s' os log : reach c s -> log_ok s log -> step s l = Some (s', os) -> log_ok s' (log ++ send_raw s l).
Proof.
  intros R L E. destruct (invS_reach c s R) as [I SI]. unfold step in E. destruct (crash s); [discriminate|].
  destruct (step_raw s l) as [s1|] eqn:E1; [|discriminate].
  assert (Es : settle (settle_fuel s1) s1 = s') by congruence. rewrite <- Es.
  apply (settle_inv (fun st => log_ok st (log ++ send_raw s l))).
  - intros a b Ha Hb. eapply log_ok_keeps; [eapply settle1_keeps; eauto|auto].
  - eapply log_ok_step_raw; eauto.
Qed.

Lemma log_ok_run c tr : forall s s' oss log, reach c s -> log_ok s log -> run s tr = Some (s', oss) -> log_ok s' (log ++ sendlog s tr).
Proof.
  induction tr as [|l r IH]; cbn; intros s s' oss log R L H.
  - injection H as <- <-. rewrite app_nil_r. auto.
  - destruct (step s l) as [[s1 os]|] eqn:E; [|discriminate].
    destruct (run s1 r) as [[s2 oss2]|] eqn:E2; [|discriminate]. injection H as <- <-.
    rewrite app_assoc. eapply IH; [|eapply log_ok_step; eauto|exact E2]. eapply reach_step; eauto.
Qed.

(* An operation calls Send at most once, and what it sent is its complete request record. *)
Theorem sendlog_spec c tr s : traces_to c tr s ->
  NoDup (sendlog (init_of c) tr)
  /\ forall n, In n (sendlog (init_of c) tr) ->
       exists o, op_at s n = Some o /\ presend o = false /\ length (o_slots o) = nn (o_specs o).
Proof.
  intros [oss H]. apply (log_ok_run c tr _ _ _ [] (reach_init c)) in H; auto.
  split; [constructor|]. intros n [].
Qed.

(* non-vacuity: two operations send; the second Send of ex_trace's shape fails while the transport is down *)
Example sendlog_nonvacuous :
  sendlog (init_of ex_cfg) ex_two_calls = [0; 1]
  /\ sendlog (init_of ex_cfg) [LOp 0 KCall [ex_spec 49]; LOp 1 KCall [ex_spec 50]; LRelReq 0; LRelReq 1;
                                LSendFault true; LRelSend 0; LSendFault false; LRelSend 1] = [1].
Proof. split; vm_compute; reflexivity. Qed.
