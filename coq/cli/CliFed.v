(* CliFed: the delivery records of the client model are exactly the records the peer fed
   (LFeed labels carrying parsed message arrays), in feed order: those already picked up by the
   reader, followed by those still queued in the channel. *)
From Coq Require Import List NArith ZArith Bool Arith Lia.
From RecordUpdate Require Import RecordUpdate.
From JV Require Import Bytes Msg CliModel CliLemmas CliInv CliRet CliProofs CliCtx CliOps CliHist.
Import ListNotations.

Definition feed_msgs (f : feed) : list (list jmsg) := match f with FMsg (InMsgs _ ms) => [ms] | _ => [] end.
(* the message arrays the peer sent along the label sequence *)
Definition fed (tr : list label) : list (list jmsg) :=
  flat_map (fun l => match l with LFeed f => feed_msgs f | _ => [] end) tr.
(* picked up by the reader so far, then still queued *)
Definition seen (s : state) : list (list jmsg) := map d_msgs (delivs s) ++ flat_map feed_msgs (ch_in s).

Lemma write_slot_dc i v s : delivs (write_slot i v s) = delivs s /\ ch_in (write_slot i v s) = ch_in s.
Proof. unfold write_slot. destruct (slot_at s i) as [sl|]; [destruct (sl_buf sl)|]; split; reflexivity. Qed.

Lemma deliver_member_dc j k m s : delivs (deliver_member j k m s) = delivs s /\ ch_in (deliver_member j k m s) = ch_in s.
Proof.
  unfold deliver_member. destruct (is_req_or_notif m).
  - destruct (is_notification m).
    + destruct (c_onnotify s); split; reflexivity.
    + destruct (c_oncallback s); cbn; [|split; reflexivity]. destruct (err s); split; reflexivity.
  - destruct (assoc (fix_id (j_id m)) (pending s)) as [i|]; [|split; reflexivity].
    exact (write_slot_dc i (val_of_member j k m) (s <| pending ::= assoc_del (fix_id (j_id m)) |>)).
Qed.

Lemma deliver_all_dc j ms : forall k s, delivs (deliver_all j k ms s) = delivs s /\ ch_in (deliver_all j k ms s) = ch_in s.
Proof.
  induction ms as [|m r IH]; intros k s; cbn; auto. destruct (crash s); auto.
  destruct (IH (S k) (deliver_member j k m s)) as [A B]. destruct (deliver_member_dc j k m s) as [A1 B1]. split; congruence.
Qed.

Lemma settle_slot_dc i s : delivs (settle_slot i s) = delivs s /\ ch_in (settle_slot i s) = ch_in s.
Proof.
  unfold settle_slot. destruct (slot_at s i) as [sl|]; auto. destruct (sl_buf sl); auto. destruct (sl_settled sl); auto.
  destruct (beq _ _); split; reflexivity.
Qed.

Lemma stop_locked_seen c s s1 b : stop_locked c s = (s1, b) -> seen s1 = seen s.
Proof.
  unfold stop_locked. destruct (err s); [intros [= <- <-]; auto|]. rewrite fold_cancel_eq. intros H. injection H as <- <-.
  unfold seen. destruct (c_unblock _); cbn; auto. rewrite flat_map_app. cbn. rewrite app_nil_r. reflexivity.
Qed.

Lemma map_msgs_upd j g l : (forall d, d_msgs (g d) = d_msgs d) -> map d_msgs (upd_nth j g l) = map d_msgs l.
Proof. intros H. revert j; induction l as [|x l IH]; intros [|j]; cbn; auto; f_equal; auto. Qed.

Lemma register_fold_dc ctx L : forall s,
  delivs (fold_left (fun st i => register ctx i st) L s) = delivs s /\ ch_in (fold_left (fun st i => register ctx i st) L s) = ch_in s.
Proof.
  induction L as [|i r IH]; intros s; cbn; auto. destruct (IH (register ctx i s)) as [A B].
  assert (R : delivs (register ctx i s) = delivs s /\ ch_in (register ctx i s) = ch_in s).
  { unfold register. destruct (slot_at s i); [destruct (is_some _)|]; split; reflexivity. }
  destruct R. split; congruence.
Qed.

Lemma step_raw_seen s l s' : step_raw s l = Some s' ->
  seen s' = seen s ++ match l with LFeed f => feed_msgs f | _ => [] end.
Proof.
  intros E. destruct l; cbn in E; rewrite ?app_nil_r.
  - destruct (negb (n =? length (ops s)) || negb (specs_ok k specs)); [discriminate|].
    destruct k.
    1-3: destruct (is_nil specs); [injection E as <-; reflexivity|]; destruct (scan specs 0); injection E as <-; reflexivity.
    injection E as <-; reflexivity.
  - injection E as <-. unfold seen. cbn. rewrite flat_map_app, app_assoc. cbn. rewrite app_nil_r. reflexivity.
  - injection E as <-; reflexivity.
  - destruct (op_at s n) as [o|]; [|discriminate]. destruct (o_ctx o); injection E as <-; reflexivity.
  - destruct (find_idx _ 0 (cbs s)); [|discriminate]. injection E as <-; reflexivity.
  - destruct (op_at s n) as [o|]; [|discriminate]. destruct (o_pc o); try discriminate.
    match type of E with (match ?x with Some _ => _ | None => _ end) = _ => destruct x end; injection E as <-; reflexivity.
  - destruct (op_at s n) as [o|]; [|discriminate]. destruct (o_pc o); try discriminate.
    destruct (err s); [injection E as <-; reflexivity|].
    destruct (negb (send_fail s)); injection E as <-; [|reflexivity].
    match goal with |- seen (set_op _ _ (fold_left _ ?L ?s1)) = _ => destruct (register_fold_dc (o_ctx o) L s1) as [A B] end.
    unfold seen. cbn. cbn in A, B. rewrite A, B. reflexivity.
  - destruct (nth_error (delivs s) j) as [d|]; [|discriminate]. destruct (d_st d); [|discriminate].
    destruct (deliver_all_dc j (d_msgs d) 0 s) as [A B].
    destruct (crash (deliver_all j 0 (d_msgs d) s)); injection E as <-; unfold seen; cbn; rewrite ?map_msgs_upd, ?A, ?B; auto.
  - destruct (slot_at s i) as [sl|]; [|discriminate]. destruct (sl_watch sl); try discriminate.
    set (s1 := set_slot i (fun sl0 => sl0 <| sl_watch := WDone |>) s) in *.
    destruct (assoc (id_text (sl_id sl)) (pending s)); [|injection E as <-; reflexivity].
    match type of E with context [write_slot ?i ?v ?s0] => destruct (write_slot_dc i v s0) as [A B]; set (s2 := write_slot i v s0) in * end.
    destruct (crash s2); [injection E as <-; unfold seen; rewrite A, B; reflexivity|].
    destruct (c_oncancel s2); [|injection E as <-; unfold seen; rewrite A, B; reflexivity].
    destruct (settle_slot_dc i s2) as [A2 B2].
    destruct (crash (settle_slot i s2)); injection E as <-; unfold seen; cbn; rewrite ?A2, ?B2, A, B; reflexivity.
  - destruct (rd s); try discriminate. destruct (stop_locked c s) as [s1 first] eqn:Est.
    injection E as <-. rewrite <- (stop_locked_seen _ _ _ _ Est). destruct first; reflexivity.
  - destruct (op_at s n) as [o|]; [|discriminate]. destruct (o_pc o); try discriminate.
    destruct (stop_locked SCClosed s) as [s1 first] eqn:Est.
    injection E as <-. rewrite <- (stop_locked_seen _ _ _ _ Est). reflexivity.
  - destruct (nth_error (cbs s) c) as [cb|]; [|discriminate]. destruct (cb_st cb); try discriminate.
    injection E as <-. destruct (err s); reflexivity.
Qed.

Lemma settle1_seen s s' : settle1 s = Some s' -> seen s' = seen s.
Proof.
  intros E. unfold settle1 in E. destruct (crash s); [discriminate|].
  assert (Hops : match find_idx (op_ready s) 0 (ops s) with
                 | Some n => match op_at s n with Some o => Some (op_advance n o s) | None => None end
                 | None => None end = Some s' -> seen s' = seen s).
  { clear E. intros E. destruct (find_idx (op_ready s) 0 (ops s)) as [n|]; [|discriminate].
    destruct (op_at s n) as [o|]; [|discriminate]. injection E as <-.
    unfold op_advance. destruct (o_pc o); auto.
    - destruct (nth_error (o_slots o) k) as [i|]; [|reflexivity].
      destruct (settle_slot_dc i s) as [A B]. unfold seen. cbn. rewrite A, B. reflexivity.
    - destruct stopper; [destruct (err s)|]; reflexivity. }
  destruct (rd s); auto. destruct (ch_in s) as [|f q] eqn:Ech; auto.
  destruct f as [[|b ms]|c]; injection E as <-; unfold seen; cbn; rewrite ?Ech; cbn; auto.
  rewrite map_app, <- app_assoc. reflexivity.
Qed.

Lemma step_seen s l s' os : step s l = Some (s', os) ->
  seen s' = seen s ++ match l with LFeed f => feed_msgs f | _ => [] end.
Proof.
  unfold step. destruct (crash s); [discriminate|]. destruct (step_raw s l) as [s1|] eqn:E1; [|discriminate].
  intros H. assert (Es : settle (settle_fuel s1) s1 = s') by congruence. rewrite <- Es.
  rewrite <- (step_raw_seen _ _ _ E1).
  apply (settle_inv (fun st => seen st = seen s1)); auto. intros a b Ha Hb. rewrite (settle1_seen _ _ Hb). auto.
Qed.

Lemma run_seen tr : forall s s' oss, run s tr = Some (s', oss) -> seen s' = seen s ++ fed tr.
Proof.
  induction tr as [|l r IH]; cbn; intros s s' oss H.
  - injection H as <- <-. rewrite app_nil_r. auto.
  - destruct (step s l) as [[s1 os]|] eqn:E; [|discriminate].
    destruct (run s1 r) as [[s2 oss2]|] eqn:E2; [|discriminate]. injection H as <- <-.
    rewrite (IH _ _ _ E2), (step_seen _ _ _ _ E), app_assoc. reflexivity.
Qed.

(** * C04: the delivery records are the peer's records *)
Lemma delivered_are_fed c tr s : traces_to c tr s ->
  (* the arrays the peer sent = those picked up by the reader, in order, followed by those still queued *)
  fed tr = map d_msgs (delivs s) ++ flat_map feed_msgs (ch_in s)
  (* hence every member of the delivery log is member k of the j-th array the peer sent *)
  /\ (forall j k m, member_at s j k m -> exists ms, nth_error (fed tr) j = Some ms /\ nth_error ms k = Some m).
Proof.
  intros [oss H]. assert (E := run_seen tr _ _ _ H). unfold seen at 2 in E. cbn in E. fold (seen s) in E. unfold seen in E.
  split; auto. intros j k m (d & H1 & H2). exists (d_msgs d). split; auto.
  rewrite <- E. apply nth_error_app_old. apply map_nth_error. auto.
Qed.

Example delivered_are_fed_nonvacuous :
  exists s, traces_to ex_cfg ex_trace_B s /\ fed ex_trace_B = [[ex_reply [49%N] [55%N]]; [ex_reply [50%N] [56%N]]]
            /\ member_at s 1 0 (ex_reply [50%N] [56%N]).
Proof.
  destruct (run (init_of ex_cfg) ex_trace_B) as [[s oss]|] eqn:E; [|revert E; vm_compute; discriminate].
  exists s. split; [exists oss; exact E|]. revert E. vm_compute. intros [= <- _]. split; auto.
  eexists. split; reflexivity.
Qed.
