(* CliHist: history invariants of the client model (C04 / C05).

   The delivery log.  [evlog s tr] replays the label sequence [tr] from [s] with the frozen
   model functions and records, in the order in which they happen,
     - [DMember j k m tgt]: the reply-shaped member [m] at position [k] of inbound record [j]
       was handed to deliverLocked, and [tgt] is what the lookup of its id in the pending set
       returned at that moment ([Some i]: the entry of slot [i] was removed and [m] written
       to slot [i]; [None]: the id was not pending, the member was dropped);
     - [DWatch i w]: the context watcher of slot [i] passed cli.watch; [w = Some v]: it found
       its id pending, removed the entry and wrote [v]; [None]: it was too late.
   The log is ghost: it is computed from the run, the transitions never read it.

   Invariants (for every reachable state together with the log of the run that reached it):
   a slot holds a value iff exactly one event of the log found its id pending, and the value
   is that event's; every logged member is a member of the delivery records of the state;
   OnCancel was observed exactly once per watcher write (if the hook is configured). *)
From Coq Require Import List NArith ZArith Bool Arith Lia.
From RecordUpdate Require Import RecordUpdate.
From JV Require Import Bytes Msg CliModel CliLemmas CliInv CliRet CliProofs CliC05 CliCtx CliOps.
Import ListNotations.

(** * the delivery log *)
Inductive dev :=
| DMember (j k : nat) (m : jmsg) (tgt : option nat)
| DWatch (i : nat) (w : option val).

Definition ev_member (j k : nat) (m : jmsg) (s : state) : list dev :=
  if is_req_or_notif m then [] else [DMember j k m (assoc (fix_id (j_id m)) (pending s))].

Fixpoint ev_all (j k : nat) (ms : list jmsg) (s : state) : list dev :=
  match ms with
  | [] => []
  | m :: r => match crash s with
              | Some _ => []
              | None => ev_member j k m s ++ ev_all j (S k) r (deliver_member j k m s)
              end
  end.

(* the value waitComplete writes in state s *)
Definition watch_val (s : state) (sl : slot) : val :=
  mkVal (id_text (sl_id sl)) (Some (watch_werr (err s) (sl_pctx sl))) [] SWatch.

Definition ev_raw (s : state) (l : label) : list dev :=
  match l with
  | LRelDeliver j =>
      match nth_error (delivs s) j with
      | Some d => match d_st d with DParked => ev_all j 0 (d_msgs d) s | DDone => [] end
      | None => []
      end
  | LRelWatch i =>
      match slot_at s i with
      | Some sl =>
          match sl_watch sl with
          | WParked => [DWatch i (match assoc (id_text (sl_id sl)) (pending s) with
                                  | Some _ => Some (watch_val s sl)
                                  | None => None
                                  end)]
          | _ => []
          end
      | None => []
      end
  | _ => []
  end.

Fixpoint evlog (s : state) (tr : list label) : list dev :=
  match tr with
  | [] => []
  | l :: r => match step s l with
              | Some (s1, _) => ev_raw s l ++ evlog s1 r
              | None => []
              end
  end.

(* the event found the id [key] pending (and removed it) *)
Definition hits (key : bytes) (e : dev) : bool :=
  match e with
  | DMember _ _ m (Some _) => beq (fix_id (j_id m)) key
  | DWatch _ (Some v) => beq (v_id v) key
  | _ => false
  end.

(* the value the event wrote *)
Definition ev_val (e : dev) : option val :=
  match e with
  | DMember j k m (Some _) => Some (val_of_member j k m)
  | DWatch _ (Some v) => Some v
  | _ => None
  end.

Definition is_dwatch (e : dev) : bool := match e with DWatch _ _ => true | _ => false end.

(** * reachability with the log *)
Inductive reachE (c : config) : state -> list dev -> Prop :=
| reachE_init : reachE c (init_of c) []
| reachE_step s log l s' os : reachE c s log -> step s l = Some (s', os) -> reachE c s' (log ++ ev_raw s l).

Lemma run_reachE c tr : forall s log s' oss, reachE c s log -> run s tr = Some (s', oss) -> reachE c s' (log ++ evlog s tr).
Proof.
  induction tr as [|l r IH]; cbn; intros s log s' oss R H.
  - injection H as <- <-. rewrite app_nil_r. auto.
  - destruct (step s l) as [[s1 os]|] eqn:E; [|discriminate].
    destruct (run s1 r) as [[s2 oss2]|] eqn:E2; [|discriminate].
    injection H as <- <-. rewrite app_assoc. eapply IH; [|exact E2]. eapply reachE_step; eauto.
Qed.

Lemma traces_reachE c tr s : traces_to c tr s -> reachE c s (evlog (init_of c) tr).
Proof. intros [oss H]. apply (run_reachE c tr _ [] _ _ (reachE_init c) H). Qed.

Lemma reachE_reach c s log : reachE c s log -> reach c s.
Proof. induction 1; [apply reach_init|eapply reach_step; eauto]. Qed.

Lemma reachE_inv (P : state -> list dev -> Prop) c :
  P (init_of c) [] ->
  (forall s log l s', reach c s -> P s log -> crash s = None -> step_raw s l = Some s' -> P s' (log ++ ev_raw s l)) ->
  (forall s log s', P s log -> settle1 s = Some s' -> P s' log) ->
  forall s log, reachE c s log -> P s log.
Proof.
  intros H0 Hraw Hset s log R. induction R as [|s log l s' os R IH E]; auto.
  assert (Rs := reachE_reach _ _ _ R).
  unfold step in E. destruct (crash s) eqn:C; [discriminate|].
  destruct (step_raw s l) as [s1|] eqn:E1; [|discriminate].
  assert (Es : settle (settle_fuel s1) s1 = s') by congruence. rewrite <- Es.
  apply (settle_inv (fun st => P st (log ++ ev_raw s l))).
  - intros s2 s3 H2 H3. eapply Hset; eauto.
  - apply (Hraw s log l s1 Rs IH C E1).
Qed.

(** * list helpers *)
Lemma filter_snoc {A} (p : A -> bool) l e : filter p (l ++ [e]) = filter p l ++ (if p e then [e] else []).
Proof. rewrite filter_app. cbn. destruct (p e); auto. Qed.

Lemma filter_none {A} (p : A -> bool) l : (forall x, In x l -> p x = false) -> filter p l = [].
Proof.
  induction l as [|x l IH]; cbn; auto. intros H. rewrite (H x (or_introl eq_refl)). apply IH. intros y Hy. apply H; auto.
Qed.

Lemma filter_nil_in {A} (p : A -> bool) l x : filter p l = [] -> In x l -> p x = false.
Proof.
  intros H Hx. destruct (p x) eqn:E; auto. assert (Hi : In x (filter p l)) by (apply filter_In; auto).
  rewrite H in Hi. destruct Hi.
Qed.

(** * slots up to (id, buffer) *)
Definition slot_hc (sl : slot) := (sl_id sl, sl_buf sl).
Definition hc_eq (s s' : state) : Prop := map slot_hc (slots s') = map slot_hc (slots s).

Lemma hc_refl s s' : slots s' = slots s -> hc_eq s s'.
Proof. unfold hc_eq. intros ->. auto. Qed.

Lemma hc_trans s1 s2 s3 : hc_eq s1 s2 -> hc_eq s2 s3 -> hc_eq s1 s3.
Proof. unfold hc_eq. congruence. Qed.

Lemma hc_core s s' : map slot_core (slots s') = map slot_core (slots s) -> hc_eq s s'.
Proof.
  unfold hc_eq. intros E.
  assert (F : forall l, map slot_hc l = map (fun c : nat * nat * bool * option val => (snd (fst (fst c)), snd c)) (map slot_core l)).
  { intros l. rewrite map_map. apply map_ext. reflexivity. }
  rewrite !F, E. reflexivity.
Qed.

Lemma hc_set_slot s i f : (forall sl, slot_hc (f sl) = slot_hc sl) -> hc_eq s (set_slot i f s).
Proof.
  intros H. unfold hc_eq, set_slot. cbn. generalize (slots s). intros l. revert i.
  induction l as [|x r IH]; intros [|i]; cbn; auto; f_equal; auto.
Qed.

Lemma hc_at s s' : hc_eq s s' -> forall i sl', slot_at s' i = Some sl' ->
  exists sl, slot_at s i = Some sl /\ sl_id sl = sl_id sl' /\ sl_buf sl = sl_buf sl'.
Proof.
  unfold hc_eq, slot_at. intros E i sl' H.
  assert (H1 : nth_error (map slot_hc (slots s')) i = Some (slot_hc sl')) by (apply map_nth_error; auto).
  rewrite E in H1. apply nth_error_map_some in H1. destruct H1 as (sl & H1 & H2).
  unfold slot_hc in H2. injection H2 as A B. exists sl. auto.
Qed.

Lemma hc_sym s s' : hc_eq s s' -> hc_eq s' s.
Proof. unfold hc_eq. auto. Qed.

(** * the source invariant *)
Definition delivs_ext (s s' : state) : Prop :=
  forall j d, nth_error (delivs s) j = Some d -> exists d', nth_error (delivs s') j = Some d' /\ d_msgs d' = d_msgs d.

(* a logged event refers to a member of the delivery records and to an allocated slot bearing its id *)
Definition ev_ok (s : state) (e : dev) : Prop :=
  match e with
  | DMember j k m tgt =>
      is_req_or_notif m = false
      /\ (exists d, nth_error (delivs s) j = Some d /\ nth_error (d_msgs d) k = Some m)
      /\ (forall i, tgt = Some i -> exists sl, slot_at s i = Some sl /\ fix_id (j_id m) = id_text (sl_id sl))
  | DWatch i (Some v) => exists sl, slot_at s i = Some sl /\ v_id v = id_text (sl_id sl) /\ v_src v = SWatch
  | DWatch _ None => True
  end.

(* a slot is written iff exactly one event found its id pending, and it holds that event's value *)
Definition src_ok (s : state) (log : list dev) : Prop :=
  forall i sl, slot_at s i = Some sl ->
    match sl_buf sl with
    | None => filter (hits (id_text (sl_id sl))) log = []
    | Some v => exists e, filter (hits (id_text (sl_id sl))) log = [e] /\ ev_val e = Some v
    end.

Record invH (s : state) (log : list dev) : Prop := { h_src : src_ok s log; h_ok : Forall (ev_ok s) log }.

Lemma delivs_ext_refl s s' : delivs s' = delivs s -> delivs_ext s s'.
Proof. intros E j d H. exists d. rewrite E. auto. Qed.

Lemma delivs_ext_trans s1 s2 s3 : delivs_ext s1 s2 -> delivs_ext s2 s3 -> delivs_ext s1 s3.
Proof.
  intros F G j d H. destruct (F _ _ H) as (d2 & H2 & E2). destruct (G _ _ H2) as (d3 & H3 & E3).
  exists d3. split; auto. congruence.
Qed.

Lemma ev_ok_mono s s' e : slots_mono s s' -> delivs_ext s s' -> ev_ok s e -> ev_ok s' e.
Proof.
  intros M D. destruct e as [j k m tgt|i [v|]]; cbn; auto.
  - intros (A & (d & B1 & B2) & C). splits; auto.
    + destruct (D _ _ B1) as (d' & H1 & H2). exists d'. split; auto. rewrite H2. auto.
    + intros i Hi. destruct (C i Hi) as (sl & H1 & H2). destruct (M _ _ H1) as (sl' & H3 & H4 & _).
      exists sl'. split; auto. congruence.
  - intros (sl & H1 & H2 & H3). destruct (M _ _ H1) as (sl' & H4 & H5 & _). exists sl'. splits; auto. congruence.
Qed.

Lemma ok_mono s s' log : slots_mono s s' -> delivs_ext s s' -> Forall (ev_ok s) log -> Forall (ev_ok s') log.
Proof. intros M D. apply Forall_impl. intros e. apply ev_ok_mono; auto. Qed.

Lemma src_ok_frame s s' log : hc_eq s s' -> src_ok s log -> src_ok s' log.
Proof.
  intros E H i sl' Hs. destruct (hc_at _ _ E _ _ Hs) as (sl & H1 & H2 & H3).
  specialize (H _ _ H1). rewrite H2, H3 in H. exact H.
Qed.

Lemma invH_frame s s' log : hc_eq s s' -> slots_mono s s' -> delivs_ext s s' -> invH s log -> invH s' log.
Proof. intros E M D [A B]. split; [eapply src_ok_frame; eauto|eapply ok_mono; eauto]. Qed.

Lemma hits_slot s e key : ev_ok s e -> hits key e = true -> exists i sl, slot_at s i = Some sl /\ key = id_text (sl_id sl).
Proof.
  destruct e as [j k m [i|]|i [v|]]; cbn; try discriminate.
  - intros (_ & _ & C) H. destruct (C i eq_refl) as (sl & H1 & H2). exists i, sl. split; auto.
    destruct (beq_spec (fix_id (j_id m)) key); [congruence|discriminate].
  - intros (sl & H1 & H2 & _) H. exists i, sl. split; auto.
    destruct (beq_spec (v_id v) key); [congruence|discriminate].
Qed.

Lemma src_ok_miss s log e : (forall key, hits key e = false) -> src_ok s log -> src_ok s (log ++ [e]).
Proof.
  intros He H i sl Hs. specialize (H _ _ Hs). rewrite filter_snoc, He, app_nil_r. exact H.
Qed.

Lemma src_ok_hit s s' log i sl v e : inv1 s -> src_ok s log -> slot_at s i = Some sl -> sl_buf sl = None ->
  slots s' = upd_nth i (fun sl => sl <| sl_buf := Some v |>) (slots s) ->
  (forall key, hits key e = beq (id_text (sl_id sl)) key) -> ev_val e = Some v ->
  src_ok s' (log ++ [e]).
Proof.
  intros I H Hs Hb Es He Hv j sl' Hj. unfold slot_at in Hj. rewrite Es, nth_error_upd_nth in Hj.
  rewrite filter_snoc, He. destruct (Nat.eqb_spec i j) as [<-|N].
  - unfold slot_at in Hs. rewrite Hs in Hj. cbn in Hj. injection Hj as <-. cbn.
    specialize (H _ _ Hs). rewrite Hb in H. rewrite H, beq_refl. cbn. eauto.
  - fold (slot_at s j) in Hj. specialize (H _ _ Hj).
    destruct (beq_spec (id_text (sl_id sl)) (id_text (sl_id sl'))) as [E|_].
    + exfalso. apply N. eapply slot_key_inj; eauto.
    + rewrite app_nil_r. exact H.
Qed.

Lemma src_ok_app s s' log sl0 : inv1 s -> invH s log -> slots s' = slots s ++ [sl0] -> sl_buf sl0 = None ->
  sl_id sl0 = S (length (slots s)) -> src_ok s' log.
Proof.
  intros I [H Ok] Es Hb Hid j sl' Hj. unfold slot_at in Hj. rewrite Es in Hj.
  destruct (nth_error_snoc _ _ _ _ Hj) as [[_ H1]|[_ ->]]; [apply (H _ _ H1)|].
  rewrite Hb. apply filter_none. intros e He. destruct (hits (id_text (sl_id sl0)) e) eqn:Eh; auto. exfalso.
  rewrite Forall_forall in Ok. destruct (hits_slot s e _ (Ok e He) Eh) as (i & sl & H1 & H2).
  apply id_text_inj in H2. rewrite (i_ids _ (proj1 I) _ _ H1), Hid in H2. apply slot_at_lt in H1. lia.
Qed.

(** * deliverLocked and the log *)
Lemma invH_deliver_member j k m s log d : inv1 s -> invH s log ->
  nth_error (delivs s) j = Some d -> nth_error (d_msgs d) k = Some m ->
  invH (deliver_member j k m s) (log ++ ev_member j k m s).
Proof.
  intros I [Hsrc Hok] Hd Hm.
  assert (M := mono_deliver_member j k m s I).
  destruct (deliver_member_inv1 j k m s I) as (_ & _ & Ed).
  assert (D : delivs_ext s (deliver_member j k m s)) by (apply delivs_ext_refl; auto).
  destruct (deliver_member_spec j k m s I) as (S1 & S2 & S3).
  unfold ev_member. destruct (is_req_or_notif m) eqn:Er.
  - rewrite app_nil_r. destruct (S1 eq_refl) as [E1 _]. apply (invH_frame s); auto; [apply hc_refl; auto|split; auto].
  - destruct (assoc (fix_id (j_id m)) (pending s)) as [i|] eqn:Ea.
    + destruct (S3 eq_refl i eq_refl) as (sl & A1 & A2 & A3 & A4 & _). split.
      * eapply (src_ok_hit s _ log i sl (val_of_member j k m)); eauto; try reflexivity.
        intros key. cbn. rewrite A2. reflexivity.
      * apply Forall_app. split; [eapply ok_mono; eauto|]. constructor; [|constructor]. cbn. splits; auto.
        -- exists d. rewrite Ed. auto.
        -- intros i' [= <-]. destruct (M _ _ A1) as (sl' & H3 & H4 & _). exists sl'. split; auto. congruence.
    + rewrite (S2 eq_refl eq_refl). split.
      * apply src_ok_miss; auto.
      * apply Forall_app. split; auto. constructor; [|constructor]. cbn. splits; eauto. intros i; discriminate.
Qed.

Lemma invH_deliver_all j d ms : forall k s log, inv1 s -> invH s log ->
  nth_error (delivs s) j = Some d -> (forall x, nth_error ms x = nth_error (d_msgs d) (k + x)) ->
  invH (deliver_all j k ms s) (log ++ ev_all j k ms s).
Proof.
  induction ms as [|m r IH]; intros k s log I H Hd Hx; cbn.
  - rewrite app_nil_r. auto.
  - rewrite (i_crash _ (proj1 I)). rewrite app_assoc.
    destruct (deliver_member_inv1 j k m s I) as (I1 & _ & Ed).
    apply IH; auto.
    + eapply invH_deliver_member; eauto. rewrite <- (Nat.add_0_r k). rewrite <- Hx. reflexivity.
    + rewrite Ed. auto.
    + intros x. rewrite Nat.add_succ_comm. rewrite <- Hx. reflexivity.
Qed.

(** * OnCancel observations *)
Definition is_oc (key : bytes) (o : obs) : bool := match o with OOnCancel id _ => beq id key | _ => false end.
Definition any_oc (o : obs) : bool := match o with OOnCancel _ _ => true | _ => false end.
Definition oc_count (key : bytes) (h : list obs) : nat := length (filter (is_oc key) h).
Definition nooc (os : list obs) : bool := forallb (fun o => negb (any_oc o)) os.
(* the watcher of the request with id [key] found it pending *)
Definition whits (key : bytes) (e : dev) : bool := hits key e && is_dwatch e.

Record invO (s : state) (log : list dev) : Prop := {
  o_count : forall key, oc_count key (hist s) = if c_oncancel s then length (filter (whits key) log) else 0;
  o_val : forall key e, In (OOnCancel key e) (hist s) -> exists i v, In (DWatch i (Some v)) log /\ v_id v = key /\ v_err v = e
}.

Definition hist_ext (s s' : state) : Prop :=
  c_oncancel s' = c_oncancel s /\ exists os, hist s' = hist s ++ os /\ nooc os = true.

Lemma hist_ext_refl s s' : c_oncancel s' = c_oncancel s -> hist s' = hist s -> hist_ext s s'.
Proof. intros E H. split; auto. exists []. rewrite app_nil_r. auto. Qed.

Lemma hist_ext_emit s s' os : c_oncancel s' = c_oncancel s -> hist s' = hist s ++ os -> nooc os = true -> hist_ext s s'.
Proof. intros E H N. split; auto. exists os. auto. Qed.

Lemma hist_ext_emit2 s s' os1 os2 : c_oncancel s' = c_oncancel s -> hist s' = (hist s ++ os1) ++ os2 ->
  nooc os1 = true -> nooc os2 = true -> hist_ext s s'.
Proof.
  intros E H N1 N2. split; auto. exists (os1 ++ os2). rewrite app_assoc. split; auto.
  unfold nooc in *. rewrite forallb_app, N1, N2. auto.
Qed.

Lemma hist_ext_trans s1 s2 s3 : hist_ext s1 s2 -> hist_ext s2 s3 -> hist_ext s1 s3.
Proof.
  intros [E1 (os1 & H1 & N1)] [E2 (os2 & H2 & N2)]. split; [congruence|].
  exists (os1 ++ os2). rewrite H2, H1, app_assoc. split; auto. unfold nooc in *. rewrite forallb_app, N1, N2. auto.
Qed.

Lemma nooc_count key os : nooc os = true -> oc_count key os = 0.
Proof.
  unfold nooc, oc_count. induction os as [|o r IH]; cbn; auto.
  rewrite andb_true_iff. intros [H1 H2]. destruct o; cbn in *; auto. discriminate.
Qed.

Lemma nooc_in key e os : nooc os = true -> ~ In (OOnCancel key e) os.
Proof. unfold nooc. rewrite forallb_forall. intros H Hin. apply H in Hin. discriminate. Qed.

Lemma oc_count_app key h os : oc_count key (h ++ os) = oc_count key h + oc_count key os.
Proof. unfold oc_count. rewrite filter_app, app_length. auto. Qed.

Lemma invO_ext s s' log evs : hist_ext s s' -> (forall e key, In e evs -> whits key e = false) ->
  invO s log -> invO s' (log ++ evs).
Proof.
  intros [Ec (os & Eh & N)] Hev [A B]. constructor.
  - intros key. rewrite Eh, Ec, oc_count_app, (nooc_count _ _ N), Nat.add_0_r, A.
    rewrite filter_app, (filter_none (whits key) evs), app_nil_r; auto.
  - intros key e Hin. rewrite Eh in Hin. apply in_app_or in Hin. destruct Hin as [Hin|Hin]; [|exfalso; eapply nooc_in; eauto].
    destruct (B _ _ Hin) as (i & v & H1 & H2). exists i, v. split; auto. apply in_or_app; auto.
Qed.

Lemma invO_same s s' log : hist_ext s s' -> invO s log -> invO s' log.
Proof. intros H O. rewrite <- (app_nil_r log). eapply invO_ext; eauto. intros e key []. Qed.

(** * what the uninteresting transitions preserve *)
Lemma register_misc ctx i s :
  hc_eq s (register ctx i s) /\ c_oncancel (register ctx i s) = c_oncancel s /\ hist (register ctx i s) = hist s
  /\ delivs (register ctx i s) = delivs s.
Proof.
  unfold register. destruct (slot_at s i) as [sl|]; [|splits; auto; apply hc_refl; auto].
  destruct (is_some _); (split; [|splits; reflexivity]).
  - eapply hc_trans; [|apply hc_set_slot; reflexivity]. apply hc_refl. reflexivity.
  - eapply hc_trans; [|apply hc_set_slot; reflexivity]. apply hc_refl. reflexivity.
Qed.

Lemma register_fold_misc ctx L : forall s,
  let s' := fold_left (fun st i => register ctx i st) L s in
  hc_eq s s' /\ c_oncancel s' = c_oncancel s /\ hist s' = hist s /\ delivs s' = delivs s.
Proof.
  induction L as [|i r IH]; intros s; cbn.
  - splits; auto. apply hc_refl; auto.
  - destruct (register_misc ctx i s) as (A1 & A2 & A3 & A4). destruct (IH (register ctx i s)) as (B1 & B2 & B3 & B4).
    splits; [eapply hc_trans; eauto|congruence|congruence|congruence].
Qed.

Lemma settle_slot_misc i s : inv1 s ->
  hc_eq s (settle_slot i s) /\ delivs (settle_slot i s) = delivs s /\ c_oncancel (settle_slot i s) = c_oncancel s
  /\ hist (settle_slot i s) = hist s.
Proof.
  intros I. destruct (settle_slot_inv1 i s I) as (_ & _ & Ed & Ec).
  split; [apply hc_core; auto|]. split; auto.
  destruct (settle_slot_eq s i I) as [->|(sl & v & _ & _ & _ & ->)]; auto.
Qed.

Lemma stop_locked_misc c s s1 b : stop_locked c s = (s1, b) ->
  hc_eq s s1 /\ delivs s1 = delivs s /\ hist_ext s s1.
Proof.
  intros H. destruct (stop_locked_frame _ _ _ _ H) as (F1 & _ & _ & _ & _ & _ & F7).
  split; [apply hc_core; auto|]. split; auto.
  destruct (err s) eqn:Ee.
  - unfold stop_locked in H. rewrite Ee in H. injection H as <- <-. apply hist_ext_refl; auto.
  - destruct (stop_locked_eq _ _ _ _ Ee H) as (_ & _ & _ & _ & _ & _ & Eh & Ec).
    eapply hist_ext_emit; eauto.
Qed.

Lemma deliver_member_hist j k m s : inv1 s -> hist_ext s (deliver_member j k m s).
Proof.
  intros I. unfold deliver_member. destruct (is_req_or_notif m).
  - destruct (is_notification m).
    + destruct (c_onnotify s); [eapply hist_ext_emit; reflexivity|apply hist_ext_refl; auto].
    + destruct (c_oncallback s); cbn; [|apply hist_ext_refl; auto].
      destruct (err s); cbn; [apply hist_ext_refl; auto|eapply hist_ext_emit; reflexivity].
  - destruct (assoc (fix_id (j_id m)) (pending s)) as [i|] eqn:E; [|apply hist_ext_refl; auto].
    apply assoc_in in E. rewrite (write_pending_eq _ _ _ _ I E). apply hist_ext_refl; reflexivity.
Qed.

Lemma deliver_all_hist j ms : forall k s, inv1 s -> hist_ext s (deliver_all j k ms s).
Proof.
  induction ms as [|m r IH]; intros k s I; cbn; [apply hist_ext_refl; auto|].
  rewrite (i_crash _ (proj1 I)). eapply hist_ext_trans; [apply deliver_member_hist; auto|].
  apply IH. apply deliver_member_inv1; auto.
Qed.

Definition boring (l : label) : Prop := match l with LRelReq _ | LRelDeliver _ | LRelWatch _ => False | _ => True end.

Lemma step_raw_boring s l s' : inv1 s -> step_raw s l = Some s' -> boring l ->
  hc_eq s s' /\ delivs s' = delivs s /\ hist_ext s s' /\ ev_raw s l = [].
Proof.
  intros I E B. destruct l; cbn in E; try contradiction; (split; [|split; [|split; [|reflexivity]]]).
  - destruct (negb (n =? length (ops s)) || negb (specs_ok k specs)); [discriminate|].
    destruct k.
    1-3: destruct (is_nil specs); [injection E as <-; apply hc_refl; reflexivity|];
         destruct (scan specs 0); injection E as <-; apply hc_refl; reflexivity.
    injection E as <-; apply hc_refl; reflexivity.
  - destruct (negb (n =? length (ops s)) || negb (specs_ok k specs)); [discriminate|].
    destruct k.
    1-3: destruct (is_nil specs); [injection E as <-; reflexivity|];
         destruct (scan specs 0); injection E as <-; reflexivity.
    injection E as <-; reflexivity.
  - destruct (negb (n =? length (ops s)) || negb (specs_ok k specs)); [discriminate|].
    destruct k.
    1-3: destruct (is_nil specs); [injection E as <-; eapply hist_ext_emit; reflexivity|];
         destruct (scan specs 0); injection E as <-; [apply hist_ext_refl; reflexivity|eapply hist_ext_emit; reflexivity].
    injection E as <-; apply hist_ext_refl; reflexivity.
  - injection E as <-; apply hc_refl; reflexivity.
  - injection E as <-; reflexivity.
  - injection E as <-; apply hist_ext_refl; reflexivity.
  - injection E as <-; apply hc_refl; reflexivity.
  - injection E as <-; reflexivity.
  - injection E as <-; apply hist_ext_refl; reflexivity.
  - destruct (op_at s n) as [o|]; [|discriminate]. destruct (o_ctx o); injection E as <-; [apply hc_refl; reflexivity|].
    apply hc_core. cbn. rewrite map_map. apply map_ext. intros sl. destruct ((sl_op sl =? n) && sl_reg sl); auto. apply cancel_slot_core.
  - destruct (op_at s n) as [o|]; [|discriminate]. destruct (o_ctx o); injection E as <-; reflexivity.
  - destruct (op_at s n) as [o|]; [|discriminate]. destruct (o_ctx o); injection E as <-; apply hist_ext_refl; reflexivity.
  - destruct (find_idx _ 0 (cbs s)); [|discriminate]. injection E as <-; apply hc_refl; reflexivity.
  - destruct (find_idx _ 0 (cbs s)); [|discriminate]. injection E as <-; reflexivity.
  - destruct (find_idx _ 0 (cbs s)); [|discriminate]. injection E as <-; apply hist_ext_refl; reflexivity.
  - (* LRelSend *)
    destruct (op_at s n) as [o|]; [|discriminate]. destruct (o_pc o); try discriminate.
    destruct (err s); [injection E as <-; apply hc_refl; reflexivity|].
    destruct (negb (send_fail s)); injection E as <-; [|apply hc_refl; reflexivity].
    match goal with |- hc_eq s (set_op _ _ (fold_left _ ?L ?s1)) => destruct (register_fold_misc (o_ctx o) L s1) as (A & _) end.
    eapply hc_trans; [|eapply hc_trans; [exact A|apply hc_refl; reflexivity]]. apply hc_refl; reflexivity.
  - destruct (op_at s n) as [o|]; [|discriminate]. destruct (o_pc o); try discriminate.
    destruct (err s); [injection E as <-; reflexivity|].
    destruct (negb (send_fail s)); injection E as <-; [|reflexivity].
    match goal with |- delivs (set_op _ _ (fold_left _ ?L ?s1)) = _ => destruct (register_fold_misc (o_ctx o) L s1) as (_ & _ & _ & A) end.
    cbn. cbn in A. rewrite A. reflexivity.
  - destruct (op_at s n) as [o|]; [|discriminate]. destruct (o_pc o); try discriminate.
    destruct (err s); [injection E as <-; eapply hist_ext_emit; reflexivity|].
    destruct (negb (send_fail s)); injection E as <-; [|eapply hist_ext_emit2; reflexivity].
    match goal with |- hist_ext s (set_op _ _ (fold_left _ ?L ?s1)) => destruct (register_fold_misc (o_ctx o) L s1) as (_ & A1 & A2 & _) end.
    eapply hist_ext_emit; [cbn; cbn in A1; rewrite A1; reflexivity|cbn; cbn in A2; rewrite A2; reflexivity|reflexivity].
  - (* LRelRecvErr *)
    destruct (rd s); try discriminate. destruct (stop_locked c s) as [s1 first] eqn:Est.
    destruct (stop_locked_misc _ _ _ _ Est) as (A & _). injection E as <-.
    eapply hc_trans; [exact A|]. destruct first; apply hc_refl; reflexivity.
  - destruct (rd s); try discriminate. destruct (stop_locked c s) as [s1 first] eqn:Est.
    destruct (stop_locked_misc _ _ _ _ Est) as (_ & A & _). injection E as <-. destruct first; cbn; auto.
  - destruct (rd s); try discriminate. destruct (stop_locked c s) as [s1 first] eqn:Est.
    destruct (stop_locked_misc _ _ _ _ Est) as (_ & _ & A). injection E as <-.
    eapply hist_ext_trans; [exact A|]. destruct first; [eapply hist_ext_emit; reflexivity|apply hist_ext_refl; reflexivity].
  - (* LRelClose *)
    destruct (op_at s n) as [o|]; [|discriminate]. destruct (o_pc o); try discriminate.
    destruct (stop_locked SCClosed s) as [s1 first] eqn:Est.
    destruct (stop_locked_misc _ _ _ _ Est) as (A & _). injection E as <-.
    eapply hc_trans; [exact A|]. apply hc_refl; reflexivity.
  - destruct (op_at s n) as [o|]; [|discriminate]. destruct (o_pc o); try discriminate.
    destruct (stop_locked SCClosed s) as [s1 first] eqn:Est.
    destruct (stop_locked_misc _ _ _ _ Est) as (_ & A & _). injection E as <-. cbn; auto.
  - destruct (op_at s n) as [o|]; [|discriminate]. destruct (o_pc o); try discriminate.
    destruct (stop_locked SCClosed s) as [s1 first] eqn:Est.
    destruct (stop_locked_misc _ _ _ _ Est) as (_ & _ & A). injection E as <-.
    eapply hist_ext_trans; [exact A|]. apply hist_ext_refl; reflexivity.
  - (* LRelCbReply *)
    destruct (nth_error (cbs s) c) as [cb|]; [|discriminate]. destruct (cb_st cb); try discriminate.
    injection E as <-. destruct (err s) eqn:Ee; apply hc_refl; reflexivity.
  - destruct (nth_error (cbs s) c) as [cb|]; [|discriminate]. destruct (cb_st cb); try discriminate.
    injection E as <-. destruct (err s) eqn:Ee; reflexivity.
  - destruct (nth_error (cbs s) c) as [cb|]; [|discriminate]. destruct (cb_st cb); try discriminate.
    injection E as <-. destruct (err s) eqn:Ee; [apply hist_ext_refl; reflexivity|eapply hist_ext_emit; reflexivity].
Qed.

(** * the invariants hold along every run *)
Definition invHO (s : state) (log : list dev) : Prop := invH s log /\ invO s log.

Lemma delivs_ext_upd s s' j g : delivs s' = upd_nth j g (delivs s) -> (forall d, d_msgs (g d) = d_msgs d) -> delivs_ext s s'.
Proof.
  intros E Hg j' d H. rewrite E, nth_error_upd_nth. destruct (j =? j'); rewrite H; cbn; eauto.
Qed.

Lemma delivs_ext_app s s' l : delivs s' = delivs s ++ l -> delivs_ext s s'.
Proof. intros E j d H. exists d. rewrite E. split; auto. apply nth_error_app_old; auto. Qed.

Lemma ev_all_members j ms : forall k s e, In e (ev_all j k ms s) -> is_dwatch e = false.
Proof.
  induction ms as [|m r IH]; intros k s e; cbn; [contradiction|].
  destruct (crash s); [contradiction|]. intros H. apply in_app_or in H. destruct H as [H|H]; [|eapply IH; eauto].
  unfold ev_member in H. destruct (is_req_or_notif m); [contradiction|]. destruct H as [<-|[]]. reflexivity.
Qed.

Lemma invHO_init c : invHO (init_of c) [].
Proof.
  split; [split|split].
  - intros [|i] sl H; discriminate.
  - constructor.
  - intros key. cbn. destruct (cf_oncancel c); reflexivity.
  - intros key e [].
Qed.

Lemma invHO_step_raw s log l s' : inv1 s -> invHO s log -> step_raw s l = Some s' -> invHO s' (log ++ ev_raw s l).
Proof.
  intros I [H O] E. assert (M := step_raw_mono s l s' I E).
  destruct l;
    try (destruct (step_raw_boring s _ s' I E Logic.I) as (A1 & A2 & A3 & A4); rewrite A4, app_nil_r;
         split; [apply (invH_frame s); auto; apply delivs_ext_refl; auto|eapply invO_same; eauto]).
  - (* LRelReq *)
    cbn [ev_raw]. rewrite app_nil_r. cbn in E.
    destruct (op_at s n) as [o|]; [|discriminate]. destruct (o_pc o); try discriminate.
    set (sl0 := mkSlot n (next_id s) false None false None WNone) in *.
    assert (Hid : sl_id sl0 = S (length (slots s))) by (cbn; apply (i_next _ (proj1 I))).
    match type of E with (match ?x with Some _ => _ | None => _ end) = _ => destruct x end; injection E as <-.
    + split; [split|].
      * eapply (src_ok_app s _ log sl0); eauto; reflexivity.
      * eapply ok_mono; [exact M|apply delivs_ext_refl; reflexivity|apply H].
      * eapply invO_same; eauto. apply hist_ext_refl; reflexivity.
    + split; [split|].
      * eapply (src_ok_app s _ log sl0); eauto; reflexivity.
      * eapply ok_mono; [exact M|apply delivs_ext_refl; reflexivity|apply H].
      * eapply invO_same; eauto. eapply hist_ext_emit; reflexivity.
  - (* LRelDeliver *)
    unfold ev_raw. cbn in E.
    destruct (nth_error (delivs s) j) as [d|] eqn:Ed; [|discriminate]. destruct (d_st d); [|discriminate].
    destruct (deliver_all_inv1 j (d_msgs d) 0 s I) as (I1 & _ & Ed1).
    rewrite (i_crash _ (proj1 I1)) in E. injection E as <-.
    assert (H1 : invH (deliver_all j 0 (d_msgs d) s) (log ++ ev_all j 0 (d_msgs d) s)).
    { eapply invH_deliver_all; eauto. }
    split.
    + eapply invH_frame; [| | |exact H1].
      * apply hc_refl; reflexivity.
      * apply mono_refl; reflexivity.
      * eapply delivs_ext_upd; [reflexivity|]. reflexivity.
    + eapply invO_ext; eauto.
      * eapply hist_ext_trans; [apply deliver_all_hist; auto|apply hist_ext_refl; reflexivity].
      * intros e key He. unfold whits. rewrite (ev_all_members _ _ _ _ _ He). apply andb_false_r.
  - (* LRelWatch *)
    unfold ev_raw. cbn in E.
    destruct (slot_at s i) as [sl|] eqn:Es; [|discriminate]. destruct (sl_watch sl) eqn:Ew; try discriminate.
    set (s1 := set_slot i (fun sl0 => sl0 <| sl_watch := WDone |>) s) in *.
    assert (I1 : inv1 s1).
    { apply (inv1_frame s); try reflexivity; auto; try apply I.
      cbn. apply map_core_upd. reflexivity. apply ops_frame_refl; reflexivity. }
    assert (M1 : slots_mono s s1) by (apply mono_set_slot; intros; unfold slot_le; cbn; auto).
    assert (H1 : invH s1 log).
    { apply (invH_frame s); auto; [apply hc_set_slot; reflexivity|apply delivs_ext_refl; reflexivity]. }
    destruct (assoc (id_text (sl_id sl)) (pending s)) as [i'|] eqn:Ea.
    2: { injection E as <-. split.
         - destruct H1 as [A B]. split; [apply src_ok_miss; auto|]. apply Forall_app. split; auto. constructor; [exact Logic.I|constructor].
         - eapply invO_ext; eauto; [apply hist_ext_refl; reflexivity|]. intros e key [<-|[]]. reflexivity. }
    apply assoc_in in Ea. assert (i' = i) by (apply (pending_of_slot s i sl i' I Es Ea)). subst i'.
    unfold watch_val. set (v := mkVal (id_text (sl_id sl)) (Some (watch_werr (err s) (sl_pctx sl))) [] SWatch) in *.
    destruct (pending_slot _ _ _ I Ea) as (sl' & Hs' & _ & _ & Hb). rewrite Es in Hs'. injection Hs' as <-.
    destruct (write_pending_ok s1 (id_text (sl_id sl)) i v I1 Ea (fix_id_text _)) as (I2 & _ & Ed2 & Es2 & _ & Eh2).
    assert (Ec2 : c_oncancel (write_slot i v (s1 <| pending ::= assoc_del (id_text (sl_id sl)) |>)) = c_oncancel s).
    { rewrite (write_pending_eq s1 _ _ _ I1 Ea). reflexivity. }
    assert (M2 := mono_write s1 _ i v I1 Ea).
    set (s2 := write_slot i v _) in *.
    assert (Hs1 : slot_at s1 i = Some (sl <| sl_watch := WDone |>)).
    { unfold s1. rewrite slot_at_set_slot, Nat.eqb_refl, Es. reflexivity. }
    assert (Hs2 : slot_at s2 i = Some (sl <| sl_watch := WDone |> <| sl_buf := Some v |>)).
    { unfold slot_at. rewrite Es2. erewrite nth_error_upd_nth_eq; [reflexivity|exact Hs1]. }
    assert (H2 : invH s2 (log ++ [DWatch i (Some v)])).
    { destruct H1 as [A B]. split.
      - eapply (src_ok_hit s1 s2 log i _ v); eauto; reflexivity.
      - apply Forall_app. split.
        + eapply ok_mono; [exact M2|apply delivs_ext_refl; auto|exact B].
        + constructor; [|constructor]. cbn. eexists. split; [exact Hs2|]. split; reflexivity. }
    assert (Hw : forall key, whits key (DWatch i (Some v)) = beq (id_text (sl_id sl)) key).
    { intros key. unfold whits. cbn. apply andb_true_r. }
    rewrite (i_crash _ (proj1 I2)) in E.
    destruct (c_oncancel s2) eqn:Eoc.
    + destruct (settle_slot_inv1 i s2 I2) as (I3 & _).
      destruct (settle_slot_misc i s2 I2) as (B1 & B2 & B3 & B4).
      rewrite (i_crash _ (proj1 I3)) in E. injection E as <-.
      set (oc := [OOnCancel (id_text (sl_id sl)) (Some (watch_werr (err s) (sl_pctx sl)))]) in *.
      assert (Eh : hist (emit oc (settle_slot i s2)) = hist s ++ oc).
      { change (hist (emit oc (settle_slot i s2))) with (hist (settle_slot i s2) ++ oc). rewrite B4, Eh2. reflexivity. }
      assert (Ec : c_oncancel (emit oc (settle_slot i s2)) = true).
      { change (c_oncancel (emit oc (settle_slot i s2))) with (c_oncancel (settle_slot i s2)). rewrite B3. exact Eoc. }
      assert (Ecs : c_oncancel s = true) by (symmetry; exact Ec2).
      split.
      * apply (invH_frame s2); [| | |exact H2].
        -- eapply hc_trans; [exact B1|apply hc_refl; reflexivity].
        -- eapply mono_trans; [apply mono_settle; auto|apply mono_refl; reflexivity].
        -- apply delivs_ext_refl. exact B2.
      * destruct O as [OA OB]. constructor.
        -- intros key. rewrite Eh, Ec, oc_count_app, OA, Ecs, filter_snoc, Hw, app_length. f_equal.
           unfold oc, oc_count. cbn. destruct (beq (id_text (sl_id sl)) key); reflexivity.
        -- intros key e Hin. rewrite Eh in Hin.
           apply in_app_or in Hin. destruct Hin as [Hin|[Hin|[]]].
           ++ destruct (OB _ _ Hin) as (i0 & v0 & A1 & A2). exists i0, v0. split; auto. apply in_or_app; auto.
           ++ injection Hin as <- <-. exists i, v. split; [apply in_or_app; right; left; auto|]. split; reflexivity.
    + injection E as <-. split; auto.
      assert (Ecs : c_oncancel s = false) by (symmetry; exact Ec2).
      destruct O as [OA OB]. constructor.
      * intros key. rewrite Eoc, Eh2. replace (hist s1) with (hist s) by reflexivity. rewrite OA, Ecs. reflexivity.
      * intros key e Hin. rewrite Eh2 in Hin. replace (hist s1) with (hist s) in Hin by reflexivity.
        destruct (OB _ _ Hin) as (i0 & v0 & A1 & A2). exists i0, v0. split; auto. apply in_or_app; auto.
Qed.

Lemma invHO_settle1 s log s' : inv1 s -> invHO s log -> settle1 s = Some s' -> invHO s' log.
Proof.
  intros I [H O] E. assert (M := settle1_mono s s' I E). unfold settle1 in E. rewrite (i_crash _ (proj1 I)) in E.
  assert (Fr : forall s0, hc_eq s s0 -> slots_mono s s0 -> delivs_ext s s0 -> hist_ext s s0 -> invHO s0 log).
  { intros s0 A1 A2 A3 A4. split; [eapply invH_frame; eauto|eapply invO_same; eauto]. }
  assert (Hops : match find_idx (op_ready s) 0 (ops s) with
                 | Some n => match op_at s n with Some o => Some (op_advance n o s) | None => None end
                 | None => None end = Some s' -> invHO s' log).
  { clear E. intros E. destruct (find_idx (op_ready s) 0 (ops s)) as [n|]; [|discriminate].
    destruct (op_at s n) as [o|] eqn:Eo; [|discriminate]. injection E as <-.
    unfold op_advance in *. destruct (o_pc o) eqn:Epc;
      try (apply Fr; auto; [apply hc_refl; reflexivity|apply delivs_ext_refl; reflexivity|apply hist_ext_refl; reflexivity]).
    - destruct (nth_error (o_slots o) k) as [i|].
      + destruct (settle_slot_misc i s I) as (B1 & B2 & B3 & B4). apply Fr; [|exact M| |].
        * eapply hc_trans; [exact B1|apply hc_refl; reflexivity].
        * apply delivs_ext_refl. exact B2.
        * apply hist_ext_refl; [exact B3|exact B4].
      + apply Fr; auto; [apply hc_refl; reflexivity|apply delivs_ext_refl; reflexivity|eapply hist_ext_emit; reflexivity].
    - destruct stopper; [destruct (err s) eqn:Ee|]; (apply Fr; auto; [apply hc_refl; reflexivity|apply delivs_ext_refl; reflexivity|]).
      + eapply hist_ext_emit2; reflexivity.
      + eapply hist_ext_emit; reflexivity.
      + eapply hist_ext_emit; reflexivity. }
  destruct (rd s); auto. destruct (ch_in s) as [|f q]; auto.
  destruct f as [[|b ms]|c]; injection E as <-; (apply Fr; auto; [apply hc_refl; reflexivity| |apply hist_ext_refl; reflexivity]).
  - apply delivs_ext_refl; reflexivity.
  - eapply delivs_ext_app; reflexivity.
  - apply delivs_ext_refl; reflexivity.
Qed.

Theorem invHO_reach c s log : reachE c s log -> invHO s log.
Proof.
  intros R. assert (G : inv1 s /\ invHO s log); [|apply G].
  revert s log R. apply (reachE_inv (fun s log => inv1 s /\ invHO s log)).
  - split; [apply inv1_init|apply invHO_init].
  - intros s log l s' _ [I HO] Cr E. split; [eapply inv1_step_raw; eauto|eapply invHO_step_raw; eauto].
  - intros s log s' [I HO] E. split; [eapply inv1_settle1; eauto|eapply invHO_settle1; eauto].
Qed.

(** * all invariants of a trace *)
Lemma trace_invs c tr s : traces_to c tr s ->
  inv1 s /\ invK s /\ invC s /\ invP s /\ invH s (evlog (init_of c) tr) /\ invO s (evlog (init_of c) tr).
Proof.
  intros T. assert (R := traces_reach _ _ _ T).
  destruct (invCP_reach c s R) as (I & C & P). destruct (inv1K_reach c s R) as (_ & K).
  destruct (invHO_reach c s _ (traces_reachE _ _ _ T)) as [H O]. splits; auto.
Qed.

(** * C04: who answered a request *)
(* m is the member at position k of inbound record j of the delivery log of s *)
Definition member_at (s : state) (j k : nat) (m : jmsg) : Prop :=
  exists d, nth_error (delivs s) j = Some d /\ nth_error (d_msgs d) k = Some m.

(* slot i (sl) holds v, written by the event e of the log:
   e is the one and only event of the log that found the id of the slot pending (the first member carrying
   that id that was delivered while the request was pending - members carrying it that were delivered before
   or after found nothing and were dropped - or else the slot's own watcher); v is its value *)
Definition answered_by (s : state) (log : list dev) (i : nat) (sl : slot) (v : val) (e : dev) : Prop :=
  filter (hits (id_text (sl_id sl))) log = [e] /\ ev_val e = Some v /\ sl_buf sl = Some v
  /\ match e with
     | DMember j k m tgt =>
         tgt = Some i /\ member_at s j k m /\ is_req_or_notif m = false /\ fix_id (j_id m) = id_text (sl_id sl)
         /\ v = val_of_member j k m
     | DWatch i' w =>
         i' = i /\ w = Some v /\ exists cw, sl_pctx sl = Some cw /\ cause s sl cw /\ wval s sl cw v
     end.

Lemma filter_single_in {A} (p : A -> bool) l e : filter p l = [e] -> In e l /\ p e = true.
Proof. intros H. apply filter_In. rewrite H. left; auto. Qed.

Lemma answered_only s log i sl v e : answered_by s log i sl v e ->
  (forall e', In e' log -> hits (id_text (sl_id sl)) e' = true -> e' = e)
  /\ exists l1 l2, log = l1 ++ e :: l2 /\ filter (hits (id_text (sl_id sl))) l1 = [] /\ filter (hits (id_text (sl_id sl))) l2 = [].
Proof.
  intros (F & _). split.
  - intros e' Hin Hh. assert (Hi : In e' (filter (hits (id_text (sl_id sl))) log)) by (apply filter_In; auto).
    rewrite F in Hi. destruct Hi as [->|[]]. auto.
  - destruct (filter_single_in _ _ _ F) as [Hin Hh]. apply in_split in Hin. destruct Hin as (l1 & l2 & ->).
    exists l1, l2. split; auto. rewrite filter_app in F. cbn in F. rewrite Hh in F.
    destruct (filter (hits (id_text (sl_id sl))) l1) as [|x r] eqn:E1.
    + cbn in F. injection F as F. auto.
    + cbn in F. injection F as _ F. destruct r; discriminate.
Qed.

Lemma slot_answer s log i sl v : inv1 s -> invC s -> invH s log ->
  slot_at s i = Some sl -> sl_buf sl = Some v -> exists e, answered_by s log i sl v e.
Proof.
  intros I C [Hsrc Hok] Hs Hb. assert (A := Hsrc _ _ Hs). rewrite Hb in A. destruct A as (e & F & Hv).
  destruct (filter_single_in _ _ _ F) as [Hin Hh]. rewrite Forall_forall in Hok. assert (Ok := Hok _ Hin).
  exists e. unfold answered_by. splits; auto.
  destruct e as [j k m [i'|]|i' [v'|]]; cbn in *; try discriminate.
  - destruct Ok as (A1 & A2 & A3). destruct (A3 i' eq_refl) as (sl' & H1 & H2).
    apply beq_eq in Hh. assert (i' = i) by (eapply slot_key_inj; eauto; congruence). subst i'.
    injection Hv as <-. splits; auto.
  - destruct Ok as (sl' & H1 & H2 & H3). injection Hv as ->.
    apply beq_eq in Hh. assert (i' = i) by (eapply slot_key_inj; eauto; congruence). subst i'.
    splits; auto. apply (c_wsrc _ C _ _ _ Hs Hb H3).
Qed.

Lemma slot_val_at s i v : slot_val s i = Some v -> exists sl, slot_at s i = Some sl /\ sl_buf sl = Some v.
Proof. unfold slot_val. destruct (slot_at s i) as [sl|]; [eauto|discriminate]. Qed.

Lemma Forall2_impl_in {A B} (R R' : A -> B -> Prop) l1 l2 :
  Forall2 R l1 l2 -> (forall a b, In a l1 -> R a b -> R' a b) -> Forall2 R' l1 l2.
Proof.
  induction 1 as [|a b l1 l2 H H2 IH]; intros Hi; constructor.
  - apply Hi; auto. left; auto.
  - apply IH. intros a' b' Hin. apply Hi. right; auto.
Qed.

Lemma reply_is_peers c tr s : traces_to c tr s ->
  (* Call: the value returned is the value of the one event that found the call's id pending *)
  (forall n r, In (ORet n (RetCall r)) (hist s) ->
     exists o i rest sl v e,
       op_at s n = Some o /\ o_kind o = KCall /\ o_slots o = i :: rest /\ slot_at s i = Some sl /\ sl_op sl = n
       /\ answered_by s (evlog (init_of c) tr) i sl v e /\ r = call_res v)
  (* Batch: one response per allocated request slot, in slot (= spec) order, each the value of the one event
     that found that request's id pending, tagged with that request's id *)
  /\ (forall n rs, In (ORet n (RetBatch rs)) (hist s) ->
        exists o, op_at s n = Some o /\ o_kind o = KBatch
          /\ Forall2 (fun i p => exists sl v e, slot_at s i = Some sl /\ sl_op sl = n
                                   /\ answered_by s (evlog (init_of c) tr) i sl v e
                                   /\ p = (id_text (sl_id sl), batch_res v)) (o_slots o) rs).
Proof.
  intros T. destruct (trace_invs c tr s T) as (I & K & C & P & H & O). split.
  - intros n r Hin. destruct (k_val _ K _ _ Hin) as (o & Ho & Hr).
    destruct (P n o Ho) as (_ & _ & _ & D). destruct (D _ Hr) as (Hk & i & rest & v & Es & Hv & ->).
    destruct (slot_val_at _ _ _ Hv) as (sl & Hs & Hb).
    destruct (i_own _ (proj1 I) _ _ _ Ho ltac:(rewrite Es; left; reflexivity)) as (sl' & Hs' & Hop).
    rewrite Hs in Hs'. injection Hs' as <-.
    destruct (slot_answer s _ i sl v I C H Hs Hb) as (e & A).
    exists o, i, rest, sl, v, e. splits; auto.
  - intros n rs Hin. destruct (k_val _ K _ _ Hin) as (o & Ho & Hr).
    destruct (P n o Ho) as (_ & _ & _ & D). destruct (D _ Hr) as (Hk & F).
    exists o. splits; auto. eapply Forall2_impl_in; [exact F|].
    intros i p Hi (v & Hv & ->). destruct (slot_val_at _ _ _ Hv) as (sl & Hs & Hb).
    destruct (i_own _ (proj1 I) _ _ _ Ho Hi) as (sl' & Hs' & Hop). rewrite Hs in Hs'. injection Hs' as <-.
    destruct (slot_answer s _ i sl v I C H Hs Hb) as (e & A).
    exists sl, v, e. splits; auto. unfold slot_text. rewrite Hs. reflexivity.
Qed.

(** * C04: the returned value is determined by the member that answers the id (order irrelevance) *)
Definition err_res (e : werr) : res1 :=
  if (we_code e =? Cancelled)%Z then RCtx WCancel
  else if (we_code e =? DeadlineExceeded)%Z then RCtx WDeadline else RErr e.
(* what Call returns for a reply member / what Batch returns for it: a function of the member's payload only *)
Definition member_res (m : jmsg) : res1 :=
  match j_err m with
  | Some e => err_res e
  | None => match j_error m with Some e => err_res e | None => RRes (j_result m) end
  end.
Definition member_bres (m : jmsg) : res1 :=
  match j_err m with
  | Some e => RErr e
  | None => match j_error m with Some e => RErr e | None => RRes (j_result m) end
  end.

Lemma call_res_member j k m : call_res (val_of_member j k m) = member_res m.
Proof. unfold call_res, val_of_member, member_res, err_res. destruct (j_err m); cbn; auto. Qed.

Lemma batch_res_member j k m : batch_res (val_of_member j k m) = member_bres m.
Proof. unfold batch_res, val_of_member, member_bres. destruct (j_err m); cbn; auto. Qed.

(* every member of every inbound record delivered so far, in any order and grouping *)
Definition peer_members (s : state) : list jmsg := flat_map d_msgs (delivs s).
(* the wire ids of the requests of operation n, in slot order *)
Definition op_ids (s : state) (n : nat) : list bytes :=
  match op_at s n with Some o => map (slot_text s) (o_slots o) | None => [] end.
(* every reply-shaped member carrying id [key] that the peer sent has the same payload, seen through f *)
Definition answers (s : state) (key : bytes) (f : jmsg -> res1) (a : res1) : Prop :=
  Forall (fun m => is_req_or_notif m = false -> fix_id (j_id m) = key -> f m = a) (peer_members s).

Lemma member_at_in s j k m : member_at s j k m -> In m (peer_members s).
Proof.
  intros (d & H1 & H2). unfold peer_members. apply in_flat_map. exists d. split; eapply nth_error_In; eauto.
Qed.

Lemma answered_live s log i sl v e o : answered_by s log i sl v e -> op_at s (sl_op sl) = Some o -> o_ctx o = None -> err s = None ->
  exists j k m, member_at s j k m /\ is_req_or_notif m = false /\ fix_id (j_id m) = id_text (sl_id sl) /\ v = val_of_member j k m.
Proof.
  intros (_ & _ & _ & A) Ho Hc He. destruct e as [j k m tgt|i' w].
  - destruct A as (_ & A1 & A2 & A3 & A4). exists j, k, m. auto.
  - destruct A as (_ & _ & cw & _ & [(o' & B1 & B2)|[_ B]] & _); [congruence|contradiction].
Qed.

Lemma Forall2_in_r {A B} (R : A -> B -> Prop) l1 l2 b : Forall2 R l1 l2 -> In b l2 -> exists a, In a l1 /\ R a b.
Proof.
  induction 1 as [|a' b' l1 l2 H H2 IH]; intros Hin; [destruct Hin|].
  destruct Hin as [<-|Hin]; [exists a'; split; [left|]; auto|].
  destruct (IH Hin) as (a & A1 & A2). exists a. split; [right|]; auto.
Qed.

Lemma reply_determined c tr s : traces_to c tr s -> forall n o, op_at s n = Some o -> o_ctx o = None -> err s = None ->
  (forall r key a, In (ORet n (RetCall r)) (hist s) -> hd_error (op_ids s n) = Some key -> answers s key member_res a -> r = a)
  /\ (forall rs key r1 a, In (ORet n (RetBatch rs)) (hist s) -> In (key, r1) rs -> answers s key member_bres a -> r1 = a).
Proof.
  intros T n o Ho Hc He. destruct (reply_is_peers c tr s T) as [RC RB]. split.
  - intros r key a Hin Hk Ha. destruct (RC n r Hin) as (o' & i & rest & sl & v & e & Ho' & _ & Es & Hs & Hop & A & ->).
    rewrite Ho in Ho'. injection Ho' as <-.
    unfold op_ids in Hk. rewrite Ho, Es in Hk. cbn in Hk. injection Hk as <-.
    rewrite <- Hop in Ho. destruct (answered_live _ _ _ _ _ _ _ A Ho Hc He) as (j & k & m & M1 & M2 & M3 & ->).
    rewrite call_res_member. unfold answers in Ha. rewrite Forall_forall in Ha. apply (Ha m); auto.
    + eapply member_at_in; eauto.
    + unfold slot_text. rewrite Hs. auto.
  - intros rs key r1 a Hin Hk Ha. destruct (RB n rs Hin) as (o' & Ho' & _ & F).
    rewrite Ho in Ho'. injection Ho' as <-.
    destruct (Forall2_in_r _ _ _ _ F Hk) as (i & Hi & sl & v & e & Hs & Hop & A & Ep). injection Ep as -> ->.
    rewrite <- Hop in Ho. destruct (answered_live _ _ _ _ _ _ _ A Ho Hc He) as (j & k & m & M1 & M2 & M3 & ->).
    rewrite batch_res_member. unfold answers in Ha. rewrite Forall_forall in Ha. apply (Ha m); auto.
    eapply member_at_in; eauto.
Qed.

(* two runs - any two schedules, any two orders / partitions / duplications of the peer's records - in
   which the same ids are answered with the same payloads return the same values *)
Lemma order_irrelevant c1 tr1 s1 c2 tr2 s2 : traces_to c1 tr1 s1 -> traces_to c2 tr2 s2 ->
  forall n o1 o2, op_at s1 n = Some o1 -> op_at s2 n = Some o2 ->
    o_ctx o1 = None -> o_ctx o2 = None -> err s1 = None -> err s2 = None ->
    (forall key a r1 r2,
       hd_error (op_ids s1 n) = Some key -> hd_error (op_ids s2 n) = Some key ->
       answers s1 key member_res a -> answers s2 key member_res a ->
       In (ORet n (RetCall r1)) (hist s1) -> In (ORet n (RetCall r2)) (hist s2) -> r1 = r2)
    /\ (forall rs1 rs2 key a r1 r2,
          In (ORet n (RetBatch rs1)) (hist s1) -> In (ORet n (RetBatch rs2)) (hist s2) ->
          In (key, r1) rs1 -> In (key, r2) rs2 ->
          answers s1 key member_bres a -> answers s2 key member_bres a -> r1 = r2).
Proof.
  intros T1 T2 n o1 o2 Ho1 Ho2 Hc1 Hc2 He1 He2.
  destruct (reply_determined c1 tr1 s1 T1 n o1 Ho1 Hc1 He1) as [C1 B1].
  destruct (reply_determined c2 tr2 s2 T2 n o2 Ho2 Hc2 He2) as [C2 B2]. split.
  - intros key a r1 r2 K1 K2 A1 A2 R1 R2. rewrite (C1 _ _ _ R1 K1 A1), (C2 _ _ _ R2 K2 A2). reflexivity.
  - intros rs1 rs2 key a r1 r2 R1 R2 I1 I2 A1 A2. rewrite (B1 _ _ _ _ R1 I1 A1), (B2 _ _ _ _ R2 I2 A2). reflexivity.
Qed.

(** * C05: OnCancel runs once per watcher write; the outcome of a call by who removed its entry *)
Definition watch_written (sl : slot) : bool :=
  match sl_buf sl with Some v => match v_src v with SWatch => true | SPeer _ _ => false end | None => false end.

Lemma filter_andb {A} (p q : A -> bool) l : filter (fun x => p x && q x) l = filter q (filter p l).
Proof. induction l as [|x l IH]; cbn; auto. destruct (p x); cbn; [destruct (q x); cbn; congruence|auto]. Qed.

Lemma watch_outcome c tr s : traces_to c tr s ->
  (* OnCancel count per allocated id: 1 iff the hook is configured and the slot was written by its watcher *)
  (forall i sl, slot_at s i = Some sl ->
     oc_count (id_text (sl_id sl)) (hist s) = if c_oncancel s && watch_written sl then 1 else 0)
  (* never for an id that was not allocated *)
  /\ (forall key, (forall i sl, slot_at s i = Some sl -> id_text (sl_id sl) <> key) -> oc_count key (hist s) = 0)
  (* the hook sees the watcher's value *)
  /\ (forall key e, In (OOnCancel key e) (hist s) ->
        exists i sl v, slot_at s i = Some sl /\ id_text (sl_id sl) = key /\ sl_buf sl = Some v /\ v_src v = SWatch /\ v_err v = e)
  (* the value returned by a call: the reply if a delivery removed the entry, the context's / stop's error if
     the watcher did *)
  /\ (forall n r, In (ORet n (RetCall r)) (hist s) ->
        exists o i rest sl v, op_at s n = Some o /\ o_slots o = i :: rest /\ slot_at s i = Some sl /\ sl_buf sl = Some v
          /\ r = call_res v
          /\ match v_src v with
             | SPeer j k => exists m, member_at s j k m /\ is_req_or_notif m = false
                                      /\ fix_id (j_id m) = id_text (sl_id sl) /\ v = val_of_member j k m
                                      /\ oc_count (id_text (sl_id sl)) (hist s) = 0
             | SWatch => exists cw, sl_pctx sl = Some cw /\ cause s sl cw /\ wval s sl cw v
                                    /\ oc_count (id_text (sl_id sl)) (hist s) = if c_oncancel s then 1 else 0
             end).
Proof.
  intros T. destruct (trace_invs c tr s T) as (I & K & C & P & H & O).
  set (log := evlog (init_of c) tr) in *.
  assert (Hcount : forall i sl, slot_at s i = Some sl ->
            oc_count (id_text (sl_id sl)) (hist s) = if c_oncancel s && watch_written sl then 1 else 0).
  { intros i sl Hs. rewrite (o_count _ _ O). destruct (c_oncancel s); cbn [andb]; auto.
    unfold whits. rewrite filter_andb. unfold watch_written.
    destruct (sl_buf sl) as [v|] eqn:Hb.
    - destruct (slot_answer s log i sl v I C H Hs Hb) as (e & F & Hv & _ & A). rewrite F.
      destruct e as [j k m tgt|i' w]; cbn.
      + destruct A as (_ & _ & _ & _ & ->). unfold val_of_member. destruct (j_err m); reflexivity.
      + destruct A as (_ & _ & cw & _ & _ & (e0 & -> & _)). reflexivity.
    - assert (A := h_src _ _ H _ _ Hs). rewrite Hb in A. rewrite A. reflexivity. }
  splits; auto.
  - intros key Hno. rewrite (o_count _ _ O). destruct (c_oncancel s); auto.
    rewrite filter_none; auto. intros e He. unfold whits. destruct (hits key e) eqn:Eh; auto. exfalso.
    assert (Ok := h_ok _ _ H). rewrite Forall_forall in Ok. destruct (hits_slot s e key (Ok e He) Eh) as (i & sl & A1 & A2).
    apply (Hno i sl A1). auto.
  - intros key e Hin. destruct (o_val _ _ O _ _ Hin) as (i & v & A1 & A2 & A3).
    assert (Ok := h_ok _ _ H). rewrite Forall_forall in Ok. destruct (Ok _ A1) as (sl & B1 & B2 & B3).
    assert (Hh : hits (id_text (sl_id sl)) (DWatch i (Some v)) = true) by (cbn; rewrite B2; apply beq_refl).
    assert (Hf : In (DWatch i (Some v)) (filter (hits (id_text (sl_id sl))) log)) by (apply filter_In; auto).
    assert (A := h_src _ _ H _ _ B1). exists i, sl, v. splits; auto; [congruence|].
    destruct (sl_buf sl) as [v'|]; [|rewrite A in Hf; destruct Hf].
    destruct A as (e' & F & Hv). rewrite F in Hf. destruct Hf as [->|[]]. cbn in Hv. congruence.
  - intros n r Hin. destruct (reply_is_peers c tr s T) as [RC _].
    destruct (RC n r Hin) as (o & i & rest & sl & v & e & Ho & _ & Es & Hs & Hop & A & ->).
    exists o, i, rest, sl, v. destruct A as (F & Hv & Hb & A). splits; auto.
    assert (Hc := Hcount _ _ Hs). unfold watch_written in Hc. rewrite Hb in Hc.
    destruct e as [j k m tgt|i' w].
    + destruct A as (_ & A1 & A2 & A3 & ->).
      assert (Es' : v_src (val_of_member j k m) = SPeer j k) by (unfold val_of_member; destruct (j_err m); reflexivity).
      rewrite Es' in *. rewrite andb_false_r in Hc. exists m. splits; auto.
    + destruct A as (_ & _ & cw & A1 & A2 & A3). destruct A3 as (e0 & -> & A4). cbn in *.
      rewrite andb_true_r in Hc. exists cw. splits; auto. exists e0. auto.
Qed.

(** * non-vacuity *)
(* ex_trace (CliProofs): two calls (op 1 holds id "1", op 0 holds id "2"), one array with the reply for "2", an
   unknown id, a reply for "1" and a duplicate for "1" with another payload: the log records which member found
   which id pending; the first one delivered while pending is the one returned *)
Example reply_is_peers_nonvacuous :
  exists s, traces_to ex_cfg ex_trace s
    /\ In (ORet 1 (RetCall (RRes [57%N]))) (hist s) /\ In (ORet 0 (RetCall (RRes [55%N]))) (hist s)
    /\ evlog (init_of ex_cfg) ex_trace
       = [DMember 0 0 (ex_reply [50%N] [55%N]) (Some 1); DMember 0 1 (ex_reply [57%N; 57%N] [56%N]) None;
          DMember 0 2 (ex_reply [49%N] [57%N]) (Some 0); DMember 0 3 (ex_reply [49%N] [48%N]) None]
    /\ filter (hits [49%N]) (evlog (init_of ex_cfg) ex_trace) = [DMember 0 2 (ex_reply [49%N] [57%N]) (Some 0)].
Proof.
  destruct (run (init_of ex_cfg) ex_trace) as [[s oss]|] eqn:E.
  - exists s. split; [exists oss; exact E|]. revert E. vm_compute. intros [= <- _]. splits; auto.
  - revert E. vm_compute. discriminate.
Qed.

(* a batch with a notification in the middle, answered in reverse order in one array *)
Definition ex_nspec : spec := mkSpec [110%N] [] true false.
Definition ex_trace_batch : list label :=
  [LOp 0 KBatch [ex_spec 49; ex_nspec; ex_spec 50]; LRelReq 0; LRelReq 0; LRelSend 0;
   LFeed (FMsg (InMsgs true [ex_reply [50%N] [56%N]; ex_reply [49%N] [55%N]])); LRelDeliver 0; LRelWatch 0; LRelWatch 1].

Example reply_is_peers_batch_nonvacuous :
  exists s, traces_to ex_cfg ex_trace_batch s
    /\ In (ORet 0 (RetBatch [([49%N], RRes [55%N]); ([50%N], RRes [56%N])])) (hist s)
    /\ In (OSendReq true true [([49%N], [109%N], [91%N; 49%N; 93%N]); ([], [110%N], []); ([50%N], [109%N], [91%N; 50%N; 93%N])]) (hist s)
    /\ evlog (init_of ex_cfg) ex_trace_batch
       = [DMember 0 0 (ex_reply [50%N] [56%N]) (Some 1); DMember 0 1 (ex_reply [49%N] [55%N]) (Some 0); DWatch 0 None; DWatch 1 None].
Proof.
  destruct (run (init_of ex_cfg) ex_trace_batch) as [[s oss]|] eqn:E.
  - exists s. split; [exists oss; exact E|]. revert E. vm_compute. intros [= <- _]. splits; auto.
  - revert E. vm_compute. discriminate.
Qed.

(* the same two calls answered (A) by one array in reverse order, (B) by two single records delivered out of order *)
Definition ex_two_calls : list label :=
  [LOp 0 KCall [ex_spec 49]; LOp 1 KCall [ex_spec 50]; LRelReq 0; LRelReq 1; LRelSend 0; LRelSend 1].
Definition ex_trace_A : list label :=
  ex_two_calls ++ [LFeed (FMsg (InMsgs true [ex_reply [50%N] [56%N]; ex_reply [49%N] [55%N]])); LRelDeliver 0].
Definition ex_trace_B : list label :=
  ex_two_calls ++ [LFeed (FMsg (InMsgs false [ex_reply [49%N] [55%N]])); LFeed (FMsg (InMsgs false [ex_reply [50%N] [56%N]]));
                   LRelDeliver 1; LRelDeliver 0].

Example order_irrelevant_nonvacuous :
  exists s1 s2 o1 o2, traces_to ex_cfg ex_trace_A s1 /\ traces_to ex_cfg ex_trace_B s2
    /\ op_at s1 1 = Some o1 /\ op_at s2 1 = Some o2 /\ o_ctx o1 = None /\ o_ctx o2 = None /\ err s1 = None /\ err s2 = None
    /\ hd_error (op_ids s1 1) = Some [50%N] /\ hd_error (op_ids s2 1) = Some [50%N]
    /\ answers s1 [50%N] member_res (RRes [56%N]) /\ answers s2 [50%N] member_res (RRes [56%N])
    /\ In (ORet 1 (RetCall (RRes [56%N]))) (hist s1) /\ In (ORet 1 (RetCall (RRes [56%N]))) (hist s2)
    /\ peer_members s1 <> peer_members s2.
Proof.
  destruct (run (init_of ex_cfg) ex_trace_A) as [[s1 oss1]|] eqn:E1; [|revert E1; vm_compute; discriminate].
  destruct (run (init_of ex_cfg) ex_trace_B) as [[s2 oss2]|] eqn:E2; [|revert E2; vm_compute; discriminate].
  exists s1, s2. revert E1 E2. vm_compute. intros E1 E2. injection E1 as <- <-. injection E2 as <- <-.
  eexists; eexists. split; [eexists; reflexivity|]. split; [eexists; reflexivity|].
  split; [reflexivity|]. split; [reflexivity|]. vm_compute.
  splits; auto; try discriminate; repeat constructor; intros; try discriminate; reflexivity.
Qed.

(* the two batches of ex_trace_batch's shape, answered in two different groupings *)
Definition ex_trace_batch2 : list label :=
  [LOp 0 KBatch [ex_spec 49; ex_nspec; ex_spec 50]; LRelReq 0; LRelReq 0; LRelSend 0;
   LFeed (FMsg (InMsgs false [ex_reply [49%N] [55%N]])); LFeed (FMsg (InMsgs false [ex_reply [50%N] [56%N]]));
   LRelDeliver 1; LRelDeliver 0].

Example order_irrelevant_batch_nonvacuous :
  exists s1 s2 o1 o2, traces_to ex_cfg ex_trace_batch s1 /\ traces_to ex_cfg ex_trace_batch2 s2
    /\ op_at s1 0 = Some o1 /\ op_at s2 0 = Some o2 /\ o_ctx o1 = None /\ o_ctx o2 = None /\ err s1 = None /\ err s2 = None
    /\ (exists rs1 rs2, In (ORet 0 (RetBatch rs1)) (hist s1) /\ In (ORet 0 (RetBatch rs2)) (hist s2)
                        /\ In ([50%N], RRes [56%N]) rs1 /\ In ([50%N], RRes [56%N]) rs2)
    /\ answers s1 [50%N] member_bres (RRes [56%N]) /\ answers s2 [50%N] member_bres (RRes [56%N]).
Proof.
  destruct (run (init_of ex_cfg) ex_trace_batch) as [[s1 oss1]|] eqn:E1; [|revert E1; vm_compute; discriminate].
  destruct (run (init_of ex_cfg) ex_trace_batch2) as [[s2 oss2]|] eqn:E2; [|revert E2; vm_compute; discriminate].
  exists s1, s2. revert E1 E2. vm_compute. intros E1 E2. injection E1 as <- <-. injection E2 as <- <-.
  eexists; eexists. split; [eexists; reflexivity|]. split; [eexists; reflexivity|].
  split; [reflexivity|]. split; [reflexivity|]. vm_compute.
  splits; auto; try discriminate.
  - eexists; eexists. splits; [right; left; reflexivity|right; left; reflexivity|right; left; reflexivity|right; left; reflexivity].
  - repeat constructor; intros; try discriminate; reflexivity.
  - repeat constructor; intros; try discriminate; reflexivity.
Qed.

(* ex_trace5 (CliC05): the deadline of call 0 fires, its watcher wins; OnCancel ran once, the call returns the
   context's own error *)
Example watch_outcome_nonvacuous :
  exists s sl, traces_to ex_cfg ex_trace5 s /\ slot_at s 0 = Some sl /\ c_oncancel s = true /\ watch_written sl = true
    /\ oc_count (id_text (sl_id sl)) (hist s) = 1
    /\ In (OOnCancel [49%N] (Some (ctx_werr (Some WDeadline)))) (hist s)
    /\ In (ORet 0 (RetCall (RCtx WDeadline))) (hist s)
    /\ evlog (init_of ex_cfg) ex_trace5 = [DWatch 0 (Some (mkVal [49%N] (Some (ctx_werr (Some WDeadline))) [] SWatch))].
Proof.
  destruct (run (init_of ex_cfg) ex_trace5) as [[s oss]|] eqn:E; [|revert E; vm_compute; discriminate].
  exists s. revert E. vm_compute. intros E. injection E as <- <-.
  eexists. split; [eexists; reflexivity|]. split; [reflexivity|]. vm_compute. splits; auto.
Qed.

(* and a call answered by the peer: no OnCancel *)
Example watch_outcome_peer_nonvacuous :
  exists s sl, traces_to ex_cfg ex_trace s /\ slot_at s 0 = Some sl /\ c_oncancel s = true /\ watch_written sl = false
    /\ oc_count (id_text (sl_id sl)) (hist s) = 0.
Proof.
  destruct (run (init_of ex_cfg) ex_trace) as [[s oss]|] eqn:E; [|revert E; vm_compute; discriminate].
  exists s. revert E. vm_compute. intros E. injection E as <- <-.
  eexists. split; [eexists; reflexivity|]. split; [reflexivity|]. vm_compute. splits; auto.
Qed.
