(* CliMonitors: executable monitors over the observation sequence of a run of the CLIENT model, proved sound for
   EVERY run, and extracted (extract/climon.list) so that the runner (ocaml/run_cli.ml) evaluates them on every
   harness log, including the logs of racing scenarios (which are not replayed through CliAccept.accept: they have
   no windows and no release labels).

   A monitor takes the projection of the trace to its ENVIRONMENT labels, in order ([env_of tr]: what the API
   callers, their contexts, the peer, the transport and the callback handlers did; the release labels of the
   scheduling points are dropped because a racing log does not have them) and the flat observation list of the run
   ([concat oss] for [run (init_of c) tr = Some (s, oss)]).  Only the two sequences are used, never their
   interleaving: in a racing log an observation line may be written later (never earlier) than its event relative
   to the environment lines.

   (a) [mon_return_once] (C05): no operation number returns twice ([ORet n _] at most once per n), and every
                               operation number that returns was issued ([LOp n _ _] occurs in the environment
                               labels).  No hypothesis.
   (b) [mon_ids_fresh]   (C04): the ids of all requests handed to the transport ([OSendReq], successful or not;
                               members without an id - notifications - are skipped) are pairwise distinct over the
                               whole run.  No hypothesis: the model's id counter is a [nat] and never wraps.
   (c) [mon_onstop_once] (C05): at most one [OOnStop] observation per run, and no send observation ([OSendReq] /
                               [OSendRsp], successful OR failed - stronger than "no successful send") after it.
   (d) [mon_close_seals] (C05/C10): no send observation after an [OClose] observation (the channel is closed by
                               stopLocked exactly when c.err is set; every Send happens under c.mu with c.err = nil).

   Definitions first (executable, extracted), proofs after. *)
From Coq Require Import List NArith ZArith Bool Arith Lia.
From RecordUpdate Require Import RecordUpdate.
From JV Require Import Bytes Msg CliModel CliLemmas CliInv CliRet CliProofs CliC05 CliCtx CliOps CliHist CliLive CliWg
  CliSend CliNoStop CliStep CliStop CliObs CliSendLog CliGo CliOpTrans.
Import ListNotations.

(** * The two sequences *)
Definition is_env (l : label) : bool :=
  match l with
  | LOp _ _ _ | LFeed _ | LSendFault _ | LCtxEnd _ _ | LCbGate _ _ => true
  | _ => false
  end.
Definition env_of (tr : list label) : list label := filter is_env tr.

Fixpoint memn (n : nat) (l : list nat) : bool := match l with [] => false | x :: r => (n =? x) || memn n r end.
Fixpoint nodupn (l : list nat) : bool := match l with [] => true | x :: r => negb (memn x r) && nodupn r end.
Fixpoint memb (k : bytes) (l : list bytes) : bool := match l with [] => false | x :: r => beq k x || memb k r end.
Fixpoint nodupb (l : list bytes) : bool := match l with [] => true | x :: r => negb (memb x r) && nodupb r end.

(** * (a) every operation returns at most once, and only operations that were issued return *)
Definition op_num (l : label) : list nat := match l with LOp n _ _ => [n] | _ => [] end.
Definition op_nums (env : list label) : list nat := flat_map op_num env.
Definition ret_num (o : obs) : list nat := match o with ORet n _ => [n] | _ => [] end.
Definition ret_nums (os : list obs) : list nat := flat_map ret_num os.

Definition mon_return_once (env : list label) (os : list obs) : bool :=
  nodupn (ret_nums os) && forallb (fun n => memn n (op_nums env)) (ret_nums os).

(** * (b) request ids are never reused *)
Definition req_id (m : bytes * bytes * bytes) : bytes := fst (fst m).
Definition has_id (i : bytes) : bool := negb (is_nil i).
Definition send_ids (o : obs) : list bytes :=
  match o with OSendReq _ _ ms => filter has_id (map req_id ms) | _ => [] end.
Definition sent_ids (os : list obs) : list bytes := flat_map send_ids os.

Definition mon_ids_fresh (env : list label) (os : list obs) : bool := nodupb (sent_ids os).

(** * (c) OnStop at most once, nothing is sent after it; (d) nothing is sent after the channel was closed *)
Definition is_send (o : obs) : bool := match o with OSendReq _ _ _ | OSendRsp _ _ _ => true | _ => false end.
Definition nosend (os : list obs) : bool := forallb (fun o => negb (is_send o)) os.
Definition onstop_obs (o : obs) : bool := match o with OOnStop _ => true | _ => false end.
Definition close_obs (o : obs) : bool := match o with OClose => true | _ => false end.
(* no send observation after an observation satisfying [mark] *)
Fixpoint sealed (mark : obs -> bool) (os : list obs) : bool :=
  match os with
  | [] => true
  | o :: r => (if mark o then nosend r else true) && sealed mark r
  end.
Definition count_obs (p : obs -> bool) (os : list obs) : nat := length (filter p os).

Definition mon_onstop_once (env : list label) (os : list obs) : bool :=
  (count_obs onstop_obs os <=? 1) && sealed onstop_obs os.
Definition mon_close_seals (env : list label) (os : list obs) : bool := sealed close_obs os.

(** * Proofs *)

(** ** lists of numbers / byte strings without repetition *)
Lemma memn_in n l : memn n l = true <-> In n l.
Proof.
  induction l as [|x l IH]; cbn; [split; [discriminate|tauto]|].
  rewrite orb_true_iff, IH, Nat.eqb_eq. split; intros [H|H]; auto.
Qed.

Lemma nodupn_spec l : NoDup l -> nodupn l = true.
Proof.
  induction 1 as [|x l Hn _ IH]; cbn; auto. rewrite IH, andb_true_r. apply negb_true_iff.
  destruct (memn x l) eqn:E; auto. apply memn_in in E. contradiction.
Qed.

Lemma memb_in k l : memb k l = true <-> In k l.
Proof.
  induction l as [|x l IH]; cbn; [split; [discriminate|tauto]|].
  rewrite orb_true_iff, IH, beq_eq. split; intros [H|H]; auto.
Qed.

Lemma nodupb_spec l : NoDup l -> nodupb l = true.
Proof.
  induction 1 as [|x l Hn _ IH]; cbn; auto. rewrite IH, andb_true_r. apply negb_true_iff.
  destruct (memb x l) eqn:E; auto. apply memb_in in E. contradiction.
Qed.

Lemma nodup_count (l : list nat) : (forall n, length (filter (fun m => m =? n) l) <= 1) -> NoDup l.
Proof.
  induction l as [|x l IH]; intros H; constructor.
  - intros Hin. specialize (H x). cbn in H. rewrite Nat.eqb_refl in H. cbn in H.
    assert (0 < length (filter (fun m => m =? x) l)); [|lia].
    clear - Hin. induction l as [|y l IH]; [destruct Hin|]. cbn. destruct Hin as [->|Hin].
    + rewrite Nat.eqb_refl. cbn. lia.
    + destruct (y =? x); cbn; auto. specialize (IH Hin). lia.
  - apply IH. intros n. specialize (H n). cbn in H. destruct (x =? n); cbn in H; lia.
Qed.

Lemma nodup_map_in {A B} (f : A -> B) l : NoDup l -> (forall a b, In a l -> In b l -> f a = f b -> a = b) -> NoDup (map f l).
Proof.
  induction 1 as [|x l Hn _ IH]; intros Inj; cbn; constructor.
  - intros Hin. apply in_map_iff in Hin. destruct Hin as (y & E & Hy).
    assert (y = x) by (apply Inj; cbn; auto). subst y. contradiction.
  - apply IH. intros a b Ha Hb. apply Inj; cbn; auto.
Qed.

(** ** whole runs from the initial state *)
Lemma run_init_hist c tr s oss : run (init_of c) tr = Some (s, oss) -> concat oss = hist s.
Proof. intros H. rewrite (run_hist c tr _ _ _ (reach_init c) H). reflexivity. Qed.

(** ** (a) *)
Lemma ret_nums_app a b : ret_nums (a ++ b) = ret_nums a ++ ret_nums b.
Proof. apply flat_map_app. Qed.

Lemma ret_nums_count n h : length (filter (fun m => m =? n) (ret_nums h)) = ret_count n h.
Proof.
  unfold ret_count. induction h as [|o h IH]; auto. change (ret_nums (o :: h)) with (ret_num o ++ ret_nums h).
  rewrite filter_app, app_length, IH. destruct o; cbn; auto. destruct (n0 =? n); reflexivity.
Qed.

Lemma ret_nums_in n h : In n (ret_nums h) -> exists r, In (ORet n r) h.
Proof.
  unfold ret_nums. intros H. apply in_flat_map in H. destruct H as (o & Ho & Hn).
  destruct o; cbn in Hn; try tauto. destruct Hn as [->|[]]. eauto.
Qed.

Lemma op_nums_env tr : op_nums (env_of tr) = op_nums tr.
Proof.
  induction tr as [|l tr IH]; auto. unfold env_of, op_nums in *. cbn [filter flat_map].
  destruct l; cbn [is_env flat_map op_num app]; rewrite IH; reflexivity.
Qed.

(* only LOp changes the number of operations: it appends the operation with the next number *)
Lemma step_ops_len c s l s' os : reach c s -> step s l = Some (s', os) ->
  length (ops s') = length (ops s) + length (op_num l) /\ (forall n, In n (op_num l) -> n = length (ops s)).
Proof.
  intros R E. pose proof (inv1_reach c s R) as I. unfold step in E.
  destruct (crash s) eqn:C; [discriminate|]. destruct (step_raw s l) as [s1|] eqn:E1; [|discriminate].
  assert (Es : settle (settle_fuel s1) s1 = s') by congruence. clear E.
  assert (I1 : inv1 s1) by (eapply inv1_step_raw; eauto).
  assert (L1 : length (ops s1) = length (ops s) + length (op_num l) /\ forall n, In n (op_num l) -> n = length (ops s)).
  { pose proof (step_raw_ops s l s1 I E1) as Sh.
    destruct l; cbn [ops_shape op_num length In] in *.
    - destruct Sh as (-> & _ & o' & -> & _). rewrite app_length. cbn. split; [lia|]. intros n0 [<-|[]]. reflexivity.
    - rewrite Sh. split; [lia|tauto].
    - rewrite Sh. split; [lia|tauto].
    - destruct Sh as [->|(o & _ & ->)]; rewrite ?upd_nth_length; split; try lia; tauto.
    - rewrite Sh. split; [lia|tauto].
    - destruct Sh as (o & o' & _ & _ & _ & ->). rewrite upd_nth_length. split; [lia|tauto].
    - destruct Sh as (o & o' & _ & _ & _ & ->). rewrite upd_nth_length. split; [lia|tauto].
    - rewrite Sh. split; [lia|tauto].
    - rewrite Sh. split; [lia|tauto].
    - rewrite Sh. split; [lia|tauto].
    - destruct Sh as (o & o' & _ & _ & _ & ->). rewrite upd_nth_length. split; [lia|tauto].
    - rewrite Sh. split; [lia|tauto]. }
  assert (S2 : inv1 s' /\ length (ops s') = length (ops s1)).
  { rewrite <- Es. apply (settle_inv (fun st => inv1 st /\ length (ops st) = length (ops s1))); [|split; auto].
    intros a b [Ia La] Hb. split; [eapply inv1_settle1; eauto|].
    destruct (settle1_ops a b Ia Hb) as [->|(n & o & o' & _ & _ & _ & ->)]; [auto|rewrite upd_nth_length; auto]. }
  destruct S2 as [_ ->]. exact L1.
Qed.

Lemma run_op_nums c : forall tr s s' oss, reach c s -> run s tr = Some (s', oss) ->
  op_nums tr = seq (length (ops s)) (length (op_nums tr)) /\ length (ops s') = length (ops s) + length (op_nums tr).
Proof.
  induction tr as [|l r IH]; cbn [run]; intros s s' oss R H.
  - injection H as <- <-. cbn. split; [reflexivity|lia].
  - destruct (step s l) as [[s1 os]|] eqn:E; [|discriminate].
    destruct (run s1 r) as [[s2 oss2]|] eqn:E2; [|discriminate]. injection H as <- <-.
    destruct (step_ops_len _ _ _ _ _ R E) as [L1 L2].
    destruct (IH _ _ _ (reach_step _ _ _ _ _ R E) E2) as [B1 B2].
    change (op_nums (l :: r)) with (op_num l ++ op_nums r). rewrite app_length.
    assert (Sh : op_num l = [] \/ exists n, op_num l = [n]) by (destruct l; cbn; eauto).
    destruct Sh as [Sh|(n & Sh)]; rewrite Sh in *; cbn [length app Nat.add] in *.
    + rewrite Nat.add_0_r in L1. rewrite L1 in B1, B2. split; [exact B1|lia].
    + assert (n = length (ops s)) by (apply L2; left; reflexivity). subst n.
      cbn [seq]. replace (S (length (ops s))) with (length (ops s1)) by lia. rewrite <- B1. split; [reflexivity|lia].
Qed.

(* an operation that returned was issued *)
Theorem ret_was_issued c tr s oss n r : run (init_of c) tr = Some (s, oss) -> In (ORet n r) (concat oss) ->
  In n (op_nums (env_of tr)).
Proof.
  intros H Hin. rewrite (run_init_hist _ _ _ _ H) in Hin. rewrite op_nums_env.
  assert (T : traces_to c tr s) by (exists oss; exact H).
  destruct (returns_once c tr s T) as (_ & _ & Hop & _). destruct (Hop _ _ Hin) as (o & Ho & _).
  destruct (run_op_nums c tr _ _ _ (reach_init c) H) as [B1 B2]. rewrite B1. apply in_seq.
  assert (n < length (ops s)) by (apply nth_error_Some; unfold op_at in Ho; congruence).
  change (ops (init_of c)) with (@nil oprec) in *. cbn [length] in *. lia.
Qed.

Theorem mon_return_once_sound c tr s oss : run (init_of c) tr = Some (s, oss) ->
  mon_return_once (env_of tr) (concat oss) = true.
Proof.
  intros H. unfold mon_return_once. apply andb_true_iff. split.
  - rewrite (run_init_hist _ _ _ _ H). apply nodupn_spec, nodup_count. intros n. rewrite ret_nums_count.
    assert (T : traces_to c tr s) by (exists oss; exact H). apply (returns_once c tr s T).
  - apply forallb_forall. intros n Hn. apply memn_in. apply ret_nums_in in Hn. destruct Hn as (r & Hr).
    eapply ret_was_issued; eauto.
Qed.

(** ** (b) *)
Lemma sent_ids_app a b : sent_ids (a ++ b) = sent_ids a ++ sent_ids b.
Proof. apply flat_map_app. Qed.

(* the request whose id is [key] was handed to the transport by its operation, which is past Send *)
Definition owner_sent (s : state) (key : bytes) : Prop :=
  exists i sl o, slot_at s i = Some sl /\ key = id_text (sl_id sl) /\ op_at s (sl_op sl) = Some o /\ presend o = false.
Definition invM (s : state) : Prop :=
  NoDup (sent_ids (hist s)) /\ forall key, In key (sent_ids (hist s)) -> owner_sent s key.

Lemma owner_sent_keep s s' key : slots_mono s s' -> keeps s s' -> owner_sent s key -> owner_sent s' key.
Proof.
  intros M K (i & sl & o & Hs & -> & Ho & Hp).
  destruct (M _ _ Hs) as (sl' & Hs' & (E1 & E2 & _)). destruct (K _ _ Ho Hp) as (o' & Ho' & Hp' & _).
  exists i, sl', o'. rewrite E1, E2. auto.
Qed.

Lemma invM_quiet s s' os : slots_mono s s' -> keeps s s' -> hist s' = hist s ++ os -> sent_ids os = [] ->
  invM s -> invM s'.
Proof.
  intros M K Eh Eo [ND Ow]. unfold invM. rewrite Eh, sent_ids_app, Eo, app_nil_r. split; auto.
  intros key Hk. eapply owner_sent_keep; eauto.
Qed.

(* the ids on a request record are the ids of the operation's slots, in order *)
Lemma req_members_sent s : forall specs sls,
  (forall k, In k (filter has_id (map req_id (req_members specs sls s))) -> exists i, In i sls /\ k = slot_text s i)
  /\ (NoDup (map (slot_text s) sls) -> NoDup (filter has_id (map req_id (req_members specs sls s)))).
Proof.
  induction specs as [|sp r IH]; intros sls; cbn [req_members map filter]; [split; [intros k []|constructor]|].
  destruct (sp_notify sp).
  - cbn [map filter req_id fst has_id is_nil negb]. apply IH.
  - destruct sls as [|i sls'].
    + cbn [map filter req_id fst has_id is_nil negb]. destruct (IH []) as [A B]. split; auto.
    + cbn [map filter req_id fst].
      change (match slot_at s i with Some sl => id_text (sl_id sl) | None => [] end) with (slot_text s i).
      destruct (IH sls') as [A B]. destruct (has_id (slot_text s i)).
      * split.
        -- intros k [<-|Hk]; [exists i; cbn; auto|]. destruct (A k Hk) as (j & Hj & ->). exists j. cbn; auto.
        -- cbn [map]. intros ND. inversion ND as [|? ? Hn Hd]; subst. constructor; auto.
           intros Hin. destruct (A _ Hin) as (j & Hj & E). apply Hn. rewrite E. apply in_map. exact Hj.
      * split.
        -- intros k Hk. destruct (A k Hk) as (j & Hj & ->). exists j. cbn; auto.
        -- cbn [map]. intros ND. inversion ND; subst. auto.
Qed.

Lemma dobs_sent_ids os : forallb dobs os = true -> sent_ids os = [].
Proof.
  induction os as [|o os IH]; auto. cbn [forallb]. rewrite andb_true_iff. intros [H1 H2].
  change (sent_ids (o :: os)) with (send_ids o ++ sent_ids os). rewrite (IH H2). destruct o; cbn in H1; try discriminate; reflexivity.
Qed.

Lemma raw_sent_ids s l os : raw_shape s l os ->
  sent_ids os = [] \/
  exists n o, l = LRelSend n /\ op_at s n = Some o /\ o_pc o = PSend /\ err s = None /\ sent_ids os = send_ids (send_obs s o).
Proof.
  intros Sh. destruct l; cbn [raw_shape] in Sh.
  - destruct Sh as [->|[->| ->]]; left; reflexivity.
  - subst os; left; reflexivity.
  - subst os; left; reflexivity.
  - subst os; left; reflexivity.
  - subst os; left; reflexivity.
  - destruct Sh as [->| ->]; left; reflexivity.
  - destruct Sh as (o & Ho & Hpc & Sh). destruct (err s) eqn:Ee; [subst os; left; reflexivity|].
    right. exists n, o. repeat split; auto. subst os. destruct (send_fail s); cbn; rewrite ?app_nil_r; reflexivity.
  - destruct Sh as (_ & F & _). left. apply dobs_sent_ids; auto.
  - destruct Sh as [->|(sl & _ & _ & ->)]; left; reflexivity.
  - destruct Sh as (c & _ & ->). destruct (err s); left; reflexivity.
  - destruct Sh as (_ & ->). destruct (err s); left; reflexivity.
  - destruct Sh as (cb & o & _ & _ & ->). destruct (err s); left; reflexivity.
Qed.

Lemma settle_sent_ids s os : settle_shape s os -> sent_ids os = [].
Proof.
  intros [->|[(n & o & k & _ & _ & _ & ->)|(n & o & b & _ & _ & _ & ->)]]; try reflexivity.
  destruct b; [destruct (err s)|]; reflexivity.
Qed.

Lemma invM_init c : invM (init_of c).
Proof. split; [constructor|intros key []]. Qed.

Lemma otrans_send_past s o o' : otrans s o o' -> o_pc o = PSend -> presend o' = false.
Proof. intros H Hpc. destruct H; try congruence; reflexivity. Qed.

Lemma invM_step_raw s l s' : inv1 s -> invM s -> step_raw s l = Some s' -> invM s'.
Proof.
  intros I J E. pose proof (step_raw_mono s l s' I E) as M. pose proof (step_raw_keeps s l s' E) as K.
  destruct (step_raw_obs s l s' I E) as (os & Eh & Sh).
  destruct (raw_sent_ids s l os Sh) as [Z|(n & o & -> & Ho & Hpc & Ee & Z)]; [eapply invM_quiet; eauto|].
  destruct J as [ND Ow]. destruct I as [W P].
  assert (Hp : presend o = true) by (unfold presend; rewrite Hpc; reflexivity).
  (* the operation after the step *)
  pose proof (step_raw_ops s (LRelSend n) s' (conj W P) E) as Os. cbn [ops_shape] in Os.
  destruct Os as (o0 & o' & Ho0 & Hpc0 & Ot & Eo). rewrite Ho in Ho0. injection Ho0 as <-.
  assert (Ho' : op_at s' n = Some o').
  { unfold op_at. rewrite Eo, nth_error_upd_nth, Nat.eqb_refl. unfold op_at in Ho. rewrite Ho. reflexivity. }
  assert (Hp' : presend o' = false) by (eapply otrans_send_past; eauto).
  (* the ids on the record *)
  unfold send_obs, send_ids in Z. destruct (req_members_sent s (o_specs o) (o_slots o)) as [A B].
  assert (Hsl : forall i, In i (o_slots o) -> exists sl, slot_at s i = Some sl /\ sl_op sl = n /\ slot_text s i = id_text (sl_id sl)).
  { intros i Hi. destruct (i_own _ W _ _ _ Ho Hi) as (sl & Hs & Hop). exists sl. repeat split; auto.
    unfold slot_text. rewrite Hs. reflexivity. }
  assert (NDn : NoDup (filter has_id (map req_id (req_members (o_specs o) (o_slots o) s)))).
  { apply B. apply nodup_map_in; [apply (i_nd _ W _ _ Ho)|]. intros a b Ha Hb E2.
    destruct (Hsl a Ha) as (sa & Hsa & _ & Ta). destruct (Hsl b Hb) as (sb & Hsb & _ & Tb).
    rewrite Ta, Tb in E2. apply id_text_inj in E2. rewrite (i_ids _ W _ _ Hsa), (i_ids _ W _ _ Hsb) in E2. congruence. }
  unfold invM. rewrite Eh, sent_ids_app, Z. split.
  - (* no repetition: the new ids belong to slots of an operation that had not sent *)
    clear - ND NDn A Hsl Ow W Ho Hp.
    set (new := filter has_id (map req_id (req_members (o_specs o) (o_slots o) s))) in *.
    assert (Fresh : forall k, In k new -> ~ In k (sent_ids (hist s))).
    { intros k Hk Hold. destruct (A k Hk) as (i & Hi & ->). destruct (Hsl i Hi) as (sl & Hs & Hop & Tx).
      destruct (Ow _ Hold) as (i2 & sl2 & o2 & Hs2 & E2 & Ho2 & Hp2). rewrite Tx in E2. apply id_text_inj in E2.
      rewrite (i_ids _ W _ _ Hs), (i_ids _ W _ _ Hs2) in E2. injection E2 as ->. rewrite Hs in Hs2. injection Hs2 as <-.
      rewrite Hop, Ho in Ho2. injection Ho2 as <-. congruence. }
    clearbody new. revert Fresh. generalize (sent_ids (hist s)) ND. intros old NDo Fresh.
    induction NDo as [|x old Hx _ IH]; cbn; auto. constructor.
    + intros Hin. apply in_app_or in Hin. destruct Hin as [Hin|Hin]; [contradiction|]. apply (Fresh x Hin). left; reflexivity.
    + apply IH. intros k Hk Hin. apply (Fresh k Hk). right; exact Hin.
  - intros key Hk. apply in_app_or in Hk. destruct Hk as [Hk|Hk].
    + eapply owner_sent_keep; eauto.
    + destruct (A key Hk) as (i & Hi & ->). destruct (Hsl i Hi) as (sl & Hs & Hop & Tx).
      destruct (M _ _ Hs) as (sl' & Hs' & (E1 & E2 & _)). exists i, sl', o'. rewrite E1, E2, Hop, Tx. auto.
Qed.

Lemma invM_settle1 s s' : inv1 s -> invM s -> settle1 s = Some s' -> invM s'.
Proof.
  intros I J E. destruct (settle1_obs s s' I E) as (os & Eh & Sh).
  eapply invM_quiet; eauto; [eapply settle1_mono; eauto|eapply settle1_keeps; eauto|eapply settle_sent_ids; eauto].
Qed.

Theorem invM_reach c s : reach c s -> inv1 s /\ invM s.
Proof.
  apply (reach_inv (fun s => inv1 s /\ invM s)).
  - split; [apply inv1_init|apply invM_init].
  - intros s0 l s' (I & J) Cr E. split; [eapply inv1_step_raw|eapply invM_step_raw]; eauto.
  - intros s0 s' (I & J) E. split; [eapply inv1_settle1|eapply invM_settle1]; eauto.
Qed.

(* the ids of all request records handed to the transport in a run are pairwise distinct *)
Theorem sent_ids_nodup c tr s oss : run (init_of c) tr = Some (s, oss) -> NoDup (sent_ids (concat oss)).
Proof.
  intros H. rewrite (run_init_hist _ _ _ _ H).
  assert (T : traces_to c tr s) by (exists oss; exact H). apply (invM_reach c s (traces_reach _ _ _ T)).
Qed.

Theorem mon_ids_fresh_sound c tr s oss : run (init_of c) tr = Some (s, oss) ->
  mon_ids_fresh (env_of tr) (concat oss) = true.
Proof. intros H. apply nodupb_spec. eapply sent_ids_nodup; eauto. Qed.

(** ** (c), (d) *)
Definition has_mark (mark : obs -> bool) (os : list obs) : bool := existsb mark os.

Lemma nosend_app a b : nosend (a ++ b) = nosend a && nosend b.
Proof. apply forallb_app. Qed.

Lemma sealed_app mark : forall a b,
  sealed mark (a ++ b) = sealed mark a && (negb (has_mark mark a) || nosend b) && sealed mark b.
Proof.
  induction a as [|o a IH]; intros b; cbn [app sealed has_mark existsb]; [reflexivity|].
  rewrite IH, nosend_app. fold (has_mark mark a).
  destruct (mark o), (nosend a), (nosend b), (sealed mark a), (has_mark mark a), (sealed mark b); reflexivity.
Qed.

Lemma has_mark_in mark os : has_mark mark os = true -> exists o, In o os /\ mark o = true.
Proof. apply existsb_exists. Qed.

Lemma dobs_quiet mark os : (forall o, mark o = true -> dobs o = false) -> forallb dobs os = true ->
  nosend os = true /\ sealed mark os = true.
Proof.
  intros Hm. induction os as [|o os IH]; [split; reflexivity|]. cbn [forallb]. rewrite andb_true_iff. intros [H1 H2].
  destruct (IH H2) as [A B]. cbn [nosend forallb sealed]. fold (nosend os). rewrite A, B.
  destruct (mark o) eqn:Em; [rewrite (Hm _ Em) in H1; discriminate|]. destruct o; cbn in H1; try discriminate; split; reflexivity.
Qed.

(* the windows of the model: nothing is sent after a mark inside one critical section, and nothing at all is sent
   once the client has stopped *)
Lemma raw_sealed mark s l os : (forall o, mark o = true -> dobs o = false) -> raw_shape s l os ->
  sealed mark os = true /\ (err s <> None -> nosend os = true).
Proof.
  intros Hm Sh. destruct l; cbn [raw_shape] in Sh.
  - destruct Sh as [->|[->| ->]]; cbn; rewrite ?andb_true_r; split; auto; destruct (mark _); auto.
  - subst os; split; reflexivity.
  - subst os; split; reflexivity.
  - subst os; split; reflexivity.
  - subst os; split; reflexivity.
  - destruct Sh as [->| ->]; cbn; rewrite ?andb_true_r; split; auto; destruct (mark _); auto.
  - destruct Sh as (o & Ho & Hpc & Sh). destruct (err s) eqn:Ee.
    + subst os. cbn. rewrite ?andb_true_r. split; auto. destruct (mark _); auto.
    + split; [|intros X; contradiction]. subst os. unfold send_obs.
      destruct (send_fail s); cbn; rewrite ?andb_true_r; repeat (destruct (mark _); cbn; auto).
  - destruct Sh as (_ & F & _). destruct (dobs_quiet mark os Hm F). split; auto.
  - destruct Sh as [->|(sl & _ & _ & ->)]; cbn; rewrite ?andb_true_r; split; auto; destruct (mark _); auto.
  - destruct Sh as (c & _ & ->). destruct (err s); cbn; rewrite ?andb_true_r; split; auto; try (intros X; contradiction).
    repeat (destruct (mark _); cbn; auto).
  - destruct Sh as (_ & ->). destruct (err s); cbn; rewrite ?andb_true_r; split; auto; try (intros X; contradiction).
    destruct (mark _); auto.
  - destruct Sh as (cb & o & _ & _ & ->). destruct (err s); cbn; rewrite ?andb_true_r; split; auto; try (intros X; contradiction).
    destruct (mark _); auto.
Qed.

Lemma settle_sealed mark s os : settle_shape s os -> sealed mark os = true /\ nosend os = true.
Proof.
  intros [->|[(n & o & k & _ & _ & _ & ->)|(n & o & b & _ & _ & _ & ->)]]; cbn; rewrite ?andb_true_r.
  - split; reflexivity.
  - split; auto. destruct (mark _); auto.
  - destruct b; [destruct (err s)|]; cbn; rewrite ?andb_true_r; split; auto; repeat (destruct (mark _); cbn; auto).
Qed.

(* a mark in the history means that the client has stopped *)
Definition mark_stops (mark : obs -> bool) : Prop :=
  (forall o, mark o = true -> dobs o = false) /\
  forall s, inv1 s -> invT s -> has_mark mark (hist s) = true -> err s <> None.

Lemma onstop_marks : mark_stops onstop_obs.
Proof.
  split; [intros o; destruct o; cbn; auto; discriminate|].
  intros s _ T H. apply has_mark_in in H. destruct H as (o & Hin & Ho). destruct o; try discriminate.
  rewrite (t_arg _ T _ Hin). discriminate.
Qed.

Lemma close_marks : mark_stops close_obs.
Proof.
  split; [intros o; destruct o; cbn; auto; discriminate|].
  intros s _ T H. apply has_mark_in in H. destruct H as (o & Hin & Ho). destruct o; try discriminate.
  assert (Hc : cnt is_oclose (hist s) <> 0).
  { apply In_nth_error in Hin. destruct Hin as [k Hk]. eapply cnt_pos; eauto. }
  rewrite (t_oclose _ T), (t_closes _ T) in Hc. unfold stopped in Hc. destruct (err s); [discriminate|]. cbn in Hc. congruence.
Qed.

Definition invZ (mark : obs -> bool) (s : state) : Prop := sealed mark (hist s) = true.

Lemma invZ_ext mark s s' os : mark_stops mark -> inv1 s -> invT s -> invZ mark s -> hist s' = hist s ++ os ->
  sealed mark os = true -> (err s <> None -> nosend os = true) -> invZ mark s'.
Proof.
  intros [_ Ms] I T Z Eh S N. unfold invZ in *. rewrite Eh, sealed_app, Z, S. rewrite andb_true_r, andb_true_l.
  destruct (has_mark mark (hist s)) eqn:Hm; [|reflexivity]. cbn [negb orb]. apply N. apply Ms; assumption.
Qed.

Theorem invZ_reach mark c s : mark_stops mark -> reach c s -> inv1 s /\ invT s /\ invZ mark s.
Proof.
  intros Mk. apply (reach_inv (fun s => inv1 s /\ invT s /\ invZ mark s)).
  - split; [apply inv1_init|]. split; [apply invT_init|reflexivity].
  - intros s0 l s' (I & T & Z) Cr E. split; [eapply inv1_step_raw; eauto|]. split; [eapply invT_step_raw; eauto|].
    destruct (step_raw_obs s0 l s' I E) as (os & Eh & Sh). destruct (raw_sealed mark s0 l os (proj1 Mk) Sh) as [A B].
    eapply invZ_ext; eauto.
  - intros s0 s' (I & T & Z) E. split; [eapply inv1_settle1; eauto|]. split; [eapply invT_settle1; eauto|].
    destruct (settle1_obs s0 s' I E) as (os & Eh & Sh). destruct (settle_sealed mark s0 os Sh) as [A B].
    eapply invZ_ext; eauto.
Qed.

Lemma count_obs_onstop h : count_obs onstop_obs h = onstop_count h.
Proof. reflexivity. Qed.

Theorem mon_onstop_once_sound c tr s oss : run (init_of c) tr = Some (s, oss) ->
  mon_onstop_once (env_of tr) (concat oss) = true.
Proof.
  intros H. rewrite (run_init_hist _ _ _ _ H). assert (T : traces_to c tr s) by (exists oss; exact H).
  unfold mon_onstop_once. apply andb_true_iff. split.
  - apply Nat.leb_le. rewrite count_obs_onstop. apply (onstop_once c tr s T).
  - apply (invZ_reach onstop_obs c s onstop_marks (traces_reach _ _ _ T)).
Qed.

Theorem mon_close_seals_sound c tr s oss : run (init_of c) tr = Some (s, oss) ->
  mon_close_seals (env_of tr) (concat oss) = true.
Proof.
  intros H. rewrite (run_init_hist _ _ _ _ H). assert (T : traces_to c tr s) by (exists oss; exact H).
  apply (invZ_reach close_obs c s close_marks (traces_reach _ _ _ T)).
Qed.

(** * Examples *)
Definition obs_of (c : config) (tr : list label) : list obs :=
  match run (init_of c) tr with Some (_, oss) => concat oss | None => [] end.

(* ex_trace5 (CliC05.v): a Call ended by its deadline (watcher, OnCancel), a Close that stops the client (OnStop after
   done.Wait()), a Notify issued after the stop; ex_trace_batch (CliSend.v): a Batch of two requests and a
   notification; ex_trace (CliProofs.v): two Calls answered out of order in one array *)
Example mon_cli_nonvacuous :
  run (init_of ex_cfg) ex_trace5 <> None
  /\ op_nums (env_of ex_trace5) = [0; 1; 2] /\ ret_nums (obs_of ex_cfg ex_trace5) = [0; 1; 2]
  /\ sent_ids (obs_of ex_cfg ex_trace5) = [[49%N]]
  /\ count_obs onstop_obs (obs_of ex_cfg ex_trace5) = 1 /\ count_obs close_obs (obs_of ex_cfg ex_trace5) = 1
  /\ mon_return_once (env_of ex_trace5) (obs_of ex_cfg ex_trace5) = true
  /\ mon_ids_fresh (env_of ex_trace5) (obs_of ex_cfg ex_trace5) = true
  /\ mon_onstop_once (env_of ex_trace5) (obs_of ex_cfg ex_trace5) = true
  /\ mon_close_seals (env_of ex_trace5) (obs_of ex_cfg ex_trace5) = true
  /\ run (init_of ex_cfg) ex_trace_batch <> None
  /\ sent_ids (obs_of ex_cfg ex_trace_batch) = [[49%N]; [50%N]]
  /\ mon_ids_fresh (env_of ex_trace_batch) (obs_of ex_cfg ex_trace_batch) = true
  /\ mon_return_once (env_of ex_trace_batch) (obs_of ex_cfg ex_trace_batch) = true
  /\ run (init_of ex_cfg) ex_trace <> None
  /\ sent_ids (obs_of ex_cfg ex_trace) = [[50%N]; [49%N]] /\ ret_nums (obs_of ex_cfg ex_trace) = [0; 1]
  /\ mon_ids_fresh (env_of ex_trace) (obs_of ex_cfg ex_trace) = true
  /\ mon_return_once (env_of ex_trace) (obs_of ex_cfg ex_trace) = true.
Proof. vm_compute. repeat split; auto; discriminate. Qed.

(* sensitivity: an operation that returns twice; a return of an operation that was never issued *)
Example mon_return_once_sensitive :
  mon_return_once [LOp 0 KCall [ex_spec 49]] [ORet 0 (RetCall (RRes [55%N])); ORet 0 (RetCall (RCtx WCancel))] = false
  /\ mon_return_once [LOp 0 KCall [ex_spec 49]] [ORet 0 RetNotify; OClose; ORet 1 RetNotify] = false
  /\ mon_return_once [] [ORet 0 (RetClose None)] = false
  /\ mon_return_once [LOp 0 KCall [ex_spec 49]; LOp 1 KClose []] [ORet 1 (RetClose None); ORet 0 (RetCall (RRes [55%N]))] = true.
Proof. vm_compute. repeat split; reflexivity. Qed.

(* sensitivity: an id used by two records (the second transmission failed); an id used twice inside one batch *)
Example mon_ids_fresh_sensitive :
  mon_ids_fresh [] [OSendReq true false [([49%N], [109%N], [])]; OClose; OSendReq false false [([49%N], [110%N], [])]] = false
  /\ mon_ids_fresh [] [OSendReq true true [([49%N], [109%N], []); ([], [110%N], []); ([49%N], [109%N], [])]] = false
  /\ mon_ids_fresh [] [OSendReq true true [([49%N], [109%N], []); ([], [110%N], []); ([], [110%N], []); ([50%N], [109%N], [])]] = true.
Proof. vm_compute. repeat split; reflexivity. Qed.

(* sensitivity: OnStop twice; a request, a failed request, a callback reply after OnStop / after the close *)
Example mon_onstop_once_sensitive :
  mon_onstop_once [] [OClose; OOnStop SCClosed; ORet 0 (RetClose None); OOnStop SCClosed] = false
  /\ mon_onstop_once [] [OClose; OOnStop SCEOF; OSendReq true false [([49%N], [109%N], [])]] = false
  /\ mon_onstop_once [] [OClose; OOnStop SCEOF; ORet 0 (RetClose None); OSendReq false false [([49%N], [109%N], [])]] = false
  /\ mon_onstop_once [] [OOnStop SCEOF; OSendRsp true [49%N] (CbRes [])] = false
  /\ mon_onstop_once [] [OSendReq true false [([49%N], [109%N], [])]; OClose; OOnStop SCEOF; ORet 0 (RetClose None)] = true
  /\ mon_close_seals [] [OClose; OSendRsp true [49%N] (CbRes [])] = false
  /\ mon_close_seals [] [OSendReq true false [([49%N], [109%N], [])]; OClose; ORet 0 RetNotify; OSendReq true false [([50%N], [109%N], [])]] = false
  /\ mon_close_seals [] [OSendReq true false [([49%N], [109%N], [])]; OClose; OOnStop SCEOF] = true.
Proof. vm_compute. repeat split; reflexivity. Qed.
