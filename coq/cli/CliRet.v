(* CliRet: every operation returns at most once (C05), as an invariant relating the ghost
   history of observations to the per-operation return record. *)
From Coq Require Import List NArith ZArith Bool Arith Lia.
From RecordUpdate Require Import RecordUpdate.
From JV Require Import Bytes Msg CliModel CliLemmas CliInv.
Import ListNotations.

Definition is_ret (n : nat) (o : obs) : bool := match o with ORet m _ => m =? n | _ => false end.
Definition any_ret (o : obs) : bool := match o with ORet _ _ => true | _ => false end.
Definition ret_count (n : nat) (h : list obs) : nat := length (filter (is_ret n) h).
Definition noret (os : list obs) : bool := forallb (fun o => negb (any_ret o)) os.

Record invK (s : state) : Prop := {
  k_count : forall n, ret_count n (hist s) =
                      match op_at s n with Some o => if is_some (o_ret o) then 1 else 0 | None => 0 end;
  k_val : forall n r, In (ORet n r) (hist s) -> exists o, op_at s n = Some o /\ o_ret o = Some r;
  k_done : forall n o, op_at s n = Some o -> is_some (o_ret o) = true -> o_pc o = PDone
}.

Lemma ret_count_app n h os : ret_count n (h ++ os) = ret_count n h + ret_count n os.
Proof. unfold ret_count. rewrite filter_app, app_length. auto. Qed.

Lemma noret_count n os : noret os = true -> ret_count n os = 0.
Proof.
  unfold noret, ret_count. induction os as [|o r IH]; cbn; auto.
  rewrite andb_true_iff. intros [H1 H2]. destruct o; cbn in *; auto. discriminate.
Qed.

Lemma noret_in n r os : noret os = true -> ~ In (ORet n r) os.
Proof.
  unfold noret. rewrite forallb_forall. intros H Hin. apply H in Hin. discriminate.
Qed.

(* a step that returns nothing and leaves the operations alone *)
Definition quiet (s s' : state) : Prop := ops s' = ops s /\ exists os, hist s' = hist s ++ os /\ noret os = true.

Lemma quiet_refl s : quiet s s.
Proof. split; auto. exists []. rewrite app_nil_r. auto. Qed.

Lemma quiet_trans s1 s2 s3 : quiet s1 s2 -> quiet s2 s3 -> quiet s1 s3.
Proof.
  intros [E1 (os1 & H1 & N1)] [E2 (os2 & H2 & N2)]. split; [congruence|].
  exists (os1 ++ os2). rewrite H2, H1, app_assoc. split; auto.
  unfold noret in *. rewrite forallb_app, N1, N2. auto.
Qed.

Lemma quiet_same s s' : ops s' = ops s -> hist s' = hist s -> quiet s s'.
Proof. intros E H. split; auto. exists []. rewrite app_nil_r. auto. Qed.

Lemma quiet_emit os s s' : noret os = true -> ops s' = ops s -> hist s' = hist s ++ os -> quiet s s'.
Proof. intros N E H. split; auto. exists os. auto. Qed.

Lemma invK_quiet s s' : quiet s s' -> invK s -> invK s'.
Proof.
  intros [E (os & H & N)] K. unfold op_at in *. constructor; unfold op_at; rewrite ?E, ?H.
  - intros n. rewrite ret_count_app, (noret_count _ _ N), Nat.add_0_r. apply K.
  - intros n r Hin. apply in_app_or in Hin. destruct Hin as [Hin|Hin]; [apply (k_val _ K); auto|].
    exfalso. eapply noret_in; eauto.
  - apply K.
Qed.

(* changing fields other than the return record of an operation that has not returned *)
Lemma invK_set_op n g s : (forall o, o_ret (g o) = o_ret o) -> (forall o, o_ret o = None -> o_ret (g o) = None) ->
  (forall o, o_pc o = PDone -> o_pc (g o) = PDone) -> invK s -> invK (set_op n g s).
Proof.
  intros Hr _ Hp K. constructor.
  - intros m. rewrite op_at_set_op. replace (hist (set_op n g s)) with (hist s) by reflexivity.
    rewrite (k_count _ K m). destruct (n =? m); auto. destruct (op_at s m); cbn; auto. rewrite Hr; auto.
  - intros m r Hin. replace (hist (set_op n g s)) with (hist s) in Hin by reflexivity.
    destruct (k_val _ K _ _ Hin) as (o & H1 & H2). rewrite op_at_set_op. destruct (n =? m).
    + rewrite H1. cbn. exists (g o). split; auto. rewrite Hr; auto.
    + eauto.
  - intros m o' H R. rewrite op_at_set_op in H. destruct (n =? m); [|eapply (k_done _ K); eauto].
    destruct (op_at s m) as [o|] eqn:E; [|discriminate]. injection H as <-. rewrite Hr in R.
    apply Hp. eapply (k_done _ K); eauto.
Qed.

Lemma invK_set_pc n pc s o : op_at s n = Some o -> o_pc o <> PDone -> invK s ->
  invK (set_op n (fun o => o <| o_pc := pc |>) s).
Proof.
  intros Ho Hpc K.
  assert (Hn : o_ret o = None).
  { destruct (o_ret o) eqn:E; auto. exfalso. apply Hpc. eapply (k_done _ K); eauto. rewrite E; auto. }
  constructor.
  - intros m. rewrite op_at_set_op. replace (hist (set_op n (fun o => o <| o_pc := pc |>) s)) with (hist s) by reflexivity.
    rewrite (k_count _ K m). destruct (n =? m); auto. destruct (op_at s m); cbn; auto.
  - intros m r Hin. replace (hist (set_op n (fun o => o <| o_pc := pc |>) s)) with (hist s) in Hin by reflexivity.
    destruct (k_val _ K _ _ Hin) as (o' & H1 & H2). rewrite op_at_set_op. destruct (n =? m).
    + rewrite H1. cbn. eexists. split; eauto.
    + eauto.
  - intros m o' H R. rewrite op_at_set_op in H. destruct (Nat.eqb_spec n m) as [<-|N]; [|eapply (k_done _ K); eauto].
    rewrite Ho in H. injection H as <-. cbn in R. rewrite Hn in R. discriminate.
Qed.

(* the one place where an operation returns *)
Lemma invK_finish n r s o : op_at s n = Some o -> o_pc o <> PDone -> invK s -> invK (finish n r s).
Proof.
  intros Ho Hpc K.
  assert (Hn : o_ret o = None).
  { destruct (o_ret o) eqn:E; auto. exfalso. apply Hpc. eapply (k_done _ K); eauto. rewrite E; auto. }
  unfold finish. constructor.
  - intros m. replace (hist (emit [ORet n r] (set_op n (fun o0 => o0 <| o_pc := PDone |> <| o_ret := Some r |>) s)))
      with (hist s ++ [ORet n r]) by reflexivity.
    replace (op_at (emit [ORet n r] (set_op n (fun o0 => o0 <| o_pc := PDone |> <| o_ret := Some r |>) s)) m)
      with (op_at (set_op n (fun o0 => o0 <| o_pc := PDone |> <| o_ret := Some r |>) s) m) by reflexivity.
    rewrite ret_count_app, op_at_set_op, (k_count _ K m). unfold ret_count. cbn [filter is_ret length].
    destruct (Nat.eqb_spec n m) as [<-|N].
    + rewrite Ho, Hn. cbn. auto.
    + destruct (op_at s m) as [o'|]; [destruct (is_some (o_ret o'))|]; cbn; lia.
  - intros m r' Hin.
    replace (hist (emit [ORet n r] (set_op n (fun o0 => o0 <| o_pc := PDone |> <| o_ret := Some r |>) s)))
      with (hist s ++ [ORet n r]) in Hin by reflexivity.
    replace (op_at (emit [ORet n r] (set_op n (fun o0 => o0 <| o_pc := PDone |> <| o_ret := Some r |>) s)) m)
      with (op_at (set_op n (fun o0 => o0 <| o_pc := PDone |> <| o_ret := Some r |>) s) m) by reflexivity.
    rewrite op_at_set_op. apply in_app_or in Hin. destruct Hin as [Hin|[Hin|[]]].
    + destruct (k_val _ K _ _ Hin) as (o' & H1 & H2). destruct (Nat.eqb_spec n m) as [<-|N]; [congruence|eauto].
    + injection Hin as <- <-. rewrite Nat.eqb_refl, Ho. cbn. eauto.
  - intros m o' H R.
    replace (op_at (emit [ORet n r] (set_op n (fun o0 => o0 <| o_pc := PDone |> <| o_ret := Some r |>) s)) m)
      with (op_at (set_op n (fun o0 => o0 <| o_pc := PDone |> <| o_ret := Some r |>) s) m) in H by reflexivity.
    rewrite op_at_set_op in H. destruct (n =? m); [|eapply (k_done _ K); eauto].
    destruct (op_at s m); [|discriminate]. injection H as <-. reflexivity.
Qed.

Ltac qemit := eapply quiet_emit; [ | reflexivity | reflexivity ]; reflexivity.

(** * helper functions are quiet *)
Lemma settle_slot_quiet i s : inv1 s -> quiet s (settle_slot i s).
Proof.
  intros I. destruct (settle_slot_inv1 i s I) as (_ & E & _). apply quiet_same; auto.
  unfold settle_slot. destruct (slot_at s i) as [sl|] eqn:Es; auto. destruct (sl_buf sl) as [v|] eqn:Eb; auto.
  destruct (sl_settled sl); auto. rewrite (i_val _ (proj1 I) _ _ _ Es Eb), beq_refl. reflexivity.
Qed.

Lemma deliver_member_quiet j k m s : inv1 s -> quiet s (deliver_member j k m s).
Proof.
  intros I. unfold deliver_member. destruct (is_req_or_notif m).
  - destruct (is_notification m).
    + destruct (c_onnotify s); [|apply quiet_refl]. qemit.
    + destruct (c_oncallback s); cbn; [|apply quiet_refl]. destruct (err s); cbn; [apply quiet_refl|].
      qemit.
  - destruct (assoc (fix_id (j_id m)) (pending s)) as [i|] eqn:E; [|apply quiet_refl].
    apply assoc_in in E.
    destruct (write_pending_ok s (fix_id (j_id m)) i (val_of_member j k m) I E) as (_ & H2 & _ & _ & _ & H6).
    { unfold val_of_member. destruct (j_err m); reflexivity. }
    apply quiet_same; auto.
Qed.

Lemma deliver_all_quiet j ms : forall k s, inv1 s -> quiet s (deliver_all j k ms s).
Proof.
  induction ms as [|m r IH]; intros k s I; cbn; [apply quiet_refl|].
  rewrite (i_crash _ (proj1 I)). eapply quiet_trans; [apply deliver_member_quiet; auto|].
  apply IH. apply deliver_member_inv1; auto.
Qed.

Lemma fold_cancel_hist l : forall s,
  hist (fold_left (fun st (p : bytes * nat) => set_slot (snd p) (cancel_slot WCancel) st) l s) = hist s.
Proof. intros s. rewrite fold_cancel_eq. reflexivity. Qed.

Lemma stop_locked_quiet c s s1 b : stop_locked c s = (s1, b) -> quiet s s1.
Proof.
  intros E. destruct (stop_locked_frame _ _ _ _ E) as (_ & _ & _ & _ & _ & Eo & _).
  unfold stop_locked in E. destruct (err s).
  - injection E as <- <-. apply quiet_refl.
  - injection E as <- <-. eapply quiet_emit with (os := [OClose]); auto.
    destruct (c_unblock _); cbn; rewrite fold_cancel_hist; reflexivity.
Qed.

Lemma upd_nth_comp {A} n (f g : A -> A) l : upd_nth n f (upd_nth n g l) = upd_nth n (fun x => f (g x)) l.
Proof. revert n; induction l as [|x l IH]; intros [|n]; cbn; auto. f_equal; auto. Qed.

Lemma finish_set_pc n r pc s : finish n r s = finish n r (set_op n (fun o => o <| o_pc := pc |>) s).
Proof.
  unfold finish, emit, set_op. destruct s. unfold set. cbn. f_equal. rewrite upd_nth_comp. reflexivity.
Qed.

Lemma scan_not_done l : forall z pc, scan l z = Some pc -> pc <> PDone.
Proof.
  induction l as [|x l IH]; cbn; intros z pc H.
  - injection H as <-. discriminate.
  - destruct (sp_bad x); [discriminate|]. destruct (sp_notify x); [eapply IH; eauto|]. injection H as <-. discriminate.
Qed.

(** * the invariant holds in every reachable state *)
Lemma invK_init c : invK (init_of c).
Proof. constructor; cbn; unfold op_at; cbn; intros; try destruct n; try discriminate; auto; contradiction. Qed.

Lemma invK_step_raw s l s' : inv1 s -> invK s -> step_raw s l = Some s' -> invK s'.
Proof.
  intros I K E. destruct l; cbn in E.
  - (* LOp *)
    destruct (negb (n =? length (ops s)) || negb (specs_ok k specs)) eqn:G; [discriminate|].
    apply orb_false_iff in G. destruct G as [G _]. apply negb_false_iff, Nat.eqb_eq in G.
    set (o0 := mkOp k specs [] PDone None None) in *.
    set (s0 := s <| ops ::= fun l => l ++ [o0] |>) in *.
    (* the fresh record is first given a live program counter: no return yet *)
    assert (K0 : forall pc, pc <> PDone -> invK (set_op n (fun o => o <| o_pc := pc |>) s0)
                            /\ exists o, op_at (set_op n (fun o => o <| o_pc := pc |>) s0) n = Some o /\ o_pc o <> PDone).
    { intros pc Hpc.
      assert (Hat : forall m, op_at (set_op n (fun o => o <| o_pc := pc |>) s0) m
                              = if m =? n then Some (o0 <| o_pc := pc |>) else op_at s m).
      { intros m. rewrite op_at_set_op. unfold op_at, s0; cbn. destruct (Nat.eqb_spec n m) as [<-|N].
        - rewrite Nat.eqb_refl, G, nth_error_app_new. reflexivity.
        - destruct (Nat.eqb_spec m n); [congruence|]. destruct (Nat.lt_ge_cases m (length (ops s))).
          + rewrite nth_error_app1; auto.
          + rewrite nth_error_app2 by lia. destruct (m - length (ops s)) as [|[|x]] eqn:D; cbn; try lia.
            all: symmetry; apply nth_error_None; lia. }
      assert (Hnone : op_at s n = None) by (apply nth_error_None; unfold op_at; lia).
      split.
      - constructor.
        + intros m. rewrite Hat. replace (hist (set_op n (fun o => o <| o_pc := pc |>) s0)) with (hist s) by reflexivity.
          rewrite (k_count _ K m). destruct (Nat.eqb_spec m n) as [->|]; auto. rewrite Hnone. reflexivity.
        + intros m r Hin. replace (hist (set_op n (fun o => o <| o_pc := pc |>) s0)) with (hist s) in Hin by reflexivity.
          destruct (k_val _ K _ _ Hin) as (o & H1 & H2). rewrite Hat. destruct (Nat.eqb_spec m n) as [->|]; [congruence|eauto].
        + intros m o H R. rewrite Hat in H. destruct (m =? n); [|eapply (k_done _ K); eauto].
          injection H as <-. discriminate.
      - rewrite Hat, Nat.eqb_refl. eexists; split; [reflexivity|]. cbn. auto. }
    assert (Kf : forall r, invK (finish n r s0)).
    { intros r. destruct (K0 PSend ltac:(discriminate)) as (K1 & o & Ho & Hpc).
      assert (Ef := finish_set_pc n r PSend s0).
      rewrite Ef. eapply invK_finish; eauto. }
    destruct k.
    1-3: destruct (is_nil specs); [injection E as <-; apply Kf|];
         destruct (scan specs 0) as [pc|] eqn:Sc; injection E as <-; [|apply Kf];
         apply K0; eapply scan_not_done; eauto.
    injection E as <-. apply K0. discriminate.
  - (* LFeed *) injection E as <-. eapply invK_quiet; [|eauto]. apply quiet_same; reflexivity.
  - (* LSendFault *) injection E as <-. eapply invK_quiet; [|eauto]. apply quiet_same; reflexivity.
  - (* LCtxEnd *)
    destruct (op_at s n) as [o|] eqn:Eo; [|discriminate]. destruct (o_ctx o); injection E as <-; auto.
    eapply invK_quiet with (s := set_op n (fun o0 => o0 <| o_ctx := Some w |>) s); [apply quiet_same; reflexivity|].
    apply invK_set_op; auto.
  - (* LCbGate *)
    destruct (find_idx _ 0 (cbs s)); [|discriminate]. injection E as <-.
    eapply invK_quiet; [|eauto]. apply quiet_same; reflexivity.
  - (* LRelReq *)
    destruct (op_at s n) as [o|] eqn:Eo; [|discriminate]. destruct (o_pc o) eqn:Epc; try discriminate.
    set (sl0 := mkSlot n (next_id s) false None false None WNone) in *.
    set (s1 := s <| slots ::= fun l => l ++ [sl0] |> <| next_id ::= S |>) in *.
    set (s2 := set_op n (fun o0 => o0 <| o_slots ::= fun l => l ++ [length (slots s)] |>) s1) in *.
    assert (K2 : invK s2).
    { apply invK_set_op; auto. eapply invK_quiet; [|eauto]. apply quiet_same; reflexivity. }
    assert (Ho2 : op_at s2 n = Some (o <| o_slots ::= fun l => l ++ [length (slots s)] |>)).
    { unfold s2. rewrite op_at_set_op, Nat.eqb_refl. replace (op_at s1 n) with (op_at s n) by reflexivity. rewrite Eo. reflexivity. }
    match type of E with (match ?x with Some _ => _ | None => _ end) = _ => destruct x end; injection E as <-.
    + eapply invK_set_pc; eauto. cbn. congruence.
    + eapply invK_finish; eauto. cbn. congruence.
  - (* LRelSend *)
    destruct (op_at s n) as [o|] eqn:Eo; [|discriminate]. destruct (o_pc o) eqn:Epc; try discriminate.
    destruct (err s); [injection E as <-; eapply invK_finish; eauto; congruence|].
    set (s1 := emit _ s) in *.
    assert (K1 : invK s1) by (eapply invK_quiet; [|eauto]; qemit).
    destruct (negb (send_fail s)); injection E as <-; [|eapply invK_finish with (o := o); eauto; congruence].
    assert (Hp0 : presend o = true) by (unfold presend; rewrite Epc; auto).
    assert (I1 : inv1 s1).
    { apply (inv1_frame s); try reflexivity; auto; try apply I. apply ops_frame_refl; reflexivity. }
    destruct I1 as [W1 P1].
    destruct (register_fold (o_ctx o) (o_slots o) s1 W1 (i_nd _ W1 n o Eo)) as (W2 & E2 & E3 & E4 & Hother).
    { intros i Hi. apply (P1 n o i Eo Hp0 Hi). }
    set (s2 := fold_left _ (o_slots o) s1) in *.
    assert (K2 : invK s2) by (eapply invK_quiet; [|exact K1]; apply quiet_same; auto).
    eapply invK_set_pc with (o := o); auto; [|congruence]. unfold op_at. rewrite E2. exact Eo.
  - (* LRelDeliver *)
    destruct (nth_error (delivs s) j) as [d|] eqn:Ed; [|discriminate]. destruct (d_st d); [|discriminate].
    destruct (deliver_all_inv1 j (d_msgs d) 0 s I) as (I1 & E1 & E2).
    rewrite (i_crash _ (proj1 I1)) in E. injection E as <-.
    eapply invK_quiet; [|eauto]. eapply quiet_trans; [apply deliver_all_quiet; auto|]. apply quiet_same; reflexivity.
  - (* LRelWatch *)
    destruct (slot_at s i) as [sl|] eqn:Es; [|discriminate]. destruct (sl_watch sl); try discriminate.
    set (s1 := set_slot i (fun sl0 => sl0 <| sl_watch := WDone |>) s) in *.
    assert (I1 : inv1 s1).
    { apply (inv1_frame s); try reflexivity; auto; try apply I.
      cbn. apply map_core_upd. reflexivity. apply ops_frame_refl; reflexivity. }
    assert (Q1 : quiet s s1) by (apply quiet_same; reflexivity).
    destruct (assoc (id_text (sl_id sl)) (pending s)) as [i'|] eqn:Ea; [|injection E as <-; eapply invK_quiet; eauto].
    apply assoc_in in Ea.
    assert (i' = i).
    { destruct (i_pend _ (proj1 I) _ _ Ea) as (sl' & H1 & H2 & _). apply id_text_inj in H2.
      rewrite (i_ids _ (proj1 I) _ _ Es), (i_ids _ (proj1 I) _ _ H1) in H2. congruence. }
    subst i'.
    set (v := mkVal (id_text (sl_id sl)) (Some (watch_werr (err s) (sl_pctx sl))) [] SWatch) in *.
    destruct (write_pending_ok s1 (id_text (sl_id sl)) i v I1 Ea (fix_id_text _)) as (I2 & Eo2 & _ & _ & _ & Eh2).
    set (s2 := write_slot i v _) in *.
    assert (Q2 : quiet s s2) by (eapply quiet_trans; [exact Q1|apply quiet_same; auto]).
    rewrite (i_crash _ (proj1 I2)) in E.
    destruct (c_oncancel s2); [|injection E as <-; eapply invK_quiet; eauto].
    destruct (settle_slot_inv1 i s2 I2) as (I3 & _).
    rewrite (i_crash _ (proj1 I3)) in E. injection E as <-.
    eapply invK_quiet; [|eauto]. eapply quiet_trans; [exact Q2|].
    eapply quiet_trans; [apply settle_slot_quiet; auto|]. qemit.
  - (* LRelRecvErr *)
    destruct (rd s); try discriminate. destruct (stop_locked c s) as [s1 first] eqn:Est.
    injection E as <-. eapply invK_quiet; [|eauto].
    eapply quiet_trans; [eapply stop_locked_quiet; eauto|].
    destruct first; [qemit|apply quiet_same; reflexivity].
  - (* LRelClose *)
    destruct (op_at s n) as [o|] eqn:Eo; [|discriminate]. destruct (o_pc o) eqn:Epc; try discriminate.
    destruct (stop_locked SCClosed s) as [s1 first] eqn:Est. injection E as <-.
    assert (Q := stop_locked_quiet _ _ _ _ Est).
    eapply invK_set_pc with (o := o); [|congruence|eapply invK_quiet; eauto].
    unfold op_at. rewrite (proj1 Q). exact Eo.
  - (* LRelCbReply *)
    destruct (nth_error (cbs s) c) as [cb|]; [|discriminate]. destruct (cb_st cb); try discriminate.
    injection E as <-. eapply invK_quiet; [|eauto].
    destruct (err s); [apply quiet_same; reflexivity|qemit].
Qed.

Lemma invK_settle1 s s' : inv1 s -> invK s -> settle1 s = Some s' -> invK s'.
Proof.
  intros I K E. unfold settle1 in E. rewrite (i_crash _ (proj1 I)) in E.
  assert (Hops : match find_idx (op_ready s) 0 (ops s) with
                 | Some n => match op_at s n with Some o => Some (op_advance n o s) | None => None end
                 | None => None end = Some s' -> invK s').
  { clear E. intros E. destruct (find_idx (op_ready s) 0 (ops s)) as [n|] eqn:Ef; [|discriminate].
    destruct (op_at s n) as [o|] eqn:Eo; [|discriminate]. injection E as <-.
    apply find_idx_0 in Ef. destruct Ef as (o' & Ho' & Hr). unfold op_at in Eo. rewrite Eo in Ho'. injection Ho' as <-.
    unfold op_ready in Hr. unfold op_advance. destruct (o_pc o) eqn:Epc; try discriminate.
    - destruct (nth_error (o_slots o) k) as [i|].
      + assert (Q := settle_slot_quiet i s I).
        eapply invK_set_pc with (o := o); [|congruence|eapply invK_quiet; eauto].
        unfold op_at. rewrite (proj1 Q). exact Eo.
      + eapply invK_finish; eauto. congruence.
    - destruct stopper.
      + destruct (err s).
        * eapply invK_finish with (o := o); [exact Eo|congruence|]. eapply invK_quiet; [|eauto]. qemit.
        * eapply invK_finish; eauto. congruence.
      + eapply invK_finish; eauto. congruence. }
  destruct (rd s); auto. destruct (ch_in s) as [|f q]; auto.
  destruct f as [[|b ms]|c]; injection E as <-; (eapply invK_quiet; [|eauto]); apply quiet_same; reflexivity.
Qed.

Theorem inv1K_reach c s : reach c s -> inv1 s /\ invK s.
Proof.
  apply (reach_inv (fun s => inv1 s /\ invK s)).
  - split; [apply inv1_init|apply invK_init].
  - intros s0 l s' [I K] C E. split; [eapply inv1_step_raw; eauto|eapply invK_step_raw; eauto].
  - intros s0 s' [I K] E. split; [eapply inv1_settle1; eauto|eapply invK_settle1; eauto].
Qed.
