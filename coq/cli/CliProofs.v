(* CliProofs: property lemmas for C04 (part 1: ids, single writer, totality) derived from the
   safety invariant of CliInv, stated over all label sequences (all schedules, all peer streams). *)
From Coq Require Import List NArith ZArith Bool Arith Lia.
From RecordUpdate Require Import RecordUpdate.
From JV Require Import Bytes Msg CliModel CliLemmas CliInv.
Import ListNotations.

(* [s] is the state after the label sequence [tr] from the initial state with configuration [c] *)
Definition traces_to (c : config) (tr : list label) (s : state) : Prop :=
  exists oss, run (init_of c) tr = Some (s, oss).

Lemma traces_reach c tr s : traces_to c tr s -> reach c s.
Proof. intros [oss H]. eapply run_reach; [apply reach_init|exact H]. Qed.

(** * C04: ids *)
Lemma ids_fresh c tr s : traces_to c tr s ->
  (* the ids allocated so far are pairwise distinct as wire texts *)
  (forall i i' sl sl', slot_at s i = Some sl -> slot_at s i' = Some sl' ->
                       id_text (sl_id sl) = id_text (sl_id sl') -> i = i')
  (* no two pending entries share an id, and each entry is the registered, not yet answered request with that id *)
  /\ NoDup (map fst (pending s))
  /\ (forall key i, In (key, i) (pending s) ->
        exists sl, slot_at s i = Some sl /\ key = id_text (sl_id sl) /\ sl_reg sl = true /\ sl_buf sl = None)
  (* no registration ever replaced an existing pending entry *)
  /\ overwrites s = 0.
Proof.
  intros T. destruct (inv1_reach c s (traces_reach _ _ _ T)) as [W _]. splits.
  - intros i i' sl sl' H H' E. apply id_text_inj in E.
    rewrite (i_ids _ W _ _ H), (i_ids _ W _ _ H') in E. congruence.
  - apply W.
  - apply W.
  - apply W.
Qed.

(** * C04: every slot is written at most once, with a message bearing its id *)
Lemma slot_single_writer c tr s : traces_to c tr s ->
  (* no write ever met a full or closed slot channel, no wait() ever met a foreign id *)
  crash s = None
  /\ (forall i sl v, slot_at s i = Some sl -> sl_buf sl = Some v -> fix_id (v_id v) = id_text (sl_id sl)).
Proof.
  intros T. destruct (inv1_reach c s (traces_reach _ _ _ T)) as [W _]. split; apply W.
Qed.

Lemma step_no_crash c tr s l s' os : traces_to c tr s -> step s l = Some (s', os) -> crash s' = None.
Proof.
  intros T E. assert (R : reach c s') by (eapply reach_step; [apply (traces_reach _ _ _ T)|exact E]).
  apply (inv1_reach c s' R).
Qed.

(** * C04: totality on peer records *)
Lemma total_on_records c tr s : traces_to c tr s ->
  (forall f, exists s' os, step s (LFeed f) = Some (s', os) /\ crash s' = None)
  /\ (forall j d, nth_error (delivs s) j = Some d -> d_st d = DParked ->
        exists s' os, step s (LRelDeliver j) = Some (s', os) /\ crash s' = None).
Proof.
  intros T. assert (C : crash s = None) by (apply (slot_single_writer _ _ _ T)). split.
  - intros f. unfold step. rewrite C. cbn. eexists; eexists; split; [reflexivity|].
    eapply (step_no_crash c tr s (LFeed f)); eauto. unfold step. rewrite C. reflexivity.
  - intros j d Hd Hp.
    assert (E : exists s1, step_raw s (LRelDeliver j) = Some s1).
    { cbn. rewrite Hd, Hp. destruct (crash (deliver_all j 0 (d_msgs d) s)); eauto. }
    destruct E as [s1 E]. unfold step. rewrite C, E. eexists; eexists; split; [reflexivity|].
    eapply (step_no_crash c tr s (LRelDeliver j)); eauto. unfold step. rewrite C, E. reflexivity.
Qed.

(** * non-vacuity: a concrete history in which ids are allocated, registered, answered out of
      order with a duplicate and a stranger in one array, and both calls return *)
Definition ex_cfg : config := {| cf_unblock := true; cf_oncancel := true; cf_onnotify := true; cf_oncallback := true |}.
Definition ex_spec (p : N) : spec := mkSpec [109%N] [91%N; p; 93%N] false false.
Definition ex_reply (id : bytes) (r : bytes) : jmsg :=
  {| j_id := id; j_method := []; j_params := []; j_error := None; j_result := r; j_err := None |}.
Definition ex_trace : list label :=
  [LOp 0 KCall [ex_spec 49]; LOp 1 KCall [ex_spec 50]; LRelReq 1; LRelReq 0; LRelSend 0; LRelSend 1;
   LFeed (FMsg (InMsgs true [ex_reply [50%N] [55%N]; ex_reply [57%N; 57%N] [56%N]; ex_reply [49%N] [57%N]; ex_reply [49%N] [48%N]]));
   LRelDeliver 0].

Example ex_trace_runs :
  match run (init_of ex_cfg) ex_trace with
  | Some (s, _) =>
      filter (fun o => match o with ORet _ _ => true | _ => false end) (hist s)
      = [ORet 0 (RetCall (RRes [55%N])); ORet 1 (RetCall (RRes [57%N]))]
      /\ length (pending s) = 0 /\ crash s = None
  | None => False
  end.
Proof. vm_compute. auto. Qed.

Example traces_to_nonvacuous : exists s, traces_to ex_cfg ex_trace s /\ length (slots s) = 2.
Proof.
  destruct (run (init_of ex_cfg) ex_trace) as [[s oss]|] eqn:E.
  - exists s. split; [exists oss; exact E|]. revert E. vm_compute. intros [= <- _]. reflexivity.
  - revert E. vm_compute. discriminate.
Qed.
