(* CliProofs: property lemmas for C04 (part 1: ids, single writer, totality) derived from the
   safety invariant of CliInv, stated over all label sequences (all schedules, all peer streams). *)
From Coq Require Import List NArith ZArith Bool Arith Lia.
From RecordUpdate Require Import RecordUpdate.
From JV Require Import Bytes Msg CliModel CliLemmas CliInv.
Import ListNotations.

(* [s] is the state after the label sequence [tr] from the initial state with configuration [c] *)
Definition traces_to (c : config) (tr : list label) (s : state) : Prop :=
  exists oss, run (init_of c) tr = Some (s, oss).

Lemma traces_reach c tr s : traces_to c tr s -> reach c s.
Proof. intros [oss H]. eapply run_reach; [apply reach_init|exact H]. Qed.

(** * C04: ids *)
Lemma ids_fresh c tr s : traces_to c tr s ->
  (* the ids allocated so far are pairwise distinct as wire texts *)
  (forall i i' sl sl', slot_at s i = Some sl -> slot_at s i' = Some sl' ->
                       id_text (sl_id sl) = id_text (sl_id sl') -> i = i')
  (* no two pending entries share an id, and each entry is the registered, not yet answered request with that id *)
  /\ NoDup (map fst (pending s))
  /\ (forall key i, In (key, i) (pending s) ->
        exists sl, slot_at s i = Some sl /\ key = id_text (sl_id sl) /\ sl_reg sl = true /\ sl_buf sl = None)
  (* no registration ever replaced an existing pending entry *)
  /\ overwrites s = 0.
Proof.
  intros T. destruct (inv1_reach c s (traces_reach _ _ _ T)) as [W _]. splits.
  - intros i i' sl sl' H H' E. apply id_text_inj in E.
    rewrite (i_ids _ W _ _ H), (i_ids _ W _ _ H') in E. congruence.
  - apply W.
  - apply W.
  - apply W.
Qed.

(** * C04: every slot is written at most once, with a message bearing its id *)
Lemma slot_single_writer c tr s : traces_to c tr s ->
  (* no write ever met a full or closed slot channel, no wait() ever met a foreign id *)
  crash s = None
  /\ (forall i sl v, slot_at s i = Some sl -> sl_buf sl = Some v -> fix_id (v_id v) = id_text (sl_id sl)).
Proof.
  intros T. destruct (inv1_reach c s (traces_reach _ _ _ T)) as [W _]. split; apply W.
Qed.

Lemma step_no_crash c tr s l s' os : traces_to c tr s -> step s l = Some (s', os) -> crash s' = None.
Proof.
  intros T E. assert (R : reach c s') by (eapply reach_step; [apply (traces_reach _ _ _ T)|exact E]).
  apply (inv1_reach c s' R).
Qed.

(** * C04: totality on peer records *)
Lemma total_on_records c tr s : traces_to c tr s ->
  (forall f, exists s' os, step s (LFeed f) = Some (s', os) /\ crash s' = None)
  /\ (forall j d, nth_error (delivs s) j = Some d -> d_st d = DParked ->
        exists s' os, step s (LRelDeliver j) = Some (s', os) /\ crash s' = None).
Proof.
  intros T. assert (C : crash s = None) by (apply (slot_single_writer _ _ _ T)). split.
  - intros f. unfold step. rewrite C. cbn. eexists; eexists; split; [reflexivity|].
    eapply (step_no_crash c tr s (LFeed f)); eauto. unfold step. rewrite C. reflexivity.
  - intros j d Hd Hp.
    assert (E : exists s1, step_raw s (LRelDeliver j) = Some s1).
    { cbn. rewrite Hd, Hp. destruct (crash (deliver_all j 0 (d_msgs d) s)); eauto. }
    destruct E as [s1 E]. unfold step. rewrite C, E. eexists; eexists; split; [reflexivity|].
    eapply (step_no_crash c tr s (LRelDeliver j)); eauto. unfold step. rewrite C, E. reflexivity.
Qed.

(** * non-vacuity: a concrete history in which ids are allocated, registered, answered out of
      order with a duplicate and a stranger in one array, and both calls return *)
Definition ex_cfg : config := {| cf_unblock := true; cf_oncancel := true; cf_onnotify := true; cf_oncallback := true |}.
Definition ex_spec (p : N) : spec := mkSpec [109%N] [91%N; p; 93%N] false false.
Definition ex_reply (id : bytes) (r : bytes) : jmsg :=
  {| j_id := id; j_method := []; j_params := []; j_error := None; j_result := r; j_err := None |}.
Definition ex_trace : list label :=
  [LOp 0 KCall [ex_spec 49]; LOp 1 KCall [ex_spec 50]; LRelReq 1; LRelReq 0; LRelSend 0; LRelSend 1;
   LFeed (FMsg (InMsgs true [ex_reply [50%N] [55%N]; ex_reply [57%N; 57%N] [56%N]; ex_reply [49%N] [57%N]; ex_reply [49%N] [48%N]]));
   LRelDeliver 0].

Example ex_trace_runs :
  match run (init_of ex_cfg) ex_trace with
  | Some (s, _) =>
      filter (fun o => match o with ORet _ _ => true | _ => false end) (hist s)
      = [ORet 0 (RetCall (RRes [55%N])); ORet 1 (RetCall (RRes [57%N]))]
      /\ length (pending s) = 0 /\ crash s = None
  | None => False
  end.
Proof. vm_compute. auto. Qed.

Example traces_to_nonvacuous : exists s, traces_to ex_cfg ex_trace s /\ length (slots s) = 2.
Proof.
  destruct (run (init_of ex_cfg) ex_trace) as [[s oss]|] eqn:E.
  - exists s. split; [exists oss; exact E|]. revert E. vm_compute. intros [= <- _]. reflexivity.
  - revert E. vm_compute. discriminate.
Qed.

(** * C04: what a delivery does with one member (the local form of "the reply is the peer's") *)
Lemma deliver_member_spec j k m s : inv1 s ->
  (* requests and notifications from the peer complete nothing *)
  (is_req_or_notif m = true ->
     slots (deliver_member j k m s) = slots s /\ pending (deliver_member j k m s) = pending s)
  (* members with an id that is not pending - unknown, duplicate of an answered one, "1" for 1, null, absent,
     rejected - complete nothing and change nothing *)
  /\ (is_req_or_notif m = false -> assoc (fix_id (j_id m)) (pending s) = None -> deliver_member j k m s = s)
  (* a reply-shaped member whose id is pending is written to exactly the slot registered under that id,
     whose own id text is the member's id; the entry leaves the pending set, no other slot changes *)
  /\ (is_req_or_notif m = false -> forall i, assoc (fix_id (j_id m)) (pending s) = Some i ->
        exists sl, slot_at s i = Some sl /\ fix_id (j_id m) = id_text (sl_id sl) /\ sl_buf sl = None
                   /\ slots (deliver_member j k m s)
                      = upd_nth i (fun sl => sl <| sl_buf := Some (val_of_member j k m) |>) (slots s)
                   /\ pending (deliver_member j k m s) = assoc_del (fix_id (j_id m)) (pending s)
                   /\ crash (deliver_member j k m s) = None).
Proof.
  intros I. unfold deliver_member. splits.
  - intros ->. destruct (is_notification m).
    + destruct (c_onnotify s); auto.
    + destruct (c_oncallback s); cbn; auto. destruct (err s); cbn; auto.
  - intros -> ->. reflexivity.
  - intros -> i E. rewrite E. apply assoc_in in E.
    destruct (i_pend _ (proj1 I) _ _ E) as (sl & H1 & H2 & H3 & H4).
    destruct (write_pending_ok s (fix_id (j_id m)) i (val_of_member j k m) I E) as (I' & _ & _ & Hs & Hp & _).
    { unfold val_of_member. destruct (j_err m); reflexivity. }
    exists sl. splits; auto. apply (i_crash _ (proj1 I')).
Qed.

(* the value a member carries to the caller: its error object if it has one (a deferred validation error
   first), else its result *)
Lemma val_of_member_payload j k m :
  v_id (val_of_member j k m) = j_id m /\ v_src (val_of_member j k m) = SPeer j k
  /\ (j_err m = None -> v_err (val_of_member j k m) = j_error m /\ v_res (val_of_member j k m) = j_result m)
  /\ (forall e, j_err m = Some e -> v_err (val_of_member j k m) = Some e /\ v_res (val_of_member j k m) = []).
Proof. unfold val_of_member. destruct (j_err m); cbn; splits; auto; try discriminate; intros e' [= <-]; auto. Qed.

(** * C05: what the context watcher does (local form of the outcome and OnCancel clauses) *)
Lemma watch_spec s i sl s' : inv1 s -> slot_at s i = Some sl -> step_raw s (LRelWatch i) = Some s' ->
  sl_watch sl = WParked
  /\ (* too late: a delivery (or nobody) owns the slot; nothing is written, OnCancel does not run *)
     (assoc (id_text (sl_id sl)) (pending s) = None ->
        s' = set_slot i (fun sl => sl <| sl_watch := WDone |>) s)
  /\ (* the watcher removed the request: it writes the context's own error (an internal error after a
        transport failure), settles, and OnCancel runs exactly once in this window iff it is configured *)
     (forall i', assoc (id_text (sl_id sl)) (pending s) = Some i' ->
        let e := watch_werr (err s) (sl_pctx sl) in
        i' = i /\ crash s' = None
        /\ slot_val s' i = Some (mkVal (id_text (sl_id sl)) (Some e) [] SWatch)
        /\ assoc (id_text (sl_id sl)) (pending s') = None
        /\ hist s' = hist s ++ (if c_oncancel s then [OOnCancel (id_text (sl_id sl)) (Some e)] else [])).
Proof.
  intros I Es E. cbn in E. rewrite Es in E. destruct (sl_watch sl) eqn:Ew; try discriminate. splits; auto.
  - intros Ea. rewrite Ea in E. injection E as <-. reflexivity.
  - intros i' Ea. rewrite Ea in E. cbn zeta.
    set (s1 := set_slot i (fun sl0 => sl0 <| sl_watch := WDone |>) s) in *.
    assert (I1 : inv1 s1).
    { apply (inv1_frame s); try reflexivity; auto; try apply I.
      cbn. apply map_core_upd. reflexivity. apply ops_frame_refl; reflexivity. }
    apply assoc_in in Ea.
    assert (i' = i).
    { destruct (i_pend _ (proj1 I) _ _ Ea) as (sl' & H1 & H2 & _). apply id_text_inj in H2.
      rewrite (i_ids _ (proj1 I) _ _ Es), (i_ids _ (proj1 I) _ _ H1) in H2. congruence. }
    subst i'.
    set (v := mkVal (id_text (sl_id sl)) (Some (watch_werr (err s) (sl_pctx sl))) [] SWatch) in *.
    destruct (write_pending_ok s1 (id_text (sl_id sl)) i v I1 Ea (fix_id_text _)) as (I2 & _ & _ & Hs2 & Hp2 & Hh2).
    set (s2 := write_slot i v _) in *.
    assert (Hv2 : slot_val s2 i = Some v).
    { unfold slot_val, slot_at. rewrite Hs2. erewrite nth_error_upd_nth_eq; [reflexivity|].
      unfold s1, set_slot; cbn. erewrite nth_error_upd_nth_eq; [reflexivity|exact Es]. }
    assert (Ha2 : assoc (id_text (sl_id sl)) (pending s2) = None) by (rewrite Hp2; apply assoc_del_same).
    rewrite (i_crash _ (proj1 I2)) in E.
    assert (Hc : c_oncancel s2 = c_oncancel s).
    { unfold s2, write_slot. destruct (slot_at (s1 <| pending ::= assoc_del (id_text (sl_id sl)) |>) i) as [x|]; [destruct (sl_buf x)|]; reflexivity. }
    rewrite Hc in E.
    destruct (c_oncancel s).
    + destruct (settle_slot_inv1 i s2 I2) as (I3 & _ & _ & Hc3).
      rewrite (i_crash _ (proj1 I3)) in E. injection E as <-. splits; auto.
      * apply (i_crash _ (proj1 I3)).
      * replace (slot_val (emit [OOnCancel (id_text (sl_id sl)) (Some (watch_werr (err s) (sl_pctx sl)))] (settle_slot i s2)) i)
          with (slot_val (settle_slot i s2) i) by reflexivity.
        unfold slot_val, slot_at in *. destruct (nth_error (slots s2) i) as [x|] eqn:Ex; [|discriminate].
        destruct (core_at _ _ (eq_sym Hc3) _ _ Ex) as (y & Hy & Hcore). rewrite Hy. core Hcore. congruence.
      * replace (pending (emit [OOnCancel (id_text (sl_id sl)) (Some (watch_werr (err s) (sl_pctx sl)))] (settle_slot i s2)))
          with (pending (settle_slot i s2)) by reflexivity.
        assert (pending (settle_slot i s2) = pending s2).
        { unfold settle_slot. destruct (slot_at s2 i) as [x|]; auto. destruct (sl_buf x); auto. destruct (sl_settled x); auto.
          destruct (beq _ _); reflexivity. }
        congruence.
      * assert (hist (settle_slot i s2) = hist s2).
        { unfold settle_slot. destruct (slot_at s2 i) as [x|] eqn:Ex; auto. destruct (sl_buf x) eqn:Eb; auto.
          destruct (sl_settled x); auto. rewrite (i_val _ (proj1 I2) _ _ _ Ex Eb), beq_refl. reflexivity. }
        cbn. rewrite H, Hh2. reflexivity.
    + injection E as <-. splits; auto.
      * apply (i_crash _ (proj1 I2)).
      * rewrite Hh2, app_nil_r. reflexivity.
Qed.

Lemma call_res_ctx e w :
  call_res (mkVal e (Some (ctx_werr (Some w))) [] SWatch) = RCtx w
  /\ call_res (mkVal e (Some (ctx_werr None)) [] SWatch) = RCtx WCancel.
Proof. destruct w; split; reflexivity. Qed.

(** * C05: an operation begun after stop returns the stop error and transmits nothing *)
Lemma send_after_stop s n c s' : err s = Some c -> step_raw s (LRelSend n) = Some s' ->
  hist s' = hist s ++ [ORet n (RetFail (EStopped c))] /\ pending s' = pending s /\ slots s' = slots s.
Proof.
  intros Ee E. cbn in E. destruct (op_at s n) as [o|]; [|discriminate]. destruct (o_pc o); try discriminate.
  rewrite Ee in E. injection E as <-. splits; reflexivity.
Qed.
