(* CliWg: the wait group of the client model counts exactly the reader, the parked deliveries
   and the live callback handlers; stop leaves no callback handler running; after stop on a
   channel whose Close unblocks Recv the reader has a closing error to pick up.  Consequence
   (C05, Close): at quiescence a Close still blocked in done.Wait() is waiting for a reader
   that is blocked in Recv on a channel whose Close does not unblock it, with nothing to read. *)
From Coq Require Import List NArith ZArith Bool Arith Lia.
From RecordUpdate Require Import RecordUpdate.
From JV Require Import Bytes Msg CliModel CliLemmas CliInv CliRet CliProofs CliC05 CliCtx CliOps CliHist CliLive.
Import ListNotations.

Definition rdc (s : state) : nat := match rd s with RExited => 0 | _ => 1 end.
Definition cnt {A} (p : A -> bool) (l : list A) : nat := length (filter p l).
#[global] Arguments cnt : simpl never.
Definition cb_running (c : cbrec) : bool := match cb_st c with CbRunning => true | _ => false end.

Record invW (s : state) : Prop := {
  w_wg : wg s = rdc s + cnt deliv_parked (delivs s) + cnt cb_alive (cbs s);
  w_cb : err s <> None -> cnt cb_running (cbs s) = 0;
  w_unblock : err s <> None -> c_unblock s = true -> rd s <> RIdle \/ exists c, In (FErr c) (ch_in s);
  w_close : forall n o b, op_at s n = Some o -> o_pc o = PCloseWait b -> err s <> None
}.

(** * counting *)
Lemma cnt_app {A} (p : A -> bool) l1 l2 : cnt p (l1 ++ l2) = cnt p l1 + cnt p l2.
Proof. unfold cnt. rewrite filter_app, app_length. auto. Qed.

Lemma cnt_upd {A} (p : A -> bool) (f : A -> A) l : forall j x, nth_error l j = Some x ->
  cnt p (upd_nth j f l) + (if p x then 1 else 0) = cnt p l + (if p (f x) then 1 else 0).
Proof.
  unfold cnt. induction l as [|y l IH]; intros [|j] x H; cbn in *; try discriminate.
  - injection H as ->. destruct (p x), (p (f x)); cbn; lia.
  - specialize (IH j x H). destruct (p y); cbn; lia.
Qed.

Lemma cnt_map {A} (p : A -> bool) (f : A -> A) l : (forall x, p (f x) = p x) -> cnt p (map f l) = cnt p l.
Proof. intros H. unfold cnt. induction l as [|y l IH]; cbn; auto. rewrite H. destruct (p y); cbn; auto. Qed.

Lemma cnt_zero_map {A} (p : A -> bool) (f : A -> A) l : (forall x, p (f x) = false) -> cnt p (map f l) = 0.
Proof. intros H. unfold cnt. induction l as [|y l IH]; cbn; auto. rewrite H. auto. Qed.

Lemma cnt_zero_in {A} (p : A -> bool) l x : cnt p l = 0 -> In x l -> p x = false.
Proof.
  unfold cnt. intros H Hx. destruct (p x) eqn:E; auto.
  assert (Hi : In x (filter p l)) by (apply filter_In; auto). destruct (filter p l); [destruct Hi|discriminate].
Qed.

Lemma cnt_zero_all {A} (p : A -> bool) l : (forall x, In x l -> p x = false) -> cnt p l = 0.
Proof. intros H. unfold cnt. rewrite (filter_none p l H). reflexivity. Qed.

(** * frame *)
Definition pcw_frame (s s' : state) : Prop :=
  forall n o' b, op_at s' n = Some o' -> o_pc o' = PCloseWait b -> exists o b', op_at s n = Some o /\ o_pc o = PCloseWait b'.

Lemma pcw_refl s s' : ops s' = ops s -> pcw_frame s s'.
Proof. intros E n o' b H Hp. unfold op_at in *. rewrite E in H. eauto. Qed.

Lemma pcw_set_op s s' n g : ops s' = ops (set_op n g s) ->
  (forall o b, o_pc (g o) = PCloseWait b -> exists b', o_pc o = PCloseWait b') -> pcw_frame s s'.
Proof.
  intros E Hg m o' b H Hp. destruct (ops_upd_set_op _ _ _ _ E _ _ H) as [(-> & o & A & ->)|(N & A)]; [|eauto].
  destruct (Hg _ _ Hp) as (b' & Hb). eauto.
Qed.

Lemma pcw_trans s1 s2 s3 : pcw_frame s1 s2 -> pcw_frame s2 s3 -> pcw_frame s1 s3.
Proof. intros F G n o b H Hp. destruct (G _ _ _ H Hp) as (o2 & b2 & A & B). eapply F; eauto. Qed.

Lemma invW_frame s s' : wg s' = wg s -> rd s' = rd s -> delivs s' = delivs s -> cbs s' = cbs s -> err s' = err s ->
  c_unblock s' = c_unblock s -> (forall f, In f (ch_in s) -> In f (ch_in s')) -> pcw_frame s s' -> invW s -> invW s'.
Proof.
  intros E1 E2 E3 E4 E5 E6 E7 F [A B C D]. constructor; unfold rdc; rewrite ?E1, ?E2, ?E3, ?E4, ?E5, ?E6; auto.
  - intros He Hu. destruct (C He Hu) as [?|(c & Hc)]; auto. right. exists c. auto.
  - intros n o' b H Hp. destruct (F _ _ _ H Hp) as (o & b' & H1 & H2). eapply D; eauto.
Qed.

Lemma invW_same s s' : wg s' = wg s -> rd s' = rd s -> delivs s' = delivs s -> cbs s' = cbs s -> err s' = err s ->
  c_unblock s' = c_unblock s -> ch_in s' = ch_in s -> ops s' = ops s -> invW s -> invW s'.
Proof. intros E1 E2 E3 E4 E5 E6 E7 E8. apply invW_frame; auto; [rewrite E7; auto|apply pcw_refl; auto]. Qed.

(** * stopLocked *)
Lemma stop_locked_w c s s1 b : err s = None -> stop_locked c s = (s1, b) ->
  wg s1 = wg s /\ rd s1 = rd s /\ delivs s1 = delivs s
  /\ cbs s1 = map (fun c => match cb_st c with
                            | CbRunning => c <| cb_st := CbAtReply (CbErr Cancelled s_ctx_canceled) |>
                            | _ => c end) (cbs s)
  /\ err s1 = Some c /\ c_unblock s1 = c_unblock s
  /\ ch_in s1 = (if c_unblock s then ch_in s ++ [FErr SCClosing] else ch_in s) /\ ops s1 = ops s.
Proof.
  intros E H. unfold stop_locked in H. rewrite E in H. rewrite fold_cancel_eq in H. injection H as <- <-.
  cbn. destruct (c_unblock s) eqn:Eu; cbn; splits; auto.
Qed.

Lemma invW_stop c s s1 b : invW s -> stop_locked c s = (s1, b) -> invW s1 /\ rd s1 = rd s /\ ops s1 = ops s /\ err s1 <> None.
Proof.
  intros W H. destruct (err s) as [c0|] eqn:Ee.
  - unfold stop_locked in H. rewrite Ee in H. injection H as <- <-. splits; auto. rewrite Ee. discriminate.
  - destruct (stop_locked_w _ _ _ _ Ee H) as (E1 & E2 & E3 & E4 & E5 & E6 & E7 & E8).
    splits; auto; [|rewrite E5; discriminate]. destruct W as [A B C D]. constructor.
    + unfold rdc. rewrite E1, E2, E3, E4, cnt_map; auto. intros x. unfold cb_alive. destruct (cb_st x) eqn:Ex; cbn; rewrite ?Ex; reflexivity.
    + intros _. rewrite E4. unfold cnt. rewrite filter_none; auto. intros x Hx. apply in_map_iff in Hx.
      destruct Hx as (y & <- & _). unfold cb_running. destruct (cb_st y) eqn:Ey; cbn; auto; rewrite Ey; auto.
    + intros _ Hu. right. exists SCClosing. rewrite E7. rewrite E6 in Hu. rewrite Hu. apply in_or_app. right. left. auto.
    + intros n o b' Ho Hp. rewrite E5. discriminate.
Qed.

(** * deliverLocked *)
Lemma invW_deliver_member j k m s : inv1 s -> invW s ->
  invW (deliver_member j k m s) /\ rd (deliver_member j k m s) = rd s.
Proof.
  intros I W. unfold deliver_member. destruct (is_req_or_notif m).
  - destruct (is_notification m).
    + destruct (c_onnotify s); split; auto. apply (invW_same s); auto.
    + destruct (c_oncallback s); cbn; [|split; auto]. destruct (err s) eqn:Ee; cbn; [split; auto|]. split; auto.
      destruct W as [A B C D]. constructor; cbn.
      * unfold rdc in *. cbn. rewrite cnt_app. unfold cnt at 3. cbn. rewrite A. lia.
      * rewrite Ee. intros X; contradiction.
      * rewrite Ee. intros X; contradiction.
      * intros n o b Ho Hp. exfalso. apply (D n o b Ho Hp). auto.
  - destruct (assoc (fix_id (j_id m)) (pending s)) as [i|] eqn:E; [|split; auto].
    apply assoc_in in E. rewrite (write_pending_eq _ _ _ _ I E). split; [|reflexivity]. apply (invW_same s); auto.
Qed.

Lemma invW_deliver_all j ms : forall k s, inv1 s -> invW s ->
  invW (deliver_all j k ms s) /\ rd (deliver_all j k ms s) = rd s.
Proof.
  induction ms as [|m r IH]; intros k s I W; cbn; auto.
  rewrite (i_crash _ (proj1 I)). destruct (invW_deliver_member j k m s I W) as [W1 E1].
  destruct (IH (S k) _ (proj1 (deliver_member_inv1 j k m s I)) W1) as [W2 E2]. split; auto. congruence.
Qed.

(** * the invariant holds in every reachable state *)
Lemma invW_init c : invW (init_of c).
Proof.
  constructor; cbn; auto; try congruence. intros [|n] o b H; discriminate.
Qed.

Lemma scan_not_cw l : forall z pc b, scan l z = Some pc -> pc <> PCloseWait b.
Proof. intros z pc b H. destruct (scan_pc _ _ _ H) as [->|[k ->]]; discriminate. Qed.

Definition wfields (s s' : state) : Prop :=
  wg s' = wg s /\ rd s' = rd s /\ delivs s' = delivs s /\ cbs s' = cbs s /\ err s' = err s
  /\ c_unblock s' = c_unblock s /\ ch_in s' = ch_in s /\ ops s' = ops s.

Lemma wfields_refl s : wfields s s.
Proof. unfold wfields; splits; auto. Qed.

Lemma wfields_trans s1 s2 s3 : wfields s1 s2 -> wfields s2 s3 -> wfields s1 s3.
Proof. unfold wfields. intros (A1 & A2 & A3 & A4 & A5 & A6 & A7 & A8) (B1 & B2 & B3 & B4 & B5 & B6 & B7 & B8). splits; congruence. Qed.

Lemma register_w ctx i st : wfields st (register ctx i st).
Proof. unfold wfields, register. destruct (slot_at st i); [destruct (is_some _)|]; splits; reflexivity. Qed.

Lemma register_fold_w ctx L : forall st, wfields st (fold_left (fun st i => register ctx i st) L st).
Proof.
  induction L as [|i r IH]; intros st; cbn; [apply wfields_refl|].
  eapply wfields_trans; [apply register_w|apply IH].
Qed.

Lemma settle_slot_w i s : inv1 s -> wfields s (settle_slot i s).
Proof.
  intros I. destruct (settle_slot_eq s i I) as [->|(sl & v & _ & _ & _ & ->)]; [apply wfields_refl|].
  unfold wfields; splits; reflexivity.
Qed.

Lemma invW_wfields s s' : wfields s s' -> invW s -> invW s'.
Proof. intros (A1 & A2 & A3 & A4 & A5 & A6 & A7 & A8). apply invW_same; auto. Qed.

Lemma invW_step_raw s l s' : inv1 s -> invW s -> step_raw s l = Some s' -> invW s'.
Proof.
  intros I W E. destruct l; cbn in E.
  - (* LOp *)
    destruct (negb (n =? length (ops s)) || negb (specs_ok k specs)) eqn:G0; [discriminate|].
    apply orb_false_iff in G0. destruct G0 as [G1 _]. apply negb_false_iff, Nat.eqb_eq in G1.
    set (o0 := mkOp k specs [] PDone None None) in *.
    assert (Fr : forall s' g, ops s' = upd_nth n g (ops s ++ [o0]) -> (forall b, o_pc (g o0) <> PCloseWait b) ->
                  wg s' = wg s -> rd s' = rd s -> delivs s' = delivs s -> cbs s' = cbs s -> err s' = err s ->
                  c_unblock s' = c_unblock s -> ch_in s' = ch_in s -> invW s').
    { intros s0 g E0 Hn E1 E2 E3 E4 E5 E6 E7. apply (invW_frame s); auto; [rewrite E7; auto|].
      intros m o' b H Hp. unfold op_at in H. rewrite E0, nth_error_upd_nth in H.
      destruct (Nat.eqb_spec n m) as [<-|N].
      - rewrite G1, nth_error_app_new in H. cbn in H. injection H as <-. exfalso. eapply Hn; eauto.
      - destruct (nth_error_snoc _ _ _ _ H) as [[_ H1]|[L _]]; [|congruence]. eauto. }
    destruct k.
    1-3: destruct (is_nil specs); [injection E as <-; eapply Fr; try reflexivity; cbn; discriminate|];
         destruct (scan specs 0) as [pc|] eqn:Sc; injection E as <-;
         (eapply Fr; try reflexivity; cbn); try discriminate; intros b; eapply scan_not_cw; eauto.
    injection E as <-. eapply Fr; try reflexivity; cbn; discriminate.
  - (* LFeed *) injection E as <-. apply (invW_frame s); auto; [|apply pcw_refl; auto].
    intros f0 Hf. cbn. apply in_or_app. auto.
  - (* LSendFault *) injection E as <-. apply (invW_same s); auto.
  - (* LCtxEnd *)
    destruct (op_at s n) as [o|] eqn:Eo; [|discriminate]. destruct (o_ctx o); injection E as <-; auto.
    apply (invW_frame s); auto. eapply pcw_set_op; [reflexivity|]. cbn. eauto.
  - (* LCbGate *)
    destruct (find_idx _ 0 (cbs s)) as [c|] eqn:Ef; [|discriminate]. injection E as <-.
    destruct (find_idx_0 _ _ _ Ef) as (cb & Hcb & Hp). apply andb_true_iff in Hp. destruct Hp as [_ Hp].
    assert (Hr : cb_st cb = CbRunning) by (destruct (cb_st cb); auto; discriminate).
    assert (Hin : In cb (cbs s)) by (eapply nth_error_In; eauto).
    destruct W as [A B C D]. constructor; cbn; auto.
    + unfold rdc in *. cbn. rewrite A. f_equal.
      assert (X := cnt_upd cb_alive (fun c0 => c0 <| cb_st := CbAtReply o |>) _ _ _ Hcb). cbn in X.
      unfold cb_alive at 2 in X. rewrite Hr in X. lia.
    + intros He. assert (Z := B He). exfalso.
      assert (Y := cnt_zero_in _ _ _ Z Hin). unfold cb_running in Y. rewrite Hr in Y. discriminate.
  - (* LRelReq *)
    destruct (op_at s n) as [o|] eqn:Eo; [|discriminate]. destruct (o_pc o) eqn:Epc; try discriminate.
    set (g1 := fun o0 : oprec => o0 <| o_slots ::= fun l => l ++ [length (slots s)] |>) in *.
    match type of E with (match ?x with Some _ => _ | None => _ end) = _ => destruct x as [pc|] eqn:Sc end; injection E as <-.
    + apply (invW_frame s); auto. eapply pcw_trans; [eapply (pcw_set_op s _ n g1); [reflexivity|cbn; eauto]|].
      eapply pcw_set_op; [reflexivity|]. cbn. intros o1 b Hb. exfalso. eapply scan_not_cw; eauto.
    + apply (invW_frame s); auto. eapply pcw_trans; [eapply (pcw_set_op s _ n g1); [reflexivity|cbn; eauto]|].
      eapply pcw_set_op; [reflexivity|]. cbn. intros o1 b [=].
  - (* LRelSend *)
    destruct (op_at s n) as [o|] eqn:Eo; [|discriminate]. destruct (o_pc o) eqn:Epc; try discriminate.
    destruct (err s) eqn:Ee.
    { injection E as <-. apply (invW_frame s); auto. eapply pcw_set_op; [reflexivity|]. cbn. intros o1 b [=]. }
    destruct (negb (send_fail s)); injection E as <-.
    2: { apply (invW_frame s); auto. eapply pcw_set_op; [reflexivity|]. cbn. intros o1 b [=]. }
    match goal with |- invW (set_op _ _ (fold_left _ ?L ?s1)) =>
      assert (X := register_fold_w (o_ctx o) L s1); set (s2 := fold_left _ L s1) in * end.
    assert (W2 : invW s2).
    { apply (invW_wfields s); [|exact W]. eapply wfields_trans; [|exact X]. unfold wfields; splits; reflexivity. }
    apply (invW_frame s2); auto. eapply pcw_set_op; [reflexivity|]. cbn. intros o1 b [=].
  - (* LRelDeliver *)
    destruct (nth_error (delivs s) j) as [d|] eqn:Ed; [|discriminate]. destruct (d_st d) eqn:Est; [|discriminate].
    destruct (deliver_all_inv1 j (d_msgs d) 0 s I) as (I1 & E1 & E2).
    destruct (invW_deliver_all j (d_msgs d) 0 s I W) as [W1 Er].
    rewrite (i_crash _ (proj1 I1)) in E. injection E as <-.
    set (s1 := deliver_all j 0 (d_msgs d) s) in *.
    destruct W1 as [A B C D]. constructor; cbn; auto.
    + unfold rdc in *. cbn. rewrite A.
      assert (Hd : nth_error (delivs s1) j = Some d) by (rewrite E2; auto).
      assert (X := cnt_upd deliv_parked (fun d0 => d0 <| d_st := DDone |>) _ _ _ Hd). cbn in X.
      unfold deliv_parked at 2 in X. rewrite Est in X. lia.
  - (* LRelWatch *)
    destruct (slot_at s i) as [sl|] eqn:Es; [|discriminate]. destruct (sl_watch sl); try discriminate.
    set (s1 := set_slot i (fun sl0 => sl0 <| sl_watch := WDone |>) s) in *.
    assert (I1 : inv1 s1).
    { apply (inv1_frame s); try reflexivity; auto; try apply I.
      cbn. apply map_core_upd. reflexivity. apply ops_frame_refl; reflexivity. }
    destruct (assoc (id_text (sl_id sl)) (pending s)) as [i'|] eqn:Ea; [|injection E as <-; apply (invW_same s); auto].
    apply assoc_in in Ea. assert (i' = i) by (apply (pending_of_slot s i sl i' I Es Ea)). subst i'.
    set (v := mkVal (id_text (sl_id sl)) (Some (watch_werr (err s) (sl_pctx sl))) [] SWatch) in *.
    destruct (write_pending_ok s1 (id_text (sl_id sl)) i v I1 Ea (fix_id_text _)) as (I2 & _).
    assert (F2 : wfields s (write_slot i v (s1 <| pending ::= assoc_del (id_text (sl_id sl)) |>))).
    { rewrite (write_pending_eq s1 _ _ _ I1 Ea). unfold wfields; splits; reflexivity. }
    set (s2 := write_slot i v _) in *.
    rewrite (i_crash _ (proj1 I2)) in E.
    destruct (c_oncancel s2); [|injection E as <-; apply (invW_wfields s); auto].
    destruct (settle_slot_inv1 i s2 I2) as (I3 & _).
    rewrite (i_crash _ (proj1 I3)) in E. injection E as <-.
    apply (invW_wfields s); auto. eapply wfields_trans; [exact F2|].
    eapply wfields_trans; [apply settle_slot_w; auto|]. unfold wfields; splits; reflexivity.
  - (* LRelRecvErr *)
    destruct (rd s) eqn:Erd; try discriminate. destruct (stop_locked c s) as [s1 first] eqn:Est.
    destruct (invW_stop _ _ _ _ W Est) as (W1 & Er & Eo & Hne). injection E as <-.
    assert (Hd : forall s0, wg s0 = wg s1 -> rd s0 = rd s1 -> delivs s0 = delivs s1 -> cbs s0 = cbs s1 -> err s0 = err s1 ->
                   c_unblock s0 = c_unblock s1 -> ch_in s0 = ch_in s1 -> ops s0 = ops s1 ->
                   invW (s0 <| rd := RExited |> <| wg ::= pred |>)).
    { intros s0 E1 E2 E3 E4 E5 E6 E7 E8. destruct W1 as [A B C D]. constructor; cbn; rewrite ?E1, ?E3, ?E4, ?E5, ?E6.
      - unfold rdc in *. cbn. rewrite A, Er, Erd. lia.
      - exact B.
      - intros _ _. left. discriminate.
      - intros n o b Ho Hp. unfold op_at in Ho. cbn in Ho. rewrite E8 in Ho. apply (D n o b Ho Hp). }
    destruct first; apply Hd; reflexivity.
  - (* LRelClose *)
    destruct (op_at s n) as [o|] eqn:Eo; [|discriminate]. destruct (o_pc o) eqn:Epc; try discriminate.
    destruct (stop_locked SCClosed s) as [s1 first] eqn:Est.
    destruct (invW_stop _ _ _ _ W Est) as (W1 & Er & Eo1 & Hne). injection E as <-.
    destruct W1 as [A B C D]. constructor; auto.
  - (* LRelCbReply *)
    destruct (nth_error (cbs s) c) as [cb|] eqn:Hcb; [|discriminate]. destruct (cb_st cb) eqn:Est; try discriminate.
    injection E as <-.
    assert (Hd : forall s0, wg s0 = wg s -> rd s0 = rd s -> delivs s0 = delivs s -> cbs s0 = cbs s -> err s0 = err s ->
                   c_unblock s0 = c_unblock s -> ch_in s0 = ch_in s -> ops s0 = ops s ->
                   invW (s0 <| cbs ::= upd_nth c (fun cb => cb <| cb_st := CbDone |>) |> <| wg ::= pred |>)).
    { intros s0 E1 E2 E3 E4 E5 E6 E7 E8. destruct W as [A B C D]. constructor; cbn; rewrite ?E1, ?E2, ?E3, ?E4, ?E5, ?E6, ?E7; auto.
      - unfold rdc in *. cbn. rewrite E2, A.
        assert (X := cnt_upd cb_alive (fun c0 => c0 <| cb_st := CbDone |>) _ _ _ Hcb). cbn in X.
        unfold cb_alive at 2 in X. rewrite Est in X. lia.
      - intros He. assert (Z := B He).
        assert (X := cnt_upd cb_running (fun c0 => c0 <| cb_st := CbDone |>) _ _ _ Hcb). cbn in X.
        unfold cb_running at 2 in X. rewrite Est in X. lia.
      - intros n o' b Ho Hp. unfold op_at in Ho. cbn in Ho. rewrite E8 in Ho. apply (D n o' b Ho Hp). }
    destruct (err s) eqn:Ee; apply Hd; try reflexivity; exact Ee.
Qed.

Lemma invW_settle1 s s' : inv1 s -> invW s -> settle1 s = Some s' -> invW s'.
Proof.
  intros I W E. unfold settle1 in E. rewrite (i_crash _ (proj1 I)) in E.
  assert (Hops : match find_idx (op_ready s) 0 (ops s) with
                 | Some n => match op_at s n with Some o => Some (op_advance n o s) | None => None end
                 | None => None end = Some s' -> invW s').
  { clear E. intros E. destruct (find_idx (op_ready s) 0 (ops s)) as [n|]; [|discriminate].
    destruct (op_at s n) as [o|] eqn:Eo; [|discriminate]. injection E as <-.
    unfold op_advance. destruct (o_pc o) eqn:Epc; auto.
    - destruct (nth_error (o_slots o) k) as [i|].
      + assert (W1 : invW (settle_slot i s)) by (apply (invW_wfields s); auto; apply settle_slot_w; auto).
        apply (invW_frame (settle_slot i s)); auto. eapply pcw_set_op; [reflexivity|]. cbn. intros o1 b [=].
      + apply (invW_frame s); auto. eapply pcw_set_op; [reflexivity|]. cbn. intros o1 b [=].
    - destruct stopper; [destruct (err s) eqn:Ee|];
        (apply (invW_frame s); auto; eapply pcw_set_op; [reflexivity|]; cbn; intros o1 b' [=]). }
  destruct (rd s) eqn:Erd; auto. destruct (ch_in s) as [|f q] eqn:Ech; auto.
  destruct W as [A B C D].
  destruct f as [[|b ms]|c]; injection E as <-; constructor; cbn; auto.
  - rewrite A. unfold rdc. rewrite Erd. reflexivity.
  - intros _ _. left. discriminate.
  - unfold rdc. cbn. rewrite Erd, cnt_app, A. unfold rdc. rewrite Erd.
    replace (cnt deliv_parked [{| d_msgs := ms; d_st := DParked |}]) with 1 by reflexivity. lia.
  - intros He Hu. destruct (C He Hu) as [X|(c & X)]; [congruence|]. rewrite Ech in X.
    destruct X as [X|X]; [discriminate|]. right; eauto.
  - rewrite A. unfold rdc. rewrite Erd. reflexivity.
  - intros _ _. left. discriminate.
Qed.

Theorem invW_reach c s : reach c s -> inv1 s /\ invW s.
Proof.
  apply (reach_inv (fun s => inv1 s /\ invW s)).
  - split; [apply inv1_init|apply invW_init].
  - intros s0 l s' (I & W) Cr E. split; [eapply inv1_step_raw|eapply invW_step_raw]; eauto.
  - intros s0 s' (I & W) E. split; [eapply inv1_settle1|eapply invW_settle1]; eauto.
Qed.

(** * C05: when can a Close still be blocked at quiescence *)
Lemma close_returns c tr s : traces_to c tr s -> quiescent s = true ->
  (* the wait group counts the reader, the parked deliveries and the live callback handlers *)
  wg s = rdc s + cnt deliv_parked (delivs s) + cnt cb_alive (cbs s)
  (* a Close still in done.Wait(): the reader is blocked in Recv with nothing to read, on a channel whose Close does
     not unblock Recv (the peer has not closed its end) *)
  /\ (forall n o, op_at s n = Some o -> blocked_close s o -> rd s = RIdle /\ ch_in s = [] /\ c_unblock s = false /\ err s <> None)
  (* hence every Close that passed cli.close has returned, once, if Close unblocks Recv or the reader has exited *)
  /\ (forall n o b, op_at s n = Some o -> o_pc o = PCloseWait b -> c_unblock s = true \/ rd s = RExited -> False).
Proof.
  intros T Q. assert (R := traces_reach _ _ _ T). destruct (invW_reach c s R) as (I & [A B C D]).
  destruct (quiescent_parked s Q) as (_ & _ & Qd & Qr & Qc).
  assert (Hblk : forall n o, op_at s n = Some o -> blocked_close s o ->
             rd s = RIdle /\ ch_in s = [] /\ c_unblock s = false /\ err s <> None).
  { intros n o Ho (Hk & Hw & b & Hp).
    assert (He := D n o b Ho Hp).
    assert (Hd : cnt deliv_parked (delivs s) = 0) by (apply cnt_zero_all; auto).
    assert (Hc : cnt cb_alive (cbs s) = 0).
    { apply cnt_zero_all. intros cb Hcb. assert (X := Qc cb Hcb). assert (Y := cnt_zero_in _ _ _ (B He) Hcb).
      unfold cb_alive, cb_at_reply, cb_running in *. destruct (cb_st cb); auto; discriminate. }
    assert (Hrd : rd s = RIdle).
    { unfold rdc in A. destruct (rd s) eqn:Erd; auto; [exfalso; eapply Qr; eauto|lia]. }
    assert (Hch : ch_in s = []).
    { unfold quiescent in Q. apply andb_true_iff in Q. destruct Q as [_ Q]. unfold settle1 in Q.
      rewrite (i_crash _ (proj1 I)), Hrd in Q. destruct (ch_in s) as [|f q]; auto. destruct f as [[|b' ms]|c']; discriminate. }
    splits; auto. destruct (c_unblock s) eqn:Eu; auto. exfalso.
    destruct (C He eq_refl) as [X|(c' & X)]; [congruence|]. rewrite Hch in X. destruct X. }
  splits; auto.
  intros n o b Ho Hp Hyp.
  assert (U := quiescent_not_ready s Q (i_crash _ (proj1 I)) n o Ho). unfold op_ready in U. rewrite Hp in U.
  assert (Hbc : blocked_close s o).
  { destruct (invCP_reach c s R) as (_ & _ & P). destruct (P n o Ho) as (_ & Pk & _). unfold pc_kind in Pk. rewrite Hp in Pk.
    unfold blocked_close. splits; eauto. intros E0. rewrite E0 in U. discriminate. }
  destruct (Hblk n o Ho Hbc) as (H1 & _ & H3 & _). destruct Hyp; congruence.
Qed.

(* a Close on a channel that unblocks Recv: everything has returned and the wait group is empty (ex_trace5) *)
Example close_returns_nonvacuous :
  exists s o, traces_to ex_cfg ex_trace5 s /\ quiescent s = true /\ op_at s 1 = Some o /\ o_kind o = KClose
              /\ c_unblock s = true /\ o_pc o = PDone /\ wg s = 0.
Proof.
  destruct (run (init_of ex_cfg) ex_trace5) as [[s oss]|] eqn:E; [|revert E; vm_compute; discriminate].
  exists s. revert E. vm_compute. intros E. injection E as <- <-.
  eexists. split; [eexists; reflexivity|]. vm_compute. splits; auto.
Qed.

(* a Close on a channel that does not unblock Recv, peer silent: Close stays blocked on the reader *)
Definition ex_cfg_nounblock : config := {| cf_unblock := false; cf_oncancel := true; cf_onnotify := true; cf_oncallback := true |}.
Definition ex_trace_close_blocked : list label := [LOp 0 KClose []; LRelClose 0].

Example close_blocked_nonvacuous :
  exists s o, traces_to ex_cfg_nounblock ex_trace_close_blocked s /\ quiescent s = true /\ op_at s 0 = Some o
              /\ blocked_close s o /\ rd s = RIdle /\ ch_in s = [].
Proof.
  destruct (run (init_of ex_cfg_nounblock) ex_trace_close_blocked) as [[s oss]|] eqn:E; [|revert E; vm_compute; discriminate].
  exists s. revert E. vm_compute. intros E. injection E as <- <-.
  eexists. split; [eexists; reflexivity|]. vm_compute. splits; auto; try discriminate. eexists; reflexivity.
Qed.
