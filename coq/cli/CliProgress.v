(* CliProgress: liveness groundwork for the client model.
   (a) every label offered by [enabled_rel] is enabled;
   (b) fuel adequacy of [settle]: after every step of a reachable state no unhooked micro step is left
       ([settle1 = None]) - the measure [smeasure] strictly decreases along [settle1] and is bounded by
       [settle_fuel];
   (c) see CliProgress2: a potential that strictly decreases along release labels, hence from every
       reachable state a quiescent state is reachable by releases only. *)
From Coq Require Import List NArith ZArith Bool Arith Lia.
From RecordUpdate Require Import RecordUpdate.
From JV Require Import Bytes Msg CliModel CliLemmas CliInv CliRet CliProofs CliC05 CliCtx CliOps CliHist CliLive CliWg CliSend CliNoStop CliStep CliGo CliOpTrans.
Import ListNotations.

(** * (a) offered labels are enabled *)
Lemma idxs_where_in {A} (p : A -> bool) l : forall i n, In n (idxs_where p i l) ->
  exists x, nth_error l (n - i) = Some x /\ p x = true /\ i <= n.
Proof.
  induction l as [|y r IH]; cbn; intros i n H; [destruct H|].
  apply in_app_or in H. destruct H as [H|H].
  - destruct (p y) eqn:E; [|destruct H]. destruct H as [<-|[]]. rewrite Nat.sub_diag. exists y. cbn. auto.
  - destruct (IH _ _ H) as (x & X1 & X2 & X3). exists x. replace (n - i) with (S (n - S i)) by lia. cbn. splits; auto. lia.
Qed.

Lemma idxs_where_0 {A} (p : A -> bool) l n : In n (idxs_where p 0 l) -> exists x, nth_error l n = Some x /\ p x = true.
Proof. intros H. destruct (idxs_where_in p l 0 n H) as (x & X1 & X2 & _). rewrite Nat.sub_0_r in X1. eauto. Qed.

Definition is_rel (l : label) : bool :=
  match l with
  | LRelReq _ | LRelSend _ | LRelDeliver _ | LRelWatch _ | LRelRecvErr | LRelClose _ | LRelCbReply _ => true
  | _ => false
  end.

Lemma enabled_rel_enabled s l : In l (enabled_rel s) -> is_rel l = true /\ step_raw s l <> None.
Proof.
  unfold enabled_rel. intros H. apply in_flat_map in H. destruct H as (x & _ & H).
  destruct x; cbn in H.
  - apply in_map_iff in H. destruct H as (n & <- & H). destruct (idxs_where_0 _ _ _ H) as (o & Ho & Hp).
    split; auto. cbn. unfold op_at. rewrite Ho. unfold at_req in Hp. destruct (o_pc o); try discriminate.
    match goal with |- (match ?x with Some _ => _ | None => _ end) <> None => destruct x end; discriminate.
  - apply in_map_iff in H. destruct H as (n & <- & H). destruct (idxs_where_0 _ _ _ H) as (o & Ho & Hp).
    split; auto. cbn. unfold op_at. rewrite Ho. unfold at_send in Hp. destruct (o_pc o); try discriminate.
    destruct (err s); [discriminate|]. destruct (negb (send_fail s)); discriminate.
  - apply in_map_iff in H. destruct H as (n & <- & H). destruct (idxs_where_0 _ _ _ H) as (d & Hd & Hp).
    split; auto. cbn. rewrite Hd. unfold deliv_parked in Hp. destruct (d_st d); try discriminate.
    destruct (crash _); discriminate.
  - apply in_map_iff in H. destruct H as (n & <- & H). destruct (idxs_where_0 _ _ _ H) as (sl & Hs & Hp).
    split; auto. cbn. unfold slot_at. rewrite Hs. unfold watch_parked in Hp. destruct (sl_watch sl); try discriminate.
    destruct (assoc _ _); [|discriminate]. destruct (crash _); [discriminate|]. destruct (c_oncancel _); [|discriminate].
    destruct (crash _); discriminate.
  - destruct (rd s) eqn:Erd; [destruct H| |destruct H]. destruct H as [<-|[]]. split; auto. cbn. rewrite Erd.
    destruct (stop_locked c s). discriminate.
  - apply in_map_iff in H. destruct H as (n & <- & H). destruct (idxs_where_0 _ _ _ H) as (o & Ho & Hp).
    split; auto. cbn. unfold op_at. rewrite Ho. unfold at_close in Hp. destruct (o_pc o); try discriminate.
    destruct (stop_locked SCClosed s). discriminate.
  - apply in_map_iff in H. destruct H as (n & <- & H). destruct (idxs_where_0 _ _ _ H) as (cb & Hc & Hp).
    split; auto. cbn. rewrite Hc. unfold cb_at_reply in Hp. destruct (cb_st cb); try discriminate.
Qed.

Lemma enabled_rel_step s l : crash s = None -> In l (enabled_rel s) -> is_rel l = true /\ exists s' os, step s l = Some (s', os).
Proof.
  intros Cr H. destruct (enabled_rel_enabled s l H) as (A & B). split; auto. unfold step. rewrite Cr.
  destruct (step_raw s l); [eauto|contradiction].
Qed.

(** * (b) fuel adequacy of settle *)
Definition wsum {A} (w : A -> nat) (l : list A) : nat := list_sum (map w l).

Lemma wsum_app {A} (w : A -> nat) l1 l2 : wsum w (l1 ++ l2) = wsum w l1 + wsum w l2.
Proof. unfold wsum. rewrite map_app, list_sum_app. reflexivity. Qed.

Lemma wsum_one {A} (w : A -> nat) x : wsum w [x] = w x.
Proof. unfold wsum. cbn. lia. Qed.

Lemma wsum_succ {A} (w : A -> nat) l : wsum (fun x => 1 + w x) l = length l + wsum w l.
Proof. unfold wsum, list_sum. induction l as [|x l IH]; cbn; auto. cbn in IH. rewrite IH. lia. Qed.

Lemma wsum_upd {A} (w : A -> nat) (f : A -> A) l : forall n x, nth_error l n = Some x ->
  wsum w (upd_nth n f l) + w x = wsum w l + w (f x).
Proof.
  unfold wsum. induction l as [|y l IH]; intros [|n] x H; cbn in H |- *; try discriminate.
  - injection H as ->. lia.
  - specialize (IH n x H). unfold list_sum in *. lia.
Qed.

Lemma wsum_upd_same {A} (w : A -> nat) (f : A -> A) l n : (forall x, w (f x) = w x) -> wsum w (upd_nth n f l) = wsum w l.
Proof.
  intros H. destruct (nth_error l n) as [x|] eqn:E.
  - assert (X := wsum_upd w f l n x E). rewrite H in X. lia.
  - rewrite upd_nth_none; auto.
Qed.

Lemma wsum_map {A} (w : A -> nat) (f : A -> A) l : (forall x, w (f x) = w x) -> wsum w (map f l) = wsum w l.
Proof. intros H. unfold wsum. rewrite map_map. f_equal. apply map_ext. auto. Qed.

Lemma wsum_le {A} (w w' : A -> nat) l : (forall x, w x <= w' x) -> wsum w l <= wsum w' l.
Proof. intros H. unfold wsum. induction l as [|x l IH]; cbn; auto. specialize (H x). unfold list_sum in *. lia. Qed.

(* the number of request slots allocated by the operations is at most the number of slots *)
Definition nslots (o : oprec) : nat := length (o_slots o).
Definition invN (s : state) : Prop := wsum nslots (ops s) <= length (slots s).

Lemma mono_length s s' : slots_mono s s' -> length (slots s) <= length (slots s').
Proof.
  intros M. destruct (length (slots s)) as [|n] eqn:E; [lia|].
  destruct (nth_error (slots s) n) as [sl|] eqn:Es.
  - destruct (M n sl Es) as (sl' & Hs' & _). apply slot_at_lt in Hs'. lia.
  - apply nth_error_None in Es. lia.
Qed.

Lemma otrans_nslots s o o' : otrans s o o' -> nslots o' = nslots o \/ (nslots o' = S (nslots o) /\ In (length (slots s)) (o_slots o')).
Proof.
  intros Tr. destruct (otrans_keeps s o o' Tr) as (_ & _ & _ & [E|(_ & E)]); unfold nslots; rewrite E; auto.
  right. rewrite app_length. cbn. split; [lia|]. apply in_or_app. right. left. auto.
Qed.

Lemma invN_upd s s' n o o' : inv1 s' -> slots_mono s s' -> op_at s n = Some o -> otrans s o o' ->
  ops s' = upd_nth n (fun _ => o') (ops s) -> invN s -> invN s'.
Proof.
  intros I' M Ho Tr Eo N. unfold invN in *. rewrite Eo.
  assert (X := wsum_upd nslots (fun _ => o') (ops s) n o Ho). assert (L := mono_length s s' M).
  destruct (otrans_nslots s o o' Tr) as [E|(E & Hin)]; [lia|].
  assert (Ho' : op_at s' n = Some o') by (unfold op_at; rewrite Eo; apply (nth_error_upd_nth_eq n (fun _ => o') (ops s) o Ho)).
  destruct (i_own _ (proj1 I') _ _ _ Ho' Hin) as (sl & Hs & _). apply slot_at_lt in Hs. lia.
Qed.

Lemma invN_step_raw s l s' : inv1 s -> invN s -> step_raw s l = Some s' -> invN s'.
Proof.
  intros I N E. assert (I' : inv1 s') by (eapply inv1_step_raw; eauto; apply I).
  assert (M := step_raw_mono s l s' I E). assert (L := mono_length s s' M).
  assert (Ops := step_raw_ops s l s' I E).
  assert (Hsame : ops s' = ops s -> invN s') by (intros Eo; unfold invN in *; rewrite Eo; lia).
  destruct l; cbn [ops_shape] in Ops; auto.
  - destruct Ops as (_ & _ & o' & Eo & (_ & _ & Es & _)). unfold invN in *.
    assert (X : nslots o' = 0) by (unfold nslots; rewrite Es; reflexivity). rewrite Eo, wsum_app, wsum_one, X. lia.
  - destruct Ops as [Eo|(o & Ho & Eo)]; auto. unfold invN in *. rewrite Eo.
    assert (X := wsum_upd nslots (fun _ => o <| o_ctx := Some w |>) (ops s) n o Ho).
    cbv beta in X. change (nslots (o <| o_ctx := Some w |>)) with (nslots o) in X. lia.
  - destruct Ops as (o & o' & Ho & _ & Tr & Eo). eapply invN_upd; eauto.
  - destruct Ops as (o & o' & Ho & _ & Tr & Eo). eapply invN_upd; eauto.
  - destruct Ops as (o & o' & Ho & _ & Tr & Eo). eapply invN_upd; eauto.
Qed.

Lemma invN_settle1 s s' : inv1 s -> invN s -> settle1 s = Some s' -> invN s'.
Proof.
  intros I N E. assert (I' : inv1 s') by (eapply inv1_settle1; eauto).
  assert (M := settle1_mono s s' I E). assert (L := mono_length s s' M).
  destruct (settle1_ops s s' I E) as [Eo|(n & o & o' & Ho & _ & Tr & Eo)].
  - unfold invN in *. rewrite Eo. lia.
  - eapply invN_upd; eauto.
Qed.

Theorem invN_reach c s : reach c s -> inv1 s /\ invN s.
Proof.
  apply (reach_inv (fun s => inv1 s /\ invN s)).
  - split; [apply inv1_init|]. unfold invN. cbn. lia.
  - intros s0 l s' (I & N) Cr E. split; [eapply inv1_step_raw|eapply invN_step_raw]; eauto.
  - intros s0 s' (I & N) E. split; [eapply inv1_settle1|eapply invN_settle1]; eauto.
Qed.

(* what is left for settle to do *)
Definition opw (o : oprec) : nat :=
  match o_pc o with PWait k => 1 + (length (o_slots o) - k) | PCloseWait _ => 1 | _ => 0 end.
Definition smeasure (s : state) : nat :=
  (match rd s with RIdle => length (ch_in s) | _ => 0 end) + wsum opw (ops s).

Lemma smeasure_reader s s2 f q : rd s = RIdle -> ch_in s = f :: q -> ch_in s2 = q -> ops s2 = ops s ->
  smeasure s2 < smeasure s.
Proof. unfold smeasure. intros E1 E2 E3 E4. rewrite E1, E2, E3, E4. cbn [length]. destruct (rd s2); lia. Qed.

Lemma settle1_decreases s s' : inv1 s -> settle1 s = Some s' -> smeasure s' < smeasure s.
Proof.
  intros I E.
  destruct (settle1_inv s s' (i_crash _ (proj1 I)) E) as [(b & ms & q & X & Y & ->)|[(q & X & Y & ->)|[(c & q & X & Y & ->)|(n & o & Ho & Hr & ->)]]];
    try (eapply smeasure_reader; eauto; reflexivity).
  unfold smeasure.
  assert (Hd : forall s2 o', rd s2 = rd s -> ch_in s2 = ch_in s -> ops s2 = upd_nth n (fun _ => o') (ops s) -> opw o' < opw o ->
            (match rd s2 with RIdle => length (ch_in s2) | _ => 0 end) + wsum opw (ops s2)
            < (match rd s with RIdle => length (ch_in s) | _ => 0 end) + wsum opw (ops s)).
  { intros s2 o' E1 E2 E3 Hlt. rewrite E1, E2, E3. assert (X := wsum_upd opw (fun _ => o') (ops s) n o Ho). lia. }
  destruct (op_advance_cases n o s Hr) as [(k & i & Hpc & Hn & _ & ->)|[(k & Hpc & Hn & ->)|(b & Hpc & Hw & ->)]].
  - destruct (env_settle_slot i s) as (_ & A2 & A3 & A4). eapply (Hd _ (o <| o_pc := PWait (S k) |>)); cbn; auto.
    + rewrite A4. eapply upd_nth_const'; [exact Ho|reflexivity].
    + unfold opw. cbn. rewrite Hpc. assert (k < length (o_slots o)) by (apply nth_error_Some; congruence). lia.
  - eapply (Hd _ (o <| o_pc := PDone |> <| o_ret := Some (result_of s o) |>)); cbn; auto.
    + eapply upd_nth_const'; [exact Ho|reflexivity].
    + unfold opw. cbn. rewrite Hpc. lia.
  - eapply (Hd _ (o <| o_pc := PDone |> <| o_ret := Some (close_ret s) |>)).
    + destruct b; [destruct (err s)|]; reflexivity.
    + destruct b; [destruct (err s)|]; reflexivity.
    + destruct b; [destruct (err s)|]; cbn; (eapply upd_nth_const'; [exact Ho|reflexivity]).
    + unfold opw. cbn. rewrite Hpc. lia.
Qed.

Lemma settle_fixpoint fuel : forall s, inv1 s -> smeasure s <= fuel -> settle1 (settle fuel s) = None.
Proof.
  induction fuel as [|f IH]; intros s I H; cbn.
  - destruct (settle1 s) as [s'|] eqn:E; auto. assert (X := settle1_decreases s s' I E). lia.
  - destruct (settle1 s) as [s'|] eqn:E; auto. apply IH; [eapply inv1_settle1; eauto|].
    assert (X := settle1_decreases s s' I E). lia.
Qed.

Lemma smeasure_le_fuel s : invN s -> smeasure s <= settle_fuel s.
Proof.
  unfold invN, smeasure, settle_fuel. intros N.
  assert (A : (match rd s with RIdle => length (ch_in s) | _ => 0 end) <= length (ch_in s)) by (destruct (rd s); lia).
  assert (B : wsum opw (ops s) <= wsum (fun o => 1 + nslots o) (ops s)).
  { apply wsum_le. intros o. unfold opw, nslots. destruct (o_pc o); lia. }
  assert (C : wsum (fun o => 1 + nslots o) (ops s) = length (ops s) + wsum nslots (ops s)).
  { apply wsum_succ. }
  lia.
Qed.

(* after every step of a reachable state all unhooked consequences have run: the fuel of [settle] suffices *)
Theorem settle_adequate c s l s' os : reach c s -> step s l = Some (s', os) -> settle1 s' = None.
Proof.
  intros R E. destruct (invN_reach c s R) as (I & N). unfold step in E. destruct (crash s); [discriminate|].
  destruct (step_raw s l) as [s1|] eqn:E1; [|discriminate].
  assert (Es : settle (settle_fuel s1) s1 = s') by congruence. rewrite <- Es.
  apply settle_fixpoint; [eapply inv1_step_raw; eauto; apply I|].
  apply smeasure_le_fuel. eapply invN_step_raw; eauto.
Qed.

(* every reachable state is settled *)
Corollary reach_settled c s : reach c s -> settle1 s = None.
Proof. intros R. destruct R as [|s0 l s' os R E]; [reflexivity|eapply settle_adequate; eauto]. Qed.

(* hence quiescence of a reachable state is just: nothing is parked at a scheduling point *)
Corollary reach_quiescent_iff c s : reach c s -> (quiescent s = true <-> enabled_rel s = []).
Proof.
  intros R. unfold quiescent. rewrite (reach_settled c s R), andb_true_r. unfold is_nil. destruct (enabled_rel s); split; auto; discriminate.
Qed.

Lemma settle_adequate_all c s : reach c s ->
  settle1 s = None
  /\ (quiescent s = true <-> enabled_rel s = [])
  /\ (forall l, In l (enabled_rel s) -> is_rel l = true /\ exists s' os, step s l = Some (s', os) /\ settle1 s' = None).
Proof.
  intros R. splits; [eapply reach_settled; eauto|eapply reach_quiescent_iff; eauto|].
  intros l Hin. destruct (enabled_rel_step s l (i_crash _ (proj1 (inv1_reach c s R))) Hin) as (Hl & s' & os & E).
  split; auto. exists s', os. split; auto. eapply settle_adequate; eauto.
Qed.

(* non-vacuity: a state (reached by a run from the initial state) with work for settle - the replies for a batch of two
   arrive in one delivery - is settled after the step: the caller took both values and returned *)
Example settle_adequate_nonvacuous :
  match run (init_of ex_cfg) (firstn 5 ex_trace_batch) with
  | Some (s, _) =>
      match step s (LRelDeliver 0) with
      | Some (s', os) => settle1 s' = None /\ os = [ORet 0 (RetBatch [([49%N], RRes [55%N]); ([50%N], RRes [56%N])])]
                         /\ In (LRelDeliver 0) (enabled_rel s)
      | None => False
      end
  | None => False
  end.
Proof. vm_compute. splits; auto. Qed.
