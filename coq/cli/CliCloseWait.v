(* CliCloseWait: Close returns only after the reader, every delivery and every callback
   handler have finished (C05).  Once some Close has returned the wait group is 0 and stays 0:
   the reader has exited, no delivery is outstanding, no callback handler is alive; and after
   that return the client never again uses the channel, starts or answers a callback or runs
   OnNotify (ordered form over the history). *)
From Coq Require Import List NArith ZArith Bool Arith Lia.
From RecordUpdate Require Import RecordUpdate.
From JV Require Import Bytes Msg CliModel CliLemmas CliInv CliRet CliProofs CliC05 CliCtx CliOps CliHist CliLive CliWg CliSend CliNoStop CliStep CliStop CliObs.
Import ListNotations.

Definition is_retclose (o : obs) : bool := match o with ORet _ (RetClose _) => true | _ => false end.
(* what must not happen once a Close has returned: a channel operation, a callback handler started or answered, OnNotify *)
Definition after_close_forbidden (o : obs) : bool :=
  match o with OSendReq _ _ _ | OSendRsp _ _ _ | OClose | OCbStart _ _ _ | OOnNotify _ _ => true | _ => false end.
Definition noforb (os : list obs) : bool := forallb (fun o => negb (after_close_forbidden o)) os.
Definition noretclose (os : list obs) : bool := forallb (fun o => negb (is_retclose o)) os.

Record invQ (s : state) : Prop := {
  q_state : existsb is_retclose (hist s) = true -> wg s = 0 /\ err s <> None;
  q_val : forall n r, In (ORet n (RetClose r)) (hist s) -> RetClose r = close_ret s;
  q_ord : forall h1 x h2, hist s = h1 ++ x :: h2 -> is_retclose x = true -> noforb h2 = true
}.

Lemma noretclose_ex os : noretclose os = true -> existsb is_retclose os = false.
Proof.
  unfold noretclose. induction os as [|o r IH]; cbn; auto. rewrite andb_true_iff. intros [H1 H2].
  apply negb_true_iff in H1. rewrite H1. auto.
Qed.

Lemma noretclose_in os x : noretclose os = true -> In x os -> is_retclose x = false.
Proof. unfold noretclose. rewrite forallb_forall. intros H Hin. apply negb_true_iff. auto. Qed.

Lemma in_retclose h n r : In (ORet n (RetClose r)) h -> existsb is_retclose h = true.
Proof. intros H. apply existsb_exists. eexists. split; [exact H|reflexivity]. Qed.

(* a step that returns no Close *)
Lemma invQ_quiet s s' os : hist s' = hist s ++ os -> noretclose os = true ->
  (existsb is_retclose (hist s) = true -> wg s' = 0 /\ err s' = err s /\ noforb os = true) -> invQ s -> invQ s'.
Proof.
  intros Eh N H [A B C]. constructor.
  - rewrite Eh, existsb_app, (noretclose_ex _ N), orb_false_r. intros X. destruct (H X) as (H1 & H2 & _). destruct (A X). split; congruence.
  - intros n r Hin. rewrite Eh in Hin. apply in_app_or in Hin. destruct Hin as [Hin|Hin].
    + destruct (H (in_retclose _ _ _ Hin)) as (_ & H2 & _). unfold close_ret. rewrite H2. apply (B _ _ Hin).
    + apply (noretclose_in _ _ N) in Hin. discriminate.
  - intros h1 x h2 E Hx. rewrite Eh in E. destruct (app_snoc_split _ _ _ _ _ E) as [(h2' & E1 & ->)|(o1 & _ & E2)].
    + assert (X : existsb is_retclose (hist s) = true).
      { rewrite E1, existsb_app. cbn. rewrite Hx. apply orb_true_r. }
      destruct (H X) as (_ & _ & H3). unfold noforb in *. rewrite forallb_app, (C _ _ _ E1 Hx), H3. reflexivity.
    + assert (Y : is_retclose x = false) by (apply (noretclose_in os); auto; rewrite E2; apply in_or_app; right; left; auto).
      congruence.
Qed.

(* the step in which a Close returns *)
Lemma invQ_close s s' pre n : hist s' = hist s ++ pre ++ [ORet n (close_ret s)] -> noretclose pre = true -> noforb pre = true ->
  wg s' = 0 -> err s' = err s -> err s <> None -> invQ s -> invQ s'.
Proof.
  intros Eh N F Hw He Hne [A B C]. constructor.
  - intros _. split; congruence.
  - intros m r Hin. rewrite Eh in Hin. unfold close_ret at 1. rewrite He. fold (close_ret s).
    apply in_app_or in Hin. destruct Hin as [Hin|Hin]; [apply (B _ _ Hin)|].
    apply in_app_or in Hin. destruct Hin as [Hin|[Hin|[]]].
    + apply (noretclose_in _ _ N) in Hin. discriminate.
    + injection Hin as _ Hin. unfold close_ret. rewrite Hin. reflexivity.
  - intros h1 x h2 E Hx. rewrite Eh in E. destruct (app_snoc_split _ _ _ _ _ E) as [(h2' & E1 & ->)|(o1 & _ & E2)].
    + unfold noforb in *. rewrite !forallb_app, (C _ _ _ E1 Hx), F. reflexivity.
    + destruct (app_snoc_split _ _ _ _ _ E2) as [(h3 & E3 & _)|(o2 & _ & E4)].
      * assert (Y : is_retclose x = false) by (apply (noretclose_in pre); auto; rewrite E3; apply in_or_app; right; left; auto).
        congruence.
      * destruct o2 as [|y o2]; cbn in E4; [injection E4 as _ <-; reflexivity|].
        injection E4 as _ E4. destruct o2; discriminate.
Qed.

Lemma invQ_init c : invQ (init_of c).
Proof.
  constructor; cbn.
  - discriminate.
  - intros n r [].
  - intros h1 x h2 E. destruct h1; discriminate.
Qed.

(* with an empty wait group nothing is left that could use the channel or run a handler *)
Lemma wg_zero s : invW s -> wg s = 0 ->
  rd s = RExited /\ cnt deliv_parked (delivs s) = 0 /\ cnt cb_alive (cbs s) = 0.
Proof.
  intros W H. assert (A := w_wg _ W). unfold rdc in A. destruct (rd s); splits; auto; lia.
Qed.

Lemma forallb_dobs_noretclose os : forallb dobs os = true -> noretclose os = true.
Proof.
  unfold noretclose. induction os as [|o r IH]; cbn; auto. rewrite andb_true_iff. intros [H1 H2].
  rewrite (IH H2), andb_true_r. destruct o; cbn in *; auto; discriminate.
Qed.

Lemma invQ_step_raw s l s' : inv1 s -> invW s -> invQ s -> step_raw s l = Some s' -> invQ s'.
Proof.
  intros I W Q E. destruct (step_raw_obs s l s' I E) as (os & Eh & Sh).
  assert (Hw := step_raw_wg s l s' I E).
  assert (He : forall c, err s = Some c -> err s' = err s).
  { intros c Hc. rewrite Hc. eapply step_raw_err; eauto. }
  apply (invQ_quiet s s' os Eh).
  - (* no transition labelled by the environment or a scheduling point returns a Close *)
    destruct l; cbn [raw_shape] in Sh.
    + destruct Sh as [->|[->| ->]]; reflexivity.
    + subst os; reflexivity.
    + subst os; reflexivity.
    + subst os; reflexivity.
    + subst os; reflexivity.
    + destruct Sh as [->| ->]; reflexivity.
    + destruct Sh as (o & _ & _ & Sh). destruct (err s); [subst os; reflexivity|]. destruct (send_fail s); subst os; reflexivity.
    + destruct Sh as (_ & Sh & _). apply forallb_dobs_noretclose; auto.
    + destruct Sh as [->|(sl & _ & _ & ->)]; reflexivity.
    + destruct Sh as (c & _ & ->). destruct (err s); reflexivity.
    + destruct Sh as (_ & ->). destruct (err s); reflexivity.
    + destruct Sh as (cb & o & _ & _ & ->). destruct (err s); reflexivity.
  - intros X. destruct (q_state _ Q X) as (Hz & Hne). destruct (wg_zero s W Hz) as (Hrd & Hd & Hc).
    destruct (err s) as [c0|] eqn:Ee; [|contradiction]. specialize (He c0 eq_refl).
    assert (Hgood : wg_label l = false -> noforb os = true -> wg s' = 0 /\ err s' = Some c0 /\ noforb os = true).
    { intros Hl F. splits; auto. rewrite Hw; auto. }
    destruct l; cbn [raw_shape] in Sh.
    + apply Hgood; [reflexivity|]. destruct Sh as [->|[->| ->]]; reflexivity.
    + apply Hgood; [reflexivity|]. subst os; reflexivity.
    + apply Hgood; [reflexivity|]. subst os; reflexivity.
    + apply Hgood; [reflexivity|]. subst os; reflexivity.
    + apply Hgood; [reflexivity|]. subst os; reflexivity.
    + apply Hgood; [reflexivity|]. destruct Sh as [->| ->]; reflexivity.
    + apply Hgood; [reflexivity|]. destruct Sh as (o & _ & _ & Sh). rewrite Ee in Sh. subst os. reflexivity.
    + destruct Sh as ((d & Hd1 & Hd2) & _). exfalso. apply (cnt_pos deliv_parked _ _ _ Hd1); auto. unfold deliv_parked. rewrite Hd2. reflexivity.
    + apply Hgood; [reflexivity|]. destruct Sh as [->|(sl & _ & _ & ->)]; reflexivity.
    + destruct Sh as (c & Hc' & _). congruence.
    + apply Hgood; [reflexivity|]. destruct Sh as (_ & Sh). rewrite Ee in Sh. subst os. reflexivity.
    + destruct Sh as (cb & o & Hcb & Hst & _). exfalso. apply (cnt_pos cb_alive _ _ _ Hcb); auto. unfold cb_alive. rewrite Hst. reflexivity.
  - exact Q.
Qed.

Lemma settle1_wg s s' : inv1 s -> settle1 s = Some s' -> rd s <> RIdle -> wg s' = wg s.
Proof.
  intros I E Hrd.
  destruct (settle1_inv s s' (i_crash _ (proj1 I)) E) as [(b & ms & q & X & _)|[(q & X & _)|[(c & q & X & _)|(n & o & Ho & Hr & ->)]]];
    try contradiction.
  destruct (op_advance_cases n o s Hr) as [(k & i & Hpc & Hn & _ & ->)|[(k & Hpc & Hn & ->)|(b & Hpc & Hw & ->)]]; try reflexivity.
  - cbn. destruct (settle_slot_w i s I) as (A & _). exact A.
  - destruct b; [destruct (err s)|]; reflexivity.
Qed.

Lemma result_of_not_close s o n : o_kind o <> KClose -> is_retclose (ORet n (result_of s o)) = false.
Proof.
  intros H. unfold result_of. destruct (o_kind o); try congruence; try reflexivity.
  destruct (o_slots o) as [|i r]; [|destruct (slot_val s i)]; reflexivity.
Qed.

Lemma invQ_settle1 s s' : inv1 s -> invW s -> invP s -> invQ s -> settle1 s = Some s' -> invQ s'.
Proof.
  intros I W P Q E. destruct (settle1_obs s s' I E) as (os & Eh & Sh).
  assert (He := settle1_err s s' I E).
  assert (Hq : noretclose os = true -> noforb os = true -> invQ s').
  { intros N F. apply (invQ_quiet s s' os Eh N); [|exact Q]. intros X. destruct (q_state _ Q X) as (Hz & Hne).
    destruct (wg_zero s W Hz) as (Hrd & _). splits; auto. rewrite (settle1_wg s s' I E); auto. congruence. }
  destruct Sh as [->|[(n & o & k & Ho & Hpc & Hn & ->)|(n & o & b & Ho & Hpc & Hz & ->)]].
  - apply Hq; reflexivity.
  - destruct (P n o Ho) as (_ & Pk & _). unfold pc_kind in Pk. rewrite Hpc in Pk.
    apply Hq; [unfold noretclose; cbn [forallb]; rewrite (result_of_not_close s o n Pk); reflexivity|reflexivity].
  - destruct (wg_zero s W Hz) as (Hrd & _).
    assert (Hne : err s <> None) by (eapply (w_close _ W); eauto).
    eapply (invQ_close s s' _ n); eauto.
    + destruct b; [destruct (err s)|]; reflexivity.
    + destruct b; [destruct (err s)|]; reflexivity.
    + rewrite (settle1_wg s s' I E); auto. congruence.
Qed.

Theorem invQ_reach c s : reach c s -> inv1 s /\ invW s /\ invP s /\ invQ s.
Proof.
  apply (reach_inv (fun s => inv1 s /\ invW s /\ invP s /\ invQ s)).
  - splits; [apply inv1_init|apply invW_init|apply invP_init|apply invQ_init].
  - intros s0 l s' (I & W & P & Q) Cr E.
    splits; [eapply inv1_step_raw|eapply invW_step_raw|eapply invP_step_raw|eapply invQ_step_raw]; eauto.
  - intros s0 s' (I & W & P & Q) E.
    splits; [eapply inv1_settle1|eapply invW_settle1|eapply invP_settle1|eapply invQ_settle1]; eauto.
Qed.

(** * C05: Close returns only after all callback handlers (and the reader and every delivery) have returned *)
Lemma close_waits c tr s : traces_to c tr s ->
  (* wait-group accounting in every state of every trace: reader + parked deliveries + live callback handlers *)
  wg s = rdc s + cnt deliv_parked (delivs s) + cnt cb_alive (cbs s)
  (* when some Close has returned: nothing is left *)
  /\ (forall n r, In (ORet n (RetClose r)) (hist s) ->
        wg s = 0 /\ rd s = RExited /\ (forall d, In d (delivs s) -> d_st d = DDone) /\ (forall cb, In cb (cbs s) -> cb_st cb = CbDone)
        /\ err s <> None /\ RetClose r = close_ret s)
  (* ordered form: after the return of a Close no channel operation, no callback start or reply, no OnNotify *)
  /\ (forall h1 n r h2, hist s = h1 ++ ORet n (RetClose r) :: h2 -> forall o, In o h2 -> after_close_forbidden o = false).
Proof.
  intros T. destruct (invQ_reach c s (traces_reach _ _ _ T)) as (I & W & P & [A B C]). splits.
  - apply (w_wg _ W).
  - intros n r Hin. destruct (A (in_retclose _ _ _ Hin)) as (Hz & Hne). destruct (wg_zero s W Hz) as (Hrd & Hd & Hc). splits; auto.
    + intros d Hin'. assert (X := cnt_zero_in _ _ _ Hd Hin'). unfold deliv_parked in X. destruct (d_st d); [discriminate|reflexivity].
    + intros cb Hin'. assert (X := cnt_zero_in _ _ _ Hc Hin'). unfold cb_alive in X. destruct (cb_st cb); try discriminate. reflexivity.
    + apply (B _ _ Hin).
  - intros h1 n r h2 E o Hin. assert (X := C _ _ _ E eq_refl). unfold noforb in X. rewrite forallb_forall in X.
    apply negb_true_iff. auto.
Qed.

(* non-vacuity: a callback handler is running when Close is issued; it is cancelled, replies (after stop: nothing is
   sent), the reader exits, and only then Close returns *)
Definition ex_push : jmsg :=
  {| j_id := [55%N]; j_method := [112%N]; j_params := [91%N; 93%N]; j_error := None; j_result := []; j_err := None |}.
Definition ex_trace_cb : list label :=
  [LFeed (FMsg (InMsgs false [ex_push])); LRelDeliver 0; LOp 0 KClose []; LRelClose 0; LRelRecvErr; LRelCbReply 0].

Example close_waits_nonvacuous :
  exists s, traces_to ex_cfg ex_trace_cb s
    /\ hist s = [OCbStart [55%N] [112%N] [91%N; 93%N]; OClose; OOnStop SCClosed; ORet 0 (RetClose None)]
    /\ wg s = 0 /\ length (cbs s) = 1.
Proof.
  destruct (run (init_of ex_cfg) ex_trace_cb) as [[s oss]|] eqn:E; [|revert E; vm_compute; discriminate].
  exists s. split; [exists oss; exact E|]. revert E. vm_compute. intros [= <- _]. splits; reflexivity.
Qed.

(* while the handler has not replied the Close is still waiting *)
Example close_waits_blocked_nonvacuous :
  exists s o, traces_to ex_cfg [LFeed (FMsg (InMsgs false [ex_push])); LRelDeliver 0; LOp 0 KClose []; LRelClose 0; LRelRecvErr] s
    /\ op_at s 0 = Some o /\ o_pc o = PCloseWait true /\ wg s = 1 /\ ret_count 0 (hist s) = 0.
Proof.
  match goal with |- exists s o, traces_to ?c ?tr s /\ _ => destruct (run (init_of c) tr) as [[s oss]|] eqn:E; [|revert E; vm_compute; discriminate] end.
  exists s. revert E. vm_compute. intros E. injection E as <- <-.
  eexists. split; [eexists; reflexivity|]. vm_compute. splits; auto.
Qed.
