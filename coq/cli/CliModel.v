(* CliModel: executable transition model of jrpc2.Client (client.go, base.go Response.wait).

   Environment labels are what API callers, their contexts, the peer, the transport and the
   callback handlers do.  "Release" labels (LRelXxx) correspond to a goroutine passing one
   of the verif scheduling points of client.go (cli.req, cli.send, cli.deliver, cli.watch,
   cli.recverr, cli.close, cli.cbreply), executing the critical section that follows under
   c.mu and running on until it parks at its next scheduling point, blocks or exits;
   [settle] then runs the consequences that happen without passing a scheduling point (the
   reader picking up the next record, a caller blocked in Response.wait receiving the value
   written to its slot, Close returning from done.Wait).  Every micro step appends the
   observations it produces to the ghost history [hist]; [step] returns the observations of
   the window, which the correspondence check compares with the real client's log.

   Ghost/history fields (never read by the transitions that model Go code): [hist],
   [v_src] of a slot value, [overwrites].  Slots (Response objects) are created at id
   allocation and never deleted; [pending] is kept as the Go map (insert overwrites). *)
From Coq Require Import List NArith ZArith Bool Arith Lia Decimal DecimalNat.
From RecordUpdate Require Import RecordUpdate.
From JV Require Import Bytes Msg.
Import ListNotations.

(** * Data *)
Inductive why := WCancel | WDeadline.
(* errClientStopped | io.EOF | channel closing error | other transport error | errInvalidRequest (record not JSON) *)
Inductive stopcause := SCClosed | SCEOF | SCClosing | SCOther | SCInvalid.
Inductive feed := FMsg (i : inbound) | FErr (c : stopcause).

Record spec := mkSpec { sp_method : bytes; sp_params : bytes; sp_notify : bool; sp_bad : bool }.
Inductive opkind := KCall | KBatch | KNotify | KClose.

(* who wrote a slot: the delivery of member k of inbound record j, or the slot's context watcher *)
Inductive src := SPeer (j k : nat) | SWatch.
Record val := mkVal { v_id : bytes; v_err : option werr; v_res : bytes; v_src : src }.

Inductive wst := WNone | WBlocked | WParked | WDone.
Record slot := mkSlot {
  sl_op : nat;             (* operation that allocated it *)
  sl_id : nat;             (* value of the id counter at allocation; the wire id is its decimal text *)
  sl_reg : bool;           (* has been inserted into pending *)
  sl_buf : option val;     (* value written to the 1-buffered channel *)
  sl_settled : bool;       (* the first wait() took the value and closed the channel *)
  sl_pctx : option why;    (* the slot's context is done, with this cause *)
  sl_watch : wst           (* its waitComplete goroutine *)
}.
#[export] Instance eta_slot : Settable _ := settable! mkSlot <sl_op; sl_id; sl_reg; sl_buf; sl_settled; sl_pctx; sl_watch>.

Inductive fail := EBadParams | EEmptyBatch | EStopped (c : stopcause) | ESendFail.
Inductive res1 := RRes (raw : bytes) | RErr (e : werr) | RCtx (w : why).
Inductive ret :=
| RetFail (f : fail) | RetCall (r : res1) | RetBatch (rs : list (bytes * res1)) | RetNotify
| RetClose (c : option stopcause).

Inductive oppc :=
| PReq (k : nat)           (* parked at cli.req for spec k *)
| PSend                    (* parked at cli.send *)
| PWait (k : nat)          (* blocked in wait() on its k-th response *)
| PClose                   (* parked at cli.close *)
| PCloseWait (stopper : bool)  (* in done.Wait(); stopper: its stopLocked recorded the cause, it owes OnStop *)
| PDone.
Record oprec := mkOp {
  o_kind : opkind; o_specs : list spec;
  o_slots : list nat;      (* slots allocated so far, one per non-notification spec, in spec order *)
  o_pc : oppc;
  o_ctx : option why;      (* the caller's context has ended *)
  o_ret : option ret
}.
#[export] Instance eta_op : Settable _ := settable! mkOp <o_kind; o_specs; o_slots; o_pc; o_ctx; o_ret>.

Inductive dst := DParked | DDone.
Record deliv := mkDeliv { d_msgs : list jmsg; d_st : dst }.
#[export] Instance eta_deliv : Settable _ := settable! mkDeliv <d_msgs; d_st>.

Inductive cbout := CbRes (raw : bytes) | CbErr (code : Z) (msg : bytes).
Inductive cbst := CbRunning | CbAtReply (o : cbout) | CbDone.
Record cbrec := mkCb { cb_id : bytes; cb_method : bytes; cb_params : bytes; cb_st : cbst }.
#[export] Instance eta_cb : Settable _ := settable! mkCb <cb_id; cb_method; cb_params; cb_st>.

Inductive rdpc := RIdle | RHold (c : stopcause) | RExited.
Inductive crashkind := CrSlotFull | CrSendClosed | CrIdMismatch | CrNoSlot.

Inductive obs :=
| OSendReq (ok batch : bool) (ms : list (bytes * bytes * bytes))   (* id, method, params per member *)
| OSendRsp (ok : bool) (id : bytes) (o : cbout)
| OClose
| ORet (n : nat) (r : ret)
| OOnCancel (id : bytes) (e : option werr)
| OOnStop (c : stopcause)
| OOnNotify (method params : bytes)
| OCbStart (id method params : bytes)
| OCrash (k : crashkind).

Record state := mkState {
  c_unblock : bool;        (* the channel's Close makes a blocked Recv return a closing error *)
  c_oncancel : bool; c_onnotify : bool; c_oncallback : bool;   (* which hooks are configured *)
  ch_in : list feed;
  send_fail : bool;        (* the transport currently fails every Send *)
  err : option stopcause;  (* c.err; c.ch == nil iff it is set *)
  closes : nat;
  rd : rdpc;
  next_id : nat;
  pending : list (bytes * nat);
  slots : list slot; ops : list oprec; delivs : list deliv; cbs : list cbrec;
  wg : nat;                (* c.done *)
  overwrites : nat;        (* ghost: registrations that replaced an existing pending entry *)
  hist : list obs;         (* ghost: every observation so far *)
  crash : option crashkind
}.
#[export] Instance eta_state : Settable _ :=
  settable! mkState <c_unblock; c_oncancel; c_onnotify; c_oncallback; ch_in; send_fail; err; closes; rd; next_id;
                     pending; slots; ops; delivs; cbs; wg; overwrites; hist; crash>.

Definition init (unblock oncancel onnotify oncallback : bool) : state :=
  mkState unblock oncancel onnotify oncallback [] false None 0 RIdle 1 [] [] [] [] [] 1 0 [] None.

Inductive label :=
(* environment *)
| LOp (n : nat) (k : opkind) (specs : list spec)
| LFeed (f : feed)
| LSendFault (b : bool)
| LCtxEnd (n : nat) (w : why)
| LCbGate (params : bytes) (o : cbout)
(* scheduling points *)
| LRelReq (n : nat) | LRelSend (n : nat) | LRelDeliver (j : nat) | LRelWatch (i : nat)
| LRelRecvErr | LRelClose (n : nat) | LRelCbReply (c : nat).

(** * Helpers *)
Fixpoint upd_nth {A} (n : nat) (f : A -> A) (l : list A) : list A :=
  match l, n with
  | [], _ => []
  | x :: r, O => f x :: r
  | x :: r, S n' => x :: upd_nth n' f r
  end.

Fixpoint assoc {A} (k : bytes) (m : list (bytes * A)) : option A :=
  match m with [] => None | (k', v) :: r => if beq k k' then Some v else assoc k r end.
Fixpoint assoc_del {A} (k : bytes) (m : list (bytes * A)) : list (bytes * A) :=
  match m with [] => [] | (k', v) :: r => if beq k k' then assoc_del k r else (k', v) :: assoc_del k r end.

Definition is_nil {A} (l : list A) : bool := match l with [] => true | _ => false end.
Definition is_some {A} (o : option A) : bool := match o with Some _ => true | None => false end.

(* strconv.FormatInt(n, 10) through the standard library's decimal representation *)
Fixpoint uint_bytes (u : Decimal.uint) : bytes :=
  match u with
  | Nil => []
  | D0 u => 48 :: uint_bytes u | D1 u => 49 :: uint_bytes u | D2 u => 50 :: uint_bytes u
  | D3 u => 51 :: uint_bytes u | D4 u => 52 :: uint_bytes u | D5 u => 53 :: uint_bytes u
  | D6 u => 54 :: uint_bytes u | D7 u => 55 :: uint_bytes u | D8 u => 56 :: uint_bytes u
  | D9 u => 57 :: uint_bytes u
  end%N.
Definition id_text (n : nat) : bytes := uint_bytes (Nat.to_uint n).

Definition s_ctx_canceled : bytes := [99;111;110;116;101;120;116;32;99;97;110;99;101;108;101;100]%N.   (* context canceled *)
Definition s_ctx_deadline : bytes :=
  [99;111;110;116;101;120;116;32;100;101;97;100;108;105;110;101;32;101;120;99;101;101;100;101;100]%N. (* context deadline exceeded *)
(* Error() text of the harness transport error and of errInvalidRequest *)
Definition s_other : bytes :=
  [102;99;104;97;110;58;32;116;114;97;110;115;112;111;114;116;32;102;97;105;108;117;114;101]%N.       (* fchan: transport failure *)
Definition s_invalid : bytes :=
  [91;45;51;50;55;48;48;93;32;105;110;118;97;108;105;100;32;114;101;113;117;101;115;116;32;118;97;108;117;101]%N. (* [-32700] invalid request value *)

Definition uninteresting (c : stopcause) : bool :=
  match c with SCClosed | SCEOF | SCClosing => true | SCOther | SCInvalid => false end.
Definition cause_msg (c : stopcause) : bytes := match c with SCInvalid => s_invalid | _ => s_other end.

Definition ctx_werr (w : option why) : werr :=
  match w with
  | Some WDeadline => {| we_code := DeadlineExceeded; we_msg := s_ctx_deadline; we_data := [] |}
  | _ => {| we_code := Cancelled; we_msg := s_ctx_canceled; we_data := [] |}
  end.

(* the error a watcher writes (client.go waitComplete) *)
Definition watch_werr (e : option stopcause) (pctx : option why) : werr :=
  match e with
  | Some c => if uninteresting c then ctx_werr pctx
              else {| we_code := InternalError; we_msg := cause_msg c; we_data := [] |}
  | None => ctx_werr pctx
  end.

(* base.go filterError applied by Call; Batch returns the error object as it is *)
Definition batch_res (v : val) : res1 := match v_err v with Some e => RErr e | None => RRes (v_res v) end.
Definition call_res (v : val) : res1 :=
  match v_err v with
  | Some e => if (we_code e =? Cancelled)%Z then RCtx WCancel
              else if (we_code e =? DeadlineExceeded)%Z then RCtx WDeadline else RErr e
  | None => RRes (v_res v)
  end.

(* the value deliverLocked writes for a reply-shaped member *)
Definition val_of_member (j k : nat) (m : jmsg) : val :=
  match j_err m with
  | Some e => mkVal (j_id m) (Some e) [] (SPeer j k)
  | None => mkVal (j_id m) (j_error m) (j_result m) (SPeer j k)
  end.

Definition slot_at (s : state) (i : nat) : option slot := nth_error (slots s) i.
Definition op_at (s : state) (n : nat) : option oprec := nth_error (ops s) n.
Definition set_slot (i : nat) (f : slot -> slot) (s : state) : state := s <| slots ::= upd_nth i f |>.
Definition set_op (n : nat) (f : oprec -> oprec) (s : state) : state := s <| ops ::= upd_nth n f |>.
Definition emit (os : list obs) (s : state) : state := s <| hist ::= fun h => h ++ os |>.

(* where a caller goroutine stops next while preparing its requests (Call/Batch/Notify before send):
   marshalParams of a bad spec fails, a notification needs no id, a request parks at cli.req *)
Fixpoint scan (l : list spec) (k : nat) : option oppc :=
  match l with
  | [] => Some PSend
  | sp :: r => if sp_bad sp then None else if sp_notify sp then scan r (S k) else Some (PReq k)
  end.

Definition specs_ok (k : opkind) (specs : list spec) : bool :=
  match k, specs with
  | KCall, [sp] => negb (sp_notify sp)
  | KNotify, [sp] => sp_notify sp
  | KBatch, _ => true
  | KClose, [] => true
  | _, _ => false
  end.

(* the context of a slot ends: the watcher blocked on it wakes and reaches cli.watch *)
Definition cancel_slot (w : why) (sl : slot) : slot :=
  match sl_pctx sl with
  | Some _ => sl
  | None => sl <| sl_pctx := Some w |> <| sl_watch := match sl_watch sl with WBlocked => WParked | x => x end |>
  end.

(* p.ch <- v: the channel has room for exactly one value and is closed by the first waiter *)
Definition write_slot (i : nat) (v : val) (s : state) : state :=
  match slot_at s i with
  | Some sl =>
      match sl_buf sl with
      | None => set_slot i (fun sl => sl <| sl_buf := Some v |>) s
      | Some _ => let k := if sl_settled sl then CrSendClosed else CrSlotFull in
                  emit [OCrash k] (s <| crash := Some k |>)
      end
  | None => emit [OCrash CrNoSlot] (s <| crash := Some CrNoSlot |>)
  end.

(* the first wait() on slot i that finds a value: settle, close, cancel the slot context, check the id *)
Definition settle_slot (i : nat) (s : state) : state :=
  match slot_at s i with
  | Some sl =>
      match sl_buf sl with
      | Some v =>
          if sl_settled sl then s
          else
            let s1 := set_slot i (fun sl => cancel_slot WCancel (sl <| sl_settled := true |>)) s in
            if beq (fix_id (v_id v)) (id_text (sl_id sl)) then s1
            else emit [OCrash CrIdMismatch] (s1 <| crash := Some CrIdMismatch |>)
      | None => s
      end
  | None => s
  end.

(** * stopLocked *)
Definition stop_locked (c : stopcause) (s : state) : state * bool :=
  match err s with
  | Some _ => (s, false)
  | None =>
      let s1 := emit [OClose] (s <| closes ::= S |>) in
      (* cbcancel: running callback handlers return with the context's error *)
      let s2 := s1 <| cbs ::= map (fun c => match cb_st c with
                                            | CbRunning => c <| cb_st := CbAtReply (CbErr Cancelled s_ctx_canceled) |>
                                            | _ => c end) |> in
      (* p.cancel() for every pending request *)
      let s3 := fold_left (fun st p => set_slot (snd p) (cancel_slot WCancel) st) (pending s2) s2 in
      let s4 := s3 <| err := Some c |> in
      (if c_unblock s4 then s4 <| ch_in ::= fun q => q ++ [FErr SCClosing] |> else s4, true)
  end.

(** * deliverLocked *)
Definition deliver_member (j k : nat) (m : jmsg) (s : state) : state :=
  if is_req_or_notif m then
    if is_notification m then
      if c_onnotify s then emit [OOnNotify (j_method m) (j_params m)] s else s
    else if negb (c_oncallback s) then s
    else if is_some (err s) then s
    else emit [OCbStart (j_id m) (j_method m) (j_params m)]
              (s <| cbs ::= fun l => l ++ [mkCb (j_id m) (j_method m) (j_params m) CbRunning] |> <| wg ::= S |>)
  else
    let id := fix_id (j_id m) in
    match assoc id (pending s) with
    | None => s
    | Some i => write_slot i (val_of_member j k m) (s <| pending ::= assoc_del id |>)
    end.

Fixpoint deliver_all (j k : nat) (ms : list jmsg) (s : state) : state :=
  match ms with
  | [] => s
  | m :: r => match crash s with
              | Some _ => s
              | None => deliver_all j (S k) r (deliver_member j k m s)
              end
  end.

(** * send *)
Fixpoint req_members (specs : list spec) (sls : list nat) (s : state) : list (bytes * bytes * bytes) :=
  match specs with
  | [] => []
  | sp :: r =>
      if sp_notify sp then ([], sp_method sp, sp_params sp) :: req_members r sls s
      else match sls with
           | i :: sls' =>
               (match slot_at s i with Some sl => id_text (sl_id sl) | None => [] end, sp_method sp, sp_params sp)
                 :: req_members r sls' s
           | [] => ([], sp_method sp, sp_params sp) :: req_members r [] s
           end
  end.

(* c.pending[p.id] = p; go c.waitComplete(pctx, p.id, p) *)
Definition register (ctx : option why) (i : nat) (s : state) : state :=
  match slot_at s i with
  | Some sl =>
      let key := id_text (sl_id sl) in
      let s1 := if is_some (assoc key (pending s)) then s <| overwrites ::= S |> else s in
      set_slot i (fun sl => sl <| sl_reg := true |> <| sl_pctx := ctx |>
                               <| sl_watch := match ctx with Some _ => WParked | None => WBlocked end |>)
               (s1 <| pending ::= fun p => (key, i) :: assoc_del key p |>)
  | None => s
  end.

(** * what a completed operation returns *)
Definition slot_val (s : state) (i : nat) : option val :=
  match slot_at s i with Some sl => sl_buf sl | None => None end.
Definition slot_text (s : state) (i : nat) : bytes :=
  match slot_at s i with Some sl => id_text (sl_id sl) | None => [] end.

Fixpoint batch_results (s : state) (sls : list nat) : list (bytes * res1) :=
  match sls with
  | [] => []
  | i :: r => match slot_val s i with
              | Some v => (slot_text s i, batch_res v) :: batch_results s r
              | None => batch_results s r
              end
  end.

Definition result_of (s : state) (o : oprec) : ret :=
  match o_kind o with
  | KCall => match o_slots o with
             | i :: _ => match slot_val s i with Some v => RetCall (call_res v) | None => RetFail ESendFail end
             | [] => RetFail ESendFail
             end
  | KBatch => RetBatch (batch_results s (o_slots o))
  | KNotify => RetNotify
  | KClose => RetClose None
  end.

Definition finish (n : nat) (r : ret) (s : state) : state :=
  emit [ORet n r] (set_op n (fun o => o <| o_pc := PDone |> <| o_ret := Some r |>) s).

(** * unhooked consequences *)
Fixpoint find_idx {A} (p : A -> bool) (i : nat) (l : list A) : option nat :=
  match l with [] => None | x :: r => if p x then Some i else find_idx p (S i) r end.

(* a caller in wait() whose current slot holds a value, or that has no slot left to wait for *)
Definition op_ready (s : state) (o : oprec) : bool :=
  match o_pc o with
  | PWait k => match nth_error (o_slots o) k with
               | Some i => is_some (slot_val s i)
               | None => true
               end
  | PCloseWait _ => wg s =? 0
  | _ => false
  end.

Definition op_advance (n : nat) (o : oprec) (s : state) : state :=
  match o_pc o with
  | PWait k =>
      match nth_error (o_slots o) k with
      | Some i => set_op n (fun o => o <| o_pc := PWait (S k) |>) (settle_slot i s)
      | None => finish n (result_of s o) s
      end
  | PCloseWait stopper =>
      let s1 := if stopper then match err s with Some c => emit [OOnStop c] s | None => s end else s in
      finish n (RetClose (match err s with Some c => if uninteresting c then None else Some c | None => None end)) s1
  | _ => s
  end.

Definition settle1 (s : state) : option state :=
  match crash s with
  | Some _ => None
  | None =>
  match rd s, ch_in s with
  | RIdle, FMsg (InMsgs _ ms) :: q =>
      Some (s <| ch_in := q |> <| delivs ::= fun l => l ++ [mkDeliv ms DParked] |> <| wg ::= S |>)
  | RIdle, FMsg InBad :: q => Some (s <| ch_in := q |> <| rd := RHold SCInvalid |>)
  | RIdle, FErr c :: q => Some (s <| ch_in := q |> <| rd := RHold c |>)
  | _, _ =>
      match find_idx (op_ready s) 0 (ops s) with
      | Some n => match op_at s n with Some o => Some (op_advance n o s) | None => None end
      | None => None
      end
  end
  end.

Fixpoint settle (fuel : nat) (s : state) : state :=
  match fuel with
  | O => s
  | S f => match settle1 s with Some s' => settle f s' | None => s end
  end.

Definition settle_fuel (s : state) : nat := 4 + length (ch_in s) + 2 * length (slots s) + 2 * length (ops s).

(** * environment actions and critical sections *)
Definition step_raw (s : state) (l : label) : option state :=
  match l with
  | LOp n k specs =>
      if negb (n =? length (ops s)) || negb (specs_ok k specs) then None
      else
        let o := mkOp k specs [] PDone None None in
        let s1 := s <| ops ::= fun l => l ++ [o] |> in
        match k with
        | KClose => Some (set_op n (fun o => o <| o_pc := PClose |>) s1)
        | _ =>
            if is_nil specs then Some (finish n (RetFail EEmptyBatch) s1)
            else match scan specs 0 with
                 | Some pc => Some (set_op n (fun o => o <| o_pc := pc |>) s1)
                 | None => Some (finish n (RetFail EBadParams) s1)
                 end
        end
  | LFeed f => Some (s <| ch_in ::= fun q => q ++ [f] |>)
  | LSendFault b => Some (s <| send_fail := b |>)
  | LCtxEnd n w =>
      match op_at s n with
      | Some o =>
          match o_ctx o with
          | Some _ => Some s
          | None =>
              Some (set_op n (fun o => o <| o_ctx := Some w |>) s
                      <| slots ::= map (fun sl => if (sl_op sl =? n) && sl_reg sl then cancel_slot w sl else sl) |>)
          end
      | None => None
      end
  | LCbGate p o =>
      match find_idx (fun c => beq (cb_params c) p && match cb_st c with CbRunning => true | _ => false end) 0 (cbs s) with
      | Some c => Some (s <| cbs ::= upd_nth c (fun c => c <| cb_st := CbAtReply o |>) |>)
      | None => None
      end
  | LRelReq n =>
      match op_at s n with
      | Some o =>
          match o_pc o with
          | PReq k =>
              let i := length (slots s) in
              let s1 := s <| slots ::= fun l => l ++ [mkSlot n (next_id s) false None false None WNone] |>
                          <| next_id ::= S |> in
              let s2 := set_op n (fun o => o <| o_slots ::= fun l => l ++ [i] |>) s1 in
              match scan (skipn (S k) (o_specs o)) (S k) with
              | Some pc => Some (set_op n (fun o => o <| o_pc := pc |>) s2)
              | None => Some (finish n (RetFail EBadParams) s2)
              end
          | _ => None
          end
      | None => None
      end
  | LRelSend n =>
      match op_at s n with
      | Some o =>
          match o_pc o with
          | PSend =>
              match err s with
              | Some c => Some (finish n (RetFail (EStopped c)) s)
              | None =>
                  let ok := negb (send_fail s) in
                  let s1 := emit [OSendReq ok (negb (length (o_specs o) =? 1)) (req_members (o_specs o) (o_slots o) s)] s in
                  if ok then
                    Some (set_op n (fun o => o <| o_pc := PWait 0 |>)
                                 (fold_left (fun st i => register (o_ctx o) i st) (o_slots o) s1))
                  else Some (finish n (RetFail ESendFail) s1)
              end
          | _ => None
          end
      | None => None
      end
  | LRelDeliver j =>
      match nth_error (delivs s) j with
      | Some d =>
          match d_st d with
          | DParked =>
              let s1 := deliver_all j 0 (d_msgs d) s in
              match crash s1 with
              | Some _ => Some s1
              | None => Some (s1 <| delivs ::= upd_nth j (fun d => d <| d_st := DDone |>) |> <| wg ::= pred |>)
              end
          | DDone => None
          end
      | None => None
      end
  | LRelWatch i =>
      match slot_at s i with
      | Some sl =>
          match sl_watch sl with
          | WParked =>
              let s1 := set_slot i (fun sl => sl <| sl_watch := WDone |>) s in
              let key := id_text (sl_id sl) in
              match assoc key (pending s1) with
              | None => Some s1
              | Some _ =>
                  let e := watch_werr (err s1) (sl_pctx sl) in
                  let s2 := write_slot i (mkVal key (Some e) [] SWatch) (s1 <| pending ::= assoc_del key |>) in
                  match crash s2 with
                  | Some _ => Some s2
                  | None =>
                      if c_oncancel s2
                      then let s3 := settle_slot i s2 in
                           match crash s3 with
                           | Some _ => Some s3
                           | None => Some (emit [OOnCancel key (Some e)] s3)
                           end
                      else Some s2
                  end
              end
          | _ => None
          end
      | None => None
      end
  | LRelRecvErr =>
      match rd s with
      | RHold c =>
          let '(s1, first) := stop_locked c s in
          let s2 := if first then emit [OOnStop c] s1 else s1 in
          Some (s2 <| rd := RExited |> <| wg ::= pred |>)
      | _ => None
      end
  | LRelClose n =>
      match op_at s n with
      | Some o =>
          match o_pc o with
          | PClose => let '(s1, first) := stop_locked SCClosed s in
                      Some (set_op n (fun o => o <| o_pc := PCloseWait first |>) s1)
          | _ => None
          end
      | None => None
      end
  | LRelCbReply c =>
      match nth_error (cbs s) c with
      | Some cb =>
          match cb_st cb with
          | CbAtReply o =>
              let s1 := match err s with
                        | Some _ => s
                        | None => emit [OSendRsp (negb (send_fail s)) (cb_id cb) o] s
                        end in
              Some (s1 <| cbs ::= upd_nth c (fun cb => cb <| cb_st := CbDone |>) |> <| wg ::= pred |>)
          | _ => None
          end
      | None => None
      end
  end.

Definition step (s : state) (l : label) : option (state * list obs) :=
  match crash s with
  | Some _ => None
  | None =>
      match step_raw s l with
      | Some s1 => let s2 := settle (settle_fuel s1) s1 in Some (s2, skipn (length (hist s)) (hist s2))
      | None => None
      end
  end.

Fixpoint run (s : state) (tr : list label) : option (state * list (list obs)) :=
  match tr with
  | [] => Some (s, [])
  | l :: r => match step s l with
              | Some (s1, os) => match run s1 r with
                                 | Some (s2, oss) => Some (s2, os :: oss)
                                 | None => None
                                 end
              | None => None
              end
  end.

(** * what is parked where *)
Inductive site := SReq | SSend | SDeliver | SWatchP | SRecvErr | SClosePt | SCbReply.

Fixpoint idxs_where {A} (p : A -> bool) (i : nat) (l : list A) : list nat :=
  match l with [] => [] | x :: r => (if p x then [i] else []) ++ idxs_where p (S i) r end.

Definition at_req (o : oprec) : bool := match o_pc o with PReq _ => true | _ => false end.
Definition at_send (o : oprec) : bool := match o_pc o with PSend => true | _ => false end.
Definition at_close (o : oprec) : bool := match o_pc o with PClose => true | _ => false end.
Definition deliv_parked (d : deliv) : bool := match d_st d with DParked => true | DDone => false end.
Definition watch_parked (sl : slot) : bool := match sl_watch sl with WParked => true | _ => false end.
Definition cb_at_reply (c : cbrec) : bool := match cb_st c with CbAtReply _ => true | _ => false end.

Definition candidates (s : state) (x : site) : list label :=
  match x with
  | SReq => map LRelReq (idxs_where at_req 0 (ops s))
  | SSend => map LRelSend (idxs_where at_send 0 (ops s))
  | SDeliver => map LRelDeliver (idxs_where deliv_parked 0 (delivs s))
  | SWatchP => map LRelWatch (idxs_where watch_parked 0 (slots s))
  | SRecvErr => match rd s with RHold _ => [LRelRecvErr] | _ => [] end
  | SClosePt => map LRelClose (idxs_where at_close 0 (ops s))
  | SCbReply => map LRelCbReply (idxs_where cb_at_reply 0 (cbs s))
  end.

Definition parked_count (s : state) (x : site) : nat := length (candidates s x).
Definition all_sites : list site := [SReq; SSend; SDeliver; SWatchP; SRecvErr; SClosePt; SCbReply].
Definition enabled_rel (s : state) : list label := flat_map (candidates s) all_sites.

(* no goroutine is parked at a scheduling point and no unhooked progress is possible *)
Definition quiescent (s : state) : bool :=
  is_nil (enabled_rel s) && match settle1 s with None => true | Some _ => false end.

(* logical goroutines alive: reader, deliveries, callbacks, watchers, callers *)
Definition op_alive (o : oprec) : bool := match o_pc o with PDone => false | _ => true end.
Definition watch_alive (sl : slot) : bool := match sl_watch sl with WBlocked | WParked => true | _ => false end.
Definition cb_alive (c : cbrec) : bool := match cb_st c with CbDone => false | _ => true end.
Definition gcount (s : state) : nat :=
  (match rd s with RExited => 0 | _ => 1 end)
  + length (filter deliv_parked (delivs s)) + length (filter cb_alive (cbs s))
  + length (filter watch_alive (slots s)) + length (filter op_alive (ops s)).
