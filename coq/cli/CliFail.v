(* CliFail: what was (not) transmitted and registered for an operation that failed (C05).

   Every request record in the history is the complete record of one operation; a record
   whose Send succeeded belongs to an operation that went on to wait for its replies (or is
   a Notify that returned nil), a record whose Send failed to an operation that returned
   the channel's error.  An operation that returned the stop error, a marshalling error or
   the empty-batch error never had a record on the wire and registered nothing. *)
From Coq Require Import List NArith ZArith Bool Arith Lia.
From RecordUpdate Require Import RecordUpdate.
From JV Require Import Bytes Msg CliModel CliLemmas CliInv CliRet CliProofs CliC05 CliCtx CliOps CliHist CliLive CliWg CliSend CliNoStop CliStep CliStop CliObs CliGo CliOpTrans.
Import ListNotations.

Definition mem_id (m : bytes * bytes * bytes) : bytes := fst (fst m).

(* the operation's Send succeeded *)
Definition sent' (o : oprec) : bool :=
  match o_pc o with
  | PWait _ => true
  | PDone => match o_ret o with Some (RetCall _) | Some (RetBatch _) | Some RetNotify => true | _ => false end
  | _ => false
  end.
Definition send_failed (o : oprec) : bool := match o_ret o with Some (RetFail ESendFail) => true | _ => false end.
Definition unreg_slots (s : state) (o : oprec) : Prop :=
  forall i, In i (o_slots o) -> exists sl, slot_at s i = Some sl /\ sl_reg sl = false.
(* the request record of an operation *)
Definition req_obs (ok : bool) (s : state) (o : oprec) : obs :=
  OSendReq ok (negb (length (o_specs o) =? 1)) (req_members (o_specs o) (o_slots o) s).

Definition ret_f (s : state) (o : oprec) (r : ret) : Prop :=
  match r with
  | RetFail EEmptyBatch => o_specs o = [] /\ o_slots o = []
  | RetFail EBadParams => has_bad (o_specs o) /\ unreg_slots s o
  | RetFail (EStopped c) => err s = Some c /\ unreg_slots s o
  | RetFail ESendFail => unreg_slots s o /\ In (req_obs false s o) (hist s)
  | RetNotify => o_kind o = KNotify /\ In (req_obs true s o) (hist s)
  | _ => True
  end.

Record invF (s : state) : Prop := {
  f_ret : forall n o r, op_at s n = Some o -> o_ret o = Some r -> ret_f s o r;
  f_hist : forall ok b ms, In (OSendReq ok b ms) (hist s) ->
             exists n o, op_at s n = Some o /\ OSendReq ok b ms = req_obs ok s o
                         /\ (if ok then sent' o = true else send_failed o = true)
}.

Lemma req_obs_keep ok s s' o o' : slots_mono s s' -> (forall i, In i (o_slots o) -> exists sl, slot_at s i = Some sl) ->
  o_specs o' = o_specs o -> o_slots o' = o_slots o -> req_obs ok s' o' = req_obs ok s o.
Proof. intros M H E1 E2. unfold req_obs. rewrite E1, E2, (req_members_mono _ _ _ _ M H). reflexivity. Qed.

Definition reg_back (s s' : state) (L : list nat) : Prop :=
  forall i sl', slot_at s' i = Some sl' -> sl_reg sl' = true -> (exists sl, slot_at s i = Some sl /\ sl_reg sl = true) \/ In i L.

Lemma unreg_keep s s' L o o' : slots_mono s s' -> reg_back s s' L -> o_slots o' = o_slots o ->
  (forall i, In i (o_slots o) -> ~ In i L) -> unreg_slots s o -> unreg_slots s' o'.
Proof.
  intros M B E HL U i Hi. rewrite E in Hi. destruct (U i Hi) as (sl & Hs & Hr). destruct (M _ _ Hs) as (sl' & Hs' & _).
  exists sl'. split; auto. destruct (sl_reg sl') eqn:Er; auto. exfalso.
  destruct (B _ _ Hs' Er) as [(sl0 & H0 & H1)|Hin]; [congruence|]. eapply HL; eauto.
Qed.

Lemma ret_f_keep s s' L o o' r os : slots_mono s s' -> reg_back s s' L -> hist s' = hist s ++ os ->
  (forall c, err s = Some c -> err s' = Some c) ->
  (forall i, In i (o_slots o) -> exists sl, slot_at s i = Some sl) ->
  o_kind o' = o_kind o -> o_specs o' = o_specs o -> o_slots o' = o_slots o -> (forall i, In i (o_slots o) -> ~ In i L) ->
  ret_f s o r -> ret_f s' o' r.
Proof.
  intros M B Eh He Hex Ek Esp Esl HL. unfold ret_f.
  assert (U : unreg_slots s o -> unreg_slots s' o') by (eapply unreg_keep; eauto).
  assert (Q : forall ok, In (req_obs ok s o) (hist s) -> In (req_obs ok s' o') (hist s')).
  { intros ok H. rewrite (req_obs_keep ok s s' o o' M Hex Esp Esl), Eh. apply in_or_app. auto. }
  destruct r as [[| |c|]| | | |]; auto; rewrite ?Ek, ?Esp, ?Esl; auto; intros [A1 A2]; auto.
Qed.

(* the general preservation step: at most the operation with index n changes, only slots in L get registered *)
Lemma invF_step s s' os L n : inv1 s -> slots_mono s s' -> hist s' = hist s ++ os ->
  (forall c, err s = Some c -> err s' = Some c) -> reg_back s s' L ->
  (forall i, In i L -> exists sl, slot_at s i = Some sl /\ sl_op sl = n) ->
  (forall m, m <> n -> op_at s' m = op_at s m) ->
  (forall o' r, op_at s' n = Some o' -> o_ret o' = Some r -> ret_f s' o' r) ->
  (forall o, op_at s n = Some o -> sent' o = true \/ send_failed o = true ->
     exists o', op_at s' n = Some o' /\ o_specs o' = o_specs o /\ o_slots o' = o_slots o
                /\ (sent' o = true -> sent' o' = true) /\ (send_failed o = true -> send_failed o' = true)) ->
  (forall ok b ms, In (OSendReq ok b ms) os ->
     exists o', op_at s' n = Some o' /\ OSendReq ok b ms = req_obs ok s' o' /\ (if ok then sent' o' = true else send_failed o' = true)) ->
  invF s -> invF s'.
Proof.
  intros I M Eh He B HL Hm Hn Hk Hos [A H]. constructor.
  - intros m o' r Ho' Hr. destruct (Nat.eq_dec m n) as [->|N]; [eapply Hn; eauto|].
    rewrite (Hm m N) in Ho'. eapply (ret_f_keep s s' L o' o'); eauto.
    + eapply slots_exist; eauto.
    + intros i Hi HiL. destruct (HL i HiL) as (sl & Hs & Hop). destruct (i_own _ (proj1 I) _ _ _ Ho' Hi) as (sl1 & Hs1 & Hop1). congruence.
  - intros ok bb ms Hin. rewrite Eh in Hin. apply in_app_or in Hin. destruct Hin as [Hin|Hin].
    + destruct (H _ _ _ Hin) as (m & o & Ho & Eq & St). destruct (Nat.eq_dec m n) as [->|N].
      * destruct (Hk o Ho) as (o' & Ho' & E1 & E2 & S1 & S2); [destruct ok; auto|].
        exists n, o'. split; auto. split.
        -- rewrite Eq. symmetry. apply req_obs_keep; auto. eapply slots_exist; eauto.
        -- destruct ok; auto.
      * exists m, o. rewrite (Hm m N). split; auto. split; auto.
        rewrite Eq. symmetry. apply req_obs_keep; auto. eapply slots_exist; eauto.
    + destruct (Hos _ _ _ Hin) as (o' & Ho' & Eq & St). exists n, o'. auto.
Qed.

(** * what a caller that comes back from wait() returns *)
Lemma result_of_ok s o k : specs_ok (o_kind o) (o_specs o) = true -> cnt_ok o -> op_ok s o ->
  o_pc o = PWait k -> nth_error (o_slots o) k = None ->
  (o_kind o = KCall /\ exists r1, result_of s o = RetCall r1) \/ (exists rs, result_of s o = RetBatch rs)
  \/ (o_kind o = KNotify /\ result_of s o = RetNotify).
Proof.
  intros Sp Cn (_ & Pk & Pw & _) Hpc Hn. unfold cnt_ok in Cn. rewrite Hpc in Cn. unfold pc_kind in Pk. rewrite Hpc in Pk.
  destruct (Pw k Hpc) as [_ Pv]. unfold result_of. destruct (o_kind o) eqn:Ek; try contradiction; eauto.
  left. split; auto.
  destruct (o_specs o) as [|sp [|sp2 r2]] eqn:Esp; try discriminate. cbn in Sp. apply negb_true_iff in Sp.
  unfold nn in Cn. cbn in Cn. rewrite Sp in Cn. cbn in Cn.
  destruct (o_slots o) as [|i [|i2 r3]] eqn:Es; try discriminate.
  destruct k as [|k]; [discriminate|].
  assert (X : slot_val s i <> None) by (apply Pv; cbn; auto).
  destruct (slot_val s i) as [v|]; [eauto|contradiction].
Qed.

Lemma no_sendreq_in (os : list obs) : forallb (fun o => match o with OSendReq _ _ _ => false | _ => true end) os = true ->
  forall ok b ms, ~ In (OSendReq ok b ms) os.
Proof. rewrite forallb_forall. intros H ok b ms Hin. apply H in Hin. discriminate. Qed.

Lemma dobs_no_sendreq os : forallb dobs os = true -> forall ok b ms, ~ In (OSendReq ok b ms) os.
Proof. rewrite forallb_forall. intros H ok b ms Hin. apply H in Hin. discriminate. Qed.

Lemma op_at_app_other s (ops' : list oprec) o' m : ops' = ops s ++ [o'] -> m <> length (ops s) -> nth_error ops' m = op_at s m.
Proof.
  intros -> N. unfold op_at. destruct (Nat.lt_ge_cases m (length (ops s))).
  - rewrite nth_error_app1; auto.
  - rewrite nth_error_app2 by lia. destruct (m - length (ops s)) as [|[|x]] eqn:D; cbn; try lia.
    all: symmetry; apply nth_error_None; lia.
Qed.

Lemma op_at_upd_other s (ops' : list oprec) n g m : ops' = upd_nth n g (ops s) -> m <> n -> nth_error ops' m = op_at s m.
Proof. intros -> N. unfold op_at. apply nth_error_upd_nth_neq. auto. Qed.

Lemma op_at_upd_same s (ops' : list oprec) n o o' x : ops' = upd_nth n (fun _ => o') (ops s) -> op_at s n = Some o ->
  nth_error ops' n = Some x -> x = o'.
Proof. intros -> Ho H. unfold op_at in Ho. rewrite (nth_error_upd_nth_eq _ _ _ _ Ho) in H. congruence. Qed.

Lemma nth_upd_const {A} (l : list A) n x y : nth_error l n = Some x -> nth_error (upd_nth n (fun _ => y) l) n = Some y.
Proof. intros H. apply (nth_error_upd_nth_eq n (fun _ => y) l x H). Qed.

Lemma nth_some_lt {A} (l : list A) n x : nth_error l n = Some x -> n < length l.
Proof. intros H. apply nth_error_Some. congruence. Qed.

(** * the invariant holds in every reachable state *)
Lemma invF_init c : invF (init_of c).
Proof. constructor; [intros [|n] o r H; discriminate|intros ok bb ms []]. Qed.

Lemma invF_step_raw s l s' : inv1 s -> invP s -> invS s -> invF s -> step_raw s l = Some s' -> invF s'.
Proof.
  intros I P SI F E.
  assert (I' : inv1 s') by (eapply inv1_step_raw; eauto; apply I).
  assert (M := step_raw_mono s l s' I E).
  destruct (step_raw_obs s l s' I E) as (os & Eh & Sh).
  assert (Ops := step_raw_ops s l s' I E).
  assert (Hreg := step_raw_reg s l s' I E).
  assert (He : forall c, err s = Some c -> err s' = Some c) by (intros c Hc; exact (step_raw_err s l s' c I E Hc)).
  (* labels that register nothing *)
  assert (B0 : (forall n, l <> LRelSend n) -> reg_back s s' []).
  { intros Hl i sl' Hs Hr. destruct (Hreg i sl' Hs Hr) as [?|(n & o & X & _)]; auto. exfalso. eapply Hl; eauto. }
  (* transitions that leave the operations alone and send no request *)
  assert (Hsame : ops s' = ops s -> (forall n, l <> LRelSend n) -> (forall ok b ms, ~ In (OSendReq ok b ms) os) -> invF s').
  { intros Eo Hl Hno. apply (invF_step s s' os [] (length (ops s))); auto.
    - intros i [].
    - intros m _. unfold op_at. rewrite Eo. reflexivity.
    - intros o' r H. unfold op_at in H. rewrite Eo in H. apply nth_some_lt in H. lia.
    - intros o H. apply nth_some_lt in H. lia.
    - intros ok bb ms Hin. exfalso. eapply Hno; eauto. }
  destruct l; cbn [raw_shape] in Sh; cbn [ops_shape] in Ops.
  - (* LOp *)
    destruct Ops as (-> & Sp & o' & Eo & (Nk & Nsp & Nsl & _ & Nst)).
    apply (invF_step s s' os [] (length (ops s))); auto.
    + apply B0. discriminate.
    + intros i [].
    + intros m N. unfold op_at at 1. apply (op_at_app_other s _ o'); auto.
    + intros x r H Hr. unfold op_at in H. rewrite Eo, nth_error_app_new in H. injection H as <-.
      destruct Nst as [(_ & _ & X)|[(_ & _ & X)|[(_ & X1 & _ & X2)|(_ & X1 & _ & X2)]]]; try congruence.
      * rewrite X2 in Hr. injection Hr as <-. cbn. split; congruence.
      * rewrite X2 in Hr. injection Hr as <-. cbn. split; [congruence|]. intros i Hi. rewrite Nsl in Hi. destruct Hi.
    + intros o H. apply nth_some_lt in H. lia.
    + intros ok bb ms Hin. exfalso. destruct Sh as [->|[->| ->]]; cbn in Hin; intuition discriminate.
  - apply Hsame; auto; [discriminate|]. subst os. intros ok bb ms [].
  - apply Hsame; auto; [discriminate|]. subst os. intros ok bb ms [].
  - (* LCtxEnd *)
    subst os. destruct Ops as [Eo|(o & Ho & Eo)]; [apply Hsame; auto; first [discriminate|intros ok bb ms []]|].
    apply (invF_step s s' [] [] n); auto.
    + apply B0. discriminate.
    + intros i [].
    + intros m N. unfold op_at at 1. apply (op_at_upd_other s _ n _ m Eo N).
    + intros x r H Hr. unfold op_at in H. rewrite (op_at_upd_same s _ n o _ x Eo Ho H) in *. cbn in Hr.
      eapply (ret_f_keep s s' [] o); eauto; try reflexivity.
      * apply B0. discriminate.
      * eapply slots_exist; eauto.
      * eapply (f_ret _ F); eauto.
    + intros o1 H1 _. rewrite Ho in H1. injection H1 as <-. eexists. split; [unfold op_at; rewrite Eo; eapply nth_upd_const; exact Ho|].
      cbn. unfold sent', send_failed. cbn. auto.
    + intros ok bb ms [].
  - apply Hsame; auto; [discriminate|]. subst os. intros ok bb ms [].
  - (* LRelReq *)
    destruct Ops as (o & o' & Ho & (k0 & Hpc) & Tr & Eo).
    assert (Hn0 : o_ret o = None) by (eapply op_ok_ret_none; [apply (P n o Ho)|congruence]).
    assert (Hp0 : presend o = true -> forall i, In i (o_slots o) -> exists sl, slot_at s i = Some sl /\ sl_reg sl = false).
    { intros Hp i Hi. apply (proj2 I n o i Ho Hp Hi). }
    assert (Ho' : op_at s' n = Some o') by (unfold op_at; rewrite Eo; eapply nth_upd_const; exact Ho).
    apply (invF_step s s' os [] n); auto.
    + apply B0. discriminate.
    + intros i [].
    + intros m N. unfold op_at at 1. apply (op_at_upd_other s _ n _ m Eo N).
    + intros x r H Hr. rewrite Ho' in H. injection H as <-.
      inversion Tr; subst; cbn in Hr; try congruence.
      injection Hr as <-. cbn. split; auto.
      (* the slots of the operation, old and new, are unregistered *)
      intros i Hi. destruct (i_own _ (proj1 I') _ _ _ Ho' Hi) as (sl' & Hs' & _). exists sl'. split; auto.
      destruct (sl_reg sl') eqn:Er; auto. exfalso.
      destruct (B0 ltac:(discriminate) _ _ Hs' Er) as [(sl & Hs & Hr)|[]].
      cbn in Hi. apply in_app_or in Hi. destruct Hi as [Hi|[<-|[]]].
      * destruct (Hp0 ltac:(unfold presend; rewrite Hpc; reflexivity) i Hi) as (sl0 & Y0 & Y1). congruence.
      * apply slot_at_lt in Hs. lia.
    + intros o1 H1 [X|X]; rewrite Ho in H1; injection H1 as <-; exfalso.
      * unfold sent' in X; rewrite Hpc in X; discriminate.
      * unfold send_failed in X. rewrite Hn0 in X. discriminate.
    + intros ok bb ms Hin. exfalso. destruct Sh as [->| ->]; cbn in Hin; intuition discriminate.
  - (* LRelSend *)
    destruct Ops as (o & o' & Ho & _ & Tr & Eo). destruct Sh as (o2 & Ho2 & Hpc & Sh). rewrite Ho in Ho2. injection Ho2 as <-.
    assert (Hn0 : o_ret o = None) by (eapply op_ok_ret_none; [apply (P n o Ho)|congruence]).
    assert (Hp : presend o = true) by (unfold presend; rewrite Hpc; reflexivity).
    assert (U : unreg_slots s o) by (intros i Hi; apply (proj2 I n o i Ho Hp Hi)).
    assert (Ho' : op_at s' n = Some o') by (unfold op_at; rewrite Eo; eapply nth_upd_const; exact Ho).
    assert (Hex : forall i, In i (o_slots o) -> exists sl, slot_at s i = Some sl) by (eapply slots_exist; eauto).
    assert (Hold : forall o1, op_at s n = Some o1 -> sent' o1 = true \/ send_failed o1 = true -> False).
    { intros o1 H1 [X|X]; rewrite Ho in H1; injection H1 as <-.
      - unfold sent' in X. rewrite Hpc in X. discriminate.
      - unfold send_failed in X. rewrite Hn0 in X. discriminate. }
    assert (BL : err s <> None \/ send_fail s = true -> reg_back s s' []).
    { intros Hc i sl' Hs Hr. destruct (Hreg i sl' Hs Hr) as [?|(n0 & o0 & _ & _ & _ & X1 & X2 & _)]; auto.
      exfalso. destruct Hc; congruence. }
    assert (BR : reg_back s s' (o_slots o)).
    { intros i sl' Hs Hr. destruct (Hreg i sl' Hs Hr) as [?|(n0 & o0 & X0 & X1 & _ & _ & _ & X2)]; auto.
      injection X0 as <-. rewrite Ho in X1. injection X1 as <-. auto. }
    assert (HLown : forall i, In i (o_slots o) -> exists sl, slot_at s i = Some sl /\ sl_op sl = n).
    { intros i Hi. apply (i_own _ (proj1 I) _ _ _ Ho Hi). }
    assert (Hother : forall m, m <> n -> op_at s' m = op_at s m).
    { intros m N. unfold op_at at 1. apply (op_at_upd_other s _ n _ m Eo N). }
    inversion Tr; subst; try congruence.
    + (* the client has stopped *)
      rewrite H0 in Sh. subst os.
      assert (B : reg_back s s' []) by (apply BL; left; congruence).
      apply (invF_step s s' _ [] n I M Eh); auto.
      * intros i [].
      * intros x r Hx Hr. rewrite Ho' in Hx. injection Hx as <-. cbn in Hr. injection Hr as <-. cbn. split; auto.
        eapply (unreg_keep s s' [] o); eauto.
      * intros o1 H1 X. exfalso. eapply Hold; eauto.
      * intros ok bb ms Hin. exfalso. cbn in Hin. intuition discriminate.
    + (* the record goes out *)
      rewrite H0, H1 in Sh. subst os.
      apply (invF_step s s' _ (o_slots o) n I M Eh); auto.
      * intros x r Hx Hr. rewrite Ho' in Hx. injection Hx as <-. cbn in Hr. congruence.
      * intros o1 H1' X. exfalso. eapply Hold; eauto.
      * intros ok bb ms [Hin|[]]. eexists. split; [exact Ho'|]. unfold send_obs in Hin. rewrite H1 in Hin. cbn in Hin.
        injection Hin as <- <- <-. split; [|reflexivity].
        symmetry. apply (req_obs_keep true s s' o); auto.
    + (* the transport fails *)
      rewrite H0, H1 in Sh. subst os.
      assert (B : reg_back s s' []) by (apply BL; right; congruence).
      apply (invF_step s s' _ [] n I M Eh); auto.
      * intros i [].
      * intros x r Hx Hr. rewrite Ho' in Hx. injection Hx as <-. cbn in Hr. injection Hr as <-. cbn. split.
        -- eapply (unreg_keep s s' [] o); eauto.
        -- rewrite Eh. apply in_or_app. right. left. unfold send_obs. rewrite H1. cbn.
           symmetry. apply (req_obs_keep false s s' o); auto.
      * intros o1 H1' X. exfalso. eapply Hold; eauto.
      * intros ok bb ms [Hin|[Hin|[]]]; [|discriminate]. eexists. split; [exact Ho'|]. unfold send_obs in Hin. rewrite H1 in Hin. cbn in Hin.
        injection Hin as <- <- <-. split; [|reflexivity].
        symmetry. apply (req_obs_keep false s s' o); auto.
  - (* LRelDeliver *)
    apply Hsame; auto; [discriminate|]. destruct Sh as (_ & Sh & _). apply dobs_no_sendreq; auto.
  - (* LRelWatch *)
    apply Hsame; auto; [discriminate|]. destruct Sh as [->|(sl & _ & _ & ->)]; intros ok bb ms Hin; cbn in Hin; intuition discriminate.
  - (* LRelRecvErr *)
    apply Hsame; auto; [discriminate|]. destruct Sh as (c & _ & ->). destruct (err s); intros ok bb ms Hin; cbn in Hin; intuition discriminate.
  - (* LRelClose *)
    destruct Ops as (o & o' & Ho & Hpc & Tr & Eo). destruct Sh as (_ & ->).
    assert (Hn0 : o_ret o = None) by (eapply op_ok_ret_none; [apply (P n o Ho)|congruence]).
    assert (Ho' : op_at s' n = Some o') by (unfold op_at; rewrite Eo; eapply nth_upd_const; exact Ho).
    apply (invF_step s s' _ [] n I M Eh); auto.
    + apply B0. discriminate.
    + intros i [].
    + intros m N. unfold op_at at 1. apply (op_at_upd_other s _ n _ m Eo N).
    + intros x r Hx Hr. rewrite Ho' in Hx. injection Hx as <-. inversion Tr; subst; cbn in Hr; congruence.
    + intros o1 H1 [X|X]; rewrite Ho in H1; injection H1 as <-; exfalso.
      * unfold sent' in X; rewrite Hpc in X; discriminate.
      * unfold send_failed in X. rewrite Hn0 in X. discriminate.
    + intros ok bb ms Hin. exfalso. destruct (err s); cbn in Hin; intuition discriminate.
  - (* LRelCbReply *)
    apply Hsame; auto; [discriminate|]. destruct Sh as (cb & o & _ & _ & ->). destruct (err s); intros ok bb ms Hin; cbn in Hin; intuition discriminate.
Qed.

Lemma settle_shape_no_sendreq s os : settle_shape s os -> forall ok bb ms, ~ In (OSendReq ok bb ms) os.
Proof.
  intros [->|[(n & o & k & _ & _ & _ & ->)|(n & o & b & _ & _ & _ & ->)]] ok bb ms Hin; cbn in Hin; try tauto.
  - intuition discriminate.
  - destruct b; [destruct (err s)|]; cbn in Hin; intuition discriminate.
Qed.

Lemma invF_settle1 s s' : inv1 s -> invP s -> invS s -> invF s -> settle1 s = Some s' -> invF s'.
Proof.
  intros I P SI F E.
  assert (M := settle1_mono s s' I E).
  destruct (settle1_obs s s' I E) as (os & Eh & Sh).
  assert (Hno := settle_shape_no_sendreq s os Sh).
  assert (He : forall c, err s = Some c -> err s' = Some c) by (intros c Hc; rewrite (settle1_err s s' I E); exact Hc).
  assert (B : reg_back s s' []).
  { intros i sl' Hs Hr. left. destruct (settle1_gsl s s' I E _ _ Hs) as (sl & H1 & _ & H2 & _). exists sl. split; auto. congruence. }
  destruct (settle1_ops s s' I E) as [Eo|(n & o & o' & Ho & Hpc & Tr & Eo)].
  - apply (invF_step s s' os [] (length (ops s)) I M Eh); auto.
    + intros i [].
    + intros m _. unfold op_at. rewrite Eo. reflexivity.
    + intros x r H. unfold op_at in H. rewrite Eo in H. apply nth_some_lt in H. lia.
    + intros x H. apply nth_some_lt in H. lia.
    + intros ok bb ms Hin. exfalso. eapply Hno; eauto.
  - assert (Ho' : op_at s' n = Some o') by (unfold op_at; rewrite Eo; eapply nth_upd_const; exact Ho).
    destruct (SI n o Ho) as (Sp & Cn & Snt).
    assert (Hn0 : o_ret o = None).
    { eapply op_ok_ret_none; [apply (P n o Ho)|]. destruct Hpc as [(k0 & X)|(b0 & X)]; congruence. }
    apply (invF_step s s' os [] n I M Eh); auto.
    + intros i [].
    + intros m N. unfold op_at at 1. apply (op_at_upd_other s _ n _ m Eo N).
    + intros x r Hx Hr. rewrite Ho' in Hx. injection Hx as <-.
      inversion Tr; subst; cbn in Hr; try congruence; try (destruct Hpc as [(k0 & X)|(b0 & X)]; congruence).
      * (* a caller comes back from wait() *)
        injection Hr as <-.
        destruct (result_of_ok s o k Sp Cn (P n o Ho) H H0) as [(_ & r1 & ->)|[(rs & ->)|(Ek & ->)]]; cbn; auto.
        split; auto. rewrite Eh. apply in_or_app. left.
        assert (X : In (req_obs true s o) (hist s)). { apply Snt. unfold sent. rewrite H. reflexivity. }
        rewrite (req_obs_keep true s s' o _ M); auto. eapply slots_exist; eauto.
      * injection Hr as <-. exact Logic.I.
    + intros o1 H1 X. rewrite Ho in H1. injection H1 as <-. exists o'. split; auto.
      inversion Tr; subst; cbn; try (destruct Hpc as [(k0 & Y)|(b0 & Y)]; congruence).
      * splits; auto; unfold send_failed; cbn; auto.
      * splits; auto.
        -- intros _. unfold sent'. cbn.
           destruct (result_of_ok s o k Sp Cn (P n o Ho) H H0) as [(_ & r1 & ->)|[(rs & ->)|(Ek & ->)]]; reflexivity.
        -- unfold send_failed. rewrite (op_ok_ret_none s o (P n o Ho)); [discriminate|congruence].
      * splits; auto.
        -- unfold sent'. rewrite H. discriminate.
        -- unfold send_failed. rewrite (op_ok_ret_none s o (P n o Ho)); [discriminate|congruence].
    + intros ok bb ms Hin. exfalso. eapply Hno; eauto.
Qed.

Theorem invF_reach c s : reach c s -> inv1 s /\ invP s /\ invS s /\ invF s.
Proof.
  apply (reach_inv (fun s => inv1 s /\ invP s /\ invS s /\ invF s)).
  - splits; [apply inv1_init|apply invP_init|apply invS_init|apply invF_init].
  - intros s0 l s' (I & P & SI & F) Cr E.
    splits; [eapply inv1_step_raw|eapply invP_step_raw|eapply invS_step_raw|eapply invF_step_raw]; eauto.
  - intros s0 s' (I & P & SI & F) E.
    splits; [eapply inv1_settle1|eapply invP_settle1|eapply invS_settle1|eapply invF_settle1]; eauto.
Qed.

(** * the ids carried by a request record *)
Lemma req_members_id_in specs : forall sls s key, In key (map mem_id (req_members specs sls s)) ->
  key = [] \/ exists i, In i sls /\ key = slot_text s i.
Proof.
  induction specs as [|sp r IH]; intros sls s key H; cbn in H; [destruct H|].
  destruct (sp_notify sp).
  - cbn in H. destruct H as [<-|H]; auto.
  - destruct sls as [|i sls']; cbn in H.
    + destruct H as [<-|H]; auto.
    + destruct H as [<-|H]; [right; exists i; split; [left|]; auto|].
      destruct (IH _ _ _ H) as [?|(j & A & B)]; auto. right. exists j. split; [right|]; auto.
Qed.

(* a record in the history that carries the id of a slot is the record of the operation that allocated the slot *)
Lemma record_owner s ok b ms i sl : inv1 s -> invF s -> In (OSendReq ok b ms) (hist s) -> slot_at s i = Some sl ->
  In (id_text (sl_id sl)) (map mem_id ms) ->
  exists o, op_at s (sl_op sl) = Some o /\ In i (o_slots o) /\ OSendReq ok b ms = req_obs ok s o
            /\ (if ok then sent' o = true else send_failed o = true).
Proof.
  intros I F Hin Hs Hid. destruct (f_hist _ F _ _ _ Hin) as (m & o & Ho & Eq & St).
  unfold req_obs in Eq. injection Eq as Eb Em. rewrite Em in Hid.
  destruct (req_members_id_in _ _ _ _ Hid) as [X|(i2 & Hi2 & X)]; [exfalso; eapply id_text_nonnil; eauto|].
  destruct (i_own _ (proj1 I) _ _ _ Ho Hi2) as (sl2 & Hs2 & Hop2).
  unfold slot_text in X. rewrite Hs2 in X. assert (i = i2) by (eapply slot_key_inj; eauto). subst i2.
  rewrite Hs in Hs2. injection Hs2 as <-. rewrite Hop2. exists o. splits; auto. unfold req_obs. congruence.
Qed.

(** * C05: the outcome of an operation that failed *)
Definition no_record_with (s : state) (o : oprec) (pred : bool -> Prop) : Prop :=
  forall ok b ms i sl, pred ok -> In (OSendReq ok b ms) (hist s) -> In i (o_slots o) -> slot_at s i = Some sl ->
    ~ In (id_text (sl_id sl)) (map mem_id ms).

Lemma fail_outcome c tr s : traces_to c tr s -> forall n f, In (ORet n (RetFail f)) (hist s) ->
  exists o, op_at s n = Some o /\ o_pc o = PDone /\ o_ret o = Some (RetFail f)
    (* no id it allocated is registered, pending, written or watched *)
    /\ (forall i, In i (o_slots o) ->
          exists sl, slot_at s i = Some sl /\ sl_op sl = n /\ sl_reg sl = false /\ sl_buf sl = None /\ sl_watch sl = WNone
                     /\ assoc (id_text (sl_id sl)) (pending s) = None)
    (* no request record whose Send succeeded carries one of its ids *)
    /\ no_record_with s o (fun ok => ok = true)
    /\ match f with
       | EStopped c0 => err s = Some c0 /\ no_record_with s o (fun _ => True)
       | ESendFail => In (req_obs false s o) (hist s)
       | EBadParams => has_bad (o_specs o) /\ no_record_with s o (fun _ => True)
       | EEmptyBatch => o_specs o = [] /\ o_slots o = []
       end.
Proof.
  intros T n f Hin. assert (R := traces_reach _ _ _ T).
  destruct (invF_reach c s R) as (I & P & SI & F). destruct (inv1K_reach c s R) as (_ & K). destruct (invC_reach c s R) as (_ & C).
  destruct (k_val _ K _ _ Hin) as (o & Ho & Hr).
  assert (Hpc : o_pc o = PDone) by (eapply (k_done _ K); eauto; rewrite Hr; reflexivity).
  assert (Rf := f_ret _ F _ _ _ Ho Hr).
  assert (U : unreg_slots s o).
  { destruct f; cbn in Rf; try tauto. destruct Rf as [_ E0]. intros i Hi. rewrite E0 in Hi. destruct Hi. }
  assert (Hnot : forall ok b ms i sl, In (OSendReq ok b ms) (hist s) -> In i (o_slots o) -> slot_at s i = Some sl ->
                   In (id_text (sl_id sl)) (map mem_id ms) -> ok = false /\ f = ESendFail).
  { intros ok b ms i sl H1 H2 H3 H4. destruct (record_owner s ok b ms i sl I F H1 H3 H4) as (o2 & Ho2 & _ & _ & St).
    destruct (i_own _ (proj1 I) _ _ _ Ho H2) as (sl2 & Hs2 & Hop2). rewrite H3 in Hs2. injection Hs2 as <-.
    rewrite Hop2, Ho in Ho2. injection Ho2 as <-. destruct ok.
    - unfold sent' in St. rewrite Hpc, Hr in St. discriminate.
    - unfold send_failed in St. rewrite Hr in St. destruct f; try discriminate. auto. }
  exists o. splits; auto.
  - intros i Hi. destruct (U i Hi) as (sl & Hs & Hreg). destruct (i_own _ (proj1 I) _ _ _ Ho Hi) as (sl2 & Hs2 & Hop2).
    rewrite Hs in Hs2. injection Hs2 as <-. exists sl. splits; auto.
    + apply (i_unreg _ (proj1 I) _ _ Hs Hreg).
    + apply (c_unreg _ C _ _ Hs Hreg).
    + destruct (assoc (id_text (sl_id sl)) (pending s)) as [i'|] eqn:Ea; auto. exfalso. apply assoc_in in Ea.
      assert (i' = i) by (eapply pending_of_slot; eauto). subst i'.
      destruct (pending_slot _ _ _ I Ea) as (sl' & Hs' & _ & Hr' & _). congruence.
  - intros ok b ms i sl -> H1 H2 H3 H4. destruct (Hnot _ _ _ _ _ H1 H2 H3 H4). discriminate.
  - destruct f; cbn in Rf.
    + destruct Rf. split; auto. intros ok b ms i sl _ H1 H2 H3 H4. destruct (Hnot _ _ _ _ _ H1 H2 H3 H4). discriminate.
    + exact Rf.
    + destruct Rf. split; auto. intros ok b ms i sl _ H1 H2 H3 H4. destruct (Hnot _ _ _ _ _ H1 H2 H3 H4). discriminate.
    + apply Rf.
Qed.

(* a Notify that returned nil handed its notification to the transport, and the transport accepted it *)
Lemma notify_outcome c tr s : traces_to c tr s -> forall n, In (ORet n RetNotify) (hist s) ->
  exists o sp, op_at s n = Some o /\ o_kind o = KNotify /\ o_specs o = [sp] /\ sp_notify sp = true
               /\ In (OSendReq true false [([], sp_method sp, sp_params sp)]) (hist s).
Proof.
  intros T n Hin. assert (R := traces_reach _ _ _ T).
  destruct (invF_reach c s R) as (I & P & SI & F). destruct (inv1K_reach c s R) as (_ & K).
  destruct (k_val _ K _ _ Hin) as (o & Ho & Hr). destruct (f_ret _ F _ _ _ Ho Hr) as (Hk & Hrec).
  destruct (SI n o Ho) as (Sp & _). rewrite Hk in Sp.
  destruct (o_specs o) as [|sp [|sp2 r2]] eqn:Esp; try discriminate. cbn in Sp.
  exists o, sp. splits; auto. unfold req_obs in Hrec. rewrite Esp in Hrec. cbn in Hrec. rewrite Sp in Hrec. exact Hrec.
Qed.

(** * C05: an operation issued on a stopped client never transmits *)
Definition tried (o : oprec) : bool := sent' o || send_failed o.

Lemma otrans_untried s o o' : otrans s o o' -> err s <> None -> tried o' = true -> tried o = true.
Proof.
  unfold tried, sent', send_failed. intros Tr He. inversion Tr; subst; cbn; try congruence.
  - destruct H0 as [->|(k' & ->)]; rewrite H; auto.
  - rewrite H. auto.
  - rewrite H. auto.
  - rewrite H. auto.
Qed.

Lemma new_op_untried k specs o : new_op k specs o -> tried o = false.
Proof.
  unfold tried, sent', send_failed. intros (_ & _ & _ & _ & [(_ & -> & ->)|[(_ & [->|(j & ->)] & ->)|[(_ & _ & -> & ->)|(_ & _ & -> & ->)]]]); reflexivity.
Qed.

Definition tried_back (s s' : state) : Prop :=
  forall m o', op_at s' m = Some o' -> tried o' = true -> exists o, op_at s m = Some o /\ tried o = true.

Lemma tried_back_upd s s' n o o' : op_at s n = Some o -> ops s' = upd_nth n (fun _ => o') (ops s) ->
  (tried o' = true -> tried o = true) -> tried_back s s'.
Proof.
  intros Ho Eo H m x Hx Ht. unfold op_at in Hx. rewrite Eo in Hx. destruct (Nat.eq_dec m n) as [->|N].
  - rewrite (nth_upd_const _ _ _ o' Ho) in Hx. injection Hx as <-. eauto.
  - rewrite nth_error_upd_nth_neq in Hx by auto. eauto.
Qed.

Lemma step_raw_untried s l s' : inv1 s -> err s <> None -> step_raw s l = Some s' -> tried_back s s'.
Proof.
  intros I He E. assert (Ops := step_raw_ops s l s' I E).
  assert (Hsame : ops s' = ops s -> tried_back s s').
  { intros Eo m o' H Ht. unfold op_at in H. rewrite Eo in H. eauto. }
  destruct l; cbn [ops_shape] in Ops; auto.
  - destruct Ops as (-> & _ & o' & Eo & Nw). intros m x Hx Ht. unfold op_at in Hx. rewrite Eo in Hx.
    destruct (nth_error_snoc _ _ _ _ Hx) as [[_ H1]|[_ ->]]; [eauto|]. rewrite (new_op_untried _ _ _ Nw) in Ht. discriminate.
  - destruct Ops as [Eo|(o & Ho & Eo)]; auto. eapply tried_back_upd; eauto.
  - destruct Ops as (o & o' & Ho & _ & Tr & Eo). eapply tried_back_upd; eauto. eapply otrans_untried; eauto.
  - destruct Ops as (o & o' & Ho & _ & Tr & Eo). eapply tried_back_upd; eauto. eapply otrans_untried; eauto.
  - destruct Ops as (o & o' & Ho & _ & Tr & Eo). eapply tried_back_upd; eauto. eapply otrans_untried; eauto.
Qed.

Lemma settle1_untried s s' : inv1 s -> err s <> None -> settle1 s = Some s' -> tried_back s s'.
Proof.
  intros I He E. destruct (settle1_ops s s' I E) as [Eo|(n & o & o' & Ho & _ & Tr & Eo)].
  - intros m o' H Ht. unfold op_at in H. rewrite Eo in H. eauto.
  - eapply tried_back_upd; eauto. eapply otrans_untried; eauto.
Qed.

Lemma tried_back_trans a b c : tried_back a b -> tried_back b c -> tried_back a c.
Proof. intros F G m o Ho Ht. destruct (G _ _ Ho Ht) as (o1 & H1 & T1). eauto. Qed.

Lemma step_untried c s l s' os : reach c s -> err s <> None -> step s l = Some (s', os) -> tried_back s s'.
Proof.
  intros R He E. assert (I := inv1_reach c s R). unfold step in E. destruct (crash s); [discriminate|].
  destruct (step_raw s l) as [s1|] eqn:E1; [|discriminate].
  assert (Es : settle (settle_fuel s1) s1 = s') by congruence. rewrite <- Es.
  assert (G : inv1 (settle (settle_fuel s1) s1) /\ err (settle (settle_fuel s1) s1) <> None /\ tried_back s (settle (settle_fuel s1) s1)); [|apply G].
  apply (settle_inv (fun st => inv1 st /\ err st <> None /\ tried_back s st)).
  - intros a b (Ia & Ha & Ta) Hb. splits; [eapply inv1_settle1; eauto|rewrite (settle1_err a b Ia Hb); auto|].
    eapply tried_back_trans; [exact Ta|eapply settle1_untried; eauto].
  - splits; [eapply inv1_step_raw; eauto; apply I| |eapply step_raw_untried; eauto].
    destruct (err s) as [c0|] eqn:Ee; [|contradiction]. rewrite (step_raw_err s l s1 c0 I E1 Ee). discriminate.
Qed.

Lemma run_untried c tr : forall s s' oss, reach c s -> err s <> None -> run s tr = Some (s', oss) -> tried_back s s'.
Proof.
  induction tr as [|l r IH]; cbn; intros s s' oss R He H.
  - injection H as <- <-. intros m o Ho Ht. eauto.
  - destruct (step s l) as [[s1 os]|] eqn:E; [|discriminate].
    destruct (run s1 r) as [[s2 oss2]|] eqn:E2; [|discriminate]. injection H as <- <-.
    eapply tried_back_trans; [eapply step_untried; eauto|].
    eapply IH; [eapply reach_step; eauto| |exact E2].
    destruct (err s) as [c0|] eqn:Ee; [|contradiction]. rewrite (step_err c s l s1 os c0 R E Ee). discriminate.
Qed.

Lemma after_stop_trace c tr1 s1 n k specs tr2 s : traces_to c tr1 s1 -> err s1 <> None ->
  traces_to c (tr1 ++ LOp n k specs :: tr2) s ->
  forall o, op_at s n = Some o ->
    (* it never got a record past Send, nor a failed Send *)
    sent' o = false /\ send_failed o = false
    (* no request record anywhere in the history carries one of its ids *)
    /\ no_record_with s o (fun _ => True)
    (* all it can return is the stop error or a local validation error (a Close: its own result) *)
    /\ (forall r, In (ORet n r) (hist s) ->
          match r with RetFail (EStopped _) | RetFail EBadParams | RetFail EEmptyBatch | RetClose _ => True | _ => False end).
Proof.
  intros T1 He T o Ho. assert (R1 := traces_reach _ _ _ T1). assert (R := traces_reach _ _ _ T).
  destruct T1 as [oss1 H1]. destruct T as [oss H].
  destruct (run_app_inv _ _ _ _ _ _ _ H1 H) as [oss2 H2].
  assert (TB := run_untried c _ _ _ _ R1 He H2).
  assert (Hn : n = length (ops s1)).
  { cbn in H2. unfold step in H2. destruct (crash s1); [discriminate|]. cbn in H2.
    destruct (negb (n =? length (ops s1)) || negb (specs_ok k specs)) eqn:G0; [discriminate|].
    apply orb_false_iff in G0. destruct G0 as [G1 _]. apply negb_false_iff, Nat.eqb_eq in G1. exact G1. }
  assert (Hu : tried o = false).
  { destruct (tried o) eqn:Et; auto. exfalso. destruct (TB n o Ho Et) as (o1 & Ho1 & _). apply nth_some_lt in Ho1. lia. }
  unfold tried in Hu. apply orb_false_iff in Hu. destruct Hu as [Hu1 Hu2].
  destruct (invF_reach c s R) as (I & P & SI & F). destruct (inv1K_reach c s R) as (_ & K).
  splits; auto.
  - intros ok b ms i sl _ A1 A2 A3 A4. destruct (record_owner s ok b ms i sl I F A1 A3 A4) as (o2 & Ho2 & _ & _ & St).
    destruct (i_own _ (proj1 I) _ _ _ Ho A2) as (sl2 & Hs2 & Hop2). rewrite A3 in Hs2. injection Hs2 as <-.
    rewrite Hop2, Ho in Ho2. injection Ho2 as <-. destruct ok; congruence.
  - intros r Hin. destruct (k_val _ K _ _ Hin) as (o2 & Ho2 & Hr). rewrite Ho in Ho2. injection Ho2 as <-.
    assert (Hpc : o_pc o = PDone) by (eapply (k_done _ K); eauto; rewrite Hr; reflexivity).
    unfold sent' in Hu1. unfold send_failed in Hu2. rewrite Hpc, Hr in Hu1. rewrite Hr in Hu2.
    destruct r as [[| | |]| | | |]; auto; discriminate.
Qed.

(** * non-vacuity *)
(* a Send that fails; a marshalling error after one id was allocated; an empty batch; an operation on a stopped client;
   a notification that goes out *)
Definition ex_bad : spec := mkSpec [109%N] [] false true.
Definition ex_trace_fail : list label :=
  [LOp 0 KCall [ex_spec 49]; LRelReq 0; LSendFault true; LRelSend 0; LSendFault false;
   LOp 1 KBatch [ex_spec 50; ex_bad]; LRelReq 1;
   LOp 2 KBatch [];
   LOp 3 KNotify [ex_nspec]; LRelSend 3;
   LOp 4 KClose []; LRelClose 4; LRelRecvErr;
   LOp 5 KCall [ex_spec 51]; LRelReq 5; LRelSend 5].

Example fail_outcome_nonvacuous :
  exists s, traces_to ex_cfg ex_trace_fail s
    /\ In (ORet 0 (RetFail ESendFail)) (hist s) /\ In (ORet 1 (RetFail EBadParams)) (hist s)
    /\ In (ORet 2 (RetFail EEmptyBatch)) (hist s) /\ In (ORet 3 RetNotify) (hist s)
    /\ In (ORet 5 (RetFail (EStopped SCClosed))) (hist s)
    /\ In (OSendReq false false [([49%N], [109%N], [91%N; 49%N; 93%N])]) (hist s)
    /\ In (OSendReq true false [([], [110%N], [])]) (hist s)
    /\ length (filter (fun o => match o with OSendReq _ _ _ => true | _ => false end) (hist s)) = 2
    /\ length (slots s) = 3 /\ pending s = [].
Proof.
  destruct (run (init_of ex_cfg) ex_trace_fail) as [[s oss]|] eqn:E; [|revert E; vm_compute; discriminate].
  exists s. split; [exists oss; exact E|]. revert E. vm_compute. intros [= <- _]. splits; auto 20.
Qed.

Example after_stop_trace_nonvacuous :
  exists s1 s o, traces_to ex_cfg (firstn 13 ex_trace_fail) s1 /\ err s1 <> None
    /\ traces_to ex_cfg (firstn 13 ex_trace_fail ++ LOp 5 KCall [ex_spec 51] :: [LRelReq 5; LRelSend 5]) s
    /\ op_at s 5 = Some o /\ o_slots o = [2].
Proof.
  destruct (run (init_of ex_cfg) (firstn 13 ex_trace_fail)) as [[s1 oss1]|] eqn:E1; [|revert E1; vm_compute; discriminate].
  destruct (run (init_of ex_cfg) ex_trace_fail) as [[s oss]|] eqn:E; [|revert E; vm_compute; discriminate].
  exists s1, s. revert E1 E. vm_compute. intros E1 E. injection E1 as <- <-. injection E as <- <-.
  eexists. splits; try (eexists; reflexivity); try reflexivity. discriminate.
Qed.
