(* CliSend: what was put on the wire for an operation (C04).  One slot is allocated per
   non-notification spec, in spec order; the request record of an operation that got past
   send is in the history and carries, at its non-notification positions in order, the ids of
   the operation's slots - the ids under which the replies are later matched. *)
From Coq Require Import List NArith ZArith Bool Arith Lia.
From RecordUpdate Require Import RecordUpdate.
From JV Require Import Bytes Msg CliModel CliLemmas CliInv CliRet CliProofs CliCtx CliOps CliHist.
Import ListNotations.

Definition nn (l : list spec) : nat := length (filter (fun sp => negb (sp_notify sp)) l).
#[global] Arguments nn : simpl never.
Definition is_reply_ret (r : option ret) : bool := match r with Some (RetCall _) | Some (RetBatch _) => true | _ => false end.
Definition sent (o : oprec) : bool := match o_pc o with PWait _ => true | PDone => is_reply_ret (o_ret o) | _ => false end.

Definition cnt_ok (o : oprec) : Prop :=
  match o_pc o with
  | PReq k => length (o_slots o) = nn (firstn k (o_specs o))
              /\ exists sp, nth_error (o_specs o) k = Some sp /\ sp_notify sp = false
  | PSend | PWait _ => length (o_slots o) = nn (o_specs o)
  | PDone => is_reply_ret (o_ret o) = true -> length (o_slots o) = nn (o_specs o)
  | _ => True
  end.

Definition send_ok (s : state) (o : oprec) : Prop :=
  specs_ok (o_kind o) (o_specs o) = true /\ cnt_ok o
  /\ (sent o = true ->
      In (OSendReq true (negb (length (o_specs o) =? 1)) (req_members (o_specs o) (o_slots o) s)) (hist s)).

Definition invS (s : state) : Prop := forall n o, op_at s n = Some o -> send_ok s o.

(* ids of the members at the non-notification positions of a request record *)
Definition nn_ids (specs : list spec) (ms : list (bytes * bytes * bytes)) : list bytes :=
  map (fun p => fst (fst (snd p))) (filter (fun p : spec * (bytes * bytes * bytes) => negb (sp_notify (fst p))) (combine specs ms)).

(** * lists *)
Lemma nn_app l1 l2 : nn (l1 ++ l2) = nn l1 + nn l2.
Proof. unfold nn. rewrite filter_app, app_length. auto. Qed.

Lemma firstn_add {A} (l : list A) a : forall b, firstn (a + b) l = firstn a l ++ firstn b (skipn a l).
Proof. revert l; induction a as [|a IH]; intros l b; cbn; auto. destruct l as [|x l]; cbn; [destruct b; auto|]. f_equal. apply IH. Qed.

Lemma nth_error_skipn' {A} (l : list A) a : forall b, nth_error (skipn a l) b = nth_error l (a + b).
Proof. revert l; induction a as [|a IH]; intros l b; cbn; auto. destruct l as [|x l]; cbn; [destruct b; auto|]. apply IH. Qed.

Lemma scan_spec l : forall z pc, scan l z = Some pc ->
  (pc = PSend /\ nn l = 0)
  \/ (exists k, pc = PReq k /\ z <= k /\ nn (firstn (k - z) l) = 0 /\ exists sp, nth_error l (k - z) = Some sp /\ sp_notify sp = false).
Proof.
  induction l as [|x l IH]; cbn; intros z pc H.
  - injection H as <-. left. auto.
  - destruct (sp_bad x); [discriminate|]. destruct (sp_notify x) eqn:En.
    + destruct (IH _ _ H) as [[-> A]|(k & -> & A1 & A2 & sp & A3 & A4)].
      * left. split; [reflexivity|]. unfold nn in *. cbn. rewrite ?En. cbn. exact A.
      * right. exists k. split; auto. split; [lia|]. replace (k - z) with (S (k - S z)) by lia. cbn.
        split; [unfold nn in *; cbn; rewrite ?En; cbn; auto|]. eauto.
    + injection H as <-. right. exists z. rewrite Nat.sub_diag. cbn. split; auto. split; auto. split; auto. eauto.
Qed.

Lemma req_members_mono specs : forall sls s s', slots_mono s s' -> (forall i, In i sls -> exists sl, slot_at s i = Some sl) ->
  req_members specs sls s' = req_members specs sls s.
Proof.
  induction specs as [|sp r IH]; intros sls s s' M H; cbn; auto.
  destruct (sp_notify sp); [f_equal; apply IH; auto|].
  destruct sls as [|i sls']; [f_equal; apply IH; auto|].
  destruct (H i (or_introl eq_refl)) as (sl & Hs). destruct (M _ _ Hs) as (sl' & Hs' & E & _).
  rewrite Hs, Hs', E. f_equal. apply IH; auto. intros j Hj. apply H. right; auto.
Qed.

Lemma req_members_ids s specs : forall sls, length sls = nn specs ->
  length (req_members specs sls s) = length specs /\ nn_ids specs (req_members specs sls s) = map (slot_text s) sls.
Proof.
  induction specs as [|sp r IH]; intros sls H; cbn.
  - destruct sls; [auto|discriminate].
  - unfold nn in H. cbn in H. destruct (sp_notify sp) eqn:En; cbn in H.
    + destruct (IH sls H) as [A B]. split; [cbn; auto|]. unfold nn_ids. cbn. rewrite En. cbn. exact B.
    + destruct sls as [|i sls']; [discriminate|]. injection H as H. destruct (IH sls' H) as [A B].
      split; [cbn; auto|]. unfold nn_ids. cbn. rewrite En. cbn. f_equal. exact B.
Qed.

(** * frame *)
Definition same5 (o o' : oprec) : Prop := same4 o o' /\ o_specs o' = o_specs o.

Definition hist_grows (s s' : state) : Prop := exists os, hist s' = hist s ++ os.

Lemma hist_grows_refl s s' : hist s' = hist s -> hist_grows s s'.
Proof. intros E. exists []. rewrite app_nil_r. auto. Qed.

Lemma hist_grows_trans s1 s2 s3 : hist_grows s1 s2 -> hist_grows s2 s3 -> hist_grows s1 s3.
Proof. intros [a A] [b B]. exists (a ++ b). rewrite B, A, app_assoc. auto. Qed.

Lemma hist_ext_grows s s' : hist_ext s s' -> hist_grows s s'.
Proof. intros [_ (os & H & _)]. exists os. auto. Qed.

Lemma send_ok_mono s s' o o' : slots_mono s s' -> hist_grows s s' ->
  (forall i, In i (o_slots o) -> exists sl, slot_at s i = Some sl) -> same5 o o' -> send_ok s o -> send_ok s' o'.
Proof.
  intros M [os Eh] Hex [(Ek & Es & Ep & Er) Esp] (A & B & C). unfold send_ok, cnt_ok, sent. rewrite Ek, Es, Ep, Er, Esp.
  splits; auto. intros Hs. rewrite (req_members_mono _ _ _ _ M Hex), Eh. apply in_or_app. left. apply C. exact Hs.
Qed.

Lemma send_ok_step s s' o o' : slots_mono s s' -> hist_grows s s' ->
  (forall i, In i (o_slots o) -> exists sl, slot_at s i = Some sl) ->
  o_kind o' = o_kind o -> o_specs o' = o_specs o -> o_slots o' = o_slots o -> cnt_ok o' -> (sent o' = true -> sent o = true) ->
  send_ok s o -> send_ok s' o'.
Proof.
  intros M [os Eh] Hex Ek Esp Es Hc Hs (A & B & C). unfold send_ok. rewrite Ek, Es, Esp.
  splits; auto. intros Hs'. rewrite (req_members_mono _ _ _ _ M Hex), Eh. apply in_or_app. left. apply C. auto.
Qed.

Lemma send_ok_unsent s o : specs_ok (o_kind o) (o_specs o) = true -> cnt_ok o -> sent o = false -> send_ok s o.
Proof. intros A B C. unfold send_ok. splits; auto. rewrite C. discriminate. Qed.

Lemma invS_upd s s' n : inv1 s -> slots_mono s s' -> hist_grows s s' ->
  (forall m o', op_at s' m = Some o' -> m = n \/ exists o, op_at s m = Some o /\ same5 o o') ->
  (forall o', op_at s' n = Some o' -> send_ok s' o') -> invS s -> invS s'.
Proof.
  intros I M G H Hn S m o' Ho. destruct (H _ _ Ho) as [->|(o & A & B)]; auto.
  eapply send_ok_mono; eauto. intros i Hi. destruct (i_own _ (proj1 I) _ _ _ A Hi) as (sl & H1 & _). eauto.
Qed.

Lemma same5_refl o : same5 o o.
Proof. split; [apply same4_refl|auto]. Qed.

Lemma invS_same s s' : inv1 s -> slots_mono s s' -> hist_grows s s' -> ops s' = ops s -> invS s -> invS s'.
Proof.
  intros I M G E S m o' Ho. unfold op_at in Ho. rewrite E in Ho. eapply send_ok_mono; eauto; [|apply same5_refl].
  intros i Hi. destruct (i_own _ (proj1 I) _ _ _ Ho Hi) as (sl & H1 & _). eauto.
Qed.

(* operation n is replaced by g o *)
Lemma invS_set_op s s' n g o : inv1 s -> slots_mono s s' -> hist_grows s s' -> ops s' = ops (set_op n g s) ->
  op_at s n = Some o -> send_ok s' (g o) -> invS s -> invS s'.
Proof.
  intros I M G E Ho Hok. apply (invS_upd s s' n); auto.
  - intros m o' H. destruct (ops_upd_set_op _ _ _ _ E _ _ H) as [(-> & _)|(N & A)]; auto.
    right. exists o'. split; auto. apply same5_refl.
  - intros o' H. destruct (ops_upd_set_op _ _ _ _ E _ _ H) as [(_ & o1 & A & ->)|(N & _)]; [|congruence].
    rewrite Ho in A. injection A as <-. auto.
Qed.

(** * the history only grows *)
Lemma step_raw_grows s l s' : inv1 s -> step_raw s l = Some s' -> hist_grows s s'.
Proof.
  intros I E. destruct l; try (apply hist_ext_grows; apply (step_raw_boring s _ s' I E Logic.I)).
  - cbn in E. destruct (op_at s n) as [o|]; [|discriminate]. destruct (o_pc o); try discriminate.
    match type of E with (match ?x with Some _ => _ | None => _ end) = _ => destruct x end; injection E as <-.
    + apply hist_grows_refl; reflexivity.
    + eexists; reflexivity.
  - cbn in E. destruct (nth_error (delivs s) j) as [d|] eqn:Ed; [|discriminate]. destruct (d_st d); [|discriminate].
    destruct (deliver_all_inv1 j (d_msgs d) 0 s I) as (I1 & _).
    rewrite (i_crash _ (proj1 I1)) in E. injection E as <-.
    eapply hist_grows_trans; [apply hist_ext_grows; apply deliver_all_hist; auto|apply hist_grows_refl; reflexivity].
  - assert (E' := E). cbn in E'. destruct (slot_at s i) as [sl|] eqn:Es; [|discriminate]. clear E'.
    destruct (watch_spec s i sl s' I Es E) as (_ & A & B).
    destruct (assoc (id_text (sl_id sl)) (pending s)) as [i'|] eqn:Ea.
    + destruct (B i' eq_refl) as (_ & _ & _ & _ & Eh). eexists; exact Eh.
    + rewrite (A eq_refl). apply hist_grows_refl; reflexivity.
Qed.

Lemma settle1_grows s s' : inv1 s -> settle1 s = Some s' -> hist_grows s s'.
Proof.
  intros I E. unfold settle1 in E. rewrite (i_crash _ (proj1 I)) in E.
  assert (Hops : match find_idx (op_ready s) 0 (ops s) with
                 | Some n => match op_at s n with Some o => Some (op_advance n o s) | None => None end
                 | None => None end = Some s' -> hist_grows s s').
  { clear E. intros E. destruct (find_idx (op_ready s) 0 (ops s)) as [n|]; [|discriminate].
    destruct (op_at s n) as [o|] eqn:Eo; [|discriminate]. injection E as <-.
    unfold op_advance. destruct (o_pc o) eqn:Epc; try (apply hist_grows_refl; reflexivity).
    - destruct (nth_error (o_slots o) k) as [i|]; [|eexists; reflexivity].
      destruct (settle_slot_misc i s I) as (_ & _ & _ & B4). apply hist_grows_refl. exact B4.
    - destruct stopper; [destruct (err s) eqn:Ee|]; try (eexists; reflexivity).
      exists ([OOnStop s0] ++ [ORet n (RetClose (if uninteresting s0 then None else Some s0))]). rewrite app_assoc. reflexivity. }
  destruct (rd s); auto. destruct (ch_in s) as [|f q]; auto.
  destruct f as [[|b ms]|c]; injection E as <-; apply hist_grows_refl; reflexivity.
Qed.

(** * the invariant holds in every reachable state *)
Lemma invS_init c : invS (init_of c).
Proof. intros [|n] o H; discriminate. Qed.

Lemma slots_exist s n o : inv1 s -> op_at s n = Some o -> forall i, In i (o_slots o) -> exists sl, slot_at s i = Some sl.
Proof. intros I Ho i Hi. destruct (i_own _ (proj1 I) _ _ _ Ho Hi) as (sl & H1 & _). eauto. Qed.

Lemma invS_step_raw s l s' : inv1 s -> invS s -> step_raw s l = Some s' -> invS s'.
Proof.
  intros I SI E. assert (M := step_raw_mono s l s' I E). assert (G := step_raw_grows s l s' I E). destruct l; cbn in E.
  - (* LOp *)
    destruct (negb (n =? length (ops s)) || negb (specs_ok k specs)) eqn:G0; [discriminate|].
    apply orb_false_iff in G0. destruct G0 as [G1 G2]. apply negb_false_iff, Nat.eqb_eq in G1. apply negb_false_iff in G2.
    set (o0 := mkOp k specs [] PDone None None) in *.
    assert (Fr : forall s' g, ops s' = upd_nth n g (ops s ++ [o0]) -> slots_mono s s' -> hist_grows s s' -> send_ok s' (g o0) -> invS s').
    { intros s0 g E1 M0 G0 Hok. apply (invS_upd s s0 n); auto.
      - intros m o' H. unfold op_at in H. rewrite E1, nth_error_upd_nth in H. destruct (Nat.eqb_spec n m) as [|N]; auto.
        right. destruct (nth_error_snoc _ _ _ _ H) as [[_ H1]|[L _]]; [|congruence]. exists o'. split; auto. apply same5_refl.
      - intros o' H. unfold op_at in H. rewrite E1, nth_error_upd_nth, Nat.eqb_refl, G1, nth_error_app_new in H.
        injection H as <-. auto. }
    assert (Hpc : forall pc, scan specs 0 = Some pc -> forall s0, send_ok s0 (o0 <| o_pc := pc |>)).
    { intros pc Sc s0. destruct (scan_spec _ _ _ Sc) as [[-> A]|(k' & -> & A1 & A2 & A3)]; apply send_ok_unsent; auto.
      - unfold cnt_ok. cbn. auto.
      - unfold cnt_ok. cbn. rewrite Nat.sub_0_r in A2, A3. auto. }
    assert (Hfin : forall r s0, (match r with RetFail _ => True | _ => False end) ->
                                send_ok s0 (o0 <| o_pc := PDone |> <| o_ret := Some r |>)).
    { intros r s0 Hr. apply send_ok_unsent; auto; unfold cnt_ok, sent; cbn; destruct r; try contradiction; auto; try discriminate. }
    destruct k.
    1-3: destruct (is_nil specs); [injection E as <-; eapply Fr; [reflexivity|exact M|exact G|apply Hfin; exact Logic.I]|];
         destruct (scan specs 0) as [pc|] eqn:Sc; injection E as <-;
         (eapply Fr; [reflexivity|exact M|exact G|]); [apply Hpc; auto|apply Hfin; exact Logic.I].
    injection E as <-. eapply Fr; [reflexivity|exact M|exact G|]. apply send_ok_unsent; auto. unfold cnt_ok. cbn. auto.
  - (* LFeed *) injection E as <-. apply (invS_same s); auto.
  - (* LSendFault *) injection E as <-. apply (invS_same s); auto.
  - (* LCtxEnd *)
    destruct (op_at s n) as [o|] eqn:Eo; [|discriminate]. destruct (o_ctx o); injection E as <-; auto.
    apply (invS_upd s _ n); auto.
    + intros m o' H. right.
      destruct (ops_upd_set_op s _ n (fun o => o <| o_ctx := Some w |>) eq_refl _ _ H) as [(-> & o1 & A & ->)|(N & A)].
      * exists o1. split; auto. split; [unfold same4|]; auto.
      * exists o'. split; auto. apply same5_refl.
    + intros o' H. destruct (ops_upd_set_op s _ n (fun o => o <| o_ctx := Some w |>) eq_refl _ _ H) as [(_ & o1 & A & ->)|(N & _)]; [|congruence].
      eapply (send_ok_mono s); eauto; [eapply slots_exist; eauto|split; [unfold same4|]; auto].
  - (* LCbGate *)
    destruct (find_idx _ 0 (cbs s)); [|discriminate]. injection E as <-. apply (invS_same s); auto.
  - (* LRelReq *)
    destruct (op_at s n) as [o|] eqn:Eo; [|discriminate]. destruct (o_pc o) eqn:Epc; try discriminate.
    set (sl0 := mkSlot n (next_id s) false None false None WNone) in *.
    set (s1 := s <| slots ::= fun l => l ++ [sl0] |> <| next_id ::= S |>) in *.
    set (g1 := fun o0 : oprec => o0 <| o_slots ::= fun l => l ++ [length (slots s)] |>) in *.
    set (s2 := set_op n g1 s1) in *.
    destruct (SI _ _ Eo) as (A & B & _). unfold cnt_ok in B. rewrite Epc in B. destruct B as (B1 & sp & B2 & B3).
    assert (Hf : firstn (S k) (o_specs o) = firstn k (o_specs o) ++ [sp]) by (apply firstn_snoc; auto).
    assert (Hn : nn (firstn (S k) (o_specs o)) = length (o_slots o) + 1).
    { rewrite Hf, nn_app, B1. unfold nn at 2. cbn. rewrite B3. reflexivity. }
    assert (Ho2 : op_at s2 n = Some (g1 o)).
    { unfold s2. rewrite op_at_set_op, Nat.eqb_refl. replace (op_at s1 n) with (op_at s n) by reflexivity. rewrite Eo. reflexivity. }
    assert (Hupd : forall g2 s3, ops s3 = ops (set_op n g2 s2) -> slots_mono s s3 -> hist_grows s s3 -> send_ok s3 (g2 (g1 o)) -> invS s3).
    { intros g2 s3 E3 M3 G3 Hok. apply (invS_upd s s3 n); auto.
      - intros m o' H. destruct (ops_upd_set_op _ _ _ _ E3 _ _ H) as [(-> & _)|(N & A')]; auto. right.
        destruct (ops_upd_set_op s1 s2 n g1 eq_refl _ _ A') as [(-> & _)|(_ & A'')]; [congruence|].
        exists o'. split; auto. apply same5_refl.
      - intros o' H. destruct (ops_upd_set_op _ _ _ _ E3 _ _ H) as [(_ & o1 & A' & ->)|(N & _)]; [|congruence].
        rewrite Ho2 in A'. injection A' as <-. auto. }
    change (match o_specs o with [] => [] | _ :: l => skipn k l end) with (skipn (S k) (o_specs o)) in E.
    match type of E with (match ?x with Some _ => _ | None => _ end) = _ => destruct x as [pc|] eqn:Sc end; injection E as <-.
    + eapply Hupd; [reflexivity|exact M|exact G|]. apply send_ok_unsent; auto.
      * destruct (scan_spec _ _ _ Sc) as [[-> C]|(k' & -> & C1 & C2 & sp' & C3 & C4)]; unfold cnt_ok; cbn.
        -- rewrite app_length. cbn. rewrite <- (firstn_skipn (S k) (o_specs o)), nn_app, C, Hn. lia.
        -- set (d := k' - S k) in *. assert (Ek : k' = S k + d) by (unfold d; lia). clearbody d. subst k'.
           rewrite firstn_add, nn_app, C2, Hn, app_length. cbn [length]. split; [lia|].
           exists sp'. rewrite nth_error_skipn' in C3. auto.
      * destruct (scan_spec _ _ _ Sc) as [[-> C]|(k' & -> & _)]; reflexivity.
    + eapply Hupd; [reflexivity|exact M|exact G|]. apply send_ok_unsent; auto; unfold cnt_ok, sent; cbn; auto. discriminate.
  - (* LRelSend *)
    destruct (op_at s n) as [o|] eqn:Eo; [|discriminate]. destruct (o_pc o) eqn:Epc; try discriminate.
    destruct (SI _ _ Eo) as (A & B & _). unfold cnt_ok in B. rewrite Epc in B.
    assert (Hfin : forall r s0, (match r with RetFail _ => True | _ => False end) ->
                                send_ok s0 (o <| o_pc := PDone |> <| o_ret := Some r |>)).
    { intros r s0 Hr. apply send_ok_unsent; auto; unfold cnt_ok, sent; cbn; destruct r; try contradiction; auto; try discriminate. }
    destruct (err s).
    { injection E as <-. eapply (invS_set_op s _ n _ o); eauto; [reflexivity|]. apply Hfin. exact Logic.I. }
    destruct (negb (send_fail s)) eqn:Eok; injection E as <-.
    2: { eapply (invS_set_op s _ n _ o); eauto; [reflexivity|]. apply Hfin. exact Logic.I. }
    match type of M with slots_mono s (set_op _ _ (fold_left _ ?L ?s1)) =>
      destruct (register_fold_misc (o_ctx o) L s1) as (_ & _ & Eh & _); set (s2 := fold_left _ L s1) in * end.
    assert (E2 : ops s2 = ops s).
    { assert (I1 : inv1 (emit [OSendReq true (negb (length (o_specs o) =? 1)) (req_members (o_specs o) (o_slots o) s)] s)).
      { apply (inv1_frame s); try reflexivity; auto; try apply I. apply ops_frame_refl; reflexivity. }
      assert (Hp0 : presend o = true) by (unfold presend; rewrite Epc; auto).
      destruct I1 as [W1 P1].
      destruct (register_fold (o_ctx o) (o_slots o) _ W1 (i_nd _ W1 n o Eo)) as (_ & E2 & _); auto.
      intros i Hi. apply (P1 n o i Eo Hp0 Hi). }
    apply (invS_upd s _ n); auto.
    + intros m o' H. destruct (ops_upd_set_op s2 _ n _ eq_refl _ _ H) as [(-> & _)|(N & A')]; auto.
      right. exists o'. unfold op_at in A'. rewrite E2 in A'. split; auto. apply same5_refl.
    + intros o' H. destruct (ops_upd_set_op s2 _ n _ eq_refl _ _ H) as [(_ & o1 & A' & ->)|(N & _)]; [|congruence].
      unfold op_at in A'. rewrite E2 in A'. fold (op_at s n) in A'. rewrite Eo in A'. injection A' as <-.
      unfold send_ok, cnt_ok, sent. cbn [o_kind o_specs o_slots o_pc set]. splits; auto. intros _.
      rewrite (req_members_mono _ _ _ _ M (slots_exist s n o I Eo)).
      replace (hist (set_op n (fun o0 => o0 <| o_pc := PWait 0 |>) s2)) with (hist s2) by reflexivity.
      rewrite Eh. cbn. apply in_or_app. right. left. reflexivity.
  - (* LRelDeliver *)
    destruct (nth_error (delivs s) j) as [d|] eqn:Ed; [|discriminate]. destruct (d_st d); [|discriminate].
    destruct (deliver_all_inv1 j (d_msgs d) 0 s I) as (I1 & E1 & E2).
    rewrite (i_crash _ (proj1 I1)) in E. injection E as <-.
    apply (invS_same s); auto.
  - (* LRelWatch *)
    destruct (slot_at s i) as [sl|] eqn:Es; [|discriminate]. destruct (sl_watch sl); try discriminate.
    set (s1 := set_slot i (fun sl0 => sl0 <| sl_watch := WDone |>) s) in *.
    assert (I1 : inv1 s1).
    { apply (inv1_frame s); try reflexivity; auto; try apply I.
      cbn. apply map_core_upd. reflexivity. apply ops_frame_refl; reflexivity. }
    destruct (assoc (id_text (sl_id sl)) (pending s)) as [i'|] eqn:Ea; [|injection E as <-; apply (invS_same s); auto].
    apply assoc_in in Ea. assert (i' = i) by (apply (pending_of_slot s i sl i' I Es Ea)). subst i'.
    set (v := mkVal (id_text (sl_id sl)) (Some (watch_werr (err s) (sl_pctx sl))) [] SWatch) in *.
    destruct (write_pending_ok s1 (id_text (sl_id sl)) i v I1 Ea (fix_id_text _)) as (I2 & Eo2 & _).
    set (s2 := write_slot i v _) in *.
    rewrite (i_crash _ (proj1 I2)) in E.
    destruct (c_oncancel s2); [|injection E as <-; apply (invS_same s); auto].
    destruct (settle_slot_inv1 i s2 I2) as (I3 & Eo3 & _).
    rewrite (i_crash _ (proj1 I3)) in E. injection E as <-.
    apply (invS_same s); auto. cbn. rewrite Eo3, Eo2. reflexivity.
  - (* LRelRecvErr *)
    destruct (rd s); try discriminate. destruct (stop_locked c s) as [s1 first] eqn:Est.
    destruct (stop_locked_frame _ _ _ _ Est) as (_ & _ & _ & _ & _ & F6 & _).
    injection E as <-. apply (invS_same s); auto. destruct first; cbn; auto.
  - (* LRelClose *)
    destruct (op_at s n) as [o|] eqn:Eo; [|discriminate]. destruct (o_pc o) eqn:Epc; try discriminate.
    destruct (stop_locked SCClosed s) as [s1 first] eqn:Est.
    destruct (stop_locked_frame _ _ _ _ Est) as (_ & _ & _ & _ & _ & F6 & _).
    destruct (SI _ _ Eo) as (A & _). injection E as <-.
    apply (invS_upd s _ n); auto.
    + intros m o' H. destruct (ops_upd_set_op s1 _ n _ eq_refl _ _ H) as [(-> & _)|(N & A')]; auto.
      right. exists o'. unfold op_at in A'. rewrite F6 in A'. split; auto. apply same5_refl.
    + intros o' H. destruct (ops_upd_set_op s1 _ n _ eq_refl _ _ H) as [(_ & o1 & A' & ->)|(N & _)]; [|congruence].
      unfold op_at in A'. rewrite F6 in A'. fold (op_at s n) in A'. rewrite Eo in A'. injection A' as <-.
      apply send_ok_unsent; auto. unfold cnt_ok. cbn. auto.
  - (* LRelCbReply *)
    destruct (nth_error (cbs s) c) as [cb|]; [|discriminate]. destruct (cb_st cb); try discriminate.
    injection E as <-. destruct (err s) eqn:Ee; apply (invS_same s); auto.
Qed.

Lemma invS_settle1 s s' : inv1 s -> invS s -> settle1 s = Some s' -> invS s'.
Proof.
  intros I SI E. assert (M := settle1_mono s s' I E). assert (G := settle1_grows s s' I E).
  unfold settle1 in E. rewrite (i_crash _ (proj1 I)) in E.
  assert (Hops : match find_idx (op_ready s) 0 (ops s) with
                 | Some n => match op_at s n with Some o => Some (op_advance n o s) | None => None end
                 | None => None end = Some s' -> invS s').
  { clear E. intros E. destruct (find_idx (op_ready s) 0 (ops s)) as [n|]; [|discriminate].
    destruct (op_at s n) as [o|] eqn:Eo; [|discriminate]. injection E as <-.
    destruct (SI _ _ Eo) as (A & B & C).
    unfold op_advance in *. destruct (o_pc o) eqn:Epc; auto.
    - unfold cnt_ok in B. rewrite Epc in B.
      destruct (nth_error (o_slots o) k) as [i|].
      + destruct (settle_slot_inv1 i s I) as (_ & Eo1 & _).
        apply (invS_upd s _ n); auto.
        * intros m o' H. destruct (ops_upd_set_op (settle_slot i s) _ n _ eq_refl _ _ H) as [(-> & _)|(N & A')]; auto.
          right. exists o'. unfold op_at in A'. rewrite Eo1 in A'. split; auto. apply same5_refl.
        * intros o' H. destruct (ops_upd_set_op (settle_slot i s) _ n _ eq_refl _ _ H) as [(_ & o1 & A' & ->)|(N & _)]; [|congruence].
          unfold op_at in A'. rewrite Eo1 in A'. fold (op_at s n) in A'. rewrite Eo in A'. injection A' as <-.
          eapply (send_ok_step s _ o); [exact M|exact G|eapply slots_exist; eauto|reflexivity|reflexivity|reflexivity| | |exact (SI _ _ Eo)].
          -- unfold cnt_ok; cbn; auto.
          -- intros _. unfold sent. rewrite Epc. reflexivity.
      + eapply (invS_set_op s _ n _ o); eauto; [reflexivity|].
        eapply (send_ok_step s _ o); [exact M|exact G|eapply slots_exist; eauto|reflexivity|reflexivity|reflexivity| | |exact (SI _ _ Eo)].
        * unfold cnt_ok; cbn; auto.
        * intros _. unfold sent. rewrite Epc. reflexivity.
    - destruct stopper; [destruct (err s) eqn:Ee|];
        (eapply (invS_set_op s _ n _ o); eauto; [reflexivity|]; apply send_ok_unsent; auto; unfold cnt_ok; cbn; auto; discriminate). }
  destruct (rd s); auto. destruct (ch_in s) as [|f q]; auto.
  destruct f as [[|b ms]|c]; injection E as <-; apply (invS_same s); auto.
Qed.

Theorem invS_reach c s : reach c s -> inv1 s /\ invS s.
Proof.
  apply (reach_inv (fun s => inv1 s /\ invS s)).
  - split; [apply inv1_init|apply invS_init].
  - intros s0 l s' (I & SI) Cr E. split; [eapply inv1_step_raw|eapply invS_step_raw]; eauto.
  - intros s0 s' (I & SI) E. split; [eapply inv1_settle1|eapply invS_settle1]; eauto.
Qed.

(** * C04: the ids on the wire are the ids the replies are matched under; Batch answers in spec order *)
Lemma Forall2_length' {A B} (R : A -> B -> Prop) l1 l2 : Forall2 R l1 l2 -> length l1 = length l2.
Proof. induction 1; cbn; auto. Qed.

Lemma wire_ids c tr s : traces_to c tr s ->
  (* Call: one spec, one slot; the request that went out carries the slot's id *)
  (forall n r, In (ORet n (RetCall r)) (hist s) ->
     exists o i sl sp, op_at s n = Some o /\ o_specs o = [sp] /\ sp_notify sp = false /\ o_slots o = [i] /\ slot_at s i = Some sl
       /\ In (OSendReq true false [(id_text (sl_id sl), sp_method sp, sp_params sp)]) (hist s))
  (* Batch: the record that went out has one member per spec; the responses are, in order, those for the ids at
     its non-notification positions: one per non-notification spec, in spec order, notifications omitted *)
  /\ (forall n rs, In (ORet n (RetBatch rs)) (hist s) ->
        exists o ms, op_at s n = Some o /\ In (OSendReq true (negb (length (o_specs o) =? 1)) ms) (hist s)
          /\ length ms = length (o_specs o) /\ map fst rs = nn_ids (o_specs o) ms /\ length rs = nn (o_specs o)).
Proof.
  intros T. destruct (trace_invs c tr s T) as (I & K & C & P & H & O).
  destruct (invS_reach c s (traces_reach _ _ _ T)) as (_ & SI). split.
  - intros n r Hin. destruct (k_val _ K _ _ Hin) as (o & Ho & Hr).
    destruct (P n o Ho) as (A & _ & _ & D). destruct (D _ Hr) as (Hk & i & rest & v & Es & Hv & _).
    assert (Hpc : o_pc o = PDone) by (apply A; rewrite Hr; reflexivity).
    destruct (SI n o Ho) as (S1 & S2 & S3). unfold cnt_ok in S2. rewrite Hpc, Hr in S2. specialize (S2 eq_refl).
    unfold sent in S3. rewrite Hpc, Hr in S3. specialize (S3 eq_refl).
    rewrite Hk in S1. destruct (o_specs o) as [|sp [|sp2 r2]] eqn:Esp; try discriminate. cbn in S1.
    apply negb_true_iff in S1. unfold nn in S2. cbn in S2. rewrite S1 in S2. cbn in S2.
    rewrite Es in S2. destruct rest; [|discriminate].
    destruct (slot_val_at _ _ _ Hv) as (sl & Hs & _).
    exists o, i, sl, sp. splits; auto. rewrite Es in S3. cbn in S3. rewrite S1, Hs in S3. exact S3.
  - intros n rs Hin. destruct (k_val _ K _ _ Hin) as (o & Ho & Hr).
    destruct (P n o Ho) as (A & _ & _ & D). destruct (D _ Hr) as (Hk & F).
    assert (Hpc : o_pc o = PDone) by (apply A; rewrite Hr; reflexivity).
    destruct (SI n o Ho) as (S1 & S2 & S3). unfold cnt_ok in S2. rewrite Hpc, Hr in S2. specialize (S2 eq_refl).
    unfold sent in S3. rewrite Hpc, Hr in S3. specialize (S3 eq_refl).
    destruct (req_members_ids s (o_specs o) (o_slots o) S2) as [L1 L2].
    exists o, (req_members (o_specs o) (o_slots o) s). splits; auto.
    + rewrite L2. clear - F. induction F as [|i p L rs' (v & _ & ->) F IH]; cbn; auto. f_equal. exact IH.
    + rewrite <- S2. symmetry. eapply Forall2_length'; eauto.
Qed.

Example wire_ids_nonvacuous :
  exists s, traces_to ex_cfg ex_trace_batch s
    /\ In (ORet 0 (RetBatch [([49%N], RRes [55%N]); ([50%N], RRes [56%N])])) (hist s)
    /\ nn_ids [ex_spec 49; ex_nspec; ex_spec 50]
              [([49%N], [109%N], [91%N; 49%N; 93%N]); ([], [110%N], []); ([50%N], [109%N], [91%N; 50%N; 93%N])] = [[49%N]; [50%N]].
Proof.
  destruct (run (init_of ex_cfg) ex_trace_batch) as [[s oss]|] eqn:E.
  - exists s. split; [exists oss; exact E|]. revert E. vm_compute. intros [= <- _]. splits; auto.
  - revert E. vm_compute. discriminate.
Qed.
