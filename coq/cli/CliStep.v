(* CliStep: inversion lemmas for the transitions of the client model, shared by the later
   invariants (CliStop, CliCloseWait, CliGo, CliFail, CliC10, CliProgress): what [settle1] and
   [op_advance] do by cases, what the watcher's critical section produces, counting lemmas. *)
From Coq Require Import List NArith ZArith Bool Arith Lia.
From RecordUpdate Require Import RecordUpdate.
From JV Require Import Bytes Msg CliModel CliLemmas CliInv CliRet CliProofs CliC05 CliCtx CliOps CliHist CliLive CliWg CliSend.
Import ListNotations.

(** * counting *)
Lemma cnt_upd_eq {A} (p : A -> bool) (f : A -> A) l j x :
  nth_error l j = Some x -> p (f x) = p x -> cnt p (upd_nth j f l) = cnt p l.
Proof. intros H E. assert (X := cnt_upd p f l j x H). rewrite E in X. lia. Qed.

Lemma upd_nth_none {A} (f : A -> A) l : forall j, nth_error l j = None -> upd_nth j f l = l.
Proof. induction l as [|y l IH]; intros [|j] E; cbn in *; auto; try discriminate. f_equal. apply IH; auto. Qed.

Lemma cnt_upd_all {A} (p : A -> bool) (f : A -> A) l j : (forall x, p (f x) = p x) -> cnt p (upd_nth j f l) = cnt p l.
Proof.
  intros H. destruct (nth_error l j) as [x|] eqn:E; [eapply cnt_upd_eq; eauto|].
  rewrite upd_nth_none; auto.
Qed.

Lemma cnt_pos {A} (p : A -> bool) l j x : nth_error l j = Some x -> p x = true -> cnt p l <> 0.
Proof.
  intros H Hp Hz. assert (Hin : In x l) by (eapply nth_error_In; eauto).
  rewrite (cnt_zero_in p l x Hz Hin) in Hp. discriminate.
Qed.

Lemma cnt_one {A} (p : A -> bool) x : cnt p [x] = if p x then 1 else 0.
Proof. unfold cnt. cbn. destruct (p x); reflexivity. Qed.

Lemma cnt_nil {A} (p : A -> bool) : cnt p [] = 0.
Proof. reflexivity. Qed.

Lemma cnt_cons {A} (p : A -> bool) x l : cnt p (x :: l) = (if p x then 1 else 0) + cnt p l.
Proof. unfold cnt. cbn. destruct (p x); reflexivity. Qed.

Lemma upd_nth_snoc {A} (f : A -> A) l x : upd_nth (length l) f (l ++ [x]) = l ++ [f x].
Proof. induction l as [|y l IH]; cbn; auto. f_equal. exact IH. Qed.

(* a fresh record appended to a list and then updated *)
Lemma cnt_new {A} (p : A -> bool) (f : A -> A) l x : cnt p (upd_nth (length l) f (l ++ [x])) = cnt p l + (if p (f x) then 1 else 0).
Proof. rewrite upd_nth_snoc, cnt_app, cnt_one. reflexivity. Qed.

Lemma in_upd_nth {A} (f : A -> A) l : forall j y, In y (upd_nth j f l) -> In y l \/ exists x, nth_error l j = Some x /\ y = f x.
Proof.
  induction l as [|x l IH]; intros [|j] y H; cbn in *; auto.
  - destruct H as [<-|H]; eauto.
  - destruct H as [<-|H]; auto. destruct (IH j y H) as [?|?]; auto.
Qed.

(** * settle1 by cases *)
Lemma settle1_inv s s' : crash s = None -> settle1 s = Some s' ->
  (exists b ms q, rd s = RIdle /\ ch_in s = FMsg (InMsgs b ms) :: q
      /\ s' = s <| ch_in := q |> <| delivs ::= fun l => l ++ [mkDeliv ms DParked] |> <| wg ::= S |>)
  \/ (exists q, rd s = RIdle /\ ch_in s = FMsg InBad :: q /\ s' = s <| ch_in := q |> <| rd := RHold SCInvalid |>)
  \/ (exists c q, rd s = RIdle /\ ch_in s = FErr c :: q /\ s' = s <| ch_in := q |> <| rd := RHold c |>)
  \/ (exists n o, op_at s n = Some o /\ op_ready s o = true /\ s' = op_advance n o s).
Proof.
  intros Cr E. unfold settle1 in E. rewrite Cr in E.
  assert (Hops : match find_idx (op_ready s) 0 (ops s) with
                 | Some n => match op_at s n with Some o => Some (op_advance n o s) | None => None end
                 | None => None end = Some s' ->
                 exists n o, op_at s n = Some o /\ op_ready s o = true /\ s' = op_advance n o s).
  { clear E. intros E. destruct (find_idx (op_ready s) 0 (ops s)) as [n|] eqn:Ef; [|discriminate].
    destruct (op_at s n) as [o|] eqn:Eo; [|discriminate]. injection E as <-.
    apply find_idx_0 in Ef. destruct Ef as (o' & Ho' & Hr). unfold op_at in Eo. rewrite Eo in Ho'. injection Ho' as <-.
    exists n, o. auto. }
  destruct (rd s) eqn:Erd; auto 6. destruct (ch_in s) as [|f q] eqn:Ech; auto 6.
  destruct f as [[|b ms]|c]; injection E as <-.
  - right. left. exists q. auto.
  - left. exists b, ms, q. auto.
  - right. right. left. exists c, q. auto.
Qed.

Definition close_ret (s : state) : ret :=
  RetClose (match err s with Some c => if uninteresting c then None else Some c | None => None end).

Lemma op_advance_cases n o s : op_ready s o = true ->
  (exists k i, o_pc o = PWait k /\ nth_error (o_slots o) k = Some i /\ slot_val s i <> None
       /\ op_advance n o s = set_op n (fun o => o <| o_pc := PWait (S k) |>) (settle_slot i s))
  \/ (exists k, o_pc o = PWait k /\ nth_error (o_slots o) k = None /\ op_advance n o s = finish n (result_of s o) s)
  \/ (exists b, o_pc o = PCloseWait b /\ wg s = 0
       /\ op_advance n o s = finish n (close_ret s) (if b then match err s with Some c => emit [OOnStop c] s | None => s end else s)).
Proof.
  unfold op_ready, op_advance. intros H. destruct (o_pc o) eqn:Epc; try discriminate.
  - destruct (nth_error (o_slots o) k) as [i|] eqn:En.
    + left. exists k, i. splits; auto. intros X. rewrite X in H. discriminate.
    + right. left. exists k. auto.
  - right. right. exists stopper. apply Nat.eqb_eq in H. splits; auto.
Qed.

(** * the watcher's critical section by cases *)
Lemma watch_decomp s i s' : inv1 s -> step_raw s (LRelWatch i) = Some s' ->
  exists sl, slot_at s i = Some sl /\ sl_watch sl = WParked /\
    let s1 := set_slot i (fun sl0 => sl0 <| sl_watch := WDone |>) s in
    match assoc (id_text (sl_id sl)) (pending s) with
    | None => s' = s1
    | Some _ =>
        In (id_text (sl_id sl), i) (pending s) /\
        let v := watch_val s sl in
        let s2 := set_slot i (fun sl0 => sl0 <| sl_buf := Some v |>) (s1 <| pending ::= assoc_del (id_text (sl_id sl)) |>) in
        inv1 s1 /\ inv1 s2 /\
        s' = if c_oncancel s then emit [OOnCancel (id_text (sl_id sl)) (Some (watch_werr (err s) (sl_pctx sl)))] (settle_slot i s2) else s2
    end.
Proof.
  intros I E. cbn in E. destruct (slot_at s i) as [sl|] eqn:Es; [|discriminate].
  destruct (sl_watch sl) eqn:Ew; try discriminate. exists sl. splits; auto. cbn zeta.
  set (s1 := set_slot i (fun sl0 => sl0 <| sl_watch := WDone |>) s) in *.
  assert (I1 : inv1 s1).
  { apply (inv1_frame s); try reflexivity; auto; try apply I.
    cbn. apply map_core_upd. reflexivity. apply ops_frame_refl; reflexivity. }
  change (pending s1) with (pending s) in E.
  destruct (assoc (id_text (sl_id sl)) (pending s)) as [i'|] eqn:Ea; [|injection E as <-; reflexivity].
  apply assoc_in in Ea. assert (i' = i) by (apply (pending_of_slot s i sl i' I Es Ea)). subst i'.
  change (err s1) with (err s) in E. fold (watch_val s sl) in E.
  destruct (write_pending_ok s1 (id_text (sl_id sl)) i (watch_val s sl) I1 Ea (fix_id_text _)) as (I2 & _).
  rewrite (write_pending_eq s1 _ _ _ I1 Ea) in E, I2.
  set (s2 := set_slot i (fun sl0 : slot => sl0 <| sl_buf := Some (watch_val s sl) |>)
                        (s1 <| pending ::= assoc_del (id_text (sl_id sl)) |>)) in *.
  rewrite (i_crash _ (proj1 I2)) in E. change (c_oncancel s2) with (c_oncancel s) in E.
  splits; auto. destruct (c_oncancel s); [|injection E as <-; reflexivity].
  destruct (settle_slot_inv1 i s2 I2) as (I3 & _). rewrite (i_crash _ (proj1 I3)) in E. injection E as <-. reflexivity.
Qed.

(** * stopLocked by cases *)
Lemma stop_locked_some c s c0 : err s = Some c0 -> stop_locked c s = (s, false).
Proof. intros E. unfold stop_locked. rewrite E. reflexivity. Qed.

Lemma stop_locked_none c s : err s = None ->
  exists s1, stop_locked c s = (s1, true)
    /\ err s1 = Some c /\ closes s1 = S (closes s) /\ ops s1 = ops s /\ hist s1 = hist s ++ [OClose]
    /\ wg s1 = wg s /\ rd s1 = rd s /\ delivs s1 = delivs s /\ c_unblock s1 = c_unblock s
    /\ pending s1 = pending s /\ send_fail s1 = send_fail s
    /\ cbs s1 = map (fun c => match cb_st c with
                              | CbRunning => c <| cb_st := CbAtReply (CbErr Cancelled s_ctx_canceled) |>
                              | _ => c end) (cbs s)
    /\ ch_in s1 = (if c_unblock s then ch_in s ++ [FErr SCClosing] else ch_in s)
    /\ slots s1 = fold_left (fun sls (p : bytes * nat) => upd_nth (snd p) (cancel_slot WCancel) sls) (pending s) (slots s).
Proof.
  intros E. unfold stop_locked. rewrite E. rewrite fold_cancel_eq. cbn.
  destruct (c_unblock s) eqn:Eu; (eexists; split; [reflexivity|]); cbn; splits; first [reflexivity | exact Eu].
Qed.

(** * deliverLocked: a member by cases *)
Lemma deliver_member_cases j k m s : inv1 s ->
  deliver_member j k m s = s
  \/ (is_notification m = true /\ deliver_member j k m s = emit [OOnNotify (j_method m) (j_params m)] s)
  \/ (err s = None /\ is_req_or_notif m = true /\ is_notification m = false /\
      deliver_member j k m s
      = emit [OCbStart (j_id m) (j_method m) (j_params m)]
             (s <| cbs ::= fun l => l ++ [mkCb (j_id m) (j_method m) (j_params m) CbRunning] |> <| wg ::= S |>))
  \/ (exists i, In (fix_id (j_id m), i) (pending s) /\ is_req_or_notif m = false /\
      deliver_member j k m s
      = set_slot i (fun sl => sl <| sl_buf := Some (val_of_member j k m) |>) (s <| pending ::= assoc_del (fix_id (j_id m)) |>)).
Proof.
  intros I. unfold deliver_member. destruct (is_req_or_notif m) eqn:Er.
  - destruct (is_notification m) eqn:En.
    + destruct (c_onnotify s); auto.
    + destruct (c_oncallback s); cbn; auto. destruct (err s) eqn:Ee; cbn; auto. right. right. left. auto.
  - destruct (assoc (fix_id (j_id m)) (pending s)) as [i|] eqn:E; auto.
    apply assoc_in in E. right. right. right. exists i. splits; auto. apply write_pending_eq; auto.
Qed.

(** * the history only grows, along steps and runs *)
Lemma settle_grows fuel : forall s, inv1 s -> hist_grows s (settle fuel s).
Proof.
  induction fuel as [|f IH]; intros s I; cbn; [apply hist_grows_refl; reflexivity|].
  destruct (settle1 s) as [s'|] eqn:E; [|apply hist_grows_refl; reflexivity].
  eapply hist_grows_trans; [eapply settle1_grows; eauto|]. apply IH. eapply inv1_settle1; eauto.
Qed.

Lemma settle_inv1 fuel : forall s, inv1 s -> inv1 (settle fuel s).
Proof. intros s I. apply (settle_inv inv1); auto. intros; eapply inv1_settle1; eauto. Qed.

Lemma skipn_app_exact {A} (l r : list A) : skipn (length l) (l ++ r) = r.
Proof. induction l; cbn; auto. Qed.

(* the observations returned by [step] are exactly what it appended to the history *)
Lemma step_hist c s l s' os : reach c s -> step s l = Some (s', os) -> hist s' = hist s ++ os.
Proof.
  intros R E. assert (I := inv1_reach c s R). unfold step in E. destruct (crash s); [discriminate|].
  destruct (step_raw s l) as [s1|] eqn:E1; [|discriminate]. cbv zeta in E.
  set (s2 := settle (settle_fuel s1) s1) in *.
  assert (Es : s' = s2) by congruence. assert (Eo : os = skipn (length (hist s)) (hist s2)) by congruence. subst s' os.
  assert (I1 : inv1 s1) by (eapply inv1_step_raw; eauto; apply I).
  destruct (step_raw_grows s l s1 I E1) as [o1 H1]. destruct (settle_grows (settle_fuel s1) s1 I1) as [o2 H2].
  fold s2 in H2. rewrite H2, H1, <- app_assoc, skipn_app_exact, app_assoc. reflexivity.
Qed.

Lemma run_hist c tr : forall s s' oss, reach c s -> run s tr = Some (s', oss) -> hist s' = hist s ++ concat oss.
Proof.
  induction tr as [|l r IH]; cbn; intros s s' oss R H.
  - injection H as <- <-. cbn. rewrite app_nil_r. reflexivity.
  - destruct (step s l) as [[s1 os]|] eqn:E; [|discriminate].
    destruct (run s1 r) as [[s2 oss2]|] eqn:E2; [|discriminate]. injection H as <- <-.
    rewrite (IH _ _ _ (reach_step c s l s1 os R E) E2), (step_hist c s l s1 os R E). cbn. rewrite app_assoc. reflexivity.
Qed.

(* runs compose and decompose *)
Lemma run_app_inv tr1 : forall s tr2 s1 oss1 s2 oss, run s tr1 = Some (s1, oss1) -> run s (tr1 ++ tr2) = Some (s2, oss) ->
  exists oss2, run s1 tr2 = Some (s2, oss2).
Proof.
  induction tr1 as [|l r IH]; cbn; intros s tr2 s1 oss1 s2 oss H1 H.
  - injection H1 as <- _. eauto.
  - destruct (step s l) as [[sx os]|]; [|discriminate].
    destruct (run sx r) as [[sa ossa]|] eqn:Ea; [|discriminate]. injection H1 as <- _.
    destruct (run sx (r ++ tr2)) as [[sb ossb]|] eqn:Eb; [|discriminate]. injection H as <- _.
    eapply IH; eauto.
Qed.

Lemma run_app tr1 : forall s tr2 s1 oss1 s2 oss2, run s tr1 = Some (s1, oss1) -> run s1 tr2 = Some (s2, oss2) ->
  run s (tr1 ++ tr2) = Some (s2, oss1 ++ oss2).
Proof.
  induction tr1 as [|l r IH]; cbn; intros s tr2 s1 oss1 s2 oss2 H1 H2.
  - injection H1 as <- <-. exact H2.
  - destruct (step s l) as [[sx os]|]; [|discriminate].
    destruct (run sx r) as [[sa ossa]|] eqn:Ea; [|discriminate]. injection H1 as <- <-.
    rewrite (IH _ _ _ _ _ _ Ea H2). reflexivity.
Qed.

(* a split of a history that was extended *)
Lemma app_snoc_split {A} (h os h1 h2 : list A) x : h ++ os = h1 ++ x :: h2 ->
  (exists h2', h = h1 ++ x :: h2' /\ h2 = h2' ++ os) \/ (exists o1, h1 = h ++ o1 /\ os = o1 ++ x :: h2).
Proof.
  revert h1. induction h as [|y h IH]; intros h1 E; cbn in *.
  - right. exists h1. auto.
  - destruct h1 as [|z h1]; cbn in E.
    + injection E as <- <-. left. exists h. auto.
    + injection E as <- E. destruct (IH _ E) as [(h2' & -> & ->)|(o1 & -> & ->)].
      * left. exists h2'. auto.
      * right. exists o1. auto.
Qed.
