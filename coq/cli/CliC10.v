(* CliC10: channel discipline of the client (C10, client half).

   Close: the channel is closed exactly when c.err is set, at most once ever.
   Send / Close: every OSendReq / OSendRsp / OClose of the history is appended by the critical section
   ([step_raw], run under c.mu) of one release label among LRelSend (Client.send), LRelCbReply (the callback
   reply in handleRequestLocked's goroutine), LRelClose and LRelRecvErr (stopLocked); each such critical section
   performs at most one channel operation, the unhooked micro steps ([settle]) perform none, and once the
   client has stopped no channel operation happens at all - so no two Sends overlap, no Send overlaps Close,
   and nothing is sent on a closed channel.
   Recv: input is consumed only by the reader micro step of [settle1], one record at a time, while rd = RIdle;
   no labelled transition consumes input, and after the reader has exited nothing is consumed. *)
From Coq Require Import List NArith ZArith Bool Arith Lia.
From RecordUpdate Require Import RecordUpdate.
From JV Require Import Bytes Msg CliModel CliLemmas CliInv CliRet CliProofs CliC05 CliCtx CliOps CliHist CliLive CliWg CliSend CliNoStop CliStep CliStop CliObs.
Import ListNotations.

Definition is_chanop (o : obs) : bool := match o with OSendReq _ _ _ | OSendRsp _ _ _ | OClose => true | _ => false end.
Definition is_send (o : obs) : bool := match o with OSendReq _ _ _ | OSendRsp _ _ _ => true | _ => false end.
(* the release labels whose critical section may use the channel *)
Definition cs_label (l : label) : bool :=
  match l with LRelSend _ | LRelCbReply _ | LRelClose _ | LRelRecvErr => true | _ => false end.

(** * Close exactly once per NewClient, at most once ever *)
Lemma c10_close_once_cli c tr s : traces_to c tr s ->
  closes s = (if is_some (err s) then 1 else 0)
  /\ cnt is_oclose (hist s) = closes s
  /\ closes s <= 1.
Proof.
  intros T. destruct (invT_reach c s (traces_reach _ _ _ T)) as (_ & [A B _ _ _]). unfold stopped in A. splits; auto.
  rewrite A. destruct (is_some (err s)); lia.
Qed.

(** * channel operations happen inside critical sections, one at a time *)
Lemma dobs_chanop os : forallb dobs os = true -> cnt is_chanop os = 0.
Proof.
  unfold cnt. induction os as [|o r IH]; cbn; auto. rewrite andb_true_iff. intros [H1 H2].
  destruct o; cbn in *; auto; discriminate.
Qed.

Ltac mem_tac :=
  intros; cbn in *;
  repeat match goal with
         | H : _ \/ _ |- _ => destruct H
         | H : False |- _ => contradiction
         | H : _ = _ |- _ => discriminate H
         end; eauto.

(* a concrete observation list without channel operations *)
Ltac chan0 := unfold cnt; cbn; splits; [lia|intros X; discriminate X|lia|mem_tac|mem_tac|mem_tac].
(* one channel operation, by a critical section that may use the channel, on a client that has not stopped *)
Ltac chan1 Ee := unfold cnt; cbn; splits; [lia|intros _; split; [reflexivity|first [exact Ee|reflexivity]]|lia|mem_tac|mem_tac|mem_tac].

Lemma raw_shape_chanop s l os : raw_shape s l os ->
  cnt is_chanop os <= 1
  /\ (cnt is_chanop os = 1 -> cs_label l = true /\ err s = None)
  /\ (cnt is_send os <= cnt is_chanop os)
  (* which operation, by label *)
  /\ (forall ok b ms, In (OSendReq ok b ms) os -> exists n, l = LRelSend n)
  /\ (forall ok i o, In (OSendRsp ok i o) os -> exists c, l = LRelCbReply c)
  /\ (In OClose os -> (exists n, l = LRelClose n) \/ l = LRelRecvErr).
Proof.
  intros Sh. destruct l; cbn [raw_shape] in Sh.
  - destruct Sh as [->|[->| ->]]; chan0.
  - subst os; chan0.
  - subst os; chan0.
  - subst os; chan0.
  - subst os; chan0.
  - destruct Sh as [->| ->]; chan0.
  - destruct Sh as (o & _ & _ & Sh). destruct (err s) eqn:Ee.
    + subst os. chan0.
    + destruct (send_fail s); subst os; unfold send_obs; chan1 Ee.
  - destruct Sh as (_ & Sh & _). rewrite (dobs_chanop _ Sh). splits; auto; try lia; try discriminate.
    + unfold cnt. clear - Sh. induction os as [|o r IH]; cbn in *; auto. apply andb_true_iff in Sh. destruct Sh as [H1 H2].
      destruct o; cbn in *; try discriminate; auto.
    + intros ok b ms Hin. rewrite forallb_forall in Sh. apply Sh in Hin. discriminate.
    + intros ok i o Hin. rewrite forallb_forall in Sh. apply Sh in Hin. discriminate.
    + intros Hin. rewrite forallb_forall in Sh. apply Sh in Hin. discriminate.
  - destruct Sh as [->|(sl & _ & _ & ->)]; chan0.
  - destruct Sh as (c & _ & ->). destruct (err s) eqn:Ee; [chan0|chan1 Ee].
  - destruct Sh as (_ & ->). destruct (err s) eqn:Ee; [chan0|chan1 Ee].
  - destruct Sh as (cb & o & _ & _ & ->). destruct (err s) eqn:Ee; [chan0|chan1 Ee].
Qed.

Lemma settle_shape_chanop s os : settle_shape s os -> cnt is_chanop os = 0.
Proof.
  intros [->|[(n & o & k & _ & _ & _ & ->)|(n & o & b & _ & _ & _ & ->)]]; try reflexivity.
  destruct b; [destruct (err s)|]; reflexivity.
Qed.

Lemma settle_chanop fuel : forall s, inv1 s -> exists os, hist (settle fuel s) = hist s ++ os /\ cnt is_chanop os = 0.
Proof.
  induction fuel as [|f IH]; intros s I; cbn.
  - exists []. rewrite app_nil_r. auto.
  - destruct (settle1 s) as [s'|] eqn:E; [|exists []; rewrite app_nil_r; auto].
    destruct (settle1_obs s s' I E) as (o1 & H1 & S1). destruct (IH s' (inv1_settle1 s s' I E)) as (o2 & H2 & S2).
    exists (o1 ++ o2). rewrite H2, H1, app_assoc. split; auto. rewrite cnt_app, S2, (settle_shape_chanop _ _ S1). reflexivity.
Qed.

Lemma c10_cli_chan_ops_in_critical_sections c tr s : traces_to c tr s -> forall l s' os, step s l = Some (s', os) ->
  exists s1 o1 o2, step_raw s l = Some s1 /\ hist s1 = hist s ++ o1 /\ hist s' = hist s1 ++ o2 /\ os = o1 ++ o2
    (* the unhooked consequences never touch the channel *)
    /\ cnt is_chanop o2 = 0
    (* the critical section performs at most one channel operation ... *)
    /\ cnt is_chanop o1 <= 1 /\ cnt is_chanop os <= 1
    (* ... only if it is one of the four that hold c.mu around a Send or Close, and only while the client has not stopped *)
    /\ (cnt is_chanop os = 1 -> cs_label l = true /\ err s = None)
    (* which operation: Send of a request record by Client.send, Send of a callback reply, Close by stopLocked *)
    /\ (forall ok b ms, In (OSendReq ok b ms) os -> exists n, l = LRelSend n)
    /\ (forall ok i o, In (OSendRsp ok i o) os -> exists cb, l = LRelCbReply cb)
    /\ (In OClose os -> (exists n, l = LRelClose n) \/ l = LRelRecvErr).
Proof.
  intros T l s' os E. assert (R := traces_reach _ _ _ T). assert (I := inv1_reach c s R).
  assert (Eh := step_hist c s l s' os R E).
  unfold step in E. destruct (crash s); [discriminate|]. destruct (step_raw s l) as [s1|] eqn:E1; [|discriminate].
  assert (Es : settle (settle_fuel s1) s1 = s') by congruence.
  assert (I1 : inv1 s1) by (eapply inv1_step_raw; eauto; apply I).
  destruct (step_raw_obs s l s1 I E1) as (o1 & H1 & Sh). destruct (settle_chanop (settle_fuel s1) s1 I1) as (o2 & H2 & S2).
  rewrite Es in H2.
  assert (Eo : os = o1 ++ o2). { rewrite H2, H1, <- app_assoc in Eh. apply app_inv_head in Eh. auto. }
  destruct (raw_shape_chanop s l o1 Sh) as (A1 & A2 & A3 & A4 & A5 & A6).
  assert (Hin2 : forall x, In x o2 -> is_chanop x = false). { intros x Hx. eapply cnt_zero_in; eauto. }
  exists s1, o1, o2. subst os. rewrite !cnt_app, S2, !Nat.add_0_r. splits; auto.
  - intros ok b ms Hin. apply in_app_or in Hin. destruct Hin as [Hin|Hin]; eauto. apply Hin2 in Hin. discriminate.
  - intros ok i o Hin. apply in_app_or in Hin. destruct Hin as [Hin|Hin]; eauto. apply Hin2 in Hin. discriminate.
  - intros Hin. apply in_app_or in Hin. destruct Hin as [Hin|Hin]; eauto. apply Hin2 in Hin. discriminate.
Qed.

(* nothing is sent, and nothing closed again, once the client has stopped *)
Lemma c10_cli_no_chanop_after_stop c tr s : traces_to c tr s -> err s <> None ->
  forall l s' os, step s l = Some (s', os) -> cnt is_chanop os = 0.
Proof.
  intros T He l s' os E. destruct (c10_cli_chan_ops_in_critical_sections c tr s T l s' os E) as (s1 & o1 & o2 & _ & _ & _ & _ & _ & _ & A & B & _).
  destruct (Nat.eq_dec (cnt is_chanop os) 1) as [E1|N]; [destruct (B E1); contradiction|lia].
Qed.

(** * a single reader *)
Lemma step_raw_chin s l s' : inv1 s -> step_raw s l = Some s' ->
  (exists q, ch_in s' = ch_in s ++ q)
  /\ (rd s' = rd s \/ (l = LRelRecvErr /\ (exists c, rd s = RHold c) /\ rd s' = RExited)).
Proof.
  intros I E.
  assert (Hsame : forall s2, ch_in s2 = ch_in s -> rd s2 = rd s ->
            (exists q, ch_in s2 = ch_in s ++ q) /\ (rd s2 = rd s \/ (l = LRelRecvErr /\ (exists c, rd s = RHold c) /\ rd s2 = RExited))).
  { intros s2 E1 E2. split; auto. exists []. rewrite app_nil_r. auto. }
  destruct l; cbn in E.
  - destruct (negb (n =? length (ops s)) || negb (specs_ok k specs)); [discriminate|].
    destruct k.
    1-3: destruct (is_nil specs); [injection E as <-; apply Hsame; reflexivity|]; destruct (scan specs 0); injection E as <-; apply Hsame; reflexivity.
    injection E as <-; apply Hsame; reflexivity.
  - injection E as <-. split; [eexists; reflexivity|auto].
  - injection E as <-; apply Hsame; reflexivity.
  - destruct (op_at s n) as [o|]; [|discriminate]. destruct (o_ctx o); injection E as <-; apply Hsame; reflexivity.
  - destruct (find_idx _ 0 (cbs s)); [|discriminate]. injection E as <-; apply Hsame; reflexivity.
  - destruct (op_at s n) as [o|]; [|discriminate]. destruct (o_pc o); try discriminate.
    match type of E with (match ?x with Some _ => _ | None => _ end) = _ => destruct x end; injection E as <-; apply Hsame; reflexivity.
  - destruct (op_at s n) as [o|]; [|discriminate]. destruct (o_pc o); try discriminate.
    destruct (err s); [injection E as <-; apply Hsame; reflexivity|].
    destruct (negb (send_fail s)); injection E as <-; [|apply Hsame; reflexivity].
    match goal with |- context [fold_left _ ?L ?s1] => destruct (env_register_fold (o_ctx o) L s1) as (_ & A2 & A3 & _) end.
    apply Hsame; cbn; [rewrite A3|rewrite A2]; reflexivity.
  - destruct (nth_error (delivs s) j) as [d|]; [|discriminate]. destruct (d_st d); [|discriminate].
    destruct (env_deliver_all j (d_msgs d) 0 s) as (_ & A2 & A3 & _).
    destruct (crash (deliver_all j 0 (d_msgs d) s)); injection E as <-; apply Hsame; cbn; auto.
  - destruct (watch_decomp s i s' I E) as (sl & Es & Ew & D). cbn zeta in D.
    destruct (assoc (id_text (sl_id sl)) (pending s)); [|rewrite D; apply Hsame; reflexivity].
    destruct D as (_ & _ & I2 & ->). destruct (c_oncancel s); [|apply Hsame; reflexivity].
    match goal with |- context [settle_slot ?i ?s2] => destruct (env_settle_slot i s2) as (_ & A2 & A3 & _) end.
    apply Hsame; cbn; [rewrite A3|rewrite A2]; reflexivity.
  - destruct (rd s) eqn:Erd; try discriminate. destruct (err s) as [c0|] eqn:Ee.
    + rewrite (stop_locked_some c s c0 Ee) in E. injection E as <-. split; [exists []; rewrite app_nil_r; reflexivity|].
      right. splits; eauto.
    + destruct (stop_locked_none c s Ee) as (s1 & Est & B). rewrite Est in E. injection E as <-.
      destruct B as (_ & _ & _ & _ & _ & _ & _ & _ & _ & _ & _ & B12 & _). split.
      * cbn. rewrite B12. destruct (c_unblock s); [eexists; reflexivity|exists []; rewrite app_nil_r; reflexivity].
      * right. splits; eauto.
  - destruct (op_at s n) as [o|]; [|discriminate]. destruct (o_pc o); try discriminate.
    destruct (err s) as [c0|] eqn:Ee.
    + rewrite (stop_locked_some _ s c0 Ee) in E. injection E as <-. apply Hsame; reflexivity.
    + destruct (stop_locked_none SCClosed s Ee) as (s1 & Est & B). rewrite Est in E. injection E as <-.
      destruct B as (_ & _ & _ & _ & _ & B6 & _ & _ & _ & _ & _ & B12 & _). split; [|left; exact B6].
      cbn. rewrite B12. destruct (c_unblock s); [eexists; reflexivity|exists []; rewrite app_nil_r; reflexivity].
  - destruct (nth_error (cbs s) c) as [cb|]; [|discriminate]. destruct (cb_st cb); try discriminate.
    injection E as <-. destruct (err s); apply Hsame; reflexivity.
Qed.

Lemma settle1_chin s s' : inv1 s -> settle1 s = Some s' ->
  (ch_in s' = ch_in s /\ rd s' = rd s)
  \/ (rd s = RIdle /\ exists f, ch_in s = f :: ch_in s').
Proof.
  intros I E.
  destruct (settle1_inv s s' (i_crash _ (proj1 I)) E) as [(b & ms & q & X & Y & ->)|[(q & X & Y & ->)|[(c & q & X & Y & ->)|(n & o & Ho & Hr & ->)]]];
    try (right; split; auto; eexists; exact Y).
  left. destruct (op_advance_cases n o s Hr) as [(k & i & Hpc & Hn & _ & ->)|[(k & Hpc & Hn & ->)|(b & Hpc & Hw & ->)]].
  - cbn. destruct (env_settle_slot i s) as (_ & A2 & A3 & _). auto.
  - split; reflexivity.
  - destruct b; [destruct (err s)|]; split; reflexivity.
Qed.

(* once the reader has exited it stays exited and nothing is ever taken from the input again *)
Lemma c10_cli_single_reader c tr s : traces_to c tr s ->
  (* labelled transitions (API calls, critical sections, the environment) never receive *)
  (forall l s1, step_raw s l = Some s1 -> exists q, ch_in s1 = ch_in s ++ q)
  (* an unhooked micro step receives at most one record, and only as the reader in Recv *)
  /\ (forall s1, settle1 s = Some s1 -> (ch_in s1 = ch_in s /\ rd s1 = rd s) \/ (rd s = RIdle /\ exists f, ch_in s = f :: ch_in s1))
  (* after the reader's exit: no Recv at all, in any continuation *)
  /\ (rd s = RExited -> forall l s' os, step s l = Some (s', os) -> rd s' = RExited /\ exists q, ch_in s' = ch_in s ++ q).
Proof.
  intros T. assert (R := traces_reach _ _ _ T). assert (I := inv1_reach c s R). splits.
  - intros l s1 E. apply (step_raw_chin s l s1 I E).
  - intros s1 E. apply (settle1_chin s s1 I E).
  - intros Hrd l s' os E. unfold step in E. destruct (crash s); [discriminate|]. destruct (step_raw s l) as [s1|] eqn:E1; [|discriminate].
    assert (Es : settle (settle_fuel s1) s1 = s') by congruence. rewrite <- Es.
    destruct (step_raw_chin s l s1 I E1) as ((q & Hq) & Hr).
    assert (Hrd1 : rd s1 = RExited). { destruct Hr as [->|(_ & (c0 & X) & _)]; [auto|congruence]. }
    assert (G : inv1 (settle (settle_fuel s1) s1) /\ rd (settle (settle_fuel s1) s1) = RExited /\ ch_in (settle (settle_fuel s1) s1) = ch_in s1).
    { apply (settle_inv (fun st => inv1 st /\ rd st = RExited /\ ch_in st = ch_in s1)).
      - intros a b (Ia & Ra & Ca) Hb. split; [eapply inv1_settle1; eauto|].
        destruct (settle1_chin a b Ia Hb) as [(X & Y)|(X & _)]; [split; congruence|congruence].
      - split; [eapply inv1_step_raw; eauto; apply I|auto]. }
    destruct G as (_ & G1 & G2). split; auto. exists q. congruence.
Qed.

(** * non-vacuity *)
(* ex_trace_cb' : a request, a callback reply, a Close, the reader's exit: three channel operations, one per critical section *)
Definition ex_push10 : jmsg :=
  {| j_id := [55%N]; j_method := [112%N]; j_params := [91%N; 93%N]; j_error := None; j_result := []; j_err := None |}.
Definition ex_trace_c10 : list label :=
  [LOp 0 KCall [ex_spec 49]; LRelReq 0; LRelSend 0;
   LFeed (FMsg (InMsgs false [ex_push10])); LRelDeliver 0; LCbGate [91%N; 93%N] (CbRes [49%N]); LRelCbReply 0;
   LOp 1 KClose []; LRelClose 1; LRelRecvErr].

Example c10_cli_nonvacuous :
  exists s, traces_to ex_cfg ex_trace_c10 s
    /\ filter is_chanop (hist s)
       = [OSendReq true false [([49%N], [109%N], [91%N; 49%N; 93%N])]; OSendRsp true [55%N] (CbRes [49%N]); OClose]
    /\ closes s = 1 /\ rd s = RExited.
Proof.
  destruct (run (init_of ex_cfg) ex_trace_c10) as [[s oss]|] eqn:E; [|revert E; vm_compute; discriminate].
  exists s. split; [exists oss; exact E|]. revert E. vm_compute. intros [= <- _]. splits; reflexivity.
Qed.
