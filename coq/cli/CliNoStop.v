(* CliNoStop: a client that is never closed and whose transport never fails does not stop.

   If no Close operation is issued along a label sequence and every record the transport hands to the reader
   is a parsed JSON value (no Recv error, no text that is not JSON), then in the state reached c.err is unset:
   the premise "the client did not stop" of c04_order_irrelevant / C19's same-results theorem holds.
   stopLocked is called from two places only: the reader on a Recv error (or invalid JSON), and Close. *)
From Coq Require Import List NArith ZArith Bool Arith Lia.
From RecordUpdate Require Import RecordUpdate.
From JV Require Import Bytes Msg CliModel CliLemmas CliInv CliProofs.
Import ListNotations.

Definition good_feed (f : feed) : Prop := exists b ms, f = FMsg (InMsgs b ms).
Definition not_close (l : label) : Prop := match l with LOp _ KClose _ => False | _ => True end.
Definition good_label (l : label) : Prop := match l with LFeed f => good_feed f | _ => not_close l end.

Definition pc_ok (o : oprec) : Prop := o_pc o <> PClose.

Record nostop (s : state) : Prop := {
  ns_err : err s = None;
  ns_rd : rd s = RIdle;
  ns_in : Forall good_feed (ch_in s);
  ns_ops : Forall pc_ok (ops s)
}.

(* steps that touch none of the four fields *)
Definition same_env (s s' : state) : Prop :=
  err s' = err s /\ rd s' = rd s /\ ch_in s' = ch_in s /\ ops s' = ops s.

Lemma same_env_refl s : same_env s s.
Proof. repeat split. Qed.

Lemma same_env_trans a b c : same_env a b -> same_env b c -> same_env a c.
Proof. intros (A1 & A2 & A3 & A4) (B1 & B2 & B3 & B4). repeat split; congruence. Qed.

Lemma nostop_env s s' : same_env s s' -> nostop s -> nostop s'.
Proof. intros (A1 & A2 & A3 & A4) [N1 N2 N3 N4]. split; congruence. Qed.

Lemma env_write_slot i v s : same_env s (write_slot i v s).
Proof. unfold write_slot. destruct (slot_at s i) as [sl|]; [destruct (sl_buf sl)|]; repeat split. Qed.

Lemma env_settle_slot i s : same_env s (settle_slot i s).
Proof.
  unfold settle_slot. destruct (slot_at s i) as [sl|]; [|apply same_env_refl]. destruct (sl_buf sl); [|apply same_env_refl].
  destruct (sl_settled sl); [apply same_env_refl|]. destruct (beq _ _); repeat split.
Qed.

Lemma env_deliver_member j k m s : same_env s (deliver_member j k m s).
Proof.
  unfold deliver_member. destruct (is_req_or_notif m).
  - destruct (is_notification m).
    + destruct (c_onnotify s); repeat split.
    + destruct (c_oncallback s); cbn; [|apply same_env_refl]. destruct (err s); repeat split.
  - destruct (assoc (fix_id (j_id m)) (pending s)) as [i|]; [|apply same_env_refl].
    eapply same_env_trans; [|apply env_write_slot]. repeat split.
Qed.

Lemma env_deliver_all j ms : forall k s, same_env s (deliver_all j k ms s).
Proof.
  induction ms as [|m r IH]; intros k s; cbn; [apply same_env_refl|]. destruct (crash s); [apply same_env_refl|].
  eapply same_env_trans; [apply env_deliver_member|apply IH].
Qed.

Lemma env_register ctx i s : same_env s (register ctx i s).
Proof. unfold register. destruct (slot_at s i); [destruct (is_some _)|]; repeat split. Qed.

Lemma env_register_fold ctx L : forall s, same_env s (fold_left (fun st i => register ctx i st) L s).
Proof.
  induction L as [|i r IH]; intros s; cbn; [apply same_env_refl|].
  eapply same_env_trans; [apply env_register|apply IH].
Qed.

(** * operations *)
Lemma Forall_upd_nth {A} (P : A -> Prop) n f (l : list A) : Forall P l -> (forall x, P x -> P (f x)) -> Forall P (upd_nth n f l).
Proof.
  intros H Hf. revert n; induction H as [|x l Hx H IH]; intros [|n]; cbn; constructor; auto.
Qed.

Lemma Forall_snoc {A} (P : A -> Prop) l x : Forall P l -> P x -> Forall P (l ++ [x]).
Proof. intros H Hx. apply Forall_app. split; auto. Qed.

Lemma scan_ok l : forall z pc, scan l z = Some pc -> pc <> PClose.
Proof.
  induction l as [|sp r IH]; cbn; intros z pc H; [injection H as <-; discriminate|].
  destruct (sp_bad sp); [discriminate|]. destruct (sp_notify sp); [eapply IH; eauto|injection H as <-; discriminate].
Qed.

Lemma nostop_set_op n g s : (forall o, pc_ok o -> pc_ok (g o)) -> nostop s -> nostop (set_op n g s).
Proof. intros Hg [N1 N2 N3 N4]. split; auto. cbn. apply Forall_upd_nth; auto. Qed.

Lemma nostop_finish n r s : nostop s -> nostop (finish n r s).
Proof.
  intros N. unfold finish. apply (nostop_env (set_op n (fun o => o <| o_pc := PDone |> <| o_ret := Some r |>) s)); [repeat split|].
  apply nostop_set_op; auto. intros o _. unfold pc_ok. cbn. discriminate.
Qed.

Lemma nostop_set_pc n pc s : pc <> PClose -> nostop s -> nostop (set_op n (fun o => o <| o_pc := pc |>) s).
Proof. intros H. apply nostop_set_op. intros o _. exact H. Qed.

Lemma nostop_step_raw s l s' : nostop s -> good_label l -> step_raw s l = Some s' -> nostop s'.
Proof.
  intros N G E. destruct l; cbn in E.
  - (* LOp *)
    destruct (negb (n =? length (ops s)) || negb (specs_ok k specs)); [discriminate|].
    set (o0 := mkOp k specs [] PDone None None) in *.
    assert (N1 : nostop (s <| ops ::= fun l => l ++ [o0] |>)).
    { destruct N as [N1 N2 N3 N4]. split; auto. cbn. apply Forall_snoc; auto. unfold pc_ok. cbn. discriminate. }
    destruct k; try (cbn in G; contradiction).
    1-3: destruct (is_nil specs); [injection E as <-; apply nostop_finish; auto|];
         destruct (scan specs 0) as [pc|] eqn:Sc; injection E as <-;
         [apply nostop_set_pc; [eapply scan_ok; eauto|auto]|apply nostop_finish; auto].
  - (* LFeed *)
    injection E as <-. destruct N as [N1 N2 N3 N4]. split; auto. cbn. apply Forall_snoc; auto.
  - (* LSendFault *) injection E as <-. destruct N as [N1 N2 N3 N4]. split; auto.
  - (* LCtxEnd *)
    destruct (op_at s n) as [o|]; [|discriminate]. destruct (o_ctx o); injection E as <-; auto.
    apply (nostop_env (set_op n (fun o => o <| o_ctx := Some w |>) s)); [repeat split|].
    apply nostop_set_op; auto.
  - (* LCbGate *)
    destruct (find_idx _ 0 (cbs s)); [|discriminate]. injection E as <-. destruct N as [N1 N2 N3 N4]. split; auto.
  - (* LRelReq *)
    destruct (op_at s n) as [o|]; [|discriminate]. destruct (o_pc o); try discriminate.
    match type of E with (match ?x with Some _ => _ | None => _ end) = _ => destruct x as [pc|] eqn:Sc end; injection E as <-.
    + apply nostop_set_pc; [eapply scan_ok; eauto|]. apply nostop_set_op; auto.
      destruct N as [N1 N2 N3 N4]. split; auto.
    + apply nostop_finish. apply nostop_set_op; auto. destruct N as [N1 N2 N3 N4]. split; auto.
  - (* LRelSend *)
    destruct (op_at s n) as [o|]; [|discriminate]. destruct (o_pc o); try discriminate.
    destruct (err s); [injection E as <-; apply nostop_finish; auto|].
    destruct (negb (send_fail s)); injection E as <-.
    + apply nostop_set_pc; [discriminate|]. eapply nostop_env; [apply env_register_fold|].
      destruct N as [N1 N2 N3 N4]. split; auto.
    + apply nostop_finish. destruct N as [N1 N2 N3 N4]. split; auto.
  - (* LRelDeliver *)
    destruct (nth_error (delivs s) j) as [d|]; [|discriminate]. destruct (d_st d); [|discriminate].
    assert (N1 := nostop_env _ _ (env_deliver_all j (d_msgs d) 0 s) N).
    destruct (crash (deliver_all j 0 (d_msgs d) s)); injection E as <-; auto.
    destruct N1 as [A1 A2 A3 A4]. split; auto.
  - (* LRelWatch *)
    destruct (slot_at s i) as [sl|]; [|discriminate]. destruct (sl_watch sl); try discriminate.
    set (s1 := set_slot i (fun sl0 => sl0 <| sl_watch := WDone |>) s) in *.
    assert (N1 : nostop s1) by (destruct N as [A1 A2 A3 A4]; split; auto).
    destruct (assoc (id_text (sl_id sl)) (pending s)) as [i'|]; [|injection E as <-; auto].
    match type of E with context [write_slot ?i ?v ?s0] => assert (N2 : nostop (write_slot i v s0)) end.
    { eapply nostop_env; [apply env_write_slot|]. destruct N1 as [A1 A2 A3 A4]; split; auto. }
    match type of N2 with nostop ?x => set (s2 := x) in * end.
    destruct (crash s2); [injection E as <-; auto|].
    destruct (c_oncancel s2); [|injection E as <-; auto].
    assert (N3 := nostop_env _ _ (env_settle_slot i s2) N2).
    destruct (crash (settle_slot i s2)); injection E as <-; auto.
    destruct N3 as [A1 A2 A3 A4]; split; auto.
  - (* LRelRecvErr *) rewrite (ns_rd _ N) in E. discriminate.
  - (* LRelClose *)
    destruct (op_at s n) as [o|] eqn:Eo; [|discriminate]. destruct (o_pc o) eqn:Epc; try discriminate.
    exfalso. assert (H := ns_ops _ N). rewrite Forall_forall in H. apply (H o); [eapply nth_error_In; exact Eo|exact Epc].
  - (* LRelCbReply *)
    destruct (nth_error (cbs s) c) as [cb|]; [|discriminate]. destruct (cb_st cb); try discriminate.
    injection E as <-. destruct N as [A1 A2 A3 A4]. rewrite A1. split; auto.
Qed.

Lemma nostop_settle1 s s' : nostop s -> settle1 s = Some s' -> nostop s'.
Proof.
  intros N E. unfold settle1 in E. destruct (crash s); [discriminate|].
  assert (Hops : match find_idx (op_ready s) 0 (ops s) with
                 | Some n => match op_at s n with Some o => Some (op_advance n o s) | None => None end
                 | None => None end = Some s' -> nostop s').
  { clear E. intros E. destruct (find_idx (op_ready s) 0 (ops s)) as [n|]; [|discriminate].
    destruct (op_at s n) as [o|]; [|discriminate]. injection E as <-.
    unfold op_advance. destruct (o_pc o); auto.
    - destruct (nth_error (o_slots o) k) as [i|]; [|apply nostop_finish; auto].
      apply nostop_set_pc; [discriminate|]. eapply nostop_env; [apply env_settle_slot|auto].
    - apply nostop_finish. destruct stopper; auto. rewrite (ns_err _ N). auto. }
  rewrite (ns_rd _ N) in E. destruct (ch_in s) as [|f q] eqn:Ech; auto.
  assert (Gf : good_feed f /\ Forall good_feed q).
  { assert (H := ns_in _ N). rewrite Ech in H. inversion H; auto. }
  destruct Gf as [(b & ms & ->) Gq]. injection E as <-. destruct N as [A1 A2 A3 A4]. split; auto.
Qed.

Lemma nostop_init c : nostop (init_of c).
Proof. split; cbn; auto. Qed.

Lemma nostop_step s l s' os : nostop s -> good_label l -> step s l = Some (s', os) -> nostop s'.
Proof.
  intros N G E. unfold step in E. destruct (crash s); [discriminate|].
  destruct (step_raw s l) as [s1|] eqn:E1; [|discriminate].
  assert (Es : settle (settle_fuel s1) s1 = s') by congruence. rewrite <- Es.
  apply (settle_inv nostop); [intros a b; apply nostop_settle1|]. eapply nostop_step_raw; eauto.
Qed.

Lemma nostop_run tr : forall s s' oss, nostop s -> Forall good_label tr -> run s tr = Some (s', oss) -> nostop s'.
Proof.
  induction tr as [|l r IH]; cbn; intros s s' oss N G H.
  - injection H as <- <-. auto.
  - destruct (step s l) as [[s1 os]|] eqn:E; [|discriminate].
    destruct (run s1 r) as [[s2 oss2]|] eqn:E2; [|discriminate]. injection H as <- <-.
    inversion G as [|x y G1 G2]; subst. eapply IH; [|exact G2|exact E2]. eapply nostop_step; eauto.
Qed.

(* no Close operation, no transport error, no record that is not JSON: the client has not stopped *)
Theorem never_closed_never_stops c tr s : traces_to c tr s -> Forall good_label tr -> err s = None.
Proof. intros [oss H] G. exact (ns_err _ (nostop_run tr _ _ _ (nostop_init c) G H)). Qed.

(* non-vacuity: a call answered by the peer; and the premise matters: a transport error stops the client *)
Definition ns_trace (f : feed) (tail : list label) : list label :=
  [LOp 0 KCall [ex_spec 49]; LRelReq 0; LRelSend 0; LFeed f] ++ tail.

Example never_closed_never_stops_nonvacuous :
  (exists s, traces_to ex_cfg (ns_trace (FMsg (InMsgs false [ex_reply [49%N] [55%N]])) [LRelDeliver 0]) s
             /\ Forall good_label (ns_trace (FMsg (InMsgs false [ex_reply [49%N] [55%N]])) [LRelDeliver 0])
             /\ In (ORet 0 (RetCall (RRes [55%N]))) (hist s) /\ err s = None)
  /\ (exists s, traces_to ex_cfg (ns_trace (FErr SCOther) [LRelRecvErr]) s /\ err s = Some SCOther).
Proof.
  split.
  - destruct (run (init_of ex_cfg) (ns_trace (FMsg (InMsgs false [ex_reply [49%N] [55%N]])) [LRelDeliver 0])) as [[s oss]|] eqn:E;
      [|revert E; vm_compute; discriminate].
    exists s. split; [exists oss; exact E|]. revert E. vm_compute. intros [= <- _].
    split; [|split; [auto 10|reflexivity]].
    repeat constructor. eexists; eexists; reflexivity.
  - destruct (run (init_of ex_cfg) (ns_trace (FErr SCOther) [LRelRecvErr])) as [[s oss]|] eqn:E; [|revert E; vm_compute; discriminate].
    exists s. split; [exists oss; exact E|]. revert E. vm_compute. intros [= <- _]. reflexivity.
Qed.
