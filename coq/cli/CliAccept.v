(* CliAccept: replays the log of a scheduled run of the real client through CliModel.
   The log is a sequence of windows (environment action or released scheduling point, with
   the observations it produced); where the log does not say which parked goroutine was
   released, every candidate is tried and the set of model states consistent with the log
   so far is carried along (same scheme as srv/Accept.v). *)
From Coq Require Import List NArith ZArith Bool Arith Lia.
From JV Require Import Bytes Msg CliModel.
Import ListNotations.

Definition werr_eqb (a b : werr) : bool :=
  (we_code a =? we_code b)%Z && beq (we_msg a) (we_msg b) && beq (we_data a) (we_data b).
Definition owerr_eqb (a b : option werr) : bool :=
  match a, b with None, None => true | Some x, Some y => werr_eqb x y | _, _ => false end.
Definition why_eqb (a b : why) : bool := match a, b with WCancel, WCancel | WDeadline, WDeadline => true | _, _ => false end.
Definition cause_code (c : stopcause) : nat :=
  match c with SCClosed => 0 | SCEOF => 1 | SCClosing => 2 | SCOther => 3 | SCInvalid => 4 end.
Definition cause_eqb (a b : stopcause) : bool := cause_code a =? cause_code b.
Definition ocause_eqb (a b : option stopcause) : bool :=
  match a, b with None, None => true | Some x, Some y => cause_eqb x y | _, _ => false end.
Definition res1_eqb (a b : res1) : bool :=
  match a, b with
  | RRes x, RRes y => beq x y
  | RErr x, RErr y => werr_eqb x y
  | RCtx x, RCtx y => why_eqb x y
  | _, _ => false
  end.
Definition fail_eqb (a b : fail) : bool :=
  match a, b with
  | EBadParams, EBadParams | EEmptyBatch, EEmptyBatch | ESendFail, ESendFail => true
  | EStopped x, EStopped y => cause_eqb x y
  | _, _ => false
  end.
Fixpoint list_match {A} (f : A -> A -> bool) (a b : list A) : bool :=
  match a, b with
  | [], [] => true
  | x :: a', y :: b' => f x y && list_match f a' b'
  | _, _ => false
  end.
Definition ret_eqb (a b : ret) : bool :=
  match a, b with
  | RetFail x, RetFail y => fail_eqb x y
  | RetCall x, RetCall y => res1_eqb x y
  | RetBatch x, RetBatch y => list_match (fun p q => beq (fst p) (fst q) && res1_eqb (snd p) (snd q)) x y
  | RetNotify, RetNotify => true
  | RetClose x, RetClose y => ocause_eqb x y
  | _, _ => false
  end.
Definition cbout_eqb (a b : cbout) : bool :=
  match a, b with
  | CbRes x, CbRes y => beq x y
  | CbErr c m, CbErr c' m' => (c =? c')%Z && beq m m'
  | _, _ => false
  end.
Definition member_eqb (a b : bytes * bytes * bytes) : bool :=
  beq (fst (fst a)) (fst (fst b)) && beq (snd (fst a)) (snd (fst b)) && beq (snd a) (snd b).

(* Which observables a check compares (the projection relevant to its property). *)
Record mask := {
  mk_send : bool;     (* records handed to the channel *)
  mk_close : bool;
  mk_ret : bool;      (* API returns *)
  mk_cancel : bool;   (* OnCancel invocations *)
  mk_stop : bool;     (* OnStop invocations *)
  mk_inbound : bool;  (* OnNotify / OnCallback invocations *)
  mk_parked : bool;   (* parked goroutines per scheduling point *)
  mk_pending : bool;  (* size of the pending set at quiescent points *)
  mk_gor : bool       (* goroutines alive at quiescent points *)
}.
Definition mask_all : mask := Build_mask true true true true true true true true true.

Definition obs_keep (k : mask) (o : obs) : bool :=
  match o with
  | OSendReq _ _ _ | OSendRsp _ _ _ => mk_send k
  | OClose => mk_close k
  | ORet _ _ => mk_ret k
  | OOnCancel _ _ => mk_cancel k
  | OOnStop _ => mk_stop k
  | OOnNotify _ _ | OCbStart _ _ _ => mk_inbound k
  | OCrash _ => true
  end.

Definition obs_match (m o : obs) : bool :=
  match m, o with
  | OSendReq ok b ms, OSendReq ok' b' ms' => eqb ok ok' && eqb b b' && list_match member_eqb ms ms'
  | OSendRsp ok i o, OSendRsp ok' i' o' => eqb ok ok' && beq i i' && cbout_eqb o o'
  | OClose, OClose => true
  | ORet n r, ORet n' r' => (n =? n') && ret_eqb r r'
  | OOnCancel i e, OOnCancel i' e' => beq i i' && owerr_eqb e e'
  | OOnStop c, OOnStop c' => cause_eqb c c'
  | OOnNotify m p, OOnNotify m' p' => beq m m' && beq p p'
  | OCbStart i m p, OCbStart i' m' p' => beq i i' && beq m m' && beq p p'
  | _, _ => false
  end.

(* multiset matching: each model observation is matched with a distinct observed one *)
Fixpoint remove_match (m : obs) (os : list obs) : option (list obs) :=
  match os with
  | [] => None
  | o :: r => if obs_match m o then Some r
              else match remove_match m r with Some r' => Some (o :: r') | None => None end
  end.
Fixpoint obs_perm_all (ms os : list obs) : bool :=
  match ms with
  | [] => is_nil os
  | m :: r => match remove_match m os with Some os' => obs_perm_all r os' | None => false end
  end.
Definition obs_perm (k : mask) (ms os : list obs) : bool :=
  obs_perm_all (filter (obs_keep k) ms) (filter (obs_keep k) os).

Inductive item :=
| IEnv (l : label) (os : list obs)
| IRel (x : site) (os : list obs)
| IParked (cnt : list (site * nat))
| ISnap (npending gor : nat).

Definition site_code (x : site) : nat :=
  match x with SReq => 0 | SSend => 1 | SDeliver => 2 | SWatchP => 3 | SRecvErr => 4 | SClosePt => 5 | SCbReply => 6 end.
Definition cnt_of (x : site) (cnt : list (site * nat)) : nat :=
  fold_left (fun a p => if site_code (fst p) =? site_code x then a + snd p else a) cnt 0.
Definition parked_ok (s : state) (cnt : list (site * nat)) : bool :=
  forallb (fun x => parked_count s x =? cnt_of x cnt) all_sites.

Definition try_label (k : mask) (s : state) (os : list obs) (l : label) : list state :=
  match step s l with
  | Some (s', os') => if obs_perm k os' os then [s'] else []
  | None => []
  end.

Definition step_item (k : mask) (s : state) (it : item) : list state :=
  match it with
  | IEnv l os => try_label k s os l
  | IRel x os => flat_map (try_label k s os) (candidates s x)
  | IParked cnt => if negb (mk_parked k) || parked_ok s cnt then [s] else []
  | ISnap np g => if (negb (mk_pending k) || (length (pending s) =? np)) && (negb (mk_gor k) || (gcount s =? g))
                  then [s] else []
  end.

(* fingerprint of the mutable part of a state, used to merge equal alternatives *)
Definition pc_code (p : oppc) : list N :=
  match p with
  | PReq k => [1; N.of_nat k] | PSend => [2] | PWait k => [3; N.of_nat k] | PClose => [4]
  | PCloseWait b => [5; if b then 1 else 0] | PDone => [6]
  end%N.
Definition src_code (v : option val) : list N :=
  match v with
  | None => [0]
  | Some v => (match v_src v with SPeer j k => [1; N.of_nat j; N.of_nat k] | SWatch => [2] end)
              ++ (match v_err v with
                  | None => [0]
                  | Some e => [1; Z.to_N (Z.abs (we_code e)); N.of_nat (length (we_msg e))] ++ we_msg e ++ we_data e
                  end) ++ [253] ++ v_res v
  end%N.
Definition fp (s : state) : list N :=
  flat_map (fun o => pc_code (o_pc o) ++ map N.of_nat (o_slots o) ++ [(match o_ctx o with None => 0 | Some WCancel => 1 | Some WDeadline => 2 end); 255]%N) (ops s)
  ++ [254%N]
  ++ flat_map (fun sl => src_code (sl_buf sl) ++
                         [(if sl_reg sl then 1 else 0) + (if sl_settled sl then 2 else 0)
                          + (match sl_pctx sl with None => 0 | Some WCancel => 4 | Some WDeadline => 8 end)
                          + (match sl_watch sl with WNone => 0 | WBlocked => 16 | WParked => 32 | WDone => 48 end); 255]%N) (slots s)
  ++ [254%N]
  ++ map (fun p => N.of_nat (snd p)) (pending s) ++ [254%N]
  ++ map (fun d => match d_st d with DParked => 0 | DDone => 1 end%N) (delivs s) ++ [254%N]
  ++ map (fun c => match cb_st c with CbRunning => 0 | CbAtReply _ => 1 | CbDone => 2 end%N) (cbs s) ++ [254%N]
  ++ [N.of_nat (wg s); N.of_nat (next_id s); N.of_nat (length (ch_in s)); N.of_nat (closes s);
      (match err s with None => 0 | Some c => 1 + N.of_nat (cause_code c) end)%N;
      (match rd s with RIdle => 0 | RHold c => 1 + N.of_nat (cause_code c) | RExited => 9 end)%N;
      (if send_fail s then 1 else 0)%N].

Fixpoint fp_mem (f : list N) (l : list (list N)) : bool :=
  match l with [] => false | x :: r => beq f x || fp_mem f r end.
Fixpoint dedup (ss : list state) (seen : list (list N)) : list state :=
  match ss with
  | [] => []
  | s :: r => let f := fp s in if fp_mem f seen then dedup r seen else s :: dedup r (f :: seen)
  end.

Inductive verdict :=
| Accepted (nstates : nat) (final : list state)
| Rejected (index : nat) (expected : list (list obs)).

Definition expected_of (s : state) (it : item) : list (list obs) :=
  match it with
  | IEnv l _ => match step s l with Some (_, os) => [os] | None => [] end
  | IRel x _ => flat_map (fun l => match step s l with Some (_, os) => [os] | None => [] end) (candidates s x)
  | _ => []
  end.

Fixpoint accept (k : mask) (ss : list state) (log : list item) (i : nat) : verdict :=
  match log with
  | [] => Accepted (length ss) ss
  | it :: rest =>
      match dedup (flat_map (fun s => step_item k s it) ss) [] with
      | [] => Rejected i (flat_map (fun s => expected_of s it) ss)
      | ss' => accept k ss' rest (S i)
      end
  end.

Definition model_parked (s : state) : list (site * nat) := map (fun x => (x, parked_count s x)) all_sites.
Definition model_snap (s : state) : nat * nat := (length (pending s), gcount s).
